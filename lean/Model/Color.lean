import Generated.Colors
import Generated.Constants
/-!
# Model of colour and font reference resolution (property C12)

Mirrors, function by function,

* `src/rtflite/dictionary/color_table.py` — the three lookup dictionaries built by dict comprehensions
  over `color_table` (a repeated name would be overwritten: *last occurrence wins*);
* `src/rtflite/services/color_service.py` — `validate_color_list`, `needs_color_table`,
  `generate_rtf_color_table`, `get_rtf_color_index`, `collect_document_colors`,
  `set_document_context` / `clear_document_context`;
* `src/rtflite/row.py` — `Utils._get_color_index` (maps `ColorValidationError` to 0),
  `TextContent._get_text_formatting` (`\f{font-1}`, `\cf`, `\chshdng0\chcbpat N\cb N`), `Border._as_rtf` (`\brdrcf`);
* `src/rtflite/attributes.py` — `_to_nested_list`, `BroadcastValue.iloc` (the only way an attribute value reaches an
  emitter);
* `src/rtflite/rtf/syntax.py` — `generate_font_table`;
* `src/rtflite/encoding/unified_encoder.py` — `UnifiedRTFEncoder.encode`: the colour context is the list collected from
  the *whole* document and is set on all three encoding paths (single section, multi-section, figure).

Every function that looks something up in the colour table takes the table as a parameter `tbl`; the property theorems
instantiate it with `Generated.colorTable` (regenerated from `/repo` on every run) and discharge the facts they need
about it by `decide +kernel`, so an edit of a table row re-opens the proof obligation.

Python's `sorted(xs, key=…)` is stable; it is modelled by a stable insertion sort.  `list(set)` enumerates in an order
that depends on the hash seed; the model takes the enumeration as an explicit argument.
-/
namespace Model.Color
open Generated

abbrev Rgb := Nat × Nat × Nat

/-! ## the dictionaries `name_to_type`, `name_to_rgb`, `name_to_rtf` -/

/-- `{item[0]: item for item in color_table}[name]` — a later row with the same name overwrites an earlier one. -/
def lookupRow : List ColorRow → String → Option ColorRow
  | [], _ => none
  | row :: rest, n =>
    match lookupRow rest n with
    | some r => some r
    | none => if row.name == n then some row else none

/-- `validate_color`: `color in self._name_to_type` -/
def validColor (tbl : List ColorRow) (c : String) : Bool := (lookupRow tbl c).isSome

/-- `name_to_rgb[c]` -/
def requestedRgb (tbl : List ColorRow) (c : String) : Option Rgb :=
  (lookupRow tbl c).map fun row => (row.r, row.g, row.b)

def rowRgb (row : ColorRow) : Rgb := (row.r, row.g, row.b)

/-- keys of the dictionaries in insertion order (first occurrence of every name) -/
def dictKeys : List ColorRow → List String → List String
  | [], _ => []
  | row :: rest, seen => if seen.contains row.name then dictKeys rest seen else row.name :: dictKeys rest (row.name :: seen)

/-! ## errors -/

inductive Err where
  /-- `ColorValidationError` of `validate_color_list`: invalid name at a position of the filtered list -/
  | invalidAt (index : Nat) (name : String)
  /-- `ColorValidationError` of `get_color_index`: invalid name, no list -/
  | invalidName (name : String)
  /-- `ValueError` from `BroadcastValue.iloc` (ragged or empty attribute matrix; `% 0` is a `ZeroDivisionError`) -/
  | badShape
  /-- `zip(strict=True)` in `generate_font_table` -/
  | fontTableShape
  deriving Repr, DecidableEq

/-! ## `validate_color_list`, filtering, sorting -/

/-- `color and color != "black"` -/
def significant (c : String) : Bool := c != "" && c != "black"

/-- `[c for c in used_colors if c and c != "black"]` -/
def filtered (used : List String) : List String := used.filter significant

/-- `validate_color_list` on a list of strings: the first invalid name raises; the valid names are returned.
The model returns the rows the three dictionaries hold for the names (one row per name, in the same order). -/
def validateFrom (tbl : List ColorRow) : Nat → List String → Except Err (List ColorRow)
  | _, [] => .ok []
  | i, c :: cs =>
    match lookupRow tbl c with
    | none => .error (.invalidAt i c)
    | some row =>
      match validateFrom tbl (i + 1) cs with
      | .error e => .error e
      | .ok rows => .ok (row :: rows)

def validateList (tbl : List ColorRow) (cs : List String) : Except Err (List ColorRow) := validateFrom tbl 0 cs

/-- insertion into a list sorted by master index, *before* the first element whose key is not smaller
(the inserted element stood earlier in the input: stable) -/
def insertRow (x : ColorRow) : List ColorRow → List ColorRow
  | [] => [x]
  | y :: ys => if x.idx ≤ y.idx then x :: y :: ys else y :: insertRow x ys

/-- `sorted(rows, key=lambda x: name_to_type[x])` -/
def sortRows : List ColorRow → List ColorRow
  | [] => []
  | x :: xs => insertRow x (sortRows xs)

/-! ## `generate_rtf_color_table` -/

/-- `needs_color_table` -/
def needsColorTable : Option (List String) → Bool
  | none => false
  | some used => !(filtered used).isEmpty

/-- rows of the dense table for an explicit list of used colours (`[]` ⇔ the function returns `""`) -/
def tableRows (tbl : List ColorRow) (used : List String) : Except Err (List ColorRow) :=
  match validateList tbl (filtered used) with
  | .error e => .error e
  | .ok rows => .ok (sortRows rows)

/-- rows of the full table (`used_colors is None`): all dictionary keys, sorted by master index -/
def fullTableRows (tbl : List ColorRow) : List ColorRow :=
  sortRows ((dictKeys tbl []).filterMap (lookupRow tbl))

def joinCodes (rows : List ColorRow) : String :=
  rows.foldl (fun acc row => acc ++ "\n" ++ row.code) ""

/-- the emitted string -/
def generateColorTable (tbl : List ColorRow) : Option (List String) → Except Err String
  | none => .ok ("{\\colortbl\n;" ++ joinCodes (fullTableRows tbl) ++ "\n}")
  | some used =>
    if !(needsColorTable (some used)) then .ok "" else
    match tableRows tbl used with
    | .error e => .error e
    | .ok [] => .ok ""
    | .ok rows => .ok ("{\\colortbl;" ++ joinCodes rows ++ "\n}")

/-! ## `get_rtf_color_index`, `Utils._get_color_index` -/

/-- `sorted_colors.index(color) + 1`, `0` on `ValueError` — first occurrence -/
def indexIn (rows : List ColorRow) (c : String) : Nat :=
  let names := rows.map (·.name)
  let k := names.idxOf c
  if k < names.length then k + 1 else 0

/-- `ColorService.get_rtf_color_index(color, used_colors)` with the context variable holding `ctx` -/
def rtfColorIndex (tbl : List ColorRow) (ctx : Option (List String)) (color : String)
    (used : Option (List String)) : Except Err Nat :=
  if !(significant color) then .ok 0 else
  let used := match used with
    | some u => some u
    | none => ctx
  match used with
  | none =>
    match lookupRow tbl color with
    | none => .error (.invalidName color)
    | some row => .ok row.idx
  | some u =>
    if (filtered u).isEmpty then .ok 0 else
    match tableRows tbl u with
    | .error e => .error e
    | .ok rows => .ok (indexIn rows color)

/-- `Utils._get_color_index(color, used_colors)` -/
def utilsColorIndex (tbl : List ColorRow) (ctx : Option (List String)) (color : String)
    (used : Option (List String)) : Nat :=
  if !(significant color) then 0 else
  match rtfColorIndex tbl ctx color used with
  | .ok i => i
  | .error _ => 0

/-! ## attribute values and how they reach an emitter -/

/-- the value of a colour attribute after construction: `None`, a flat list / tuple of strings (title, subline, page
header/footer: `_set_attribute_defaults` turns lists into tuples), or a list of lists (table components) -/
inductive Attr where
  | none
  | flat (isTuple : Bool) (xs : List String)
  | nested (m : List (List String))
  deriving Repr, DecidableEq

/-- `extract_colors_from_attribute`: every non-empty string found at any depth, in traversal order -/
def Attr.colors : Attr → List String
  | .none => []
  | .flat _ xs => xs.filter (· != "")
  | .nested m => m.flatten.filter (· != "")

/-- `_to_nested_list`: a flat list becomes one row (per column), a tuple one column (per row) -/
def Attr.toNested : Attr → Option (List (List String))
  | .none => Option.none
  | .flat false xs => some (if xs.isEmpty then [] else [xs])
  | .flat true xs => some (xs.map fun x => [x])
  | .nested m => some m

/-- `BroadcastValue.iloc`: `value[r % len(value)][c % len(value[0])]` -/
def iloc (m : List (List String)) (r c : Nat) : Except Err String :=
  match m with
  | [] => .error .badShape
  | row0 :: _ =>
    if row0.length = 0 then .error .badShape else
    match m[r % m.length]? with
    | Option.none => .error .badShape
    | some row =>
      match row[c % row0.length]? with
      | Option.none => .error .badShape
      | some v => .ok v

/-- the value an emitter receives for cell `(r, c)`: `BroadcastValue(value=attr).iloc(r, c)`; `None` stays `None` -/
def Attr.at (a : Attr) (r c : Nat) : Except Err (Option String) :=
  match a.toNested with
  | Option.none => .ok Option.none
  | some m => (iloc m r c).map some

/-! ## the document, `collect_document_colors` -/

/-- a component that carries colours.  Title, subline, page header and page footer use the first two fields only. -/
structure Comp where
  textColor : Attr := .none
  bgColor : Attr := .none
  /-- `border_color_left/right/top/bottom/first/last` of a table component (body, footnote, source, column header);
  all of them are collected (repo fix: formerly the body's only) -/
  borderColors : List Attr := []
  deriving Repr

/-- the colour-carrying part of a constructed `RTFDocument` -/
structure Doc where
  /-- `rtf_body` (one, or one per section) -/
  bodies : List Comp
  /-- title, subline, footnote, source, page header, page footer — those that are not `None` -/
  texts : List Comp
  /-- `rtf_column_header`, flat or nested, `None` entries dropped — every header OBJECT, with or without text of its own:
  a header whose `text` is `None` is filled with the column names by `PageRenderer` (`as_colheader`) and printed with
  its own colours, and `collect_document_colors` does not look at `text` (neither here nor for the `texts`) -/
  headers : List Comp
  deriving Repr

/-- keep the first occurrence of every value (`set.add` in traversal order) -/
def dedup : List String → List String
  | [] => []
  | x :: xs => x :: (dedup xs).filter (· != x)

/-- the strings `extract_colors_from_attribute` is called on, in the order of the calls: per component its text colour,
background colour and (table components: body, footnote, source, column headers) the six border colours -/
def Doc.allColors (d : Doc) : List String :=
  (d.bodies.flatMap fun b => b.textColor.colors ++ b.bgColor.colors ++ b.borderColors.flatMap Attr.colors)
  ++ (d.texts.flatMap fun t => t.textColor.colors ++ t.bgColor.colors ++ t.borderColors.flatMap Attr.colors)
  ++ (d.headers.flatMap fun h => h.textColor.colors ++ h.bgColor.colors ++ h.borderColors.flatMap Attr.colors)

/-- `collect_document_colors` up to the enumeration order of the set -/
def collect (d : Doc) : List String := dedup d.allColors

/-- the three encoding paths of `UnifiedRTFEncoder.encode` -/
inductive Path where
  | single | multi | figure
  deriving Repr, DecidableEq

/-- components whose text / background colour a path can print: the figure path prints no table body or header -/
def emitters (p : Path) (d : Doc) : List Comp :=
  match p with
  | .single => d.bodies ++ d.texts ++ d.headers
  | .multi => d.bodies ++ d.texts ++ d.headers
  | .figure => d.texts

/-! ## emission: `TextContent._get_text_formatting`, `Border._as_rtf` -/

/-- the references one `TextContent` prints: `\f`, optional `\cf`, optional `\chcbpat` = `\cb` -/
structure TextRefs where
  f : Int
  cf : Option Nat
  cb : Option Nat
  deriving Repr, DecidableEq

/-- `if self.color:` — `None` and `""` print nothing -/
def colorRef (tbl : List ColorRow) (ctx : Option (List String)) : Option String → Option Nat
  | Option.none => Option.none
  | some c => if c == "" then Option.none else some (utilsColorIndex tbl ctx c Option.none)

def textRefs (tbl : List ColorRow) (ctx : Option (List String)) (font : Nat) (color bg : Option String) : TextRefs :=
  { f := (font : Int) - 1, cf := colorRef tbl ctx color, cb := colorRef tbl ctx bg }

/-- `Border._as_rtf`: `if self.color is not None` — an empty string prints `\brdrcf0` -/
def borderRef (tbl : List ColorRow) (ctx : Option (List String)) : Option String → Option Nat
  | Option.none => Option.none
  | some c => some (utilsColorIndex tbl ctx c Option.none)

/-! ## fonts: `generate_font_table` -/

structure FontEntry where
  /-- N of `\fN` -/
  num : Nat
  style : String
  charset : String
  name : String
  deriving Repr, DecidableEq

/-- `zip([\f0..\f9], style, name, charset, strict=True)`: the entry number is the *position*, not the `type` column -/
def fontEntries (ft : List (Nat × String × String × String × String)) : Except Err (List FontEntry) :=
  if ft.length ≠ 10 then .error .fontTableShape else
  .ok (ft.zipIdx.map fun ((_, name, style, _, charset), i) => { num := i, style := style, charset := charset, name := name })

def fontTableText (ft : List (Nat × String × String × String × String)) : Except Err String :=
  match fontEntries ft with
  | .error e => .error e
  | .ok es => .ok (es.foldl (fun acc e => acc ++ "{" ++ "\\f" ++ toString e.num ++ e.style ++ e.charset ++ "\\fprq2 " ++ e.name ++ ";}\n")
      "{\\fonttbl" ++ "}")

/-- name of the entry `\fN` of the emitted font table -/
def fontEntryName (es : List FontEntry) (n : Nat) : Option String :=
  (es.find? (·.num == n)).map (·.name)

/-! ## reading one colour-table entry back (what an RTF reader sees of a row) -/

def bytesOf (s : String) : List Nat := s.toUTF8.data.toList.map (·.toNat)

def takeDigits : Nat → List Nat → Nat × List Nat
  | acc, [] => (acc, [])
  | acc, e :: es => if 48 ≤ e ∧ e ≤ 57 then takeDigits (acc * 10 + (e - 48)) es else (acc, e :: es)

/-- value of a run of ASCII digits at the head of the input, and the rest; `none` when there is no digit -/
def takeNat : List Nat → Option (Nat × List Nat)
  | [] => Option.none
  | d :: rest => if 48 ≤ d ∧ d ≤ 57 then some (takeDigits (d - 48) rest) else Option.none

def dropPrefix : List Nat → List Nat → Option (List Nat)
  | [], xs => some xs
  | _ :: _, [] => Option.none
  | p :: ps, x :: xs => if p == x then dropPrefix ps xs else Option.none

/-- `\redR\greenG\blueB;` → `(R, G, B)` -/
def parseEntry (bs : List Nat) : Option Rgb := do
  let bs ← dropPrefix [92, 114, 101, 100] bs
  let (r, bs) ← takeNat bs
  let bs ← dropPrefix [92, 103, 114, 101, 101, 110] bs
  let (g, bs) ← takeNat bs
  let bs ← dropPrefix [92, 98, 108, 117, 101] bs
  let (b, bs) ← takeNat bs
  if bs == [59] then some (r, g, b) else Option.none

/-- RGB a reader sees for the table entry printed from `row` -/
def seenRgb (row : ColorRow) : Option Rgb := parseEntry (bytesOf row.code)

/-! ## the decidable specification (oracle), evaluated on the implementation's *parsed output* -/

/-- one colour reference found in the output: the index printed and the colour name requested for that element
(`""` = no colour requested) -/
structure ColorUse where
  idx : Nat
  requested : String
  deriving Repr

/-- C12 for one reference against the parsed colour table (`entries[0]` is the auto entry, `none`):
index 0 exactly for the default colours; otherwise an existing entry with the requested colour's RGB. -/
def useOk (tbl : List ColorRow) (entries : List (Option Rgb)) (u : ColorUse) : Bool :=
  if u.idx = 0 then !(significant u.requested)
  else match entries[u.idx]? with
    | some (some rgb) => requestedRgb tbl u.requested == some rgb
    | _ => false

/-- one font reference: `\fN` printed, font number requested -/
structure FontUse where
  n : Nat
  requested : Nat
  deriving Repr

def fontUseOk (n2n : List (Nat × String)) (fonts : List (Nat × String)) (u : FontUse) : Bool :=
  match fonts.lookup u.n, n2n.lookup u.requested with
  | some got, some want => got == want
  | _, _ => false

/-- indices (into `uses`) of the references that violate C12, and whether the table-presence clause fails -/
def checkRefs (tbl : List ColorRow) (hasTable : Bool) (entries : List (Option Rgb)) (uses : List ColorUse) :
    List Nat × Bool :=
  let bad := (uses.zipIdx.filter fun (u, _) => !(useOk tbl entries u)).map (·.2)
  let needs := uses.any fun u => significant u.requested
  (bad, needs && !hasTable)

end Model.Color
