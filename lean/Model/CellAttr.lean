import Model.Broadcast
/-!
How a body attribute reaches a rendered data cell (C09):
`prepare_dataframe_for_body_encoding` (expand + drop removed columns, only when columns are removed) →
`_slice_attribute_rows` (the page's rows) → `_encode` (`iloc(i + row_offset, j)` page-relative).
-/
namespace Model.CellAttr
open Model.Broadcast

/-- value of attribute `A` used for the cell at page row `i` (segment offset included), displayed column `j`,
on a page starting at table row `start` with `height` rows; the table has `rows × cols` cells and the columns
`removed` are not displayed. -/
def cellAttr {α} (A : Mat α) (rows cols : Nat) (removed : List Nat) (start height i j : Nat) : Option α :=
  let A' := if removed.isEmpty then A else A.expandSlice rows cols removed
  (A'.pageRows start height).iloc i j

/-- the binding the property asks for: the attribute of the cell's ORIGINAL position -/
def specAttr {α} (A : Mat α) (cols : Nat) (removed : List Nat) (start i j : Nat) : Option α :=
  match (keptIdx cols removed)[j]? with
  | none => none
  | some c => A.iloc (start + i) c

end Model.CellAttr
