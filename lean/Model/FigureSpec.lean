import Model.Figure
/-
Decidable specification predicates of C16 — evaluated by the driver on the *implementation's*
output (read back by an RTF reader) and, in `Props/C16.lean`, proved of the model's output.

Each clause is traced to a sentence of the statement:
  payload   "hexadecimal payload decodes to the file's exact bytes"
  blip      "tagged with the picture type of its format"
  pixels    "pixel dimensions read from the image"          (only claimed for valid headers)
  goal      "display size equal to the configured inches x 1440"   (⌊inches·1440⌋ on the exact value)
  one-pict  "Figures appear one per page in the given order"
  positional sizes: the caller resolves `want.w/want.h` with `getDim` (positional, last reused)
  title/footnote/source  "accompany exactly the pages selected by page_title/…"
-/
namespace Model.Figure

/-- a picture destination as an RTF reader sees it -/
structure ObsPict where
  blip : List Char
  picw : Nat
  pich : Nat
  wgoal : Nat
  hgoal : Nat
  payload : List Char
  deriving DecidableEq, Repr

inductive Tag where
  | title | subline | pict | footnote | source
  deriving DecidableEq, Repr

/-- one page of the read-back document: block roles in order (empty paragraphs dropped) and the
picture destinations in order -/
structure ObsPage where
  tags : List Tag
  picts : List ObsPict
  deriving DecidableEq, Repr

/-- what the property demands of figure `i` -/
structure Want where
  suffix : List Char
  bytes : List Nat
  /-- pixel size stated by the file's header when that header is valid for the suffix's format -/
  truth : Option (Nat × Nat)
  w : Size
  h : Size
  deriving Repr


/-! ### what "a valid header that states w × h" means (hypotheses of the parser theorems) -/

/-- big-endian 32-bit field -/
def enc32 (v : Nat) : List Nat := [v / 16777216 % 256, v / 65536 % 256, v / 256 % 256, v % 256]

/-- A PNG file: signature, 8 bytes (IHDR length and type), width, height, at least one more byte. -/
def ValidPng (bs : List Nat) (w h : Nat) : Prop :=
  ∃ c rest : List Nat, c.length = 8 ∧ rest ≠ [] ∧ w < 4294967296 ∧ h < 4294967296 ∧
    bs = pngSig ++ c ++ enc32 w ++ enc32 h ++ rest

/-- what may precede the frame header in a JPEG stream: marker segments with a length field and
stand-alone markers, each optionally preceded by `pad` fill bytes `FF` (ITU T.81 B.1.1.2), or
stray bytes other than `FF` -/
inductive JpegItem where
  | seg (pad marker l1 l2 : Nat) (payload : List Nat)
  | standalone (pad marker : Nat)
  | junk (b : Nat)
  deriving Repr

def JpegItem.bytes : JpegItem → List Nat
  | .seg pad m l1 l2 p => List.replicate pad 0xFF ++ 0xFF :: m :: l1 :: l2 :: p
  | .standalone pad m => List.replicate pad 0xFF ++ [0xFF, m]
  | .junk b => [b]

/-- a segment is well formed when its marker is a marker byte (not `FF`), neither stand-alone
nor start-of-frame, and its length field (which counts itself) matches its payload; a
stand-alone marker is TEM or RSTn; a stray byte must not be `FF` -/
def JpegItem.WellFormed : JpegItem → Prop
  | .seg _ m l1 l2 p => m ≠ 0xFF ∧ isStandalone m = false ∧ isSof m = false ∧ p.length + 2 = l1 * 256 + l2
  | .standalone _ m => isStandalone m = true
  | .junk b => b ≠ 0xFF

/-- SOI, well-formed items, then (after `pad` fill bytes) a frame header
`FF m Lh Ll P Hh Hl Wh Wl` followed by at least one more byte (the code needs `i < len - 9`,
i.e. 10 bytes from the marker on) -/
def ValidJpeg (bs : List Nat) (w h : Nat) : Prop :=
  ∃ (items : List JpegItem) (pad m l1 l2 p : Nat) (rest : List Nat),
    (∀ it ∈ items, it.WellFormed) ∧ isSof m = true ∧ rest ≠ [] ∧
    bs = [0xFF, 0xD8] ++ items.flatMap JpegItem.bytes ++ List.replicate pad 0xFF ++
         [0xFF, m, l1, l2, p, h / 256, h % 256, w / 256, w % 256] ++ rest

/-- the file's header is valid for the format of its suffix and states `t` -/
def HeaderStates (suffix : List Char) (bs : List Nat) (t : Nat × Nat) : Prop :=
  (fmtOfSuffix suffix = some .png ∧ ValidPng bs t.1 t.2) ∨
  (fmtOfSuffix suffix = some .jpeg ∧ ValidJpeg bs t.1 t.2)

/-- per-figure demands: sizes resolved positionally with the last value reused (`getDim`) -/
def wantsFrom (ws hs : List Size) : Nat → List (FigSrc × Option (Nat × Nat)) → List Want
  | _, [] => []
  | i, (f, tr) :: rest =>
    match getDim ws i, getDim hs i with
    | some w, some h =>
      { suffix := f.suffix, bytes := f.bytes, truth := tr, w := w, h := h } :: wantsFrom ws hs (i + 1) rest
    | _, _ => []

/-- picture type demanded for a file suffix (independent restatement of the documented table) -/
def wantBlip (suffix : List Char) : Option (List Char) :=
  let s := suffix.map asciiLower
  if s = ['.', 'p', 'n', 'g'] then some ['p', 'n', 'g', 'b', 'l', 'i', 'p']
  else if s = ['.', 'j', 'p', 'g'] ∨ s = ['.', 'j', 'p', 'e', 'g'] then some ['j', 'p', 'e', 'g', 'b', 'l', 'i', 'p']
  else if s = ['.', 'e', 'm', 'f'] then some ['e', 'm', 'f', 'b', 'l', 'i', 'p']
  else none

/-- `g = ⌊(num/den)·k⌋` -/
def goalOk (s : Size) (k g : Nat) : Bool :=
  g * s.den ≤ s.num * k && s.num * k < (g + 1) * s.den

/-- the exact product lies less than `2^-30` below an integer: the double product may round up to
that integer, so `int()` may legitimately give `⌊x⌋ + 1` (DESIGN.md §6, float boundary) -/
def nearBelow (s : Size) (k : Nat) : Bool :=
  let r := s.num * k % s.den
  r ≠ 0 && (s.den - r) * 2 ^ 30 < s.den

def goalOkTol (s : Size) (k g : Nat) : Bool :=
  goalOk s k g || (nearBelow s k && goalOk s k (g - 1) && g ≠ 0)

def payloadOk (w : Want) (p : ObsPict) : Bool := unhex p.payload == some w.bytes
def blipOk (w : Want) (p : ObsPict) : Bool := wantBlip w.suffix == some p.blip
def pixelsOk (w : Want) (p : ObsPict) : Bool :=
  match w.truth with
  | some (tw, th) => p.picw == tw && p.pich == th
  | none => true
def goalsOk (w : Want) (p : ObsPict) : Bool := goalOkTol w.w 1440 p.wgoal && goalOkTol w.h 1440 p.hgoal

def pictClauses (w : Want) (p : ObsPict) : List (String × Bool) :=
  [("payload", payloadOk w p), ("blip", blipOk w p), ("pixels", pixelsOk w p), ("goal", goalsOk w p)]

def countTag (t : Tag) (page : ObsPage) : Nat := page.tags.count t

def expectCount (has : Bool) (pl : Placement) (n i : Nat) : Nat :=
  if has && shows pl (i == 0) (i + 1 == n) then 1 else 0

def pageClauses (cfg : Cfg) (n i : Nat) (w : Want) (page : ObsPage) : List (String × Bool) :=
  [("one-pict", page.picts.length == 1 && countTag .pict page == 1)] ++
  (match page.picts with
   | [p] => pictClauses w p
   | _ => []) ++
  [("title", countTag .title page == expectCount cfg.hasTitle cfg.pageTitle n i),
   ("footnote", countTag .footnote page == expectCount cfg.hasFootnote cfg.pageFootnote n i),
   ("source", countTag .source page == expectCount cfg.hasSource cfg.pageSource n i)]

def pageOk (cfg : Cfg) (n i : Nat) (w : Want) (page : ObsPage) : Bool :=
  (pageClauses cfg n i w page).all (·.2)

def pagesOkFrom (cfg : Cfg) (n : Nat) : Nat → List Want → List ObsPage → Bool
  | _, [], [] => true
  | i, w :: ws, p :: ps => pageOk cfg n i w p && pagesOkFrom cfg n (i + 1) ws ps
  | _, _, _ => false

/-- the whole property on a read-back document: as many pages as figures, page `i` satisfies
every clause for figure `i` -/
def docOk (cfg : Cfg) (wants : List Want) (pages : List ObsPage) : Bool :=
  pagesOkFrom cfg wants.length 0 wants pages

/-- names of the violated clauses with their page index (for the replay file) -/
def violationsFrom (cfg : Cfg) (n : Nat) : Nat → List Want → List ObsPage → List (Nat × String)
  | _, [], [] => []
  | i, w :: ws, p :: ps =>
    ((pageClauses cfg n i w p).filter (fun c => !c.2)).map (fun c => (i, c.1))
      ++ violationsFrom cfg n (i + 1) ws ps
  | i, [], _ :: _ => [(i, "more pages than figures")]
  | i, _ :: _, [] => [(i, "fewer pages than figures")]

def violations (cfg : Cfg) (wants : List Want) (pages : List ObsPage) : List (Nat × String) :=
  violationsFrom cfg wants.length 0 wants pages

/-! ### observation of the model's own output -/

def obsOfPict (p : Pict) : ObsPict :=
  { blip := blipWord p.fmt, picw := p.picw, pich := p.pich, wgoal := p.wgoal, hgoal := p.hgoal,
    payload := p.payload }

def tagOf : Piece → Option Tag
  | .title => some .title
  | .subline => some .subline
  | .pict _ => some .pict
  | .footnote => some .footnote
  | .source => some .source
  | .par => none
  | .pageBreak => none

def pictOf : Piece → Option ObsPict
  | .pict p => some (obsOfPict p)
  | _ => none

def obsPage (ps : List Piece) : ObsPage :=
  { tags := ps.filterMap tagOf, picts := ps.filterMap pictOf }

/-- what a reader observes of the emitted piece sequence -/
def observe (ps : List Piece) : List ObsPage := (splitPages ps).map obsPage

end Model.Figure
