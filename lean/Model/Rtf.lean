/-!
RTF lexical syntax and document well-formedness (the specification side of C01), import-free, executable.

* `lex`      a fold over characters (`step`) — total, structurally recursive; `none` = lexically invalid input
* `WellFormed` / `wfReport`  the clauses of C01 on the token list
* `Node` / `print`  the grammar every rtflite output is an instance of (checked on every run by re-printing the
  real output) and its printer; `Props/C01.lean` proves `wellFormed (printDoc …)` for every instance.
-/
namespace Model.Rtf

inductive Tok
  | open
  | close
  | cw (name : List Char) (param : Option Int)
  | sym (c : Char)
  | hex (v : Nat)
  | chr (c : Char)
  deriving DecidableEq, Repr, Inhabited

inductive LState
  | ground
  | bs                                                     -- after a backslash
  | word (rev : List Char)                                 -- letters of a control word, reversed
  | num (name : List Char) (neg : Bool) (rev : List Char)  -- parameter digits, reversed ('-' seen = neg)
  | hex1                                                   -- after \'
  | hex2 (d : Nat)
  deriving DecidableEq, Repr, Inhabited

def isLetter (c : Char) : Bool := (65 ≤ c.toNat && c.toNat ≤ 90) || (97 ≤ c.toNat && c.toNat ≤ 122)
def isDigit (c : Char) : Bool := 48 ≤ c.toNat && c.toNat ≤ 57

def hexVal (c : Char) : Option Nat :=
  let n := c.toNat
  if 48 ≤ n && n ≤ 57 then some (n - 48)
  else if 97 ≤ n && n ≤ 102 then some (n - 87)
  else if 65 ≤ n && n ≤ 70 then some (n - 55)
  else none

/-- value of a reversed digit list -/
def digitsValRev : List Char → Nat
  | [] => 0
  | d :: ds => (d.toNat - 48) + 10 * digitsValRev ds

/-- control symbols an RTF reader knows (`\\ \{ \} \* \~ \- \_ \: \|`) -/
def validSym (c : Char) : Bool := c ∈ ['\\', '{', '}', '*', '~', '-', '_', ':', '|']

/-- characters in ground state -/
def groundStep (out : List Tok) (c : Char) : Option (List Tok × LState) :=
  if c = '{' then some (Tok.open :: out, .ground)
  else if c = '}' then some (Tok.close :: out, .ground)
  else if c = '\\' then some (out, .bs)
  else if c = '\n' || c = '\r' then some (out, .ground)
  else some (Tok.chr c :: out, .ground)

def mkParam (neg : Bool) (rev : List Char) : Int :=
  if neg then - (Int.ofNat (digitsValRev rev)) else Int.ofNat (digitsValRev rev)

/-- one character; tokens are accumulated in reverse -/
def step (s : List Tok × LState) (c : Char) : Option (List Tok × LState) :=
  let (out, st) := s
  match st with
  | .ground => groundStep out c
  | .bs =>
    if isLetter c then some (out, .word [c])
    else if c = '\'' then some (out, .hex1)
    else if c = '\n' || c = '\r' then some (Tok.cw "par".toList none :: out, .ground)
    else if validSym c then some (Tok.sym c :: out, .ground)
    else none
  | .word rev =>
    if isLetter c then some (out, .word (c :: rev))
    else if c = '-' then some (out, .num rev.reverse true [])
    else if isDigit c then some (out, .num rev.reverse false [c])
    else if c = ' ' then some (Tok.cw rev.reverse none :: out, .ground)
    else groundStep (Tok.cw rev.reverse none :: out) c
  | .num name neg rev =>
    if isDigit c then some (out, .num name neg (c :: rev))
    else if rev.isEmpty then
      -- a lone '-' is not a parameter: the word ends before it
      groundStep (Tok.chr '-' :: Tok.cw name none :: out) c
    else if c = ' ' then some (Tok.cw name (some (mkParam neg rev)) :: out, .ground)
    else groundStep (Tok.cw name (some (mkParam neg rev)) :: out) c
  | .hex1 => match hexVal c with
    | some d => some (out, .hex2 d)
    | none => none
  | .hex2 d => match hexVal c with
    | some e => some (Tok.hex (16 * d + e) :: out, .ground)
    | none => none

def run (s : List Tok × LState) : List Char → Option (List Tok × LState)
  | [] => some s
  | c :: cs => match step s c with
    | none => none
    | some s' => run s' cs

/-- end of input -/
def finish : List Tok × LState → Option (List Tok)
  | (out, .ground) => some out.reverse
  | (out, .word rev) => some (Tok.cw rev.reverse none :: out).reverse
  | (out, .num name neg rev) =>
    if rev.isEmpty then some (Tok.chr '-' :: Tok.cw name none :: out).reverse
    else some (Tok.cw name (some (mkParam neg rev)) :: out).reverse
  | (_, _) => none

def lex (cs : List Char) : Option (List Tok) := (run ([], .ground) cs).bind finish

/-! ### well-formedness clauses on tokens -/

/-- depth after each token must stay ≥ 1 until the last token, which brings it to 0 -/
def depthOk : Nat → List Tok → Bool
  | d, [] => d == 0
  | d, Tok.open :: ts => depthOk (d + 1) ts
  | d, Tok.close :: ts => if d == 0 then false else if d == 1 then ts.isEmpty else depthOk (d - 1) ts
  | d, _ :: ts => if d == 0 then false else depthOk d ts

def signatureOk : List Tok → Bool
  | Tok.open :: Tok.cw n (some 1) :: _ => n == "rtf".toList
  | _ => false

def isFallback : Tok → Bool
  | .chr _ => true
  | .hex _ => true
  | _ => false

/-- every `\uN` has a signed 16-bit `N` and is directly followed by `uc` fallback characters (`pending` counts
the fallback characters still owed); `uc` is scoped by groups (stack of saved values) -/
def uOk : (uc : Nat) → (stack : List Nat) → (pending : Nat) → List Tok → Bool
  | _, _, pending, [] => pending == 0
  | uc, st, pending + 1, t :: ts => isFallback t && uOk uc st pending ts
  | uc, st, 0, Tok.open :: ts => uOk uc (uc :: st) 0 ts
  | uc, st, 0, Tok.close :: ts => match st with
    | u :: st' => uOk u st' 0 ts
    | [] => uOk uc [] 0 ts
  | uc, st, 0, Tok.cw n p :: ts =>
    if n == "uc".toList then
      match p with
      | some k => if k < 0 then false else uOk k.toNat st 0 ts
      | none => false
    else if n == "u".toList then
      match p with
      | some k => (decide (-32768 ≤ k) && decide (k ≤ 32767)) && uOk uc st uc ts
      | none => false
    else uOk uc st 0 ts
  | uc, st, 0, _ :: ts => uOk uc st 0 ts

/-- table rows: between `\trowd` and `\row` as many `\cellx` as `\cell`, boundaries positive and non-decreasing;
`\cellx` / `\cell` / `\row` never outside a row -/
def rowsOk : (inRow : Bool) → (ncellx ncell : Nat) → (lastx : Int) → List Tok → Bool
  | inRow, _, _, _, [] => !inRow
  | inRow, nx, nc, lx, Tok.cw n p :: ts =>
    if n == "trowd".toList then (if inRow then false else rowsOk true 0 0 0 ts)
    else if n == "cellx".toList then
      match p with
      | some k => inRow && decide (0 < k) && decide (lx ≤ k) && rowsOk inRow (nx + 1) nc k ts
      | none => false
    else if n == "cell".toList then inRow && rowsOk inRow nx (nc + 1) lx ts
    else if n == "row".toList then inRow && nx == nc && rowsOk false 0 0 0 ts
    else rowsOk inRow nx nc lx ts
  | inRow, nx, nc, lx, _ :: ts => rowsOk inRow nx nc lx ts

def tokensOk (ts : List Tok) : Bool :=
  signatureOk ts && depthOk 0 ts && uOk 1 [] 0 ts && rowsOk false 0 0 0 ts

/-- C01's well-formedness of an encoded document -/
def wellFormed (cs : List Char) : Bool :=
  match lex cs with
  | none => false
  | some ts => tokensOk ts

/-- the same, naming the first violated clause (for reports) -/
def wfReport (cs : List Char) : String :=
  match lex cs with
  | none => "lexically invalid control sequence"
  | some ts =>
    if !signatureOk ts then "does not begin with {\\rtf1"
    else if !depthOk 0 ts then "groups unbalanced, or content after the closing brace / several top-level groups"
    else if !uOk 1 [] 0 ts then "\\u escape out of range or without its fallback characters"
    else if !rowsOk false 0 0 0 ts then "table row with unequal \\cellx / \\cell counts or non-monotone boundaries"
    else "ok"

/-! ### the output grammar and its printer -/

/-- decimal digits of a natural number (own definition: proofs do not depend on `Nat.repr`) -/
def natDigitsAux : Nat → Nat → List Char → List Char
  | 0, _, acc => acc
  | fuel + 1, n, acc =>
    let acc' := Char.ofNat (48 + n % 10) :: acc
    if n / 10 = 0 then acc' else natDigitsAux fuel (n / 10) acc'

def natDigits (n : Nat) : List Char := natDigitsAux (n + 1) n []

def intDigits (i : Int) : List Char :=
  match i with
  | Int.ofNat n => natDigits n
  | Int.negSucc n => '-' :: natDigits (n + 1)

/-- syntax nodes. `txt` carries characters other than `\ { }` CR LF. -/
inductive Node
  | cw (name : List Char) (param : Option Int) (space : Bool)   -- `\name[param][ ]`
  | sym (c : Char)
  | hex (hi lo : Char)
  | txt (s : List Char)
  | nl
  | grp (body : List Node)
  deriving Repr, Inhabited

mutual
def printNode : Node → List Char
  | .cw n p sp => '\\' :: n ++ (match p with | some k => intDigits k | none => []) ++ (if sp then [' '] else [])
  | .sym c => ['\\', c]
  | .hex a b => ['\\', '\'', a, b]
  | .txt s => s
  | .nl => ['\n']
  | .grp body => '{' :: printNodes body ++ ['}']
def printNodes : List Node → List Char
  | [] => []
  | n :: ns => printNode n ++ printNodes ns
end

end Model.Rtf
