/-
Model of what the text-bearing CONSTRUCTORS of rtflite do with the `text=` argument before the encoder sees it
(src/rtflite/input.py) — the step between "the user's text" and "the text that reaches the escaper".

  * `ValidationHelpers.convert_string_to_sequence` (the `convert_text` field validator, mode "before", of
    `RTFTextComponent` = `RTFTitle`, `RTFSubline`, `RTFPageHeader`, `RTFPageFooter`, of `RTFTableTextComponent` =
    `RTFFootnote`, `RTFSource`, and `RTFColumnHeader.convert_text_before`): a `str` becomes the one-element
    sequence, a sequence of `str` is kept                                                   → `TextArg.lines`
  * `RTFTableTextComponent._process_text_conversion` (called at the end of `__init__` of `RTFFootnote` /
    `RTFSource`): `"\\line ".join(self.text)`; the empty sequence stays `[]`, which every later use treats like
    `""`                                                                                    → `joinWith lineSep`, `footText`

Nothing else happens to the characters: no splitting, stripping, case mapping or normalisation.  `Model/Encode.lean`
starts from the state AFTER construction (`TextComp.text` = the lines, `Foot.text` = the one joined string).

Import-free, executable, polymorphic in the character type (the driver runs it on code points, the theorems of
`Props/C10in.lean` on `Char`).
-/
namespace Model.TextInput

/-- the `text=` argument: one `str`, or a sequence of `str` (lines) -/
inductive TextArg (α : Type) where
  | one (s : List α)
  | many (ls : List (List α))
  deriving Repr

/-- `convert_string_to_sequence`: the lines of the component after validation -/
def TextArg.lines {α : Type} : TextArg α → List (List α)
  | .one s => [s]
  | .many ls => ls

/-- Python `sep.join(items)` -/
def joinWith {α : Type} (sep : List α) : List (List α) → List α
  | [] => []
  | [a] => a
  | a :: b :: r => a ++ sep ++ joinWith sep (b :: r)

/-- the six characters `\line ` (the Python literal `"\\line "`) -/
def lineSep : List Char := ['\\', 'l', 'i', 'n', 'e', ' ']

/-- the same as code points -/
def lineSepN : List Nat := [92, 108, 105, 110, 101, 32]

/-- `RTFFootnote(text=a).text` / `RTFSource(text=a).text` after construction (`[]` for no lines read as `""`) -/
def footText (a : TextArg Char) : List Char := joinWith lineSep a.lines

/-- the same on code points (what the driver compares with the real constructors) -/
def footTextN (a : TextArg Nat) : List Nat := joinWith lineSepN a.lines

end Model.TextInput
