/-!
# Model of the export functions (`write_rtf`, `write_docx`, `write_html`, `write_pdf`)

Source: `/repo/src/rtflite/encode.py` (the four `write_*` methods) and `/repo/src/rtflite/convert.py`
(the converter, a *parameter* here).  The functions are modelled as **effect sequences over an
abstract file system** `Fs`:

* `Fs` is an association list `path ↦ file bytes | directory`; it is only ever read through `fget`
  (first binding wins, the root `[]` is always a directory).  Well-formedness (`WF`: unique keys,
  every entry's parent is a directory) is a separate invariant — none of the C18 theorems needs it
  except the corollary that the region below a not-yet-existing temporary directory is empty.
* every effect is run through `step`, which implements the **fault point**: with fault index `k`
  the exception `Err.injected` is raised *before* the effect number `k` (counting the effects the call
  has completed so far, from 0).  `k ≥` number of effects = no fault.
* `withTemp` is `tempfile.TemporaryDirectory()` used as a context manager: `mkdtemp` on entry, and
  `rmTree` on **both** exits (normal and exceptional); the created directory is logged in `St.temps`.
* the encoder is a parameter `enc : Except Err Bytes` (`rtf_encode()` does not write the file
  system), the converter a parameter `Converter` (a function on the file system: it may write below
  its output directory, fail before or after doing so, and return a path, a list or something else).
  The converter rtflite ships is an instance built from a **process run** (`procConverter`, below): the run's
  outcome is data — exit status + entries written — and a non-zero exit status is a failure whatever was written.

Modelled code = the tree **with the D23 repair** (`fixes/html-resource-folder-nesting.patch`): before
the HTML resource folder is moved next to the target an existing destination is removed.  The
unrepaired commit step is kept as `commitUnrepaired` so that the defect is a checked statement.

What the model cannot exhibit (level *partial*): real-OS failures in the middle of one effect
(`write_text` hitting ENOSPC after truncating the target, a cross-device `shutil.move` dying while
copying, interpreter crashes).  Every effect here is atomic: it happens completely or not at all.
-/
namespace Model.Export

abbrev Name := List Char
abbrev Path := List Name
abbrev Bytes := List Char

inductive Node where
  | file (b : Bytes)
  | dir
  deriving DecidableEq, Repr

abbrev Fs := List (Path × Node)

inductive Err where
  | injected    -- the injected fault
  | encode      -- `rtf_encode()` raised
  | converter   -- the converter raised
  | typeError   -- converter result is not a `Path`
  | os          -- an OSError of the (modelled) file system / converter lookup
  deriving DecidableEq, Repr

inductive Eff where
  | mkdir | print | resolve | mkdtemp | encode | writeRtf | convert | typecheck | commit | writeTarget
  deriving DecidableEq, Repr

/-! ## file system -/

/-- `under p q`: `q` is `p` or lies below `p` -/
def under (p q : Path) : Bool := p.isPrefixOf q

def fget (fs : Fs) (p : Path) : Option Node :=
  if p = [] then some .dir else fs.lookup p

def isFile : Option Node → Bool
  | some (.file _) => true
  | _ => false

def fset (fs : Fs) (p : Path) (n : Node) : Fs :=
  (p, n) :: fs.filter (fun e => !(e.1 == p))

def rmTree (fs : Fs) (p : Path) : Fs :=
  fs.filter (fun e => !under p e.1)

/-- rename the tree rooted at `src` to `dst` (everything previously below `dst` disappears) -/
def moveTree (fs : Fs) (src dst : Path) : Fs :=
  (fs.filter (fun e => under src e.1)).map (fun e => (dst ++ e.1.drop src.length, e.2))
    ++ fs.filter (fun e => !under src e.1 && !under dst e.1)

/-- all prefixes of a path, shortest first (`[]` included) -/
def prefixes : Path → List Path
  | [] => [[]]
  | a :: r => [] :: (prefixes r).map (a :: ·)

/-- `Path.mkdir(parents=True, exist_ok=True)`: fails (creating nothing) when the path or one of its
ancestors is a regular file, otherwise every missing prefix becomes a directory. -/
def mkdirParents (p : Path) (fs : Fs) : Except Err Unit × Fs :=
  if (prefixes p).any (fun q => isFile (fget fs q)) then (.error .os, fs)
  else (.ok (), ((prefixes p).filter (fun q => fget fs q == none)).map (fun q => (q, Node.dir)) ++ fs)

/-- `Path.write_text`: IsADirectoryError on a directory, FileNotFoundError/NotADirectoryError when
the parent is not a directory; otherwise the file holds exactly `b` afterwards. -/
def writeText (p : Path) (b : Bytes) (fs : Fs) : Except Err Unit × Fs :=
  if fget fs p = some .dir then (.error .os, fs)
  else if fget fs p.dropLast = some .dir then (.ok (), fset fs p (.file b))
  else (.error .os, fs)

/-- `tempfile.mkdtemp(dir=root)` with the name `name` -/
def mkdtemp (root : Path) (name : Name) (fs : Fs) : Except Err Path × Fs :=
  if fget fs root = some .dir then
    if fget fs (root ++ [name]) = none then (.ok (root ++ [name]), fset fs (root ++ [name]) .dir)
    else (.error .os, fs)
  else (.error .os, fs)

/-- `shutil.move(src, dst)`:
* `dst` an existing directory ⇒ the real destination is `dst/<basename src>`, which must not exist;
* missing `src`, destination parent not a directory, moving a directory into itself or onto a file ⇒ error;
* a file replaces an existing file (`os.rename`); a directory is renamed as a tree. -/
def realDst (fs : Fs) (src dst : Path) : Path :=
  if fget fs dst = some .dir then dst ++ [src.getLast?.getD []] else dst

/-- the rename itself, once the real destination is known -/
def moveTo (fs : Fs) (src real : Path) (n : Node) : Except Err Fs :=
  if under src real = true then .error .os
  else if fget fs real.dropLast = some .dir then
    match n with
    | .file b => .ok (fset (rmTree fs src) real (.file b))
    | .dir => if fget fs real = none then .ok (moveTree fs src real) else .error .os
  else .error .os

def move (fs : Fs) (src dst : Path) : Except Err Fs :=
  match fget fs src with
  | none => .error .os
  | some n =>
    if fget fs dst = some .dir ∧ fget fs (realDst fs src dst) ≠ none then .error .os
    else moveTo fs src (realDst fs src dst) n

/-! ## effect sequences with fault points -/

structure St where
  fs : Fs
  temps : List Path := []
  trace : List Eff := []

abbrev Res := Except Err Unit × St

def isOk : Except Err Unit → Bool
  | .ok _ => true
  | .error _ => false

/-- run effect `e`: the injected fault fires iff exactly `k` effects were completed before. A failing
effect keeps whatever it did to the file system (a converter may fail after producing output). -/
def step {α : Type} (k : Nat) (e : Eff) (act : Fs → Except Err α × Fs) (s : St) (cont : α → St → Res) : Res :=
  if s.trace.length = k then (.error .injected, s)
  else
    match act s.fs with
    | (.error er, fs') => (.error er, { s with fs := fs' })
    | (.ok a, fs') => cont a { s with fs := fs', trace := s.trace ++ [e] }

/-- `with tempfile.TemporaryDirectory() as t: body t` — cleanup on both exits -/
def withTemp (k : Nat) (root : Path) (name : Name) (s : St) (body : Path → St → Res) : Res :=
  step k .mkdtemp (mkdtemp root name) s fun t s1 =>
    let r := body t { s1 with temps := t :: s1.temps }
    (r.1, { r.2 with fs := rmTree r.2.fs t })

/-! ## converter -/

inductive ConvRet where
  | path (p : Path)   -- a `Path`
  | list              -- a list of paths (batch result)
  | other             -- anything else (`str`, `None`, …)
  deriving DecidableEq, Repr

/-- `converter.convert(input_files=inp, output_dir=out, …)` as a function on the file system -/
abbrev Converter := Fs → (inp : Path) → (out : Path) → Except Err ConvRet × Fs

/-- the assumption on converters: they write only below their output directory, and a returned
path lies strictly below it -/
structure Confined (c : Converter) : Prop where
  frame : ∀ fs inp out q, under out q = false → fget (c fs inp out).2 q = fget fs q
  ret : ∀ fs inp out p, (c fs inp out).1 = .ok (.path p) → under out p = true ∧ p ≠ out

/-! ## `write_rtf` -/

def writeRtf (k : Nat) (dir : Path) (tname : Name) (enc : Except Err Bytes) (fs : Fs) : Res :=
  step k .mkdir (mkdirParents dir) { fs := fs } fun _ s =>
  step k .print (fun fs => (.ok (), fs)) s fun _ s =>
  step k .encode (fun fs => (enc, fs)) s fun b s =>
  step k .writeTarget (writeText (dir ++ [tname]) b) s fun _ s =>
  (.ok (), s)

/-! ## `write_docx` / `write_pdf` (`html = false`) and `write_html` (`html = true`) -/

structure Params where
  dir : Path            -- `target_path.parent`
  tname : Name          -- `target_path.name`
  tmpRoot : Path        -- `tempfile.gettempdir()`
  tA : Name             -- name `mkdtemp` picks for the RTF directory
  tB : Name             -- name `mkdtemp` picks for the converter output directory
  rtfName : Name        -- `f"{target_path.stem}.rtf"`
  enc : Except Err Bytes
  explicitConv : Bool   -- a converter object was passed in (no lookup effect)
  conv : Except Err Converter  -- the converter in use; `.error` = `LibreOfficeConverter()` raised
  html : Bool

def Params.target (P : Params) : Path := P.dir ++ [P.tname]

/-- the literal `_files` -/
def filesSuffix : Name := ['_', 'f', 'i', 'l', 'e', 's']

/-- `html_path.with_name(f"{html_path.name}_files")` -/
def resourcesOf (p : Path) : Path := p.dropLast ++ [p.getLast?.getD [] ++ filesSuffix]

/-- where the resource folder goes: `target_path.parent / resources_dir.name` -/
def resDst (dir p : Path) : Path := dir ++ [p.getLast?.getD [] ++ filesSuffix]

/-- the final block (no library call boundary inside it): `shutil.move(converted, target)`; for HTML,
if the resource folder exists: remove an existing destination (D23 repair) and move the folder. -/
def commit (html : Bool) (dir : Path) (tname : Name) (p : Path) (fs : Fs) : Except Err Unit × Fs :=
  match move fs p (dir ++ [tname]) with
  | .error e => (.error e, fs)
  | .ok fs1 =>
    if html = true ∧ fget fs1 (resourcesOf p) = some .dir then
      let fs2 := rmTree fs1 (resDst dir p)
      match move fs2 (resourcesOf p) (resDst dir p) with
      | .error e => (.error e, fs2)
      | .ok fs3 => (.ok (), fs3)
    else (.ok (), fs1)

/-- the same block as it stands in the unrepaired tree (D23): no removal of an existing destination -/
def commitUnrepaired (html : Bool) (dir : Path) (tname : Name) (p : Path) (fs : Fs) : Except Err Unit × Fs :=
  match move fs p (dir ++ [tname]) with
  | .error e => (.error e, fs)
  | .ok fs1 =>
    if html = true ∧ fget fs1 (resourcesOf p) = some .dir then
      match move fs1 (resourcesOf p) (resDst dir p) with
      | .error e => (.error e, fs1)
      | .ok fs3 => (.ok (), fs3)
    else (.ok (), fs1)

def typecheck (r : ConvRet) (fs : Fs) : Except Err Path × Fs :=
  match r with
  | .path p => (.ok p, fs)
  | _ => (.error .typeError, fs)

/-- inside the second temporary directory -/
def coreB (k : Nat) (P : Params) (c : Converter) (rtf tB : Path) (s : St) : Res :=
  step k .convert (fun fs => c fs rtf tB) s fun r s =>
  step k .typecheck (typecheck r) s fun p s =>
  step k .commit (commit P.html P.dir P.tname p) s fun _ s =>
  (.ok (), s)

/-- inside the first temporary directory -/
def coreA (k : Nat) (P : Params) (c : Converter) (tA : Path) (s : St) : Res :=
  step k .encode (fun fs => (P.enc, fs)) s fun b s =>
  step k .writeRtf (writeText (tA ++ [P.rtfName]) b) s fun _ s =>
  withTemp k P.tmpRoot P.tB s fun tB s => coreB k P c (tA ++ [P.rtfName]) tB s

def afterResolve (k : Nat) (P : Params) (c : Converter) (s : St) : Res :=
  withTemp k P.tmpRoot P.tA s fun tA s => coreA k P c tA s

def writeConv (k : Nat) (P : Params) (fs : Fs) : Res :=
  step k .mkdir (mkdirParents P.dir) { fs := fs } fun _ s =>
  if P.explicitConv then
    match P.conv with
    | .ok c => afterResolve k P c s
    | .error e => (.error e, s)          -- not reachable from the API: an object was passed
  else
    step k .resolve (fun fs => (P.conv, fs)) s fun c s => afterResolve k P c s

/-! ## stub converters (the behaviours the harness injects) -/

inductive Beh where
  | failBefore      -- raises, nothing written
  | failAfter       -- writes a partial output file, then raises
  | retList         -- writes the output, returns a list
  | retOther        -- writes the output, returns a non-Path (str / None)
  | retMissing      -- returns a Path that does not exist
  | okPlain         -- writes the output file, returns its Path
  | okRes           -- additionally writes the resource folder `<name>_files`
  deriving DecidableEq, Repr

/-- output bytes of the stub: a function of the RTF it was given -/
def stubBytes (fmt : List Char) (rtf : Bytes) : Bytes := fmt ++ ['<'] ++ rtf ++ ['>']

/-- `outName` = `<stem>.<fmt>`; the resource folder holds `r.txt` and `sub/s.txt` -/
def stub (beh : Beh) (fmt : List Char) (outName : Name) : Converter := fun fs inp out =>
  match fget fs inp with
  | some (.file rtf) =>
    let o := out ++ [outName]
    let written := fset fs o (.file (stubBytes fmt rtf))
    match beh with
    | .failBefore => (.error .converter, fs)
    | .failAfter => (.error .converter, fset fs o (.file ['p', 'a', 'r', 't', 'i', 'a', 'l']))
    | .retList => (.ok .list, written)
    | .retOther => (.ok .other, written)
    | .retMissing => (.ok (.path o), fs)
    | .okPlain => (.ok (.path o), written)
    | .okRes =>
      let res := out ++ [outName ++ filesSuffix]
      (.ok (.path o),
        fset (fset (fset (fset written res .dir) (res ++ [['r', '.', 't', 'x', 't']]) (.file ['r', 'e', 's', 'o', 'u', 'r', 'c', 'e']))
          (res ++ [['s', 'u', 'b']]) .dir) (res ++ [['s', 'u', 'b'], ['s', '.', 't', 'x', 't']]) (.file ['n', 'e', 's', 't', 'e', 'd']))
  | _ => (.error .os, fs)   -- "Input file not found"

/-! ## file names as data

The names of the intermediate files are *derived* from the target's file name, in two steps done by two
different parties:

* the export writes the RTF to `<tmpA>/<target_path.stem>.rtf` (`rtfNameOf`);
* the converter names its output after **its input**: `output_dir / f"{input_file.stem}.{format}"`
  (`LibreOfficeConverter._convert_single_file`, LibreOffice itself, the harness stubs) — `convName` — and the
  HTML resource folder after that output: `<converted name>_files` (`resourcesOf`).

So the resource folder's name is a function of the *converted* file's name, never of the target's name:
for the target `report.htm` it is `report.html_files` (not `report.htm_files`), and it is placed next to the
target under that same name (`resDst`), which is what the relative links inside the HTML refer to.

`stem` is `pathlib.PurePath.stem` (CPython 3.12): the suffix starts at the last `'.'` of the name, provided
that dot is neither the first nor the last character; otherwise there is no suffix.
-/

/-- split at the last `'.'`: `splitLastDot (a ++ '.' :: b) = some (a, b)` when `b` has no dot -/
def splitLastDot : Name → Option (Name × Name)
  | [] => none
  | c :: r =>
    match splitLastDot r with
    | some (a, b) => some (c :: a, b)
    | none => if c = '.' then some ([], r) else none

/-- `PurePath(name).stem` -/
def stem (n : Name) : Name :=
  match splitLastDot n with
  | some (a, b) => if a ≠ [] ∧ b ≠ [] then a else n
  | none => n

/-- the literal `.rtf` -/
def rtfSuffix : Name := ['.', 'r', 't', 'f']

/-- `f"{target_path.stem}.rtf"` -/
def rtfNameOf (tname : Name) : Name := stem tname ++ rtfSuffix

/-- `f"{input_file.stem}.{format}"`: how a converter names its output -/
def convName (fmt : List Char) (inp : Path) : Name := stem (inp.getLast?.getD []) ++ '.' :: fmt

/-- the harness stub as it really is: the output name is computed from the input path -/
def stubN (beh : Beh) (fmt : List Char) : Converter := fun fs inp out =>
  stub beh fmt (convName fmt inp) fs inp out

/-- the parameters of a call whose intermediate RTF is named as the code names it -/
def Params.Named (P : Params) : Prop := P.rtfName = rtfNameOf P.tname

/-! ## converters that run an external process (`LibreOfficeConverter`)

`LibreOfficeConverter.convert` starts a process (`soffice --convert-to <fmt> --outdir <out> <inp>`) and decides from
what the process *reports and leaves behind* whether the conversion happened.  The outcome of one process run is
data: its **exit status** and the **entries it wrote** into its output directory (`ProcRun`).  The rule
(`procVerdict`, = `_convert_single_file`):

* exit status ≠ 0 (an `exit n`, a crash, a kill by signal — `subprocess.CalledProcessError`) **is a failure
  whatever the process wrote** — a full, a truncated or an empty `<stem>.<fmt>` in the output directory does not
  turn a failed run into a conversion;
* exit status 0 without the expected file `<stem>.<fmt>` ("Output file not created") is a failure too;
* exit status 0 with the expected file: the conversion's output is that file.

What the process wrote stays on the (temporary) file system either way; the export's scopes remove it. -/

/-- the outcome of one run of the external converter process -/
structure ProcRun where
  /-- exit status; `0` = success, anything else (`exit n`, `128 + signal`) = failure -/
  exit : Nat
  /-- entries written, **relative to the output directory**, in the order they were written -/
  files : List (Path × Node)
  deriving Repr

/-- a converter process: what it does is a function of the file system it sees, its input and output directory -/
abbrev Proc := Fs → (inp : Path) → (out : Path) → ProcRun

/-- replay the writes of a run below `out` -/
def writeRel (out : Path) : List (Path × Node) → Fs → Fs
  | [], fs => fs
  | e :: r, fs => writeRel out r (fset fs (out ++ e.1) e.2)

inductive ProcVerdict where
  | failed                 -- the conversion failed
  | produced (p : Path)    -- the conversion's output
  deriving DecidableEq, Repr

/-- the verdict on a run that left the file system `fsAfter`, `o` = the expected output file -/
def procVerdict (run : ProcRun) (fsAfter : Fs) (o : Path) : ProcVerdict :=
  if run.exit ≠ 0 then .failed
  else if fget fsAfter o = none then .failed
  else .produced o

/-- `LibreOfficeConverter(...).convert(input_files=inp, output_dir=out, format=fmt, overwrite=True)` over the
process `pr` (the version probe belongs to the constructor = the `resolve` effect) -/
def procConverter (pr : Proc) (fmt : List Char) : Converter := fun fs inp out =>
  match fget fs inp with
  | none => (.error .os, fs)          -- "Input file not found"
  | some _ =>
    let run := pr fs inp out
    let fs' := writeRel out run.files fs
    match procVerdict run fs' (out ++ [convName fmt inp]) with
    | .failed => (.error .converter, fs')
    | .produced p => (.ok (.path p), fs')

/-! ### the harness's fake `soffice` (harness/faults.py: `FAKE_SOFFICE`) as a `Proc` -/

/-- what the fake process does about the expected output file `<stem>.<fmt>` -/
inductive OutKind where
  | none               -- writes no output
  | full               -- the whole document
  | trunc (n : Nat)    -- the first `n` bytes of it (dies / disk full while writing)
  | empty              -- creates the file, writes nothing
  | part               -- the whole document, but under the name `<stem>.<fmt>.part`
  | sub                -- the whole document, but as `nested_out/<stem>.<fmt>`
  deriving DecidableEq, Repr

structure FakeSpec where
  exit : Nat
  out : OutKind
  /-- also writes the resource folder `<stem>.<fmt>_files` -/
  res : Bool
  /-- also writes a lock file, a `.tmp` sibling and a cache directory into the output directory -/
  extra : Bool
  deriving DecidableEq, Repr

def partSuffix : Name := ['.', 'p', 'a', 'r', 't']
def nestedOut : Name := ['n', 'e', 's', 't', 'e', 'd', '_', 'o', 'u', 't']

/-- the resource folder's entries (the same as `stub .okRes`) -/
def resEntries (folder : Name) : List (Path × Node) :=
  [([folder], .dir), ([folder, ['r', '.', 't', 'x', 't']], .file ['r', 'e', 's', 'o', 'u', 'r', 'c', 'e']),
   ([folder, ['s', 'u', 'b']], .dir), ([folder, ['s', 'u', 'b'], ['s', '.', 't', 'x', 't']], .file ['n', 'e', 's', 't', 'e', 'd'])]

def extraEntries (name : Name) : List (Path × Node) :=
  [([['.', '~', 'l', 'o', 'c', 'k', '.'] ++ name ++ ['#']], .file ['l', 'o', 'c', 'k']),
   ([name ++ ['.', 't', 'm', 'p']], .file ['t', 'm', 'p']),
   ([['l', 'u', '_', 'c', 'a', 'c', 'h', 'e']], .dir),
   ([['l', 'u', '_', 'c', 'a', 'c', 'h', 'e'], ['x', '.', 'b', 'i', 'n']], .file ['b', 'i', 'n'])]

def fakeProc (sp : FakeSpec) (fmt : List Char) : Proc := fun fs inp _ =>
  match fget fs inp with
  | some (.file rtf) =>
    let name := convName fmt inp
    let doc := stubBytes fmt rtf
    let outF : List (Path × Node) := match sp.out with
      | .none => []
      | .full => [([name], .file doc)]
      | .trunc n => [([name], .file (doc.take n))]
      | .empty => [([name], .file [])]
      | .part => [([name ++ partSuffix], .file doc)]
      | .sub => [([nestedOut], .dir), ([nestedOut, name], .file doc)]
    { exit := sp.exit,
      files := outF ++ (if sp.res then resEntries (name ++ filesSuffix) else [])
                    ++ (if sp.extra then extraEntries name else []) }
  | _ => { exit := 1, files := [] }   -- unreadable input (not reached: the converter checks the input first)

/-! ## well-formedness (separate invariant) -/

def keys (fs : Fs) : List Path := fs.map (·.1)

/-- unique keys, no binding for the root, every entry's parent is a directory -/
def WF (fs : Fs) : Prop :=
  (keys fs).Nodup ∧ ∀ e ∈ fs, e.1 ≠ [] ∧ fget fs e.1.dropLast = some .dir

def wfB (fs : Fs) : Bool :=
  decide (keys fs).Nodup && fs.all (fun e => !(e.1 == []) && (fget fs e.1.dropLast == some .dir))

end Model.Export
