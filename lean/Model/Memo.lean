/-
A keyed store in front of a stateless function: the general shape of a process-global cache (property C14).
Import-free, executable.

rtflite has none today: `strwidth.get_string_width` opens the font file on every call
(`ImageFont.truetype(path, size)`), i.e. it is `compute` applied to the request, with no store.  The model of
the *class* is kept because a cache is the commonest way such state gets introduced (loaded fonts per
(file, size), measured widths per (text, font, size), rendered border strings per style …), and because its
purity condition is exactly decidable from the code: the store is harmless iff the key determines the value
(`Faithful`).  `World.registry` (`Model/World.lean`) is the instance that exists in the code: a store keyed by
strategy name whose written values are constants, hence trivially determined by the key.

A request `r : ρ` (what the caller asks: font file, exact size, text, unit …), a key `key r : κ` (what the
store is indexed by), a value `compute r : ν` (what a miss computes and keeps).
-/
namespace Model.Memo

abbrev Store (κ ν : Type) := List (κ × ν)

def find {κ ν} [DecidableEq κ] (k : κ) : Store κ ν → Option ν
  | [] => none
  | (k', v) :: r => if k' = k then some v else find k r

structure Spec (ρ κ ν : Type) where
  key : ρ → κ
  compute : ρ → ν

/-- one request: a hit answers from the store, a miss computes, stores and answers -/
def ask {ρ κ ν} [DecidableEq κ] (S : Spec ρ κ ν) (st : Store κ ν) (r : ρ) : Store κ ν × ν :=
  match find (S.key r) st with
  | some v => (st, v)
  | none => ((S.key r, S.compute r) :: st, S.compute r)

/-- a sequence of requests, the store threaded through -/
def askAll {ρ κ ν} [DecidableEq κ] (S : Spec ρ κ ν) (st : Store κ ν) : List ρ → Store κ ν × List ν
  | [] => (st, [])
  | r :: rs =>
    let a := ask S st r
    let b := askAll S a.1 rs
    (b.1, a.2 :: b.2)

/-- the key determines the value -/
def Faithful {ρ κ ν} (S : Spec ρ κ ν) : Prop := ∀ r r', S.key r = S.key r' → S.compute r = S.compute r'

/-- every entry is what any request with its key computes -/
def Sound {ρ κ ν} [DecidableEq κ] (S : Spec ρ κ ν) (st : Store κ ν) : Prop :=
  ∀ r v, find (S.key r) st = some v → v = S.compute r

/-! ### instances for loaded fonts: a request is (font file, size in hundredths of a point) and the value
kept is the font object, which is characterised by the file and the EXACT size it was opened at -/

abbrev FontReq := Nat × Nat

/-- keyed by file and exact size (what `harness/props/c14_fit.py` does for its own measurements) -/
def exactKey : Spec FontReq FontReq FontReq := { key := id, compute := id }

/-- keyed by file and the `N` of `\fsN` (`int(size * 2)`), the font opened at the size of the first request -/
def halfPointKey : Spec FontReq (Nat × Nat) FontReq := { key := fun r => (r.1, r.2 * 2 / 100), compute := id }

/-- keyed by the size alone -/
def sizeOnlyKey : Spec FontReq Nat FontReq := { key := fun r => r.2, compute := id }

end Model.Memo
