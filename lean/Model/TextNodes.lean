import Model.Rtf
/-!
Reading a piece of emitted RTF text back into syntax nodes (`Model.Rtf.Node`), so that text holes of the emitters
(user texts after `_convert_special_chars`, the font table, the colour table) enter the document tree as structured
nodes and not as opaque character runs.

`lexNodes s` is total and is meant to satisfy `printNodes (lexNodes s) = s` for EVERY `s`: whenever the scan meets
something the printer could not reproduce (unbalanced braces, a numeric parameter with leading zeros, a truncated
control sequence) it gives up and returns the whole input as one `Node.txt`.  For texts rtflite produces from
ordinary input the result is a list of control words, symbols, groups and safe text runs.
Import-free apart from `Model.Rtf`, executable, one left-to-right fold.
-/
namespace Model.TextNodes
open Model.Rtf

inductive Mode
  | ground (txt : List Char)                              -- reversed pending text run
  | bs
  | word (rev : List Char)
  | num (name : List Char) (neg : Bool) (rev : List Char)
  | hex1
  | hex2 (a : Char)
  deriving Repr, Inhabited

structure St where
  stack : List (List Node) := []      -- reversed node lists of the enclosing groups
  cur : List Node := []               -- reversed node list of the current group
  mode : Mode := .ground []
  ok : Bool := true
  deriving Inhabited

def flush (cur : List Node) (txt : List Char) : List Node :=
  if txt.isEmpty then cur else Node.txt txt.reverse :: cur

/-- a character arriving in ground state with pending text `txt` -/
def groundStep (st : St) (txt : List Char) (c : Char) : St :=
  if c = '{' then { st with stack := flush st.cur txt :: st.stack, cur := [], mode := .ground [] }
  else if c = '}' then
    match st.stack with
    | [] => { st with ok := false }
    | top :: rest => { st with stack := rest, cur := Node.grp (flush st.cur txt).reverse :: top, mode := .ground [] }
  else if c = '\\' then { st with cur := flush st.cur txt, mode := .bs }
  else if c = '\n' then { st with cur := Node.nl :: flush st.cur txt, mode := .ground [] }
  else { st with mode := .ground (c :: txt) }

/-- digits that `intDigits` prints back unchanged: no leading zero (except "0" itself), no "-0" -/
def canonDigits (neg : Bool) (rev : List Char) : Bool :=
  match rev.reverse with
  | [] => false
  | ['0'] => !neg
  | d :: _ => d != '0'

def paramOf (neg : Bool) (rev : List Char) : Int := mkParam neg rev

def step (st : St) (c : Char) : St :=
  if !st.ok then st else
  match st.mode with
  | .ground txt => groundStep st txt c
  | .bs =>
    if isLetter c then { st with mode := .word [c] }
    else if c = '\'' then { st with mode := .hex1 }
    else { st with cur := Node.sym c :: st.cur, mode := .ground [] }
  | .word rev =>
    if isLetter c then { st with mode := .word (c :: rev) }
    else if c = '-' then { st with mode := .num rev.reverse true [] }
    else if isDigit c then { st with mode := .num rev.reverse false [c] }
    else if c = ' ' then { st with cur := Node.cw rev.reverse none true :: st.cur, mode := .ground [] }
    else groundStep { st with cur := Node.cw rev.reverse none false :: st.cur } [] c
  | .num name neg rev =>
    if isDigit c then { st with mode := .num name neg (c :: rev) }
    else if rev.isEmpty then
      -- a lone '-' is text
      groundStep { st with cur := Node.cw name none false :: st.cur } ['-'] c
    else if !canonDigits neg rev then { st with ok := false }
    else if c = ' ' then { st with cur := Node.cw name (some (paramOf neg rev)) true :: st.cur, mode := .ground [] }
    else groundStep { st with cur := Node.cw name (some (paramOf neg rev)) false :: st.cur } [] c
  | .hex1 => { st with mode := .hex2 c }
  | .hex2 a => { st with cur := Node.hex a c :: st.cur, mode := .ground [] }

def finish (st : St) : Option (List Node) :=
  if !st.ok || !st.stack.isEmpty then none else
  match st.mode with
  | .ground txt => some (flush st.cur txt).reverse
  | .word rev => some (Node.cw rev.reverse none false :: st.cur).reverse
  | .num name neg rev =>
    if rev.isEmpty then some (Node.txt ['-'] :: Node.cw name none false :: st.cur).reverse
    else if canonDigits neg rev then some (Node.cw name (some (paramOf neg rev)) false :: st.cur).reverse
    else none
  | _ => none

def lexNodes (s : List Char) : List Node :=
  if s.isEmpty then [] else
  match finish (s.foldl step {}) with
  | some ns => ns
  | none => [Node.txt s]

end Model.TextNodes
