import Model.Encode
import Model.Layout
import Proofs.EncodeLift
import Props.C06
import Props.C01enc
/-!
# C06 for the whole-encoder model: titles, headers, footnotes and sources appear on exactly the configured pages

`Props/C06.lean` proves the property about `Layout.renderPage ld pg`.  Here the theorems are about the pages the
ENCODER renders: the `n`-th entry (0-based) of `Plan.pageBlocks` (`encodePages` renders exactly these block lists, in
this order).  "first" is `n = 0`, "last" is `n + 1 = number of pages` (`C06enc_page_number`: pages are numbered
`1..P` with `total = P`, also for an empty frame), and the role-level flags are the document's:
`hasText d.title`, `hasText d.subline`, `footComp d.footnote`, `footComp d.source`, `d.page.pageTitle`, …,
`d.body.pagebyHeader`, `headerHasText` / `d.body.asColheader`.

`C06enc_rendered` says what every block kind is rendered to (`pageBreak d.page`, `textElem k d.title` + a blank line,
`textElem k d.subline`, `renderHeader`, `renderFoot` with the page's border override).
-/
namespace Props.C06enc
open Model.Rtf Model.Emit Model.Encode Model.Broadcast Model.Layout Proofs.EncodeLift
open Props.C06 (rank)

/-- pages are numbered from 1 in rendering order and every page knows the number of pages; there is at least one -/
theorem C06enc_page_number (pl : Plan) (n : Nat) (x : PageCtx × List Block) (hx : pl.pageBlocks[n]? = some x) :
    x.1.number = n + 1 ∧ x.1.total = pl.pageBlocks.length ∧ 0 < pl.pageBlocks.length := by
  obtain ⟨hpg, _⟩ := pageBlocks_getElem? hx
  obtain ⟨h1, h2⟩ := pages_numbering pl.ld n x.1 hpg
  rw [pageBlocks_length]
  exact ⟨h1, h2, pages_pos pl.ld⟩

theorem first_last (pl : Plan) (n : Nat) (x : PageCtx × List Block) (hx : pl.pageBlocks[n]? = some x) :
    Props.C06.isFirst x.1 = (n == 0) ∧ Props.C06.isLast x.1 = (n + 1 == pl.pageBlocks.length) :=
  ⟨(Proofs.EncodeLift.first_last pl n x hx).2.2.1, (Proofs.EncodeLift.first_last pl n x hx).2.2.2⟩

/-- (1) order: on every page the blocks appear in the order page break, title, subline, subline heading, column
headers, body (headings and data rows), footnote, source -/
theorem C06enc_order (measure : Measure) (d : Doc) (pl : Plan) (_hp : plan measure d = .ok pl)
    (x : PageCtx × List Block) (hx : x ∈ pl.pageBlocks) : (x.2.map rank).Pairwise (· ≤ ·) := by
  obtain ⟨_, hbs⟩ := pageBlocks_mem hx
  rw [hbs]
  exact Props.C06.C06_order pl.ld x.1

/-- (2) the title appears at most once per page, exactly on the pages `page_title` selects, when it has text -/
theorem C06enc_title (measure : Measure) (d : Doc) (pl : Plan) (hp : plan measure d = .ok pl)
    (n : Nat) (x : PageCtx × List Block) (hx : pl.pageBlocks[n]? = some x) :
    x.2.count Block.title =
      if hasText d.title && d.page.pageTitle.shows (n == 0) (n + 1 == pl.pageBlocks.length) then 1 else 0 := by
  have hf := plan_facts hp
  obtain ⟨_, hbs⟩ := pageBlocks_getElem? hx
  obtain ⟨h1, h2⟩ := first_last pl n x hx
  rw [hbs, Props.C06.C06_title, hf.hasTitle, hf.pageTitle, h1, h2]

/-- (2) the subline likewise (it follows `page_title`) -/
theorem C06enc_subline (measure : Measure) (d : Doc) (pl : Plan) (hp : plan measure d = .ok pl)
    (n : Nat) (x : PageCtx × List Block) (hx : pl.pageBlocks[n]? = some x) :
    x.2.count Block.subline =
      if hasText d.subline && d.page.pageTitle.shows (n == 0) (n + 1 == pl.pageBlocks.length) then 1 else 0 := by
  have hf := plan_facts hp
  obtain ⟨_, hbs⟩ := pageBlocks_getElem? hx
  obtain ⟨h1, h2⟩ := first_last pl n x hx
  rw [hbs, Props.C06.C06_subline, hf.hasSublineTxt, hf.pageTitle, h1, h2]

/-- (2) the footnote: at most one block per page, exactly on the pages `page_footnote` selects, when the component
has a non-empty text; the block says whether it is rendered as a table -/
theorem C06enc_footnote (measure : Measure) (d : Doc) (pl : Plan) (hp : plan measure d = .ok pl)
    (n : Nat) (x : PageCtx × List Block) (hx : pl.pageBlocks[n]? = some x) :
    (x.2.filter (fun b => match b with | .footnote _ => true | _ => false)) =
      if footComp d.footnote != .absent && d.page.pageFootnote.shows (n == 0) (n + 1 == pl.pageBlocks.length)
      then [Block.footnote (footComp d.footnote == .table)] else [] := by
  have hf := plan_facts hp
  obtain ⟨_, hbs⟩ := pageBlocks_getElem? hx
  obtain ⟨h1, h2⟩ := first_last pl n x hx
  have := Props.C06.C06_footnote pl.ld x.1
  rw [hf.footnote, hf.pageFootnote, h1, h2, ← hbs] at this
  exact this

/-- (2) the source likewise with `page_source` -/
theorem C06enc_source (measure : Measure) (d : Doc) (pl : Plan) (hp : plan measure d = .ok pl)
    (n : Nat) (x : PageCtx × List Block) (hx : pl.pageBlocks[n]? = some x) :
    (x.2.filter (fun b => match b with | .source _ => true | _ => false)) =
      if footComp d.source != .absent && d.page.pageSource.shows (n == 0) (n + 1 == pl.pageBlocks.length)
      then [Block.source (footComp d.source == .table)] else [] := by
  have hf := plan_facts hp
  obtain ⟨_, hbs⟩ := pageBlocks_getElem? hx
  obtain ⟨h1, h2⟩ := first_last pl n x hx
  have := Props.C06.C06_source pl.ld x.1
  rw [hf.source, hf.pageSource, h1, h2, ← hbs] at this
  exact this

/-- (3) column headers: on the first page, and on later pages exactly when `pageby_header` is true; one block per
header object that has text or is auto-populated from the column names, in the objects' order -/
theorem C06enc_col_headers (measure : Measure) (d : Doc) (pl : Plan) (hp : plan measure d = .ok pl)
    (n : Nat) (x : PageCtx × List Block) (hx : pl.pageBlocks[n]? = some x) :
    (x.2.filterMap (fun b => match b with | .colHeader k => some k | _ => none)) =
      if d.body.pagebyHeader || n == 0 then
        (d.headers.zipIdx.filterMap fun (h : Option Header × Nat) =>
          if headerHasText h.1 || d.body.asColheader then some h.2 else none)
      else [] := by
  have hf := plan_facts hp
  obtain ⟨_, hbs⟩ := pageBlocks_getElem? hx
  obtain ⟨h1, _⟩ := first_last pl n x hx
  have := Props.C06.C06_col_headers pl.ld x.1
  rw [hf.pagebyHeader, hf.asColheader, hf.headers, h1, ← hbs] at this
  refine Eq.trans this ?_
  congr 1
  generalize (0 : Nat) = k
  induction d.headers generalizing k with
  | nil => rfl
  | cons h hs ih =>
    simp only [List.map_cons, List.zipIdx_cons, List.filterMap_cons]
    rw [ih]

/-- (4) every page after the first begins with exactly one page break; the first page has none -/
theorem C06enc_break (measure : Measure) (d : Doc) (pl : Plan) (_hp : plan measure d = .ok pl)
    (n : Nat) (x : PageCtx × List Block) (hx : pl.pageBlocks[n]? = some x) :
    (n = 0 → Block.brk ∉ x.2) ∧ (n ≠ 0 → ∃ rest, x.2 = Block.brk :: rest ∧ Block.brk ∉ rest) := by
  obtain ⟨_, hbs⟩ := pageBlocks_getElem? hx
  obtain ⟨h1, _⟩ := first_last pl n x hx
  have := Props.C06.C06_break pl.ld x.1
  rw [← hbs, h1] at this
  refine ⟨fun h0 => this.1 (by rw [h0]; rfl), fun h0 => this.2 ?_⟩
  cases n with
  | zero => exact absurd rfl h0
  | succ n => rfl

/-- (5) on a one-page document 'first', 'last' and 'all' are indistinguishable: the encoder renders the same block
lists whatever the three placement options are -/
theorem C06enc_single_page (measure : Measure) (d : Doc) (pl pl' : Plan) (pt pf ps : Placement)
    (hp : plan measure d = .ok pl)
    (hp' : plan measure { d with page := { d.page with pageTitle := pt, pageFootnote := pf, pageSource := ps } } = .ok pl')
    (h1 : pl.pageBlocks.length = 1) : pl'.pageBlocks.map Prod.snd = pl.pageBlocks.map Prod.snd := by
  obtain ⟨hprep, _, hld, _⟩ := plan_ok hp
  obtain ⟨hprep', _, hld', _⟩ := plan_ok hp'
  have hpp : pl'.p = pl.p := by
    have : prepare { d with page := { d.page with pageTitle := pt, pageFootnote := pf, pageSource := ps } } = prepare d := rfl
    rw [this, hprep] at hprep'
    exact (Except.ok.inj hprep').symm
  have hll : pl'.ld = { pl.ld with pageTitle := pt, pageFootnote := pf, pageSource := ps } := by
    rw [hpp] at hld'
    unfold mkLDoc at hld hld'
    dsimp only at hld hld'
    obtain ⟨rows, hrows, hld⟩ := Proofs.Encode.bind_ok hld
    obtain ⟨rows', hrows', hld'⟩ := Proofs.Encode.bind_ok hld'
    rw [hrows] at hrows'
    cases Except.ok.inj hrows'
    have e1 := congrArg Prod.fst (Proofs.Encode.pure_ok hld)
    have e2 := congrArg Prod.fst (Proofs.Encode.pure_ok hld')
    dsimp only at e1 e2
    rw [← e1, ← e2]
  rw [pageBlocks_map_snd, pageBlocks_map_snd, hll]
  exact Props.C06.C06_single_page pl.ld pt pf ps (by rw [← pageBlocks_length]; exact h1)

/-! ## what the blocks are rendered to -/

/-- the equations of `renderBlock` for the page-level components -/
theorem C06enc_renderBlock (k : ColorCtx) (d : Doc) (bodyA : TblAttrsOf MatV) (p : Prep)
    (rows : List (List (Option Str))) (pg : PageCtx) (pa : PageAttrs) :
    renderBlock k d bodyA p rows pg pa .brk = (do return [[BlockG.plain (← pageBreak d.page)]]) ∧
    renderBlock k d bodyA p rows pg pa .title = (do return (← textElem k d.title) ++ [[BlockG.plain [Node.nl]]]) ∧
    renderBlock k d bodyA p rows pg pa .subline = textElem k d.subline ∧
    (∀ i, renderBlock k d bodyA p rows pg pa (.colHeader i) =
      match (d.headers[i]?).join with
      | some h => renderHeader k d p (pg.number == 1) i h
      | none => .ok []) ∧
    (∀ a, renderBlock k d bodyA p rows pg pa (.footnote a) =
      match d.footnote with
      | some f => renderFoot k d f pa.fnOverride
      | none => .ok []) ∧
    (∀ a, renderBlock k d bodyA p rows pg pa (.source a) =
      match d.source with
      | some f => renderFoot k d f pa.srcOverride
      | none => .ok []) :=
  ⟨rfl, rfl, rfl, fun _ => rfl, fun _ => rfl, fun _ => rfl⟩

/-- every page-level block of the trace, with the elements it became:
* `.brk`        one element, the page break `pageBreak d.page` (`\page`, paper size, margins);
* `.title`      `textElem k d.title` followed by an empty line;
* `.subline`    `textElem k d.subline`;
* `.colHeader i`  the `i`-th header object exists and was rendered by `renderHeader` (first-page flag of the page);
* `.footnote a` / `.source a`   the component exists and was rendered by `renderFoot` with the page's border override. -/
theorem C06enc_rendered (k : ColorCtx) (d : Doc) (pl : Plan) (R : Trace) (hR : Renders k d pl R)
    (x : PageCtx × List (Block × List Elem)) (hx : x ∈ R) (y : Block × List Elem) (hy : y ∈ x.2) :
    (y.1 = Block.brk → ∃ ns, pageBreak d.page = .ok ns ∧ y.2 = [[BlockG.plain ns]]) ∧
    (y.1 = Block.title → ∃ es, textElem k d.title = .ok es ∧ y.2 = es ++ [[BlockG.plain [Node.nl]]]) ∧
    (y.1 = Block.subline → textElem k d.subline = .ok y.2) ∧
    (∀ i, y.1 = Block.colHeader i → (∃ h, (d.headers[i]?).join = some h ∧
        renderHeader k d pl.p (x.1.number == 1) i h = .ok y.2) ∨ ((d.headers[i]?).join = none ∧ y.2 = [])) ∧
    (∀ a, y.1 = Block.footnote a → (∃ f, d.footnote = some f ∧
        renderFoot k d f (pageAttrs d pl.bodyA pl.p x.1).fnOverride = .ok y.2) ∨ (d.footnote = none ∧ y.2 = [])) ∧
    (∀ a, y.1 = Block.source a → (∃ f, d.source = some f ∧
        renderFoot k d f (pageAttrs d pl.bodyA pl.p x.1).srcOverride = .ok y.2) ∨ (d.source = none ∧ y.2 = [])) := by
  have h := hR.each x hx y hy
  refine ⟨?_, ?_, ?_, ?_, ?_, ?_⟩
  · intro hb
    rw [hb] at h
    simp only [renderBlock] at h
    obtain ⟨ns, hns, h⟩ := Proofs.Encode.bind_ok h
    exact ⟨ns, hns, (Proofs.Encode.pure_ok h).symm⟩
  · intro hb
    rw [hb] at h
    simp only [renderBlock] at h
    obtain ⟨es, hes, h⟩ := Proofs.Encode.bind_ok h
    exact ⟨es, hes, (Proofs.Encode.pure_ok h).symm⟩
  · intro hb
    rw [hb] at h
    exact h
  · intro i hb
    rw [hb] at h
    simp only [renderBlock] at h
    split at h
    · next hdr hh => exact Or.inl ⟨hdr, hh, h⟩
    · next hh => exact Or.inr ⟨hh, (Except.ok.inj h).symm⟩
  · intro a hb
    rw [hb] at h
    simp only [renderBlock] at h
    split at h
    · next f hf => exact Or.inl ⟨f, hf, h⟩
    · next hf => exact Or.inr ⟨hf, (Except.ok.inj h).symm⟩
  · intro a hb
    rw [hb] at h
    simp only [renderBlock] at h
    split at h
    · next f hf => exact Or.inl ⟨f, hf, h⟩
    · next hf => exact Or.inr ⟨hf, (Except.ok.inj h).symm⟩

/-! ## from `encode measure d = .ok g` -/

/-- **C06 for the encoder model.**  For every accepted document there are a plan and a trace (the output is the
trace's elements joined by newlines) such that on the `n`-th page of the trace (0-based, `P` pages): the blocks are in
the required order; title / subline appear once exactly when they have text and `page_title` selects the page;
footnote / source once exactly when present and selected; the column headers exactly on the first page or everywhere
with `pageby_header`; a page break starts every page but the first. -/
theorem C06enc (measure : Measure) (d : Doc) (g : DocG) (h : encode measure d = .ok g) :
    ∃ pl R, plan measure d = .ok pl ∧ Renders (mkColorCtx d) d pl R ∧
      g.blocks = joinElems R.elems ++ [BlockG.plain [Node.nl, Node.nl, Node.nl, Node.nl]] ∧ 0 < R.length ∧
      ∀ n x, R[n]? = some x →
        let bs := x.2.map Prod.fst
        let first := n == 0
        let last := n + 1 == R.length
        x.1.number = n + 1 ∧ x.1.total = R.length ∧
        (bs.map rank).Pairwise (· ≤ ·) ∧
        bs.count Block.title = (if hasText d.title && d.page.pageTitle.shows first last then 1 else 0) ∧
        bs.count Block.subline = (if hasText d.subline && d.page.pageTitle.shows first last then 1 else 0) ∧
        (bs.filter (fun b => match b with | .footnote _ => true | _ => false)) =
          (if footComp d.footnote != .absent && d.page.pageFootnote.shows first last
           then [Block.footnote (footComp d.footnote == .table)] else []) ∧
        (bs.filter (fun b => match b with | .source _ => true | _ => false)) =
          (if footComp d.source != .absent && d.page.pageSource.shows first last
           then [Block.source (footComp d.source == .table)] else []) ∧
        (bs.filterMap (fun b => match b with | .colHeader k => some k | _ => none)) =
          (if d.body.pagebyHeader || first then
            (d.headers.zipIdx.filterMap fun (h : Option Header × Nat) =>
              if headerHasText h.1 || d.body.asColheader then some h.2 else none)
           else []) ∧
        (n = 0 → Block.brk ∉ bs) ∧ (n ≠ 0 → ∃ rest, bs = Block.brk :: rest ∧ Block.brk ∉ rest) := by
  obtain ⟨pl, R, hp, hR, hg⟩ := encode_trace h
  have hlen : R.length = pl.pageBlocks.length := by
    rw [← hR.blocks, Trace.blocks, List.length_map]
  refine ⟨pl, R, hp, hR, hg, by rw [hlen, pageBlocks_length]; exact pages_pos pl.ld, ?_⟩
  intro n x hx
  have hpb : pl.pageBlocks[n]? = some (x.1, x.2.map Prod.fst) := by
    rw [← hR.blocks, Trace.blocks, List.getElem?_map, hx]; rfl
  obtain ⟨h1, h2, _⟩ := C06enc_page_number pl n _ hpb
  dsimp only
  rw [hlen]
  exact ⟨h1, h2, C06enc_order measure d pl hp _ (List.mem_of_getElem? hpb),
    C06enc_title measure d pl hp n _ hpb, C06enc_subline measure d pl hp n _ hpb,
    C06enc_footnote measure d pl hp n _ hpb, C06enc_source measure d pl hp n _ hpb,
    C06enc_col_headers measure d pl hp n _ hpb, (C06enc_break measure d pl hp n _ hpb).1,
    (C06enc_break measure d pl hp n _ hpb).2⟩

/-! ## non-vacuity -/

open Props.C01enc in
/-- five rows on three pages: title on the first page only, footnote (table) on the last, source (paragraph) on all,
column headers repeated -/
def exDoc3 : Doc :=
  { exDoc [1, 2] with
    rows := [[some "x".toList, some "1".toList], [some "y".toList, some "2".toList], [some "z".toList, none],
             [some "n>=3".toList, some "é".toList], [some "w".toList, some "5".toList]],
    page := { exPage with nrow := 4, pageTitle := .first, pageFootnote := .last, pageSource := .all } }

set_option maxRecDepth 100000

open Props.C01enc in
example :
    (match encode exMeasure exDoc3 with | .ok _ => true | .error _ => false) = true ∧
    (match encoderBlocks exMeasure exDoc3 with
     | .ok pbs => pbs.map (·.2) ==
        [[.title, .colHeader 0, .data 0, .data 1, .source false],
         [.brk, .colHeader 0, .data 2, .data 3, .source false],
         [.brk, .colHeader 0, .data 4, .footnote true, .source false]]
     | .error _ => false) = true := by
  refine ⟨by decide +kernel, by decide +kernel⟩

end Props.C06enc
