import Model.Figure
import Model.FigureSpec
import Proofs.Figure
/-!
# C16 — figures are embedded byte-exactly, one per page, at the configured size

Model: `Model/Figure.lean` (`hexLines` = `_binary_to_hex`, `pngDims`, `jpegDims`, `getDim` =
`_get_dimension`, `fmtOfSuffix`, `encodeFigure` = `_encode_single_figure`, `figureLoop` = the page
loop of `_encode_figure_only`); reader side `unhex`, `splitPages`; decidable oracle
`Model/FigureSpec.lean` (`docOk`), the same predicate the harness evaluates on the implementation's
read-back output.

Clause ↔ sentence of the statement:
* `C16_hex_*`      "hexadecimal payload decodes to the file's exact bytes"
* `C16_blip_*`     "tagged with the picture type of its format"
* `C16_png_*`, `C16_jpeg_*`, `C16_pixels_*`   "pixel dimensions read from the image"
  (`C16_pixels_read`, `C16_fallback_only_when_unreadable`, `C16_zero_*_stated`: a field read as 0 is a read value; the
  96-dpi estimate is written only when the parser returns nothing)
* `C16_goal_*`     "display size equal to the configured inches x 1440" (⌊·⌋ on the exact value)
* `C16_dim_*`      "sizes taken positionally and the last value reused when the list is shorter"
* `C16_pages`, `C16_page_count`, `C16_breaks`, `C16_one_pict_in_order`   "one per page in the given order"
* `C16_placement_*` "title, footnote and source accompany exactly the pages selected"
* `C16_doc_ok`     all of the above at once, as the oracle `docOk` on the model's own output
* `Props/C16pos.lean`  "in the given order … positionally", position by position: page `j` shows format, bytes, width
  and height of position `j` and depends on nothing else (a file may be listed several times)
-/
namespace Props.C16
open Model.Figure Proofs.Figure

/-! ## payload -/

/-- every byte list survives `_binary_to_hex` followed by an RTF reader's hex decoding (line
breaks ignored) -/
theorem C16_hex_roundtrip (bs : List Nat) (h : ∀ b ∈ bs, b < 256) : unhex (hexLines bs) = some bs :=
  unhex_hexLines bs h

/-- the same over `UInt8`, where "byte" needs no side condition -/
theorem C16_hex_roundtrip_bytes (bs : List UInt8) :
    unhex (hexLines (bs.map UInt8.toNat)) = some (bs.map UInt8.toNat) := by
  apply unhex_hexLines
  intro b hb
  obtain ⟨u, _, rfl⟩ := List.mem_map.mp hb
  exact UInt8.toNat_lt u

/-- the line breaks are the only thing `_binary_to_hex` adds to `bytes.hex()` -/
theorem C16_hex_lines_only_breaks (bs : List Nat) :
    (hexLines bs).filter (fun c => !isSkip c) = hexString bs := by
  simp only [hexLines]
  rw [filter_joinNl, chunks_flatten lineLength (by decide) _ _ (Nat.le_refl _)]
  exact List.filter_eq_self.mpr (noSkip_hexString bs)

/-! ## PNG header -/

/-- `len > 24 ∧ signature → dims = (be32 bs[16..20], be32 bs[20..24])` -/
theorem C16_png_fields (pre rest : List Nat) (a0 a1 a2 a3 b0 b1 b2 b3 : Nat)
    (hpre : pre.length = 16) (hsig : pre.take 8 = pngSig) (hrest : rest ≠ []) :
    pngDims (pre ++ [a0, a1, a2, a3, b0, b1, b2, b3] ++ rest) =
      some (((a0 * 256 + a1) * 256 + a2) * 256 + a3, ((b0 * 256 + b1) * 256 + b2) * 256 + b3) :=
  pngDims_fields pre rest a0 a1 a2 a3 b0 b1 b2 b3 hpre hsig hrest

/-- every valid header (signature, 8 bytes, width, height < 2^32 big-endian, one more byte)
yields exactly its width and height -/
theorem C16_png_valid (bs : List Nat) (w h : Nat) (hv : ValidPng bs w h) : pngDims bs = some (w, h) :=
  pngDims_valid bs w h hv

/-- 24 bytes or fewer, or another signature: no dimensions (the 96-dpi fallback applies) -/
theorem C16_png_none (bs : List Nat) (h : ¬ (24 < bs.length ∧ bs.take 8 = pngSig)) : pngDims bs = none := by
  simp [pngDims, h]

/-! ## JPEG scanner -/

/-- termination / progress: with fuel = data length the loop never runs out of fuel, for any
input whatsoever (every iteration consumes at least one byte) -/
theorem C16_jpeg_terminates (bs : List Nat) (h : 10 ≤ bs.length) :
    jpegScan bs.length (bs.drop 2) ≠ .outOfFuel :=
  jpegScan_fuel _ _ (by simp; omega)

/-- more fuel never changes the answer -/
theorem C16_jpeg_fuel_irrelevant (fuel : Nat) (rest : List Nat) (h : rest.length < fuel) :
    jpegScan (fuel + 1) rest = jpegScan fuel rest :=
  jpegScan_succ fuel rest h

/-- SOI; then any well-formed non-SOF marker segments and stand-alone markers (TEM, RSTn), each
optionally preceded by fill bytes `FF`, and stray non-`FF` bytes; then — again after any number of
fill bytes — a frame header with at least 10 bytes from its marker on: the scanner returns that
header's width and height -/
theorem C16_jpeg_sof (bs : List Nat) (w h : Nat) (hv : ValidJpeg bs w h) : jpegDims bs = some (w, h) :=
  jpegDims_valid bs w h hv

/-- … and nothing when fewer than 10 bytes follow the last well-formed item (no frame header, or
one cut off before its 10th byte — the precondition `i < len - 9` of the code) -/
theorem C16_jpeg_no_sof (items : List JpegItem) (hok : ∀ it ∈ items, it.WellFormed) (tail : List Nat)
    (htail : tail.length ≤ 9) :
    jpegDims ([0xFF, 0xD8] ++ items.flatMap JpegItem.bytes ++ tail) = none :=
  jpegDims_none items hok tail htail

theorem C16_jpeg_short (bs : List Nat) (h : bs.length < 10 ∨ bs.take 2 ≠ [0xFF, 0xD8]) :
    jpegDims bs = none := by
  simp [jpegDims, h]

/-! ## no header window: metadata of any size in front of the frame header, data of any size behind

`jpegDims` / `pngDims` walk the whole byte list — there is no bound on where the dimension-bearing
structure may stand. `C16_jpeg_sof` already quantifies over item lists of any length with payloads
of any length; the theorems below say so explicitly. -/

/-- Whatever well-formed marker segments (APPn / COM / DQT / DHT …, each of any length up to the
65535 the length field can express, and as many as one likes), stand-alone markers and fill bytes
are put between SOI and the rest of the stream, the answer is that of the stream without them: the
same frame header is found, or none in both. -/
theorem C16_jpeg_prefix_irrelevant (items : List JpegItem) (hok : ∀ it ∈ items, it.WellFormed)
    (R : List Nat) :
    jpegDims ([0xFF, 0xD8] ++ items.flatMap JpegItem.bytes ++ R) = jpegDims ([0xFF, 0xD8] ++ R) :=
  jpegDims_prefix_irrelevant items hok R

/-- The frame header is found at every offset `2 + 65537·k`: after `k` maximum-length segments
(length field `FF FF`, 65533 payload bytes each — e.g. an ICC profile split over APP2 segments),
for every `k`. No prefix of the file of a fixed size ("header window") contains the frame header
of all files. -/
theorem C16_jpeg_sof_at_any_offset (m : Nat) (hm : m ≠ 0xFF ∧ isStandalone m = false ∧ isSof m = false)
    (payloads : List (List Nat)) (hp : ∀ p ∈ payloads, p.length = 65533)
    (sm l1 l2 pr w h : Nat) (rest : List Nat) (hs : isSof sm = true) (hrest : rest ≠ []) :
    ([0xFF, 0xD8] ++ payloads.flatMap (fun p => 0xFF :: m :: 0xFF :: 0xFF :: p)).length
      = 2 + 65537 * payloads.length ∧
    jpegDims ([0xFF, 0xD8] ++ payloads.flatMap (fun p => 0xFF :: m :: 0xFF :: 0xFF :: p) ++
      [0xFF, sm, l1, l2, pr, h / 256, h % 256, w / 256, w % 256] ++ rest) = some (w, h) := by
  constructor
  · have : (payloads.flatMap (fun p => 0xFF :: m :: 0xFF :: 0xFF :: p)).length = 65537 * payloads.length := by
      induction payloads with
      | nil => rfl
      | cons p ps ih =>
        have h1 := hp p (by simp)
        have h2 := ih (fun q hq => hp q (by simp [hq]))
        simp only [List.flatMap_cons, List.length_append, List.length_cons, h1, h2]
        omega
    simp only [List.length_append, this]
    rfl
  · apply jpegDims_valid
    refine ⟨payloads.map (fun p => JpegItem.seg 0 m 0xFF 0xFF p), 0, sm, l1, l2, pr, rest, ?_, hs, hrest, ?_⟩
    · intro it hit
      obtain ⟨p, hpm, rfl⟩ := List.mem_map.mp hit
      exact ⟨hm.1, hm.2.1, hm.2.2, by rw [hp p hpm]⟩
    · have e : (payloads.map (fun p => JpegItem.seg 0 m 0xFF 0xFF p)).flatMap JpegItem.bytes =
          payloads.flatMap (fun p => 0xFF :: m :: 0xFF :: 0xFF :: p) := by
        induction payloads with
        | nil => rfl
        | cons p ps ih =>
          simp only [List.map_cons, List.flatMap_cons, ih (fun q hq => hp q (by simp [hq]))]
          simp [JpegItem.bytes]
      rw [e]
      simp

/-- image data of any size behind the frame header changes nothing: what was found stays found -/
theorem C16_jpeg_tail_irrelevant (bs tail : List Nat) (d : Nat × Nat) (hd : jpegDims bs = some d) :
    jpegDims (bs ++ tail) = some d :=
  jpegDims_append bs tail d hd

/-- PNG: IHDR is the first chunk; ancillary chunks and image data of any size behind the first 25
bytes change nothing -/
theorem C16_png_tail_irrelevant (bs tail : List Nat) (h : 24 < bs.length) :
    pngDims (bs ++ tail) = pngDims bs :=
  pngDims_append bs tail h

/-- … whereas cutting a JPEG anywhere before the 10th byte of its frame header (what a header
window shorter than the metadata does) loses the dimensions: the first `n` bytes of
SOI + well-formed items + frame header, `n` ending inside the first 9 bytes of the header or
earlier at an item boundary, yield nothing -/
theorem C16_jpeg_cut_before_header_loses (items : List JpegItem) (hok : ∀ it ∈ items, it.WellFormed)
    (hdr : List Nat) (n : Nat) (hn : n ≤ 9) :
    jpegDims ([0xFF, 0xD8] ++ items.flatMap JpegItem.bytes ++ hdr.take n) = none :=
  jpegDims_none items hok (hdr.take n) (by simp [List.length_take]; omega)

/-! ## picture type -/

theorem C16_blip_of_suffix (sfx : List Char) :
    (sfx.map asciiLower = ['.', 'p', 'n', 'g'] →
      (fmtOfSuffix sfx).map blipWord = some ['p', 'n', 'g', 'b', 'l', 'i', 'p']) ∧
    (sfx.map asciiLower = ['.', 'j', 'p', 'g'] →
      (fmtOfSuffix sfx).map blipWord = some ['j', 'p', 'e', 'g', 'b', 'l', 'i', 'p']) ∧
    (sfx.map asciiLower = ['.', 'j', 'p', 'e', 'g'] →
      (fmtOfSuffix sfx).map blipWord = some ['j', 'p', 'e', 'g', 'b', 'l', 'i', 'p']) ∧
    (sfx.map asciiLower = ['.', 'e', 'm', 'f'] →
      (fmtOfSuffix sfx).map blipWord = some ['e', 'm', 'f', 'b', 'l', 'i', 'p']) := by
  refine ⟨?_, ?_, ?_, ?_⟩ <;> intro h <;> simp [fmtOfSuffix, h, blipWord]

/-- whenever the suffix is in the table, the emitted keyword is the one the specification's own
table (`wantBlip`) demands -/
theorem C16_blip_matches_spec (sfx : List Char) (f : Fmt) (bs : List Nat) (w h : Size)
    (hf : fmtOfSuffix sfx = some f) :
    wantBlip sfx = some (blipWord (encodeFigure f bs w h).fmt) :=
  wantBlip_of_fmt sfx f hf

/-! ## pixel size and display size of one picture -/

theorem C16_pixels_from_header (sfx : List Char) (f : Fmt) (bs : List Nat) (t : Nat × Nat) (w h : Size)
    (hf : fmtOfSuffix sfx = some f) (hs : HeaderStates sfx bs t) :
    (encodeFigure f bs w h).picw = t.1 ∧ (encodeFigure f bs w h).pich = t.2 := by
  simp [encodeFigure, imageDims_of_header sfx f bs t hf hs]

/-- without readable dimensions the 96-dpi estimate `int(w*96)`, `int(h*96)` is written -/
theorem C16_pixels_fallback (f : Fmt) (bs : List Nat) (w h : Size) (hn : imageDims f bs = none) :
    (encodeFigure f bs w h).picw = truncMul w 96 ∧ (encodeFigure f bs w h).pich = truncMul h 96 := by
  simp [encodeFigure, hn]

/-- whatever the parser reads is written — every value of either field, `0` included: a dimension that was
READ as zero is not "could not be read" (`imageDims` answers `some (w, 0)`, not `none`), whatever the display size -/
theorem C16_pixels_read (f : Fmt) (bs : List Nat) (d : Nat × Nat) (w h : Size) (hd : imageDims f bs = some d) :
    (encodeFigure f bs w h).picw = d.1 ∧ (encodeFigure f bs w h).pich = d.2 := by
  simp [encodeFigure, hd]

/-- the two cases are exhaustive and exclusive: the pair written is the pair read, or — ONLY when the parser
returns nothing — the 96-dpi estimate -/
theorem C16_pixels_read_or_fallback (f : Fmt) (bs : List Nat) (w h : Size) :
    (∃ d, imageDims f bs = some d ∧ (encodeFigure f bs w h).picw = d.1 ∧ (encodeFigure f bs w h).pich = d.2) ∨
    (imageDims f bs = none ∧ (encodeFigure f bs w h).picw = truncMul w 96 ∧
      (encodeFigure f bs w h).pich = truncMul h 96) := by
  cases hd : imageDims f bs with
  | none => exact Or.inr ⟨rfl, C16_pixels_fallback f bs w h hd⟩
  | some d => exact Or.inl ⟨d, rfl, C16_pixels_read f bs d w h hd⟩

/-- **the fallback is used only when the parser returns nothing**: if either number written differs from the number
read on that axis — each axis on its own —, nothing was read at all -/
theorem C16_fallback_only_when_unreadable (f : Fmt) (bs : List Nat) (w h : Size)
    (hne : ∀ d, imageDims f bs = some d → (encodeFigure f bs w h).picw ≠ d.1 ∨ (encodeFigure f bs w h).pich ≠ d.2) :
    imageDims f bs = none := by
  cases hd : imageDims f bs with
  | none => rfl
  | some d =>
    have := C16_pixels_read f bs d w h hd
    rcases hne d hd with h1 | h2
    · exact absurd this.1 h1
    · exact absurd this.2 h2

/-- the written size does not depend on the display size once the header is read (so no estimate enters, on
either axis) -/
theorem C16_pixels_read_size_irrelevant (f : Fmt) (bs : List Nat) (d : Nat × Nat) (w h w' h' : Size)
    (hd : imageDims f bs = some d) :
    (encodeFigure f bs w h).picw = (encodeFigure f bs w' h').picw ∧
    (encodeFigure f bs w h).pich = (encodeFigure f bs w' h').pich := by
  simp [encodeFigure, hd]

/-- a JPEG frame header with `Y = 0` (number of lines deferred to a DNL segment, ITU T.81 B.2.2) or `X = 0`, a PNG
IHDR with a zero field: the zero is what is written, next to the other axis' stated value -/
theorem C16_zero_height_stated (sfx : List Char) (f : Fmt) (bs : List Nat) (tw : Nat) (w h : Size)
    (hf : fmtOfSuffix sfx = some f) (hs : HeaderStates sfx bs (tw, 0)) :
    (encodeFigure f bs w h).picw = tw ∧ (encodeFigure f bs w h).pich = 0 :=
  C16_pixels_from_header sfx f bs (tw, 0) w h hf hs

theorem C16_zero_width_stated (sfx : List Char) (f : Fmt) (bs : List Nat) (th : Nat) (w h : Size)
    (hf : fmtOfSuffix sfx = some f) (hs : HeaderStates sfx bs (0, th)) :
    (encodeFigure f bs w h).picw = 0 ∧ (encodeFigure f bs w h).pich = th :=
  C16_pixels_from_header sfx f bs (0, th) w h hf hs

/-- `\picwgoal = ⌊w·1440⌋`, `\pichgoal = ⌊h·1440⌋` on the exact value `num/den` of the float -/
theorem C16_goal_floor (f : Fmt) (bs : List Nat) (w h : Size) (hw : 0 < w.den) (hh : 0 < h.den) :
    let p := encodeFigure f bs w h
    (p.wgoal * w.den ≤ w.num * 1440 ∧ w.num * 1440 < (p.wgoal + 1) * w.den) ∧
    (p.hgoal * h.den ≤ h.num * 1440 ∧ h.num * 1440 < (p.hgoal + 1) * h.den) :=
  ⟨truncMul_floor w 1440 hw, truncMul_floor h 1440 hh⟩

/-- the oracle clause `goalOk` accepts the floor and nothing else -/
theorem C16_goal_unique (s : Size) (k g : Nat) (hd : 0 < s.den) : goalOk s k g = true ↔ g = truncMul s k :=
  goalOk_iff s k g hd

/-! ## per-figure sizes -/

theorem C16_dim_positional {α} (l : List α) (i : Nat) (h : i < l.length) : getDim l i = some l[i] :=
  getDim_lt l i h

theorem C16_dim_last_reused {α} (l : List α) (i : Nat) (h : l.length ≤ i) (hne : l ≠ []) :
    getDim l i = some (l.getLast hne) :=
  getDim_ge l i h hne

/-! ## the page loop -/

/-- reading the emitted sequence back page by page gives exactly the per-figure page bodies -/
theorem C16_pages (cfg : Cfg) (ps : List Pict) (hne : ps ≠ []) :
    splitPages (figureLoop cfg ps) = bodiesFrom cfg ps.length 0 ps :=
  splitPages_loopFrom cfg ps.length ps 0 hne (by simp)

theorem C16_page_count (cfg : Cfg) (ps : List Pict) (hne : ps ≠ []) :
    (splitPages (figureLoop cfg ps)).length = ps.length := by
  rw [C16_pages cfg ps hne, bodiesFrom_length]

/-- n figures, n − 1 page breaks -/
theorem C16_breaks (cfg : Cfg) (ps : List Pict) (hne : ps ≠ []) :
    (figureLoop cfg ps).count Piece.pageBreak + 1 = ps.length :=
  count_break_loopFrom cfg ps.length ps 0 hne (by simp)

/-- page `j` is the body built for figure `j` -/
theorem C16_page_j (cfg : Cfg) (ps : List Pict) (j : Nat) (hj : j < ps.length) :
    (splitPages (figureLoop cfg ps))[j]? = some (pageBody cfg ps.length j ps[j]) := by
  have hne : ps ≠ [] := by intro h; simp [h] at hj
  rw [C16_pages cfg ps hne, bodiesFrom_getElem?]
  simp [hj]

/-- exactly one picture on page `j`, and it is the `j`-th figure -/
theorem C16_one_pict_in_order (cfg : Cfg) (ps : List Pict) (j : Nat) (hj : j < ps.length) :
    ∃ page, (splitPages (figureLoop cfg ps))[j]? = some page ∧
      page.filterMap pictOf = [obsOfPict ps[j]] := by
  refine ⟨_, C16_page_j cfg ps j hj, ?_⟩
  have := picts_pageBody cfg ps.length j ps[j]
  simpa [obsPage] using this

/-- title / subline / footnote / source are on page `j` of `n` exactly when configured:
`first` ↔ `j = 0`, `last` ↔ `j + 1 = n`, `all` ↔ always; the subline follows `page_title` -/
theorem C16_placement (cfg : Cfg) (n j : Nat) (p : Pict) :
    (Piece.title ∈ pageBody cfg n j p ↔
      (cfg.hasTitle && shows cfg.pageTitle (j == 0) (j + 1 == n)) = true) ∧
    (Piece.subline ∈ pageBody cfg n j p ↔
      (cfg.hasSubline && shows cfg.pageTitle (j == 0) (j + 1 == n)) = true) ∧
    (Piece.footnote ∈ pageBody cfg n j p ↔
      (cfg.hasFootnote && shows cfg.pageFootnote (j == 0) (j + 1 == n)) = true) ∧
    (Piece.source ∈ pageBody cfg n j p ↔
      (cfg.hasSource && shows cfg.pageSource (j == 0) (j + 1 == n)) = true) := by
  simp only [pageBody]
  generalize (cfg.hasTitle && shows cfg.pageTitle (j == 0) (j + 1 == n)) = T
  generalize (cfg.hasSubline && shows cfg.pageTitle (j == 0) (j + 1 == n)) = S
  generalize (cfg.hasFootnote && shows cfg.pageFootnote (j == 0) (j + 1 == n)) = F
  generalize (cfg.hasSource && shows cfg.pageSource (j == 0) (j + 1 == n)) = R
  cases T <;> cases S <;> cases F <;> cases R <;> simp

theorem C16_shows (isFirst isLast : Bool) :
    shows .first isFirst isLast = isFirst ∧ shows .last isFirst isLast = isLast ∧
    shows .all isFirst isLast = true := ⟨rfl, rfl, rfl⟩

/-- no caption twice on a page -/
theorem C16_placement_counts (cfg : Cfg) (n j : Nat) (p : Pict) :
    countTag .pict (obsPage (pageBody cfg n j p)) = 1 ∧
    countTag .title (obsPage (pageBody cfg n j p)) = expectCount cfg.hasTitle cfg.pageTitle n j ∧
    countTag .footnote (obsPage (pageBody cfg n j p)) = expectCount cfg.hasFootnote cfg.pageFootnote n j ∧
    countTag .source (obsPage (pageBody cfg n j p)) = expectCount cfg.hasSource cfg.pageSource n j :=
  counts_pageBody cfg n j p

/-! ## the whole document -/

/-- For every figure document the model encodes (any number ≥ 1 of files with table suffixes,
any bytes, any non-empty size lists of any length, any placement and component combination) the
read-back observation of the output satisfies the complete C16 oracle — the predicate the harness
evaluates on the implementation's real output. `tr` lists, per figure, the pixel size its header
states when that header is valid for the suffix's format (no pixel claim otherwise). -/
theorem C16_doc_ok (figsT : List (FigSrc × Option (Nat × Nat))) (ws hs : List Size) (cfg : Cfg)
    (pieces : List Piece)
    (henc : encodeDoc { figs := figsT.map (·.1), widths := ws, heights := hs, cfg := cfg } = .ok pieces)
    (hbytes : ∀ ft ∈ figsT, ∀ b ∈ ft.1.bytes, b < 256)
    (hw : ∀ s ∈ ws, 0 < s.den) (hh : ∀ s ∈ hs, 0 < s.den)
    (htruth : ∀ ft ∈ figsT, ∀ t, ft.2 = some t → HeaderStates ft.1.suffix ft.1.bytes t) :
    docOk cfg (wantsFrom ws hs 0 figsT) (observe pieces) = true := by
  simp only [encodeDoc] at henc
  split at henc
  · cases henc
  · rename_i hne
    split at henc
    · cases henc
    · rename_i fs hfs
      split at henc
      · cases henc
      · rename_i ps hps
        injection henc with henc
        subst henc
        have hmain := pagesOk_model cfg ps.length ws hs figsT 0 fs ps hfs hps hbytes hw hh htruth
        have hpsne : ps ≠ [] := by
          intro h
          subst h
          have hl := hmain.1
          cases figsT with
          | nil => simp at hne
          | cons ft rest =>
            obtain ⟨f, tr⟩ := ft
            simp only [List.map_cons, readFormats] at hfs
            split at hfs
            · rename_i fm r hfm hr
              injection hfs with hfs
              subst hfs
              simp only [encodePicts] at hps
              split at hps <;> cases hps
            · cases hfs
        simp only [docOk, observe, C16_pages cfg ps hpsne, hmain.1]
        exact hmain.2

/-! ## the theorems are not vacuous: a two-figure document (a valid 3×2 PNG and a JPEG with one
APP0 segment, a restart marker and fill bytes before a 5×4 baseline frame header) with sizes `[2.5]` × `[1, 3]`, title on the last
page, footnote on all pages, source on the first page -/

def exPng : List Nat :=
  pngSig ++ [0, 0, 0, 13, 0x49, 0x48, 0x44, 0x52] ++ [0, 0, 0, 3] ++ [0, 0, 0, 2] ++ [8, 2, 0, 0, 0, 1, 2, 3, 4]

def exJpeg : List Nat :=
  [0xFF, 0xD8] ++ [0xFF, 0xFF, 0xE0, 0, 4, 0x4A, 0x46] ++ [0xFF, 0xD0] ++
    [0xFF, 0xFF, 0xFF, 0xC0, 0, 11, 8, 0, 4, 0, 5] ++ [1, 1, 0x11, 0, 0xFF, 0xD9]

def exCfg : Cfg :=
  { pageTitle := .last, pageFootnote := .all, pageSource := .first,
    hasTitle := true, hasSubline := true, hasFootnote := true, hasSource := true }

example : pngDims exPng = some (3, 2) := by decide
example : jpegDims exJpeg = some (5, 4) := by decide
example : ValidPng exPng 3 2 :=
  ⟨[0, 0, 0, 13, 0x49, 0x48, 0x44, 0x52], [8, 2, 0, 0, 0, 1, 2, 3, 4], by decide, by decide, by decide,
    by decide, by decide⟩
example : ValidJpeg exJpeg 5 4 :=
  ⟨[.seg 1 0xE0 0 4 [0x4A, 0x46], .standalone 0 0xD0], 2, 0xC0, 0, 11, 8, [1, 1, 0x11, 0, 0xFF, 0xD9],
    by
      intro it hit
      simp at hit
      rcases hit with rfl | rfl
      · exact ⟨by decide, by decide, by decide, by decide⟩
      · show isStandalone 0xD0 = true
        decide,
    by decide, by decide, by decide⟩
example : unhex (hexLines exJpeg) = some exJpeg := by decide

/-- a baseline JPEG whose frame header states 1728 samples per line and `Y = 0` lines, the line count following in a
DNL segment (`FF DC 00 04 04 4C`) after the scan -/
def exJpegDnl : List Nat :=
  [0xFF, 0xD8] ++ [0xFF, 0xC0, 0, 11, 8, 0, 0, 6, 192] ++ [1, 0x11, 0, 0xFF, 0xDC, 0, 4, 4, 0x4C, 0xFF, 0xD9]

/-- a PNG whose IHDR states width 0 and height 2^32 - 1 -/
def exPngEdge : List Nat :=
  pngSig ++ [0, 0, 0, 13, 0x49, 0x48, 0x44, 0x52] ++ [0, 0, 0, 0] ++ [255, 255, 255, 255] ++ [8, 2, 0, 0, 0]

example : ValidJpeg exJpegDnl 1728 0 :=
  ⟨[], 0, 0xC0, 0, 11, 8, [1, 0x11, 0, 0xFF, 0xDC, 0, 4, 4, 0x4C, 0xFF, 0xD9], by simp, by decide, by decide,
    by decide⟩
example : imageDims .jpeg exJpegDnl = some (1728, 0) := by decide
example : ValidPng exPngEdge 0 4294967295 :=
  ⟨[0, 0, 0, 13, 0x49, 0x48, 0x44, 0x52], [8, 2, 0, 0, 0], by decide, by decide, by decide, by decide, by decide⟩
/-- at 4.5 in × 3 in the 96-dpi estimate would be 432 × 288; the stated 1728 × 0 and 0 × (2^32-1) are written -/
example : ((encodeFigure .jpeg exJpegDnl ⟨9, 2⟩ ⟨3, 1⟩).picw, (encodeFigure .jpeg exJpegDnl ⟨9, 2⟩ ⟨3, 1⟩).pich) =
    (1728, 0) := by decide
example : ((encodeFigure .png exPngEdge ⟨9, 2⟩ ⟨3, 1⟩).picw, (encodeFigure .png exPngEdge ⟨9, 2⟩ ⟨3, 1⟩).pich) =
    (0, 4294967295) := by decide
example : ((encodeFigure .emf exPngEdge ⟨9, 2⟩ ⟨3, 1⟩).picw, (encodeFigure .emf exPngEdge ⟨9, 2⟩ ⟨3, 1⟩).pich) =
    (432, 288) := by decide

example :
    (match encodeDoc { figs := [⟨['.', 'P', 'n', 'g'], exPng⟩, ⟨['.', 'j', 'p', 'e', 'g'], exJpeg⟩],
                       widths := [⟨5, 2⟩], heights := [⟨1, 1⟩, ⟨3, 1⟩], cfg := exCfg } with
     | .ok ps => (observe ps).map (fun pg => (pg.tags, pg.picts.map (fun p => (p.picw, p.pich, p.wgoal, p.hgoal))))
     | _ => []) =
    [([.pict, .footnote, .source], [(3, 2, 3600, 1440)]),
     ([.title, .subline, .pict, .footnote], [(5, 4, 3600, 4320)])] := by decide

end Props.C16
