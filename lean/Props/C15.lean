import Model.Interleave
import Proofs.Interleave
/-!
# C15 — concurrent encodes do not interfere

"When several documents are encoded at the same time on different threads, each call returns
exactly the string it returns when run alone, for every interleaving of the calls."

Model: `Model.Interleave` — `n` threads, each a program over the shared-state events of one
`rtf_encode()` (`register`/`getStrategy` on the class-level strategy registry, `setCtx`/`lookup`/
`clearCtx` on the colour context, `emit` for purely local work), small-step interleaving
semantics `run mode schedule`.  `CtxMode.Local` is the current code (colour context in a
`ContextVar`, one cell per thread), `CtxMode.Global` the code before commit 981b773 (one cell per
process).  The strategy registry is shared in both modes.

All statements are for an arbitrary number of threads, arbitrary programs and an arbitrary
schedule (any length, any number of preemptions, fair or not; scheduling a finished or
non-existent thread is a stutter step).  Because the schedule is arbitrary they hold at every
prefix of every execution.  Hypotheses on the programs (both are facts about what
`UnifiedRTFEncoder.__init__`/`encode` execute, checked on the logged events of every real run):
every `register` writes the class that belongs to its name (`canonicalB`), and the thread under
observation reads only registry keys it has registered itself (`freeGets p = []`).

Limits (not expressible in this model): preemption *inside* one shared access (bytecode level),
free-threaded CPython, races inside C extensions (polars, Pillow).
-/
namespace Props.C15
open Model.Interleave Proofs.Interleave

/-- **Frame lemma.** A step of thread `j` does not change the local state of thread `i ≠ j`
(either mode; in `Global` mode the damage is done through the shared cell, not here). -/
theorem C15_frame (m : CtxMode) (i j : Nat) (σ : State) (h : i ≠ j) :
    (step m j σ).threads[i]? = σ.threads[i]? :=
  step_frame m i j σ h

/-- **Exact non-interference (current code).**  After any schedule, thread `i` of the pool is in
exactly the local state (rest of program, own colour cell, outputs) it reaches alone after as
many steps as the schedule gave it — whatever the other threads are and did, whatever the
registry contained at the start of either run. -/
theorem C15_local_exact (canon : Name → Cls) (r₀ r₀' : Registry) (progs : List (List Ev))
    (sched : List Nat) (i : Nat) (p : List Ev)
    (hp : progs[i]? = some p)
    (hcan : ∀ q ∈ progs, canonicalB canon q = true) (hfree : freeGets p = []) :
    (run .Local sched (init r₀ progs)).threads[i]? =
      (soloState .Local r₀' p (sched.count i)).threads[0]? := by
  obtain ⟨⟨t, h1, h2, _⟩, _⟩ :=
    sim_run canon i sched _ _ (sim_init canon r₀ r₀' progs i p hp hcan hfree)
  unfold soloState
  rw [h1, h2]
  rfl

/-- **Safety at every point of every execution (current code).**  What thread `i` has produced
so far is an initial part of what it produces alone. -/
theorem C15_local_prefix (canon : Name → Cls) (r₀ r₀' : Registry) (progs : List (List Ev))
    (sched : List Nat) (i : Nat) (p : List Ev)
    (hp : progs[i]? = some p)
    (hcan : ∀ q ∈ progs, canonicalB canon q = true) (hfree : freeGets p = []) :
    outOf (run .Local sched (init r₀ progs)) i <+: solo .Local r₀' p := by
  have h := C15_local_exact canon r₀ r₀' progs sched i p hp hcan hfree
  have : outOf (run .Local sched (init r₀ progs)) i =
      outOf (soloState .Local r₀' p (sched.count i)) 0 := by
    simp only [outOf, h]
  rw [this]
  exact soloState_out_prefix .Local r₀' p _

/-- **The property (current code).**  Once the schedule has let thread `i` finish (it was
scheduled at least as often as its program is long — no fairness towards the others needed),
its output equals its output when run alone. -/
theorem C15_local_complete (canon : Name → Cls) (r₀ r₀' : Registry) (progs : List (List Ev))
    (sched : List Nat) (i : Nat) (p : List Ev)
    (hp : progs[i]? = some p)
    (hcan : ∀ q ∈ progs, canonicalB canon q = true) (hfree : freeGets p = [])
    (hdone : p.length ≤ sched.count i) :
    outOf (run .Local sched (init r₀ progs)) i = solo .Local r₀' p := by
  have h := C15_local_exact canon r₀ r₀' progs sched i p hp hcan hfree
  rw [soloState_saturates .Local r₀' p _ hdone] at h
  simp only [outOf, solo, h]

/-- The same two facts through the decidable predicate the driver evaluates on logged real
runs (`notInterfered`). -/
theorem C15_local_spec (canon : Name → Cls) (r₀ r₀' : Registry) (progs : List (List Ev))
    (sched : List Nat) (i : Nat) (p : List Ev)
    (hp : progs[i]? = some p)
    (hwf : ∀ q ∈ progs, wfB canon q = true) :
    notInterfered (solo .Local r₀' p) (decide (p.length ≤ sched.count i))
      (outOf (run .Local sched (init r₀ progs)) i) = true := by
  have hcan : ∀ q ∈ progs, canonicalB canon q = true := by
    intro q hq
    have := hwf q hq
    simp only [wfB, Bool.and_eq_true] at this
    exact this.1
  have hfree : freeGets p = [] := by
    have := hwf p (List.mem_of_getElem? hp)
    simp only [wfB, Bool.and_eq_true, List.isEmpty_iff] at this
    exact this.2
  unfold notInterfered
  by_cases hd : p.length ≤ sched.count i
  · simp [hd, C15_local_complete canon r₀ r₀' progs sched i p hp hcan hfree hd]
  · simp only [hd, decide_false, Bool.false_eq_true, ↓reduceIte]
    exact (isPrefixB_iff _ _).2 (C15_local_prefix canon r₀ r₀' progs sched i p hp hcan hfree)

/-! ## what the repair bought: the same statement is false for the process-global cell -/

/-- the statement of `C15_local_prefix`/`C15_local_spec` for the old, process-global colour cell -/
def C15_global_full : Prop :=
  ∀ (canon : Name → Cls) (r₀ r₀' : Registry) (progs : List (List Ev)) (sched : List Nat)
    (i : Nat) (p : List Ev),
    progs[i]? = some p → (∀ q ∈ progs, wfB canon q = true) →
    notInterfered (solo .Global r₀' p) (decide (p.length ≤ sched.count i))
      (outOf (run .Global sched (init r₀ progs)) i) = true

/-- two documents: palette {2,5} and palette {5,9}; both use colour 5 (index 2 in the first
document's table, index 1 in the second's) -/
def witnessProgs : List (List Ev) := [encodeProg [2, 5] [0] [5], encodeProg [5, 9] [0] [5]]

/-- one preemption: thread 0 is parked after `set_document_context`, thread 1 encodes
completely, thread 0 resumes -/
def witnessSched : List Nat := List.replicate 4 0 ++ List.replicate 7 1 ++ List.replicate 3 0

/-- **Sensitivity / negation witness.** With one colour cell per process, two threads and a
single preemption are enough: thread 1's `clear` wipes thread 0's context, thread 0 then writes
the master index 5 instead of its table position 2. -/
theorem C15_global_witness : ¬ C15_global_full := by
  intro h
  have := h id [] [] witnessProgs witnessSched 0 (encodeProg [2, 5] [0] [5]) rfl (by decide)
  revert this
  decide

/-- the variant in which thread 1 is itself preempted before its `clear`: thread 0 resolves its
colour against thread 1's palette (index 1 instead of 2) — a *valid-looking* wrong colour -/
theorem C15_global_witness_wrong_palette :
    outOf (run .Global (List.replicate 4 0 ++ List.replicate 4 1 ++ List.replicate 3 0 ++
        List.replicate 3 1) (init [] witnessProgs)) 0 = [.strat (some 0), .idx 1] ∧
    solo .Global [] (encodeProg [2, 5] [0] [5]) = [.strat (some 0), .idx 2] := by
  decide

/-- the registry hypothesis is needed: if another thread re-registers a strategy name with a
different class while an encode is between its own registration and its read, the encode gets
the foreign class even though the colour state is per-thread -/
theorem C15_registry_override_interferes :
    outOf (run .Local [0, 0, 0, 0, 1, 0, 0, 0] (init []
        [encodeProg [2] [0] [2], [.register 0 7]])) 0 ≠ solo .Local [] (encodeProg [2] [0] [2]) := by
  decide

/-! ## non-vacuity -/

/-- the hypotheses hold of a non-trivial pool (three encodes with different palettes and
strategies), and under the very schedules that break the global variant the local variant
returns the solo outputs -/
example :
    (∀ q ∈ witnessProgs ++ [encodeProg [9, 0, 3] [2, 1] [3, 9, 0, 4]], wfB id q = true) ∧
    outOf (run .Local witnessSched (init [] witnessProgs)) 0 = solo .Local [] (encodeProg [2, 5] [0] [5]) ∧
    solo .Local [] (encodeProg [2, 5] [0] [5]) = [.strat (some 0), .idx 2] ∧
    solo .Local [(0, 0)] (encodeProg [9, 0, 3] [2, 1] [3, 9, 0, 4]) =
      [.strat (some 2), .strat (some 1), .idx 1, .idx 2, .idx 0, .idx 0] := by
  decide

/-- **Why the single-threaded test suite never saw the old defect.**  Even with the
process-wide colour cell, the schedule without preemption (every thread in turn runs to
completion) gives every thread its solo output — for any number of threads whose programs read
only registry keys they wrote themselves and leave the cell cleared (`set … clear`, which is what
`encode` does on the normal path).  Interference needs a preemption; only a scheduler finds it. -/
theorem C15_global_sequential (r₀ r₀' : Registry) (progs : List (List Ev))
    (hfree : ∀ q ∈ progs, freeGets q = []) (hclosed : ∀ q ∈ progs, cellAfter none q = none)
    (i : Nat) (p : List Ev) (hp : progs[i]? = some p) :
    outOf (run .Global (seqSchedule progs) (init r₀ progs)) i = solo .Global r₀' p := by
  have := seq_global_aux r₀' progs 0 (init r₀ progs)
    (by intro j q hq; simp [init, fresh, hq])
    rfl hfree hclosed i p hp
  simpa [seqSchedule] using this

/-- **A memo that is reset at the start of each use instead of being cleared at the end** (the
shape of a "resolved once per section" cache held in one process-wide object, e.g. a
`ContextVar` whose mutable default object is mutated in place — see `Model.Interleave`): also
exact under sequential use, from any leftover content of the cell and without the programs
cleaning up after themselves. -/
theorem C15_global_sequential_reset (r₀ r₀' : Registry) (c₀ : Option Palette)
    (progs : List (List Ev))
    (hfree : ∀ q ∈ progs, freeGets q = []) (hopen : ∀ q ∈ progs, opensWithReset q = true)
    (i : Nat) (p : List Ev) (hp : progs[i]? = some p) :
    outOf (run .Global (seqSchedule progs)
      { threads := progs.map (fun q => { prog := q, ctx := none, out := [] }),
        sh := { reg := r₀, cell := c₀ } }) i = solo .Global r₀' p := by
  have := seq_global_reset_aux r₀' progs 0
    { threads := progs.map (fun q => { prog := q, ctx := none, out := [] }),
      sh := { reg := r₀, cell := c₀ } }
    (by intro j q hq; simp [fresh, hq])
    hfree hopen i p hp
  simpa [seqSchedule] using this

/-- two sections that memoise under the same key (`5`) values that resolve differently
(position 2 in `[2, 5]`, position 1 in `[5, 9]`), each used twice -/
def memoProgs : List (List Ev) := [memoProg [2, 5] 5 2, memoProg [5, 9] 5 2]

/-- **The shared-default memo is the process-wide cell.**  One preemption of thread 0 between
its first and its second use, thread 1 runs its whole section in the gap: thread 0's second use
obtains thread 1's value (`Global`); with one cell per thread the same schedule returns the
solo values (`Local`); and without preemption the process-wide memo is exact, although nobody
clears it at the end (`cellAfter … ≠ none`, so `C15_global_sequential` does not apply but
`C15_global_sequential_reset` does). -/
theorem C15_shared_default_memo_interferes :
    let sched := [0, 0, 0] ++ List.replicate 4 1 ++ [0]
    outOf (run .Global sched (init [] memoProgs)) 0 = [.idx 2, .idx 1] ∧
    solo .Global [] (memoProg [2, 5] 5 2) = [.idx 2, .idx 2] ∧
    outOf (run .Local sched (init [] memoProgs)) 0 = solo .Local [] (memoProg [2, 5] 5 2) ∧
    outOf (run .Global (seqSchedule memoProgs) (init [] memoProgs)) 0 = [.idx 2, .idx 2] ∧
    outOf (run .Global (seqSchedule memoProgs) (init [] memoProgs)) 1 = [.idx 1, .idx 1] ∧
    (∀ q ∈ memoProgs, opensWithReset q = true ∧ freeGets q = [] ∧ cellAfter none q ≠ none) := by
  decide

/-! ## a memo kept on an input object that several documents were given -/

/-- the programs of documents `(resolved rows, key, pages)` that memoise on an object -/
def objMemoProgs (docs : List (Palette × Color × Nat)) : List (List Ev) :=
  docs.map fun d => objMemoProg d.1 d.2.1 d.2.2

/-- **A memo stored on a shared input object is exact under sequential use** (why the
single-threaded suite passes): any number of documents that were given the same object — the
memo is then the process-wide cell — each of any number of pages, encoded one after the other
from any leftover content of the memo, return their solo outputs.  Instance of
`C15_global_sequential_reset`: every table starts with a first page, which resets the memo. -/
theorem C15_object_memo_sequential (r₀ r₀' : Registry) (c₀ : Option Palette)
    (docs : List (Palette × Color × Nat)) (i : Nat) (d : Palette × Color × Nat)
    (hd : docs[i]? = some d) :
    outOf (run .Global (seqSchedule (objMemoProgs docs))
      { threads := (objMemoProgs docs).map (fun q => { prog := q, ctx := none, out := [] }),
        sh := { reg := r₀, cell := c₀ } }) i = solo .Global r₀' (objMemoProg d.1 d.2.1 d.2.2) := by
  apply C15_global_sequential_reset
  · intro q hq
    simp only [objMemoProgs, List.mem_map] at hq
    obtain ⟨d', _, rfl⟩ := hq
    exact freeGets_objMemoProg _ _ _
  · intro q hq
    simp only [objMemoProgs, List.mem_map] at hq
    obtain ⟨d', _, rfl⟩ := hq
    exact opensWithReset_objMemoProg _ _ _
  · simp [objMemoProgs, hd]

/-- **Documents that hold objects of their own are never affected**: the memo is then a cell
of the encoding thread's document (`Local`), and under every schedule every document returns
its solo output (instance of `C15_local_complete`). -/
theorem C15_private_object_memo_exact (r₀ r₀' : Registry)
    (docs : List (Palette × Color × Nat)) (sched : List Nat) (i : Nat)
    (d : Palette × Color × Nat) (hd : docs[i]? = some d)
    (hdone : (objMemoProg d.1 d.2.1 d.2.2).length ≤ sched.count i) :
    outOf (run .Local sched (init r₀ (objMemoProgs docs))) i =
      solo .Local r₀' (objMemoProg d.1 d.2.1 d.2.2) := by
  apply C15_local_complete id r₀ r₀' (objMemoProgs docs) sched i _ _ _ _ hdone
  · simp [objMemoProgs, hd]
  · intro q hq
    simp only [objMemoProgs, List.mem_map] at hq
    obtain ⟨d', _, rfl⟩ := hq
    exact canonicalB_objMemoProg _ _ _ _
  · exact freeGets_objMemoProg _ _ _

/-- two documents that were given one column-header object: a three-page one whose repeated
rows resolve `5` to position 2 (`[2, 5]`: its page geometry / palette) and a two-page one whose
rows resolve it to position 1 (`[5, 9]`) -/
def sharedHeaderDocs : List (Palette × Color × Nat) := [([2, 5], 5, 3), ([5, 9], 5, 2)]

/-- **The memo on the shared object is the process-wide cell: one preemption breaks it.**
(a) document 0 is stopped after its first page, document 1 is encoded from start to finish,
document 0 resumes: its pages 2 and 3 replay document 1's rows; (b) the same with the roles
exchanged; (c) stopped between its pages 2 and 3, document 0 has stored its own rows, document 1
resets and refills the memo, page 3 replays them; (d) with objects of their own (`Local`) the
same schedules return the solo outputs; (e) a preemption before the first page or after the last
one is harmless; (f) the other document always returns its solo output — the one-sided damage a
check finds only if it compares *every* thread's string. -/
theorem C15_shared_object_memo_interferes :
    let progs := objMemoProgs sharedHeaderDocs
    let solo0 := solo .Global [] (objMemoProg [2, 5] 5 3)
    let solo1 := solo .Global [] (objMemoProg [5, 9] 5 2)
    solo0 = [.idx 2, .idx 2] ∧ solo1 = [.idx 1] ∧
    outOf (run .Global [0, 1, 1, 0, 0] (init [] progs)) 0 = [.idx 1, .idx 1] ∧
    outOf (run .Global [0, 1, 1, 0, 0] (init [] progs)) 1 = solo1 ∧
    outOf (run .Global [1, 0, 0, 0, 1] (init [] progs)) 1 = [.idx 2] ∧
    outOf (run .Global [1, 0, 0, 0, 1] (init [] progs)) 0 = solo0 ∧
    outOf (run .Global [0, 0, 1, 1, 0] (init [] progs)) 0 = [.idx 2, .idx 1] ∧
    (∀ sched ∈ [[0, 1, 1, 0, 0], [1, 0, 0, 0, 1], [0, 0, 1, 1, 0]],
      outOf (run .Local sched (init [] progs)) 0 = solo .Local [] (objMemoProg [2, 5] 5 3) ∧
      outOf (run .Local sched (init [] progs)) 1 = solo .Local [] (objMemoProg [5, 9] 5 2)) ∧
    (∀ sched ∈ [[1, 1, 0, 0, 0], [0, 0, 0, 1, 1]],
      outOf (run .Global sched (init [] progs)) 0 = solo0 ∧
      outOf (run .Global sched (init [] progs)) 1 = solo1) := by
  decide

/-! ## a `set … restore` window on a process-wide flag (a service-wide setting switched off
around one call in a `try/finally`, e.g. "conversion disabled" on a cached service object) -/

/-- the flag as events on one cell: idle = `none` ("enabled").  A text rendered with the setting
OFF: switch the flag off (`set`), render under the flag (`lookup`), restore the idle value
(`clear`, the `finally`); a text rendered with the default setting only reads the flag.  What a
read obtains stands for the rendered text: `c` under the idle flag (the converted text); under a
switched-off flag the position of `c` in the switching text's `[c']` — `1` for the text the flag
was switched off for, `0` for any other thread's text (the literal text). -/
def flagOffProg (texts : List Color) : List Ev :=
  texts.flatMap fun c => [.setCtx [c], .lookup c, .clearCtx]

def flagOnProg (texts : List Color) : List Ev := texts.map .lookup

/-- document 0: two texts with the setting off; document 1: two texts with the default setting -/
def flagProgs : List (List Ev) := [flagOffProg [7, 8], flagOnProg [5, 6]]

/-- **Sequentially the window is exact** (why the single-threaded suite passes): the flag is
always restored, so every document returns its solo output (instance of `C15_global_sequential`). -/
theorem C15_flag_window_sequential (r₀ r₀' : Registry) (i : Nat) (p : List Ev)
    (hp : flagProgs[i]? = some p) :
    outOf (run .Global (seqSchedule flagProgs) (init r₀ flagProgs)) i = solo .Global r₀' p :=
  C15_global_sequential r₀ r₀' flagProgs (by decide) (by decide) i p hp

/-- **One preemption inside the window suffices, and only there.**  Document 0 is stopped after
switching the flag off (a) or after rendering, before the restore (b), document 1 is encoded from
start to finish: every text of document 1 stays literal (`0` instead of `5`, `6`), document 0 is
unharmed — one-sided damage; (c) stopped between two windows or before / after all of them (every
other single preemption of document 0) both return their solo outputs; (d) the roles exchanged
(document 1 stopped anywhere, document 0 runs whole) is harmless too. -/
theorem C15_flag_window_interferes :
    let solo0 := solo .Global [] (flagOffProg [7, 8])
    let solo1 := solo .Global [] (flagOnProg [5, 6])
    solo0 = [.idx 1, .idx 1] ∧ solo1 = [.idx 5, .idx 6] ∧
    (∀ k ∈ [1, 2, 4, 5],
      let σ := run .Global (List.replicate k 0 ++ [1, 1] ++ List.replicate (6 - k) 0) (init [] flagProgs)
      outOf σ 1 = [.idx 0, .idx 0] ∧ outOf σ 0 = solo0) ∧
    (∀ k ∈ [0, 3, 6],
      let σ := run .Global (List.replicate k 0 ++ [1, 1] ++ List.replicate (6 - k) 0) (init [] flagProgs)
      outOf σ 1 = solo1 ∧ outOf σ 0 = solo0) ∧
    (∀ k ∈ [0, 1, 2],
      let σ := run .Global (List.replicate k 1 ++ List.replicate 6 0 ++ List.replicate (2 - k) 1) (init [] flagProgs)
      outOf σ 1 = solo1 ∧ outOf σ 0 = solo0) := by
  decide

/-- **A per-call / thread-private flag is exact under every schedule** (the setting passed as an
argument, or kept in a per-thread cell): instance of `C15_local_complete`. -/
theorem C15_private_flag_exact (r₀ r₀' : Registry) (sched : List Nat) (i : Nat) (p : List Ev)
    (hp : flagProgs[i]? = some p) (hdone : p.length ≤ sched.count i) :
    outOf (run .Local sched (init r₀ flagProgs)) i = solo .Local r₀' p := by
  have hfree : freeGets p = [] := by
    match i, hp with
    | 0, hp => cases hp; decide
    | 1, hp => cases hp; decide
    | (n + 2), hp => simp [flagProgs] at hp
  exact C15_local_complete id r₀ r₀' flagProgs sched i p hp (by decide) hfree hdone


/-- the same on the witness programs, by evaluation -/
example :
    let σ := run .Global (List.replicate 7 0 ++ List.replicate 7 1) (init [] witnessProgs)
    outOf σ 0 = solo .Global [] (encodeProg [2, 5] [0] [5]) ∧
    outOf σ 1 = solo .Global [] (encodeProg [5, 9] [0] [5]) := by
  decide

end Props.C15
