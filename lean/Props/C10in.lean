import Model.TextInput
import Model.Escape
import Model.Encode
import Proofs.Escape
import Proofs.TextInput
import Proofs.EncodeText
import Props.C10
import Props.C10enc
/-!
# C10 — the text that reaches the escaper is the user's text

`Props/C10.lean` is about the escaper, `Props/C10enc.lean` about the encoder model, which starts from the state AFTER
construction (`Foot.text` is ONE string, `TextComp.text` the lines).  Between the user's `text=` argument and that state
sit the constructors (`Model/TextInput.lean`): a `str` becomes the one line, a sequence of `str` is kept; `RTFFootnote` /
`RTFSource` join their lines with the six characters `\line `.  This file closes the chain for that step:

* `C10in_str_unchanged`, `C10in_lines_unchanged` — title, subline, page header / footer, column header: the lines the
  encoder renders are the user's strings, unchanged; a footnote / source given as `str` is that string.
* `C10in_foot_bytes` — the bytes written for a footnote / source (conversion off) are the bytes of each line, separated
  by `\line ` and by nothing else.
* `C10in_foot_roundtrip`, `C10in_foot_intact`, `C10in_foot_u_escapes` — the reader shows the characters of all lines,
  in order, every one as it was given; the only other thing it meets is one formatting word (the line break) per
  boundary between two lines; every `\u` in range with its one fallback character.
* `C10in_footnote_end_to_end`, `C10in_source_end_to_end` — in the encoder model: the footnote / source block of a
  rendered page holds exactly one text hole, that of `footText a`; with the flag off it reads back as above.

Tie to the code (every run, `harness/props/c10_sweep.py`): the real constructors against `TextArg.lines` / `footTextN`
for every swept scalar value as an item and every risky character at the start / middle / end of an item; documents
written by `write_rtf` with every risky character in every position.
-/
namespace Props.C10in
open Model.Escape Model.TextInput Proofs.Escape Proofs.TextInput Props.C10
open Model.Rtf Model.Emit Model.Encode Model.Broadcast Model.Layout
open Proofs.EncodeLift Proofs.EncodeAttrs Proofs.EncodeColor Proofs.EncodeText

/-- a text given as `str` is the one line of the component, and the whole text of a footnote / source -/
theorem C10in_str_unchanged (s : List Char) : (TextArg.one s).lines = [s] ∧ footText (.one s) = s :=
  ⟨rfl, rfl⟩

/-- a text given as a list of lines: the component's lines are these strings -/
theorem C10in_lines_unchanged (ls : List (List Char)) : (TextArg.many ls).lines = ls := rfl

/-- the code points of the joined text: the code points of the lines, separated by those of `\line ` -/
theorem C10in_foot_text_cps (a : TextArg Char) :
    Props.C10.cps (footText a) = joinWith lineSepN (a.lines.map Props.C10.cps) := by
  unfold footText Props.C10.cps
  rw [map_joinWith, lineSep_codes]

/-- the bytes written for a footnote / source with conversion off: the escaped bytes of every line, separated by the
six bytes `\line ` — nothing of a line is cut, dropped or added -/
theorem C10in_foot_bytes (a : TextArg Char) :
    escape (Props.C10.cps (footText a)) =
      joinWith lineSepN (a.lines.map fun l => escape (Props.C10.cps l)) := by
  rw [C10in_foot_text_cps, escape_joinWith, List.map_map]
  rfl

private theorem lines_readable (a : TextArg Char) (h : ∀ l ∈ a.lines, ∀ c ∈ l, Plain c) :
    ∀ l ∈ a.lines.map Props.C10.cps, ∀ n ∈ l, readable n = true := by
  intro l hl n hn
  obtain ⟨l', hl', rfl⟩ := List.mem_map.mp hl
  obtain ⟨c, hc, rfl⟩ := List.mem_map.mp hn
  exact inDomain_readable _ (h l' hl' c hc)

private theorem cps_flatten (ls : List (List Char)) : (ls.map Props.C10.cps).flatten = Props.C10.cps ls.flatten := by
  unfold Props.C10.cps
  induction ls with
  | nil => rfl
  | cons a r ih => rw [List.map_cons, List.flatten_cons, List.flatten_cons, List.map_append, ih]

/-- what the reader makes of the bytes written for a footnote / source: the characters of all lines in order, each as
it was given; one formatting word per boundary between two lines (the line break), nothing malformed, all groups
closed; the `\u` escapes it meets are those of the lines' characters -/
theorem C10in_foot_roundtrip (a : TextArg Char) (hne : a.lines ≠ []) (h : ∀ l ∈ a.lines, ∀ c ∈ l, Plain c) :
    (utf8 (escape (Props.C10.cps (footText a)))).map decode =
      some { text := Props.C10.cps a.lines.flatten, us := uTrace (Props.C10.cps a.lines.flatten),
             words := a.lines.length - 1, errs := [], depth := 0 } := by
  rw [utf8_escape, Option.map_some, C10in_foot_text_cps,
    decode_joined _ (fun h0 => hne (List.map_eq_nil_iff.mp h0)) (lines_readable a h), cps_flatten, List.length_map]

/-- the decidable oracle used on the implementation's output holds: the reader shows the lines' characters intact -/
theorem C10in_foot_intact (a : TextArg Char) (hne : a.lines ≠ []) (h : ∀ l ∈ a.lines, ∀ c ∈ l, Plain c) :
    intact (Props.C10.cps a.lines.flatten) (decode (escape (Props.C10.cps (footText a)))) = true := by
  have hd := C10in_foot_roundtrip a hne h
  rw [utf8_escape, Option.map_some, Option.some.injEq] at hd
  rw [hd]
  have hlt : ∀ n ∈ Props.C10.cps a.lines.flatten, n < 0x110000 := by
    intro n hn
    obtain ⟨c, hc, rfl⟩ := List.mem_map.mp hn
    obtain ⟨l, hl, hcl⟩ := List.mem_flatten.mp hc
    exact readable_lt _ (inDomain_readable _ (h l hl c hcl))
  simp only [intact, beq_self_eq_true, List.isEmpty_nil, Bool.true_and, Bool.and_true, List.all_eq_true]
  intro e he
  exact (uTrace_ok _ hlt e he).1

/-- every `\uN` the reader meets in a footnote / source has `N` in the signed 16-bit range, is governed by `\uc1` and
followed by exactly that one fallback character -/
theorem C10in_foot_u_escapes (a : TextArg Char) (hne : a.lines ≠ []) (h : ∀ l ∈ a.lines, ∀ c ∈ l, Plain c) :
    ∀ e ∈ (decode (escape (Props.C10.cps (footText a)))).us,
      -32768 ≤ e.arg ∧ e.arg ≤ 32767 ∧ e.uc = 1 ∧ e.skipped = e.uc := by
  have hd := C10in_foot_roundtrip a hne h
  rw [utf8_escape, Option.map_some, Option.some.injEq] at hd
  rw [hd]
  have hlt : ∀ n ∈ Props.C10.cps a.lines.flatten, n < 0x110000 := by
    intro n hn
    obtain ⟨c, hc, rfl⟩ := List.mem_map.mp hn
    obtain ⟨l, hl, hcl⟩ := List.mem_flatten.mp hc
    exact readable_lt _ (inDomain_readable _ (h l hl c hcl))
  intro e he
  have := uTrace_ok _ hlt e he
  simp only [Model.Escape.uOk, Bool.and_eq_true, decide_eq_true_eq, beq_iff_eq] at this
  exact ⟨this.1.1.1, this.1.1.2, this.2, this.1.2⟩

/-! ## in the encoder model -/

/-- the one text hole of a rendered footnote / source: the cell of its one-cell row (as table) or its paragraph -/
def FootHole (f : Foot) (es : List Elem) (hole : List Node) : Prop :=
  (f.asTable = true ∧ ∃ fmt cf, es = [rowElem fmt] ∧ fmt.cells = [cf] ∧ cf.body = hole) ∨
  (f.asTable = false ∧ ∃ tf, es = [[BlockG.plain [paragraph tf hole]]])

/-- what the reader shows for the hole of `footText a` written with the flag off -/
theorem C10in_foot_hole_decoded (a : TextArg Char) (hne : a.lines ≠ []) (h : ∀ l ∈ a.lines, ∀ c ∈ l, Plain c) :
    decode (holeBytes (textNodes (convText false (footText a)))) =
      { text := Props.C10.cps a.lines.flatten, us := uTrace (Props.C10.cps a.lines.flatten),
        words := a.lines.length - 1, errs := [], depth := 0 } := by
  have hd := C10in_foot_roundtrip a hne h
  rw [utf8_escape, Option.map_some, Option.some.injEq] at hd
  rw [holeBytes_eq]
  exact hd

theorem C10in_footOf_end_to_end (f : Foot) (es : List Elem) (hF : Props.C10enc.FootOf f es) (a : TextArg Char)
    (ht : f.text = some (footText a)) (hne : footText a ≠ []) :
    ∃ A conv, f.attrs.mapM Attr.toNested = .ok A ∧ FlagAt A.convert 0 0 conv ∧
      FootHole f es (textNodes (convText conv (footText a))) ∧
      (conv = false → (∀ l ∈ a.lines, ∀ c ∈ l, Plain c) →
        decode (holeBytes (textNodes (convText conv (footText a)))) =
          { text := Props.C10.cps a.lines.flatten, us := uTrace (Props.C10.cps a.lines.flatten),
            words := a.lines.length - 1, errs := [], depth := 0 }) := by
  obtain ⟨A, hA, hpar, htab⟩ := hF
  have hget : f.text.getD [] = footText a := by rw [ht]; rfl
  have hlines : a.lines ≠ [] := by
    intro h0
    apply hne
    unfold footText
    rw [h0]
    rfl
  rw [hget] at hpar htab
  cases hb : f.asTable with
  | true =>
    obtain ⟨fmt, cf, conv, h1, h2, h3, h4⟩ := htab hb
    refine ⟨A, conv, hA, h3, Or.inl ⟨hb, fmt, cf, h1, h2, h4⟩, ?_⟩
    intro hc hp
    subst hc
    exact C10in_foot_hole_decoded a hlines hp
  | false =>
    rcases hpar hb with ⟨h0, _⟩ | ⟨_, tf, conv, h3, h4⟩
    · exact absurd h0 hne
    · refine ⟨A, conv, hA, h3, Or.inr ⟨hb, tf, h4⟩, ?_⟩
      intro hc hp
      subst hc
      exact C10in_foot_hole_decoded a hlines hp

/-- **footnote, end to end.**  A footnote constructed from `a` (`f.text = footText a`, not empty): every footnote block
of a rendered page is one row of one cell (as table) or one paragraph, whose text hole is that of `footText a` under the
flag at `(0, 0)` of the footnote's `text_convert`; with the flag off and the lines' characters in C10's domain, the
reader shows the lines' characters in order, every one as given, and one line break per boundary. -/
theorem C10in_footnote_end_to_end (k : ColorCtx) (d : Doc) (pl : Plan) (R : Trace) (hR : Renders k d pl R)
    (x : PageCtx × List (Block × List Elem)) (hx : x ∈ R) (y : Block × List Elem) (hy : y ∈ x.2)
    (b : Bool) (hb : y.1 = Block.footnote b) (f : Foot) (hf : d.footnote = some f)
    (a : TextArg Char) (ht : f.text = some (footText a)) (hne : footText a ≠ []) :
    ∃ A conv, f.attrs.mapM Attr.toNested = .ok A ∧ FlagAt A.convert 0 0 conv ∧
      FootHole f y.2 (textNodes (convText conv (footText a))) ∧
      (conv = false → (∀ l ∈ a.lines, ∀ c ∈ l, Plain c) →
        decode (holeBytes (textNodes (convText conv (footText a)))) =
          { text := Props.C10.cps a.lines.flatten, us := uTrace (Props.C10.cps a.lines.flatten),
            words := a.lines.length - 1, errs := [], depth := 0 }) :=
  C10in_footOf_end_to_end f y.2 (Props.C10enc.C10enc_footnote_hole k d pl R hR x hx y hy b hb f hf) a ht hne

/-- **source, end to end** -/
theorem C10in_source_end_to_end (k : ColorCtx) (d : Doc) (pl : Plan) (R : Trace) (hR : Renders k d pl R)
    (x : PageCtx × List (Block × List Elem)) (hx : x ∈ R) (y : Block × List Elem) (hy : y ∈ x.2)
    (b : Bool) (hb : y.1 = Block.source b) (f : Foot) (hf : d.source = some f)
    (a : TextArg Char) (ht : f.text = some (footText a)) (hne : footText a ≠ []) :
    ∃ A conv, f.attrs.mapM Attr.toNested = .ok A ∧ FlagAt A.convert 0 0 conv ∧
      FootHole f y.2 (textNodes (convText conv (footText a))) ∧
      (conv = false → (∀ l ∈ a.lines, ∀ c ∈ l, Plain c) →
        decode (holeBytes (textNodes (convText conv (footText a)))) =
          { text := Props.C10.cps a.lines.flatten, us := uTrace (Props.C10.cps a.lines.flatten),
            words := a.lines.length - 1, errs := [], depth := 0 }) :=
  C10in_footOf_end_to_end f y.2 (Props.C10enc.C10enc_source_hole k d pl R hR x hx y hy b hb f hf) a ht hne

/-! Non-vacuity: three lines holding U+2028 LINE SEPARATOR, U+2029 PARAGRAPH SEPARATOR, a no-break space, a Latin-1
letter and an astral character are in the domain; the joined text is the lines with two `\line ` between them; the
reader shows all fourteen characters and two formatting words. -/
example :
    let a : TextArg Char := .many [['a', ' ', 'b'], [' '], [' ', 'é', '😀', ' ', 'x']]
    (∀ l ∈ a.lines, ∀ c ∈ l, Plain c) ∧ a.lines ≠ [] ∧
    footText a = "a b\\line  \\line  é😀 x".toList ∧
    (decode (escape (Props.C10.cps (footText a)))).text = [97, 0x2028, 98, 0x2029, 0xA0, 233, 0x1F600, 32, 120] ∧
    (decode (escape (Props.C10.cps (footText a)))).words = 2 := by
  decide +kernel

/-- the reader is not trivial: had the constructor cut the text at U+2028 (`str.splitlines`), the bytes written for
`"a b"` would be those of `a\line b`, which are not read back as the text -/
example : intact [97, 0x2028, 98] (decode (escape (Props.C10.cps "a\\line b".toList))) = false := by
  decide +kernel

end Props.C10in
