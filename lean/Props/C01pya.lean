import Generated.PyTextAsRtf
import Generated.PyParagraphFormatting
import Generated.PyTextFormatting
import Props.C01pyp
import Props.C01pyt
/-!
# C01 — translator tie for the text emitter

`Generated.Py.TextAsRtf.run` is regenerated on every run from the source of `TextContent._as_rtf` (`row.py`); it calls
the translated `_get_paragraph_formatting` and `_get_text_formatting`; `_convert_special_chars` stays a parameter (its
result on this object).  Proved here, per `method`: "paragraph" prints `Model.Emit.paragraph t body`, "cell" prints the
model's `cellContent t body` followed by `\cell` (without the newline of the caller's join), "plain" prints
`plainRun t body`; "paragraph_format" / "cell_format" put the paragraph formatting around the raw text; any other method
raises `ValueError`; an exception of `_convert_special_chars` propagates whatever the method is.

`Props/C01pyar.lean` puts this emitter in the place of the parameter `text_as_rtf` of the translated `Row._as_rtf`.
-/
set_option linter.unusedSimpArgs false
namespace Props.C01pya
open Model.Rtf Model.Emit Generated.Py Generated.Py.TextAsRtf Props.C01py Props.C01pyc

/-- the paragraph fields of a Python text against the model's text format (hypotheses of
`C01py_paragraph_formatting_translated`) -/
structure ParaRel (i2t : Rat → Int) (tjc : List Nat → Option (List Nat)) (hyph : Bool)
    (sb sa space fi li ri : Int) (just : List Nat) (t : TextFmt) : Prop where
  hyph : t.hyph = hyph
  sb : t.sb = sb
  sa : t.sa = sa
  sl : t.sl = if space ≠ 1 then some (space * 240) else none
  fi : t.fi = i2t ((fi : Rat) / 1440)
  li : t.li = i2t ((li : Rat) / 1440)
  ri : t.ri = i2t ((ri : Rat) / 1440)
  just : tjc just = some (codeText t.just)

/-- the run fields (hypotheses of `C01py_text_formatting_translated`) -/
structure RunRel (p2h : Rat → Int) (gci : List Nat → Except Exc Int) (fc : List Nat → Option (List Nat))
    (size : Rat) (font : Int) (color bg format : Option (List Nat)) (t : TextFmt) : Prop where
  half : t.halfPts = p2h size
  font : t.fontIdx = font - 1
  color : C01pyt.ColorRel gci color t.color
  bg : C01pyt.ColorRel gci bg t.bg
  fmt : C01pyt.FmtRel fc (C01pyt.fmtChars format) t.formats

section
variable (i2t : Rat → Int) (tjc : List Nat → Option (List Nat)) (tjk : List (List Nat)) (p2h : Rat → Int)
  (gci : List Nat → Except Exc Int) (fc : List Nat → Option (List Nat)) (fk : List (List Nat))
  (conv : Except Exc (List Nat)) (text : List Nat) (font : Int) (size : Rat) (format color bg : Option (List Nat))
  (just : List Nat) (fi li ri space sb sa : Int) (hyph : Bool)

theorem para_ok {t : TextFmt} (hp : ParaRel i2t tjc hyph sb sa space fi li ri just t) :
    ParagraphFormatting.run i2t tjc tjk hyph sb sa space fi li ri just = .ok (cps (printNodes (paraFormat t))) :=
  C01pyp.C01py_paragraph_formatting_translated i2t tjc tjk hyph sb sa space fi li ri just t
    hp.hyph hp.sb hp.sa hp.sl hp.fi hp.li hp.ri hp.just

theorem run_ok {t : TextFmt} (hr : RunRel p2h gci fc size font color bg format t) :
    TextFormatting.run p2h gci fc fk size font color bg format =
      .ok (cps (printNodes [cwi "fs" t.halfPts]) ++ 123 :: cps (printNodes (runWords t))) :=
  C01pyt.C01py_text_formatting_translated p2h gci fc fk size font color bg format t
    hr.half hr.font hr.color hr.bg hr.fmt

theorem cps_cons (c : Char) (l : List Char) : cps (c :: l) = c.toNat :: cps l := rfl

/-- the run with the caller's blank, text and closing brace, as code points -/
theorem plainRun_cps (t : TextFmt) (body : List Node) :
    cps (printNodes (plainRun t body)) =
      (cps (printNodes [cwi "fs" t.halfPts]) ++ 123 :: cps (printNodes (runWords t))) ++ [32] ++
        cps (printNodes body) ++ [125] := by
  simp [C01pyt.print_plainRun, cps_append, cps]

/-- **method "cell"**: `\pard` + paragraph format + run + `\cell` — the model's cell content -/
theorem C01py_text_cell (t : TextFmt) (body : List Node) (hc : conv = .ok (cps (printNodes body)))
    (hp : ParaRel i2t tjc hyph sb sa space fi li ri just t) (hr : RunRel p2h gci fc size font color bg format t) :
    run i2t tjc tjk p2h gci fc fk conv text font size format color bg just fi li ri space sb sa hyph
        (cps "cell".toList) =
      .ok (cps (printNodes ((cellContent t body).tail ++ [cw0 "cell"]))) := by
  have em : cps "cell".toList = [99, 101, 108, 108] := by decide
  have e1 : ([92, 112, 97, 114, 100] : List Nat) = cps (printNodes [cw0 "pard"]) := by decide
  have e2 : ([125, 92, 99, 101, 108, 108] : List Nat) = [125] ++ cps (printNodes [cw0 "cell"]) := by decide
  simp only [TextAsRtf.run, hc, em, para_ok i2t tjc tjk just fi li ri space sb sa hyph hp,
    run_ok p2h gci fc fk font size format color bg hr, bind, Except.bind, pure, Except.pure, e1, e2]
  have n0 : ([99, 101, 108, 108] : List Nat) ≠ ([112, 97, 114, 97, 103, 114, 97, 112, 104] : List Nat) := by decide
  simp only [decide_eq_true_eq, n0, if_false, if_true]
  simp [cellContent, printNodes, Proofs.Emit.printNodes_append, cps_append, C01pyt.print_plainRun, cps]

/-- **method "paragraph"**: the model's paragraph group -/
theorem C01py_text_paragraph (t : TextFmt) (body : List Node) (hc : conv = .ok (cps (printNodes body)))
    (hp : ParaRel i2t tjc hyph sb sa space fi li ri just t) (hr : RunRel p2h gci fc size font color bg format t) :
    run i2t tjc tjk p2h gci fc fk conv text font size format color bg just fi li ri space sb sa hyph
        (cps "paragraph".toList) =
      .ok (cps (printNode (paragraph t body))) := by
  have em : cps "paragraph".toList = [112, 97, 114, 97, 103, 114, 97, 112, 104] := by decide
  have e1 : ([123, 92, 112, 97, 114, 100] : List Nat) = 123 :: cps (printNodes [cw0 "pard"]) := by decide
  have e2 : ([125, 92, 112, 97, 114, 125] : List Nat) = [125] ++ cps (printNodes [cw0 "par"]) ++ [125] := by decide
  simp only [TextAsRtf.run, hc, em, para_ok i2t tjc tjk just fi li ri space sb sa hyph hp,
    run_ok p2h gci fc fk font size format color bg hr, bind, Except.bind, pure, Except.pure, e1, e2]
  simp only [if_true, decide_true]
  simp only [paragraph, printNode, cps_cons, Proofs.Emit.printNodes_append, cps_append, plainRun_cps,
    List.append_assoc]
  simp [printNodes, cps_append, cps]

/-- **method "plain"**: the model's text run -/
theorem C01py_text_plain (t : TextFmt) (body : List Node) (hc : conv = .ok (cps (printNodes body)))
    (hr : RunRel p2h gci fc size font color bg format t) :
    run i2t tjc tjk p2h gci fc fk conv text font size format color bg just fi li ri space sb sa hyph
        (cps "plain".toList) =
      .ok (cps (printNodes (plainRun t body))) := by
  have em : cps "plain".toList = [112, 108, 97, 105, 110] := by decide
  simp only [TextAsRtf.run, hc, em, run_ok p2h gci fc fk font size format color bg hr, bind, Except.bind, pure,
    Except.pure]
  have n0 : ([112, 108, 97, 105, 110] : List Nat) ≠ ([112, 97, 114, 97, 103, 114, 97, 112, 104] : List Nat) := by decide
  have n1 : ([112, 108, 97, 105, 110] : List Nat) ≠ ([99, 101, 108, 108] : List Nat) := by decide
  simp only [decide_eq_true_eq, n0, n1, if_false, if_true]
  simp only [plainRun_cps, List.append_assoc]

/-- **method "paragraph_format"**: the paragraph formatting around the RAW text (no run, no conversion of the text) -/
theorem C01py_text_paragraph_format (t : TextFmt) (raw : List Node) (x : List Nat) (hc : conv = .ok x)
    (hraw : text = cps (printNodes raw)) (hp : ParaRel i2t tjc hyph sb sa space fi li ri just t) :
    run i2t tjc tjk p2h gci fc fk conv text font size format color bg just fi li ri space sb sa hyph
        (cps "paragraph_format".toList) =
      .ok (cps (printNode (Node.grp (cw0 "pard" :: paraFormat t ++ raw ++ [cw0 "par"])))) := by
  have em : cps "paragraph_format".toList =
      [112, 97, 114, 97, 103, 114, 97, 112, 104, 95, 102, 111, 114, 109, 97, 116] := by decide
  have e1 : ([123, 92, 112, 97, 114, 100] : List Nat) = 123 :: cps (printNodes [cw0 "pard"]) := by decide
  have e2 : ([92, 112, 97, 114, 125] : List Nat) = cps (printNodes [cw0 "par"]) ++ [125] := by decide
  simp only [TextAsRtf.run, hc, em, hraw, para_ok i2t tjc tjk just fi li ri space sb sa hyph hp, bind, Except.bind,
    pure, Except.pure, e1, e2]
  have n0 : ([112, 97, 114, 97, 103, 114, 97, 112, 104, 95, 102, 111, 114, 109, 97, 116] : List Nat) ≠ ([112, 97, 114, 97, 103, 114, 97, 112, 104] : List Nat) := by decide
  have n1 : ([112, 97, 114, 97, 103, 114, 97, 112, 104, 95, 102, 111, 114, 109, 97, 116] : List Nat) ≠ ([99, 101, 108, 108] : List Nat) := by decide
  have n2 : ([112, 97, 114, 97, 103, 114, 97, 112, 104, 95, 102, 111, 114, 109, 97, 116] : List Nat) ≠ ([112, 108, 97, 105, 110] : List Nat) := by decide
  simp only [decide_eq_true_eq, n0, n1, n2, if_false, if_true]
  simp only [printNode, cps_cons, Proofs.Emit.printNodes_append, cps_append, List.append_assoc]
  simp [printNodes, cps_append, cps]

/-- **method "cell_format"** -/
theorem C01py_text_cell_format (t : TextFmt) (raw : List Node) (x : List Nat) (hc : conv = .ok x)
    (hraw : text = cps (printNodes raw)) (hp : ParaRel i2t tjc hyph sb sa space fi li ri just t) :
    run i2t tjc tjk p2h gci fc fk conv text font size format color bg just fi li ri space sb sa hyph
        (cps "cell_format".toList) =
      .ok (cps (printNodes (cw0 "pard" :: paraFormat t ++ raw ++ [cw0 "cell"]))) := by
  have em : cps "cell_format".toList = [99, 101, 108, 108, 95, 102, 111, 114, 109, 97, 116] := by decide
  have e1 : ([92, 112, 97, 114, 100] : List Nat) = cps (printNodes [cw0 "pard"]) := by decide
  have e2 : ([92, 99, 101, 108, 108] : List Nat) = cps (printNodes [cw0 "cell"]) := by decide
  simp only [TextAsRtf.run, hc, em, hraw, para_ok i2t tjc tjk just fi li ri space sb sa hyph hp, bind, Except.bind,
    pure, Except.pure, e1, e2]
  have n0 : ([99, 101, 108, 108, 95, 102, 111, 114, 109, 97, 116] : List Nat) ≠ ([112, 97, 114, 97, 103, 114, 97, 112, 104] : List Nat) := by decide
  have n1 : ([99, 101, 108, 108, 95, 102, 111, 114, 109, 97, 116] : List Nat) ≠ ([99, 101, 108, 108] : List Nat) := by decide
  have n2 : ([99, 101, 108, 108, 95, 102, 111, 114, 109, 97, 116] : List Nat) ≠ ([112, 108, 97, 105, 110] : List Nat) := by decide
  have n3 : ([99, 101, 108, 108, 95, 102, 111, 114, 109, 97, 116] : List Nat) ≠ ([112, 97, 114, 97, 103, 114, 97, 112, 104, 95, 102, 111, 114, 109, 97, 116] : List Nat) := by decide
  simp only [decide_eq_true_eq, n0, n1, n2, n3, if_false, if_true]
  simp [printNodes, Proofs.Emit.printNodes_append, cps_append, cps]

/-- any other method: `ValueError` (after `_convert_special_chars` has returned) -/
theorem C01py_text_unknown_method (x : List Nat) (method : List Nat) (hc : conv = .ok x)
    (h1 : method ≠ cps "paragraph".toList) (h2 : method ≠ cps "cell".toList) (h3 : method ≠ cps "plain".toList)
    (h4 : method ≠ cps "paragraph_format".toList) (h5 : method ≠ cps "cell_format".toList) :
    run i2t tjc tjk p2h gci fc fk conv text font size format color bg just fi li ri space sb sa hyph method =
      .error .ValueError := by
  have e1 : cps "paragraph".toList = [112, 97, 114, 97, 103, 114, 97, 112, 104] := by decide
  have e2 : cps "cell".toList = [99, 101, 108, 108] := by decide
  have e3 : cps "plain".toList = [112, 108, 97, 105, 110] := by decide
  have e4 : cps "paragraph_format".toList =
      [112, 97, 114, 97, 103, 114, 97, 112, 104, 95, 102, 111, 114, 109, 97, 116] := by decide
  have e5 : cps "cell_format".toList = [99, 101, 108, 108, 95, 102, 111, 114, 109, 97, 116] := by decide
  rw [e1] at h1; rw [e2] at h2; rw [e3] at h3; rw [e4] at h4; rw [e5] at h5
  simp [TextAsRtf.run, hc, h1, h2, h3, h4, h5, bind, Except.bind, throw, throwThe, MonadExceptOf.throw]

/-- `_convert_special_chars` is evaluated first: its exception leaves the function whatever the method is -/
theorem C01py_text_convert_error (e : Exc) (method : List Nat) (hc : conv = .error e) :
    run i2t tjc tjk p2h gci fc fk conv text font size format color bg just fi li ri space sb sa hyph method =
      .error e := by
  simp [TextAsRtf.run, hc, bind, Except.bind]

end

end Props.C01pya
