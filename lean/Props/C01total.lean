import Model.Rtf
import Model.Encode
import Model.EncodeDomain
import Model.EncodeAccepted
import Proofs.EncodeTotalDoc
import Props.C01enc
/-!
# C01, first clause: TOTALITY of the encoder model

C01: *"For every document configuration accepted at construction, `rtf_encode()` succeeds (the only data-dependent
refusal being a `ValueError` for non-contiguous group_by keys) and returns … well-formed RTF."*
`Props/C01enc.lean` proves the second half for the encoder model (`encode … = .ok g → InDomain d → wellFormed`).
This file proves the first half: **the encoder model does not fail on an accepted configuration.**

`Model.Encode.encode : Measure → Doc → Except String DocG` mirrors every exception of `RTFDocument.rtf_encode()`
(`TypeError`, `ZeroDivisionError`, `ValidationError`, `UnboundLocalError`, `IndexError`, `KeyError`, `ValueError`, and
`model:` messages); its print is byte-equal to the real output on every generated document (checked on every run).

Hypotheses (all decidable, `Model/EncodeAccepted.lean`):

* `Accepted d`            — the post-construction state the constructors / pydantic validators GUARANTEE;
* `ShapesInQuantifier d`  — the attribute shapes of C01's quantifier ("scalar, per-column, matrix"): no empty attribute
  list, no ragged matrix, no explicit `None` for an attribute `TextContent` requires, `col_rel_width` present on a
  table-rendered footnote / source, non-empty header text, at least one displayed column, width vectors that cover the
  cells.  The constructors accept configurations outside it and `rtf_encode()` RAISES on them (domain decisions,
  DESIGN §8); each clause has a witness below (`C01total_outside_*`: accepted, measurable, the model raises — replayed
  on the real encoder), hence the statement without this hypothesis (`C01_total_full`) is false (`C01_total_witness`);
* `MeasureOk measure d`   — `get_string_width` answers the (text, font, size) triples the pagination asks for.

Conclusion: the encoder returns a document, or it raises `ValueError` and the group_by keys are NOT contiguous
(`Proofs.EncodeTotal.GroupKeysContiguous`, in the vocabulary of `Model/GroupBySpec.lean`: at every level of the
`group_by` list the hierarchical keys of the frame handed to the grouping service are `Contiguous`).
-/
namespace Props.C01total
open Model.Rtf Model.Encode Model.EncodeDomain Model.EncodeAccepted Proofs.EncodeTotal

/-- **C01, totality of the encoder model**: an accepted configuration inside C01's quantifier encodes, unless its
group_by keys are not contiguous — then, and only then, the encoder refuses, with `ValueError`. -/
theorem C01_encode_total (measure : Measure) (d : Doc) (ha : Accepted d) (hs : ShapesInQuantifier d)
    (hm : MeasureOk measure d) :
    (∃ g, encode measure d = .ok g) ∨
    (encode measure d = .error "ValueError" ∧ ¬ GroupKeysContiguous d) :=
  encode_total measure ha hs hm

/-- the refusal is decided by the data alone: contiguous keys ⇒ the encoder returns a document -/
theorem C01_encode_total_contiguous (measure : Measure) (d : Doc) (ha : Accepted d) (hs : ShapesInQuantifier d)
    (hm : MeasureOk measure d) (hc : GroupKeysContiguous d) : ∃ g, encode measure d = .ok g := by
  rcases C01_encode_total measure d ha hs hm with h | ⟨_, h⟩
  · exact h
  · exact absurd hc h

/-- a document without `group_by` is never refused -/
theorem C01_encode_total_no_groupby (measure : Measure) (d : Doc) (ha : Accepted d) (hs : ShapesInQuantifier d)
    (hm : MeasureOk measure d) (h0 : d.body.groupByL = []) : ∃ g, encode measure d = .ok g :=
  C01_encode_total_contiguous measure d ha hs hm (groupKeysContiguous_of_no_groupby h0)

/-- whatever the encoder model raises on an accepted configuration of the quantifier is `ValueError` -/
theorem C01_encode_only_valueError (measure : Measure) (d : Doc) (ha : Accepted d) (hs : ShapesInQuantifier d)
    (hm : MeasureOk measure d) (e : String) (he : encode measure d = .error e) : e = "ValueError" := by
  rcases C01_encode_total measure d ha hs hm with ⟨g, h⟩ | ⟨h, _⟩
  · rw [h] at he; cases he
  · rw [h] at he; cases he; rfl

/-- `shapesInQuantifier` is stated relative to the removed column indices; they always exist for an accepted
document (`page_by` / `subline_by` name columns), so this is no hidden hypothesis -/
theorem C01_removed_columns_exist (d : Doc) (ha : Accepted d) : ∃ removed, removedIdx d = .ok removed :=
  removedIdx_total ha

/-- the decidable form of the refusal condition (evaluated by the driver on every generated document) -/
theorem C01_groupKeysContiguous_decidable (d : Doc) : groupKeysContiguous d = true ↔ GroupKeysContiguous d :=
  groupKeysContiguous_iff d

/-- **C01 for the encoder model, both clauses**: accepted ∧ in the quantifier ∧ in the text domain ∧ contiguous keys
⇒ the encoder returns a document and it prints to well-formed RTF. -/
theorem C01_encode_total_wellformed (measure : Measure) (d : Doc) (ha : Accepted d) (hs : ShapesInQuantifier d)
    (hm : MeasureOk measure d) (hdom : InDomain d) (hc : GroupKeysContiguous d) :
    ∃ g, encode measure d = .ok g ∧ wellFormed (printDoc g) = true := by
  obtain ⟨g, hg⟩ := C01_encode_total_contiguous measure d ha hs hm hc
  exact ⟨g, hg, Props.C01enc.C01_encode_wellformed measure d g hg hdom⟩

/-- … and in every case: a document that prints to well-formed RTF, or the `ValueError` of non-contiguous keys -/
theorem C01_encode_total_or_refused (measure : Measure) (d : Doc) (ha : Accepted d) (hs : ShapesInQuantifier d)
    (hm : MeasureOk measure d) (hdom : InDomain d) :
    (∃ g, encode measure d = .ok g ∧ wellFormed (printDoc g) = true) ∨
    (encode measure d = .error "ValueError" ∧ ¬ GroupKeysContiguous d) := by
  rcases C01_encode_total measure d ha hs hm with ⟨g, hg⟩ | h
  · exact Or.inl ⟨g, hg, Props.C01enc.C01_encode_wellformed measure d g hg hdom⟩
  · exact Or.inr h

/-! ## non-vacuity: a paginated table with page_by, group_by, explicit header, title, footnote as table, source -/

def sc (v : Val) : Attr := .nested [[v]]
def tp (v : Val) : Attr := .tuple [v]

/-- the attributes of an `RTFTitle` after construction (tuples) -/
def exText : TextAttrsOf Attr :=
  { font := tp (.int 1), format := .null, size := tp (.float 12), color := .null, bg := .null,
    just := tp (.str "c"), indFirst := tp (.int 0), indLeft := tp (.int 0), indRight := tp (.int 0),
    space := tp (.int 1), spBefore := tp (.int 180), spAfter := tp (.int 180), hyph := tp (.bool true),
    convert := tp (.bool true) }

/-- the attributes of a table component after construction (nested lists) -/
def exTbl : TblAttrsOf Attr :=
  { font := sc (.int 1), format := sc (.str ""), size := sc (.float 9), color := .null, bg := .null,
    just := sc (.str "c"), indFirst := sc (.int 0), indLeft := sc (.int 0), indRight := sc (.int 0),
    space := sc (.int 1), spBefore := sc (.int 15), spAfter := sc (.int 15), hyph := sc (.bool true),
    convert := sc (.bool true),
    bLeft := sc (.str "single"), bRight := sc (.str "single"), bTop := sc (.str ""), bBottom := sc (.str ""),
    bFirst := sc (.str "single"), bLast := sc (.str "single"), bcLeft := sc (.str ""), bcRight := sc (.str ""),
    bcTop := sc (.str ""), bcBottom := sc (.str ""), bcFirst := sc (.str ""), bcLast := sc (.str ""),
    bWidth := sc (.int 15), cellHeight := sc (.float (3 / 20)), cellJust := sc (.str "c"),
    cellVJust := sc (.str "top"), cellNrow := sc (.int 1) }

def exPage : Page :=
  { width := 17 / 2, height := 11, margin := [5 / 4, 1, 7 / 4, 5 / 4, 7 / 4, 1], nrow := 5, landscape := false,
    borderFirst := "double", borderLast := "double", colWidth := 25 / 4, pageTitle := .all, pageFootnote := .last,
    pageSource := .last }

/-- three columns; `g` is a page_by column (shown as spanning rows, two groups), `a` a group_by column; five rows on
several pages (`nrow = 5`); an explicit two-cell header; per-column fonts and colours; a two-line footnote rendered as
table and a source paragraph -/
def exDoc : Doc :=
  { cols := ["g".toList, "a".toList, "b".toList],
    rows := [[some "A".toList, some "x".toList, some "1".toList],
             [some "A".toList, some "x".toList, some "n>=3".toList],
             [some "B".toList, some "y".toList, none],
             [some "B".toList, some "z".toList, some "4".toList],
             [some "B".toList, some "z".toList, some "5".toList]],
    page := exPage, pageHeader := none, pageFooter := none,
    title := some { text := some ["Title".toList], attrs := exText }, subline := none,
    headers := [some { text := some ["A".toList, "B".toList], colRelWidth := some [1, 1, 1],
                       attrs := { exTbl with bTop := sc (.str "single"), cellVJust := sc (.str "bottom") } }],
    body := { attrs := { exTbl with font := .nested [[.int 1, .int 4, .int 9]],
                                    color := .nested [[.str "red", .str "", .str "blue"]] },
              colRelWidth := some [1, 2, 1], asColheader := true, groupBy := some ["a".toList],
              pageBy := some ["g".toList], sublineBy := none, newPage := false, pagebyHeader := true,
              pagebyColumn := true },
    footnote := some { text := some "note 1\\line note 2".toList, asTable := true, colRelWidth := some [1],
                       attrs := { exTbl with bTop := sc (.str "single") } },
    source := some { text := some "src".toList, asTable := false, colRelWidth := some [1], attrs := exTbl } }

def exMeasure : Measure := fun _ _ _ => some 1

set_option maxRecDepth 100000

/-- the hypotheses of the totality theorem hold of the example (and so do the text domain and contiguity) -/
example : Accepted exDoc ∧ ShapesInQuantifier exDoc ∧ MeasureOk exMeasure exDoc ∧ InDomain exDoc ∧
    groupKeysContiguous exDoc = true := by decide +kernel

/-- the pagination asks for 12 widths on it -/
example : (requests exDoc).length = 12 := by decide +kernel

/-- the theorem applied to the example: it encodes, and the result is well-formed -/
example : ∃ g, encode exMeasure exDoc = .ok g ∧ wellFormed (printDoc g) = true :=
  C01_encode_total_wellformed exMeasure exDoc (by decide +kernel) (by decide +kernel) (by decide +kernel)
    (by decide +kernel) ((C01_groupKeysContiguous_decidable exDoc).mp (by decide +kernel))

/-- the same frame with the group_by keys `x, y, x` inside the first page_by group: not contiguous -/
def exRefused : Doc :=
  { exDoc with rows := [[some "A".toList, some "x".toList, some "1".toList],
                        [some "A".toList, some "y".toList, some "2".toList],
                        [some "A".toList, some "x".toList, some "3".toList]] }

/-- the refusal branch is inhabited: accepted, in the quantifier, measurable, and refused with `ValueError` -/
example : Accepted exRefused ∧ ShapesInQuantifier exRefused ∧ MeasureOk exMeasure exRefused ∧
    groupKeysContiguous exRefused = false ∧ raises (encode exMeasure exRefused) "ValueError" = true := by
  decide +kernel

/-! ## outside the quantifier: accepted at construction, and the encoder raises

One witness per clause of `shapesInQuantifier`.  Each document is `exDoc` with ONE attribute changed to a value the
constructors of rtflite accept; `accepted` holds, the widths are there, and the model — like the real encoder on the
corresponding Python configuration (`Model/EncodeAccepted.lean`, section `shapesInQuantifier`) — raises. -/

/-- the statement WITHOUT the quantifier-shape hypothesis -/
def C01_total_full : Prop :=
  ∀ (measure : Measure) (d : Doc), Accepted d → MeasureOk measure d →
    (∃ g, encode measure d = .ok g) ∨ (encode measure d = .error "ValueError" ∧ ¬ GroupKeysContiguous d)

/-- `RTFTitle(text="Title", text_font=[])`: an empty attribute list → `ZeroDivisionError` -/
def exEmptyList : Doc :=
  { exDoc with title := some { text := some ["Title".toList], attrs := { exText with font := .tuple [] } } }

theorem C01total_outside_empty_list :
    accepted exEmptyList = true ∧ shapesInQuantifier exEmptyList = false ∧ measureOk exMeasure exEmptyList = true ∧
    raises (encode exMeasure exEmptyList) "ZeroDivisionError" = true := by decide +kernel

/-- `RTFBody(text_font=[[1, 4, 9], [1]])`: a ragged matrix → `ValueError` (not the refusal C01 allows: the keys are
contiguous) -/
def exRagged : Doc :=
  { exDoc with body := { exDoc.body with attrs := { exTbl with font := .nested [[.int 1, .int 4, .int 9], [.int 1]] } } }

theorem C01total_outside_ragged :
    accepted exRagged = true ∧ shapesInQuantifier exRagged = false ∧ groupKeysContiguous exRagged = true ∧
    (match encode exMeasure exRagged with
     | .ok _ => false
     | .error e => e == "ValueError") = true := by decide +kernel

/-- `RTFBody(text_hyphenation=None)`: an explicit `None` for an attribute `TextContent` requires → `ValidationError`
(likewise `text_font`, `text_font_size`, `text_indent_*`, `text_space*`, `text_convert`; `text_justification` on the
flat text components) -/
def exNone : Doc :=
  { exDoc with body := { exDoc.body with attrs := { exTbl with hyph := .null } } }

theorem C01total_outside_none :
    accepted exNone = true ∧ shapesInQuantifier exNone = false ∧ measureOk exMeasure exNone = true ∧
    raises (encode exMeasure exNone) "ValidationError" = true := by decide +kernel

/-- `RTFFootnote(text=…, col_rel_width=None)` rendered as table → `TypeError` -/
def exFootNoWidth : Doc :=
  { exDoc with footnote := some { text := some "note".toList, asTable := true, colRelWidth := none, attrs := exTbl } }

theorem C01total_outside_foot_width :
    accepted exFootNoWidth = true ∧ shapesInQuantifier exFootNoWidth = false ∧
    measureOk exMeasure exFootNoWidth = true ∧ raises (encode exMeasure exFootNoWidth) "TypeError" = true := by
  decide +kernel

/-- `RTFColumnHeader(text=[])` → the encoder raises (`BroadcastValue(dimension=(1, 0))`: `ValidationError`; the model
reports the state it does not represent as `model:header without cells`) -/
def exEmptyHeader : Doc :=
  { exDoc with headers := [some { text := some [], colRelWidth := some [1, 1, 1], attrs := exTbl }] }

theorem C01total_outside_empty_header :
    accepted exEmptyHeader = true ∧ shapesInQuantifier exEmptyHeader = false ∧
    measureOk exMeasure exEmptyHeader = true ∧
    raises (encode exMeasure exEmptyHeader) "model:header without cells" = true := by decide +kernel

/-- `RTFBody(page_by=["g", "a", "b"])`: every column removed → the encoder raises -/
def exNoColumns : Doc :=
  { exDoc with body := { exDoc.body with groupBy := none, pageBy := some ["g".toList, "a".toList, "b".toList] },
               headers := [] }

theorem C01total_outside_no_columns :
    accepted exNoColumns = true ∧ shapesInQuantifier exNoColumns = false ∧
    (match encode exMeasure exNoColumns with
     | .ok _ => false
     | .error e => e != "ValueError") = true := by decide +kernel

/-- `RTFColumnHeader(text=["A", "B", "C", "D"])` on a frame with fewer columns (its width vector, inherited from the
body, has one entry per frame column); likewise `RTFBody(col_rel_width=[1, 1])` on a frame with three displayed
columns → `IndexError` (`col_widths[j]`) -/
def exShortWidths : Doc :=
  { exDoc with headers := [some { text := some ["A".toList, "B".toList, "C".toList, "D".toList],
                                  colRelWidth := some [1, 1, 1], attrs := exTbl }] }

theorem C01total_outside_short_widths :
    accepted exShortWidths = true ∧ shapesInQuantifier exShortWidths = false ∧
    measureOk exMeasure exShortWidths = true ∧ raises (encode exMeasure exShortWidths) "IndexError" = true := by
  decide +kernel

/-- totality does NOT hold for everything the constructors accept: the quantifier-shape hypothesis is necessary -/
theorem C01_total_witness : ¬ C01_total_full := by
  intro h
  obtain ⟨ha, _, hm, he⟩ := C01total_outside_empty_list
  have he := (raises_iff _ _).mp he
  rcases h exMeasure exEmptyList ha hm with ⟨g, hg⟩ | ⟨hv, _⟩
  · rw [he] at hg; cases hg
  · rw [he] at hv
    exact absurd (Except.error.inj hv) (by decide)

end Props.C01total
