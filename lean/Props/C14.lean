import Model.World
import Model.WorldSpec
import Proofs.World
import Generated.Colors
/-!
# C14 — encoding is a pure function of the document

Statement (properties.jsonl): `rtf_encode()` returns the same string every time it is called on a
document, and that string equals what a fresh interpreter produces for an equal-valued document, no
matter which other documents were constructed, encoded, or failed to encode earlier in the process,
and whether or not configuration objects are shared between documents.  Encoding never modifies the
caller's DataFrame.

Model: `Model.World` — `World` = colour context, strategy registry, caller-owned objects (`heap`),
caller-owned frames, constructed documents; `step` = one operation (construct / encode, successful
or raising / encode twice / drop / colour lookup outside an encode); `run` = a history of **any**
length.  The outcome of an encode is its state-dependent projection `Proj` (colour table, resolved
colour indices, width vectors read through the references, strategies) or the error raised.

Sentences of the statement ↦ theorems:
* "the same string every time it is called"                          ↦ `C14_encode_twice`, `C14_twice_equal`
* "equals what a fresh interpreter produces … no matter which other documents were constructed,
  encoded, or failed to encode earlier"                              ↦ `C14_purity`, `C14_purity_constructed`
  (via the invariant `C14_inv_fresh`, `C14_inv_step`, `C14_inv_reachable`)
* "for an equal-valued document" (the fresh process builds only the target's own objects)
                                                                     ↦ `C14_equal_valued`
* "whether or not configuration objects are shared"                  ↦ the heap is addressed by identity;
  `C14_heap_unchanged` (no operation writes a caller's object), witness `C14_legacy_construct_witness`
* "never modifies the caller's DataFrame"                            ↦ `C14_frames_unchanged`
* colour context never survives an operation, failing encodes included ↦ `C14_ctx_cleared`, `C14_lookup_pure`
* registry constant after initialisation                             ↦ `C14_registry_stable`
* the enumeration order of the colour *set* (PYTHONHASHSEED) is irrelevant ↦ `C14_hashseed`, `C14_hashseed_table`
* "what a fresh interpreter produces" is ONE thing: the hash seed an interpreter draws at its start is part of
  the world (`World.seed`, constant along every history: `C14_seed_unchanged`); the outcome of an encode does not
  depend on it (`C14_seed_irrelevant`, `C14_seed_irrelevant_table`), so the outcome after any history in a process
  with one seed is the outcome in a fresh process with any other (`C14_purity_any_interpreter`), for equal-valued
  objects in processes with different seeds (`C14_equal_valued_any_seed`); the spanning heading rows follow the
  user's `page_by` list, the subline heading the user's `subline_by` list (`C14_headings_user_order`);
  the observation over several fresh interpreters reports nothing (`C14_seed_spec_of_model`)
-/
namespace Props.C14
open Model.World Proofs.World

/-- What every reachable world satisfies, relative to the world `w₀` the process started from. -/
structure Inv (w₀ w : World) : Prop where
  /-- the hash seed is the one the process started with -/
  seed : w.seed = w₀.seed
  /-- the colour context is `None` between operations -/
  ctx : w.ctx = none
  /-- the registry is constant after its initialisation -/
  reg : w.registry = w₀.registry ∨ w.registry = registerAll w₀.registry
  /-- caller-owned component objects are never written -/
  heap : w.heap = w₀.heap
  /-- caller-owned frames are never written -/
  frames : w.frames = w₀.frames
  /-- every live document is what its constructor call builds in the fresh world -/
  docs : ∀ n c d, aget n w.docs = some (c, d) → construct w₀.heap w₀.frames c = .ok d

theorem C14_inv_fresh (w₀ : World) (hctx : w₀.ctx = none) (hdocs : w₀.docs = []) : Inv w₀ w₀ where
  seed := rfl
  ctx := hctx
  reg := Or.inl rfl
  heap := rfl
  frames := rfl
  docs := by intro n c d h; rw [hdocs] at h; simp [aget] at h

/-- Every operation — a failing encode included — preserves the invariant. -/
theorem C14_inv_step (T : Table) (w₀ w : World) (op : Op) (h : Inv w₀ w) : Inv w₀ (step T w op).1 := by
  have hreg : ∀ r : Registry, (r = w₀.registry ∨ r = registerAll w₀.registry) →
      (registerAll r = w₀.registry ∨ registerAll r = registerAll w₀.registry) := by
    intro r hr
    rcases hr with e | e
    · exact Or.inr (by rw [e])
    · exact Or.inr (by rw [e, registerAll_idem])
  cases op with
  | construct n c =>
    simp only [step]
    split
    · rename_i d hd
      refine ⟨h.seed, h.ctx, h.reg, h.heap, h.frames, ?_⟩
      intro n' c' d' hget
      by_cases hn : n' = n
      · subst hn
        simp only [aget_aset_self] at hget
        cases hget
        rw [← h.heap, ← h.frames]; exact hd
      · rw [aget_aset_ne _ _ hn] at hget
        exact h.docs n' c' d' hget
    · exact h
  | encode n =>
    simp only [step]
    split
    · exact ⟨h.seed, rfl, hreg _ h.reg, h.heap, h.frames, h.docs⟩
    · exact h
  | encodeTwice n =>
    simp only [step]
    split
    · refine ⟨h.seed, rfl, ?_, h.heap, h.frames, h.docs⟩
      exact hreg _ (hreg _ h.reg)
    · exact h
  | drop n =>
    refine ⟨h.seed, h.ctx, h.reg, h.heap, h.frames, ?_⟩
    intro n' c d hget
    exact h.docs n' c d (aget_filter_ne hget)
  | lookup c => exact h
  | measure => exact h

private theorem inv_run (T : Table) (w₀ : World) (ops : List Op) : ∀ w, Inv w₀ w → Inv w₀ (run T w ops).1 := by
  induction ops with
  | nil => intro w h; exact h
  | cons op ops ih => intro w h; exact ih _ (C14_inv_step T w₀ w op h)

/-- The invariant holds in every world reachable by a history of any length. -/
theorem C14_inv_reachable (T : Table) (w₀ : World) (hctx : w₀.ctx = none) (hdocs : w₀.docs = [])
    (ops : List Op) : Inv w₀ (run T w₀ ops).1 :=
  inv_run T w₀ ops w₀ (C14_inv_fresh w₀ hctx hdocs)

/-- Purity in the invariant's own terms: in any world satisfying the invariant the outcome of a
constructor call + encode is the fresh world's. -/
theorem C14_purity_inv (T : Table) (w₀ w : World) (h : Inv w₀ w) (c : Ctor) :
    (encodeCtor T w c).2 = (encodeCtor T w₀ c).2 := by
  unfold encodeCtor
  rw [h.heap, h.frames]
  split
  · exact encodeDoc_outcome T _ h.seed h.heap h.frames
  · rfl

/-- **Purity.** After any history, constructing and encoding a target gives exactly the outcome it
gives in the fresh world. -/
theorem C14_purity (T : Table) (w₀ : World) (hctx : w₀.ctx = none) (hdocs : w₀.docs = [])
    (ops : List Op) (c : Ctor) :
    (encodeCtor T (run T w₀ ops).1 c).2 = (encodeCtor T w₀ c).2 := by
  have h := C14_inv_reachable T w₀ hctx hdocs ops
  unfold encodeCtor
  rw [h.heap, h.frames]
  split
  · exact encodeDoc_outcome T _ h.seed h.heap h.frames
  · rfl

/-- The same for a document object that was constructed at any earlier point of the history (and
possibly encoded, successfully or not, any number of times since). -/
theorem C14_purity_constructed (T : Table) (w₀ : World) (hctx : w₀.ctx = none) (hdocs : w₀.docs = [])
    (ops : List Op) (n : DocId) (c : Ctor) (d : Doc)
    (hlive : aget n (run T w₀ ops).1.docs = some (c, d)) :
    (step T (run T w₀ ops).1 (.encode n)).2 = .encoded (encodeCtor T w₀ c).2 := by
  have h := C14_inv_reachable T w₀ hctx hdocs ops
  have hc := h.docs n c d hlive
  simp only [step, findDoc, hlive, Option.map_some, encodeCtor, hc]
  rw [encodeDoc_outcome T d h.seed h.heap h.frames]

/-- Encoding the same document again gives the same outcome, from any world whatsoever. -/
theorem C14_encode_twice (T : Table) (w : World) (d : Doc) :
    (encodeDoc T (encodeDoc T w d).1 d).2 = (encodeDoc T w d).2 :=
  encodeDoc_outcome T d rfl rfl rfl

theorem C14_twice_equal (T : Table) (w w' : World) (n : DocId) (a b : Outcome)
    (h : step T w (.encodeTwice n) = (w', .twice a b)) : a = b := by
  simp only [step] at h
  split at h
  · rename_i d _
    simp only [Prod.mk.injEq, Out.twice.injEq] at h
    rw [← h.2.1, ← h.2.2]
    exact (C14_encode_twice T w d).symm
  · simp at h

/-- No operation modifies a caller-owned frame … -/
theorem C14_frames_unchanged (T : Table) (w : World) (ops : List Op) :
    (run T w ops).1.frames = w.frames := by
  induction ops generalizing w with
  | nil => rfl
  | cons op ops ih =>
    simp only [run]
    rw [ih]
    cases op <;> simp only [step] <;> (try split) <;> rfl

/-- … or a caller-owned component object. -/
theorem C14_heap_unchanged (T : Table) (w : World) (ops : List Op) :
    (run T w ops).1.heap = w.heap := by
  induction ops generalizing w with
  | nil => rfl
  | cons op ops ih =>
    simp only [run]
    rw [ih]
    cases op <;> simp only [step] <;> (try split) <;> rfl

/-- The colour context is cleared by every encode, whatever its outcome and whatever was there. -/
theorem C14_ctx_cleared (T : Table) (w : World) (d : Doc) : (encodeDoc T w d).1.ctx = none := rfl

/-- A colour lookup outside an encode sees no context after any history: it answers from the master
table, as in a fresh process. -/
theorem C14_lookup_pure (T : Table) (w₀ : World) (hctx : w₀.ctx = none) (hdocs : w₀.docs = [])
    (ops : List Op) (c : Color) :
    (step T (run T w₀ ops).1 (.lookup c)).2 = .looked (rtfColorIndex T none c) := by
  simp only [step, (C14_inv_reachable T w₀ hctx hdocs ops).ctx]

/-- The registry is its initial value or the initial value plus the three built-in strategies, and the
three registrations are idempotent. -/
theorem C14_registry_stable (T : Table) (w₀ : World) (hctx : w₀.ctx = none) (hdocs : w₀.docs = [])
    (ops : List Op) :
    ((run T w₀ ops).1.registry = w₀.registry ∨ (run T w₀ ops).1.registry = registerAll w₀.registry)
    ∧ registerAll (registerAll w₀.registry) = registerAll w₀.registry :=
  ⟨(C14_inv_reachable T w₀ hctx hdocs ops).reg, registerAll_idem _⟩

/-! ## the observation-level specification holds of the model -/

private theorem twicePairs_equal (T : Table) (ops : List Op) :
    ∀ w, ∀ p ∈ twicePairs (run T w ops).2, p.1 = p.2 := by
  induction ops with
  | nil => intro w p hp; cases hp
  | cons op ops ih =>
    intro w p hp
    simp only [run] at hp
    cases hs : (step T w op).2 with
    | twice a b =>
      rw [hs] at hp
      simp only [twicePairs, List.mem_cons] at hp
      rcases hp with e | e
      · subst e
        cases op <;> simp only [step] at hs <;> (try split at hs) <;> (try cases hs)
        rename_i n d _
        exact (C14_encode_twice T w d).symm
      · exact ih _ p e
    | constructed _ => rw [hs] at hp; exact ih _ p hp
    | encoded _ => rw [hs] at hp; exact ih _ p hp
    | dropped => rw [hs] at hp; exact ih _ p hp
    | looked _ => rw [hs] at hp; exact ih _ p hp
    | measured => rw [hs] at hp; exact ih _ p hp
    | noDoc => rw [hs] at hp; exact ih _ p hp

private theorem encodeCtor_frames (T : Table) (w : World) (c : Ctor) : (encodeCtor T w c).1.frames = w.frames := by
  unfold encodeCtor; split <;> rfl

/-- The oracle the harness evaluates on the implementation (`Model.World.violations`) reports nothing
on the observation the model makes of any history and any target. -/
theorem C14_spec_of_model (T : Table) (w₀ : World) (hctx : w₀.ctx = none) (hdocs : w₀.docs = [])
    (ops : List Op) (c : Ctor) : violations (modelObs T w₀ ops c) = [] := by
  unfold violations modelObs
  simp only [C14_purity T w₀ hctx hdocs ops c, if_true, List.nil_append]
  have h2 : (twicePairs (run T w₀ ops).2).all (fun p => decide (p.1 = p.2)) = true := by
    rw [List.all_eq_true]
    intro p hp
    simp [twicePairs_equal T ops w₀ p hp]
  have h3 : ((w₀.frames.map (·.2)).zip ((encodeCtor T (run T w₀ ops).1 c).1.frames.map (·.2))).all
      (fun p => decide (p.1 = p.2)) = true := by
    rw [encodeCtor_frames, C14_frames_unchanged, List.all_eq_true]
    intro p hp
    have := List.of_mem_zip hp
    generalize w₀.frames.map (·.2) = l at hp
    clear this
    induction l with
    | nil => cases hp
    | cons a r ih =>
      simp only [List.zip_cons_cons, List.mem_cons] at hp
      rcases hp with e | e
      · subst e; simp
      · exact ih e
  simp only [h2, h3, if_true, List.append_nil]

/-! ## "an equal-valued document": only the objects the constructor call names matter -/

/-- the object identities a constructor call mentions -/
def ctorObjs (c : Ctor) : List ObjId :=
  c.secs.map (·.2) ++ c.others ++ headerIds c.headers

def ctorFrames (c : Ctor) : List FrameId := c.secs.map (·.1)

/-- Two processes (with one hash seed; for any two seeds see `C14_equal_valued_any_seed`) whose objects named by
the call have equal values — whatever else exists in either — produce the same outcome for it. -/
theorem C14_equal_valued (T : Table) (w w' : World) (c : Ctor) (hseed : w.seed = w'.seed)
    (hobj : ∀ i ∈ ctorObjs c, aget i w.heap = aget i w'.heap)
    (hfr : ∀ i ∈ ctorFrames c, aget i w.frames = aget i w'.frames) :
    (encodeCtor T w c).2 = (encodeCtor T w' c).2 :=
  Proofs.World.encodeCtor_local T w w' c hseed hobj hfr

/-! ## enumeration order of the colour set -/

/-- If the master index is injective on the names in play, permuting the context (what a different
`PYTHONHASHSEED` does to `list(set(...))`) changes no resolved index and no colour table. -/
theorem C14_hashseed (T : Table) (used used' : List Color) (c : Color)
    (hinj : ∀ a b n, master T a = some n → master T b = some n → a = b)
    (hperm : used.Perm used') :
    rtfColorIndex T (some used) c = rtfColorIndex T (some used') c
    ∧ colorTable T used = colorTable T used' :=
  ⟨Proofs.World.rtfColorIndex_perm T used used' c hinj hperm, Proofs.World.colorTable_perm T used used' hinj hperm⟩

/-- rtflite's colour table as the model's `Table` -/
def realTable : Table := Generated.colorTable.map (fun r => (r.name.toList, r.idx))

/-- the master indices of the table in /repo are `1, 2, …, 657` in order (re-decided on every build) -/
theorem C14_table_indices : Generated.colorTable.map (·.idx) = List.range' 1 Generated.colorTable.length := by
  decide +kernel

theorem C14_hashseed_table (used used' : List Color) (c : Color) (hperm : used.Perm used') :
    rtfColorIndex realTable (some used) c = rtfColorIndex realTable (some used') c
    ∧ colorTable realTable used = colorTable realTable used' := by
  apply C14_hashseed realTable used used' c _ hperm
  apply Proofs.World.master_inj_of_nodup
  have : realTable.map (·.2) = Generated.colorTable.map (·.idx) := by
    simp [realTable, List.map_map, Function.comp_def]
  rw [this, C14_table_indices]
  exact List.nodup_range'

/-! ## the hash seed of the interpreter -/

/-- master indices of rtflite's table are pairwise different -/
theorem C14_table_injective : ∀ a b n, master realTable a = some n → master realTable b = some n → a = b := by
  apply Proofs.World.master_inj_of_nodup
  have : realTable.map (·.2) = Generated.colorTable.map (·.idx) := by
    simp [realTable, List.map_map, Function.comp_def]
  rw [this, C14_table_indices]
  exact List.nodup_range'

/-- No operation changes the hash seed: it is drawn once, when the interpreter starts. -/
theorem C14_seed_unchanged (T : Table) (w : World) (ops : List Op) : (run T w ops).1.seed = w.seed := by
  induction ops generalizing w with
  | nil => rfl
  | cons op ops ih =>
    simp only [run]
    rw [ih]
    cases op <;> simp only [step] <;> (try split) <;> rfl

/-- **The encode outcome is independent of the hash-seed component of the world**: the same objects, frames
and constructor call in a process that drew seed `s` instead give the same outcome (colour table, every colour
index, widths, strategies, order of the heading rows, error kind) — where the master colour index is injective. -/
theorem C14_seed_irrelevant (T : Table)
    (hinj : ∀ a b n, master T a = some n → master T b = some n → a = b) (w : World) (s : Nat) (c : Ctor) :
    (encodeCtor T { w with seed := s } c).2 = (encodeCtor T w c).2 :=
  Proofs.World.encodeCtor_local_inj T hinj _ _ c (fun _ _ => rfl) (fun _ _ => rfl)

/-- … which rtflite's table is. -/
theorem C14_seed_irrelevant_table (w : World) (s : Nat) (c : Ctor) :
    (encodeCtor realTable { w with seed := s } c).2 = (encodeCtor realTable w c).2 :=
  C14_seed_irrelevant realTable C14_table_injective w s c

/-- The same for a document object that exists already. -/
theorem C14_seed_irrelevant_doc (w : World) (s : Nat) (d : Doc) :
    (encodeDoc realTable { w with seed := s } d).2 = (encodeDoc realTable w d).2 :=
  Proofs.World.encodeDoc_outcome_inj realTable C14_table_injective d rfl rfl

/-- **Purity against ANY fresh interpreter.** After any history in a process that drew seed `s`, constructing
and encoding a target gives exactly the outcome of a fresh process that drew seed `s'` — "a fresh interpreter"
is every fresh interpreter. -/
theorem C14_purity_any_interpreter (w₀ : World) (hctx : w₀.ctx = none) (hdocs : w₀.docs = [])
    (s s' : Nat) (ops : List Op) (c : Ctor) :
    (encodeCtor realTable (run realTable { w₀ with seed := s } ops).1 c).2
      = (encodeCtor realTable { w₀ with seed := s' } c).2 := by
  rw [C14_purity realTable { w₀ with seed := s } hctx hdocs ops c,
    C14_seed_irrelevant_table w₀ s c, C14_seed_irrelevant_table w₀ s' c]

/-- Equal-valued objects in two processes with whatever hash seeds: the same outcome. -/
theorem C14_equal_valued_any_seed (w w' : World) (c : Ctor)
    (hobj : ∀ i ∈ ctorObjs c, aget i w.heap = aget i w'.heap)
    (hfr : ∀ i ∈ ctorFrames c, aget i w.frames = aget i w'.frames) :
    (encodeCtor realTable w c).2 = (encodeCtor realTable w' c).2 :=
  Proofs.World.encodeCtor_local_inj realTable C14_table_injective w w' c hobj hfr

/-- The spanning heading rows of a section follow the body's `page_by` list as the user wrote it and the subline
heading its `subline_by` list — whatever the hash seed, the registry and the history. -/
theorem C14_headings_user_order (w : World) (d : Doc) (i : Nat) (s : FrameId × Comp) (p : SecProj) (o : Obj)
    (ho : s.2.get w.heap = some o) (h : encodeSec w d i s = .ok p) :
    p.headings = (if o.newPage && o.pagebyColumn then [] else o.pageBy) ∧ p.sublines = o.sublineBy := by
  unfold encodeSec at h
  rw [ho] at h
  split at h
  · rename_i f o' hf ho'
    cases ho'
    split at h
    · cases h
    · split at h
      · cases h
      · simp only at h
        repeat' split at h
        all_goals first
          | (cases h; exact ⟨rfl, rfl⟩)
          | cases h
  · cases h

/-- The observation of several fresh interpreters (`Model.World.seedViolations`, the oracle the harness
evaluates on the implementation's fresh-interpreter outputs under several hash seeds) reports nothing on the
model, for any reference seed and any other seeds. -/
theorem C14_seed_spec_of_model (w₀ : World) (s : Nat) (seeds : List Nat) (c : Ctor) :
    seedViolations (encodeCtor realTable { w₀ with seed := s } c).2 (modelFreshOutcomes realTable w₀ seeds c) = [] := by
  unfold seedViolations modelFreshOutcomes
  have : (seeds.map (fun s' => (encodeCtor realTable { w₀ with seed := s' } c).2)).all
      (fun o => decide (o = (encodeCtor realTable { w₀ with seed := s } c).2)) = true := by
    rw [List.all_eq_true]
    intro o ho
    obtain ⟨s', _, rfl⟩ := List.mem_map.mp ho
    rw [C14_seed_irrelevant_table w₀ s' c, C14_seed_irrelevant_table w₀ s c]
    simp
  rw [this]
  rfl

/-! ## witnesses: the model tells the historical behaviours apart -/

section Witness
private def tbl : Table := [("red".toList, 552), ("blue".toList, 26)]
private def body0 : Obj :=
  { widths := none, colors := [], used := [], groupBy := [], pageBy := [], sublineBy := [],
    newPage := false, pagebyColumn := true, rest := 0 }
private def f2 : Frame := { cols := ["a".toList, "b".toList], rows := [[some "1".toList, some "2".toList]] }
private def f3 : Frame := { cols := ["a".toList, "b".toList, "c".toList], rows := [[none, none, none]] }
private def c2 : Ctor := { kind := .single, secs := [(0, 0)], headers := .flat [], others := [] }
private def c3 : Ctor := { kind := .single, secs := [(1, 0)], headers := .flat [], others := [] }
private def w0 : World := fresh [(0, body0)] [(0, f2), (1, f3)]

/-- Before 6e822b0: constructing a 2-column document around a shared `RTFBody()` wrote `[1, 1]` into
it; a 3-column document built around the same object afterwards fails with `IndexError`, while in a
fresh process it encodes.  (Minimal history found on the real code.) -/
theorem C14_legacy_construct_witness :
    let h1 := Legacy.constructWrites w0.heap w0.frames c2
    (encodeDoc tbl { w0 with heap := h1 } (Legacy.constructDoc c3)).2 = .error .indexError
    ∧ (encodeCtor tbl w0 c3).2 ≠ .error .indexError
    ∧ (encodeCtor tbl (run tbl w0 [.construct 7 c2]).1 c3).2 = (encodeCtor tbl w0 c3).2 := by
  decide

private def blueBody : Obj := { body0 with colors := ["blue".toList], used := ["blue".toList], groupBy := ["a".toList] }
private def redBody : Obj := { body0 with colors := ["red".toList], used := ["red".toList] }
private def fBad : Frame := { cols := ["a".toList], rows := [[some "A".toList], [some "B".toList], [some "A".toList]] }
private def cBad : Ctor := { kind := .single, secs := [(0, 0)], headers := .flat [], others := [] }
private def cMulti : Ctor := { kind := .multi, secs := [(1, 1), (1, 1)], headers := .flat [], others := [] }
private def w1 : World := fresh [(0, blueBody), (1, redBody)] [(0, fBad), (1, f2)]

/-- Before 9510742 (D18): a failed single-section encode left its palette behind and the multi-section
path never set one; the next multi-section encode resolved `red` against `['blue']`. -/
theorem C14_legacy_encode_witness :
    ∃ dBad dMulti, construct w1.heap w1.frames cBad = .ok dBad ∧ construct w1.heap w1.frames cMulti = .ok dMulti
      ∧ (Legacy.encodeDoc tbl w1 dBad).2 = .error .valueError
      ∧ (Legacy.encodeDoc tbl (Legacy.encodeDoc tbl w1 dBad).1 dMulti).2 ≠ (Legacy.encodeDoc tbl w1 dMulti).2
      ∧ (encodeDoc tbl (encodeDoc tbl w1 dBad).1 dMulti).2 = (encodeDoc tbl w1 dMulti).2 := by
  refine ⟨_, _, rfl, rfl, ?_⟩
  decide

/-- a listing body: `subline_by=["site"], page_by=["region", "arm"]` -/
private def listing : Obj := { body0 with sublineBy := ["site".toList], pageBy := ["region".toList, "arm".toList] }

/-- The seed component is not idle: two interpreters enumerate one and the same set of two column names in
different orders, so a heading order taken from `set(page_by) - set(subline_by)` instead of the list (the class
of change the harness looks for by encoding under several hash seeds) gives different documents in different
interpreters — while the model's heading order is the user's list under every seed. -/
theorem C14_seed_witness :
    enumSet 0 (listing.pageBy.filter (fun c => !listing.sublineBy.contains c))
      ≠ enumSet 4 (listing.pageBy.filter (fun c => !listing.sublineBy.contains c))
    ∧ headingCols listing = ["region".toList, "arm".toList] := by
  decide

/-- Non-vacuity: a history with a shared body, a failing encode, an encode-twice and a drop, whose
target encodes successfully with a non-empty colour table and dense indices. -/
example :
    (run tbl w1 [.construct 0 cBad, .encode 0, .construct 1 cMulti, .encodeTwice 1, .drop 0, .lookup "red".toList]).2
      = [.constructed true, .encoded (.error .valueError), .constructed true,
         .twice (encodeCtor tbl w1 cMulti).2 (encodeCtor tbl w1 cMulti).2, .dropped, .looked (.idx 552)]
    ∧ (∃ p, (encodeCtor tbl w1 cMulti).2 = .ok p ∧ p.table = ["red".toList] ∧ p.indices = [("red".toList, 1), ("red".toList, 1)]) := by
  refine ⟨by decide, _, rfl, by decide, by decide⟩
end Witness

end Props.C14
