import Model.EncodeMulti
import Proofs.EncodeLift
import Proofs.EncodeAttrs
import Proofs.EncodeMultiLift
import Props.C02enc
import Props.C07enc
import Props.C08enc
import Props.C01encmore
/-!
# C02 for the multi-section encoder: every section's rows are rendered once, in order

`Model.EncodeMulti.encodeWithM` (byte-exact against `rtf_encode()` of a document with a list of frames) encodes every
section with `Model.Encode.encodePages` on its `sectionDoc`, with the colour context of the WHOLE document.  Here:

* `C02encm_structure`     for every accepted document there is, per section in order, a plan and a rendering trace of the
                          section document (`Proofs.EncodeLift`); the output blocks are the elements of all traces, in
                          order, joined by newlines;
* `C02encm_sectionDoc`    what the section document of section `i` carries: the section's frame and body, the document's
                          page settings with `border_first = ""` after the first section and `border_last = ""` before
                          the last;
* `C02encm_rows_once_in_order`   the `.data` blocks rendered for section `i`, over its pages in order, are
                          `0 … nrows_i − 1`: every frame row of every section exactly once, sections in order, rows in
                          order within the section;
* `C02encm_data_row`      every `.data i` block of a section is ONE table row, `encodeRow` of row `i` of the section's
                          final frame (`Props.C02enc.C02enc_data_row` per section);
* `C02encm`               all of it from `encodeWithM measure d = .ok x`;
* `C02encm_runs`          the same structure with a `Run` per section, so that every `C07enc` / `C08enc` / `C09enc` theorem
                          applies to every section;
* first / last page-border rule: `C02encm_first_row_border` (the first table row of the document carries
  `rtf_page.border_first`), `C02encm_later_first_row` (the first row of a later section does not: it keeps the user's
  `border_top`), `C02encm_last_row_border` (the last table row of the document carries `rtf_page.border_last`),
  `C02encm_earlier_last_page` (the last page of an earlier section is not closed by it: no closing style, every bottom
  border stays the user's, no override for footnote / source), `C02encm_page_border_inputs` (the border input of
  every page of such a section has the empty page border);
* `C02encm_right_edge`    every section's data rows end at `twip d.page.colWidth`.
-/
namespace Props.C02encm
open Model.Rtf Model.Emit Model.Encode Model.EncodeMulti Model.Broadcast Model.Layout Model.Borders
open Proofs.EncodeLift Proofs.EncodeMultiLift Generated
open Proofs.EncodeAttrs (Run borderIn edgeStr frameRect)
open Props.C02 (dataIdx)

/-! ## structure -/

/-- **every section is encoded on its own, in order**: for every accepted multi-section document there is a list `T`
with one entry per section document — the section document, its plan and its rendering trace (for the document-wide
colour context) — and the output blocks are the elements of all traces, in order, joined by newlines -/
theorem C02encm_structure (measure : Measure) (d : MDoc) (x : DocG × Nat) (h : encodeWithM measure d = .ok x) :
    ∃ T : List (Doc × (Plan × Trace)), T.map Prod.fst = sectionDocs d ∧
      (∀ t ∈ T, plan measure t.1 = .ok t.2.1 ∧ Renders (ctxM d) t.1 t.2.1 t.2.2) ∧
      x.1.blocks = joinElems (T.flatMap fun t => t.2.2.elems) ++
        [BlockG.plain [Node.nl, Node.nl, Node.nl, Node.nl]] :=
  encodeWithM_traces h

/-- one section document per section, in order -/
theorem C02encm_sectionDocs (d : MDoc) (i : Nat) :
    (sectionDocs d)[i]? = d.sections[i]?.map fun s => sectionDoc d d.sections.length i s :=
  sectionDocs_getElem? d i

/-- the section document of section `i` of `n`: the section's frame and body; the document's page with
`border_first = ""` for every section after the first and `border_last = ""` for every section before the last -/
theorem C02encm_sectionDoc (d : MDoc) (n i : Nat) (s : Section) :
    (sectionDoc d n i s).cols = s.cols ∧ (sectionDoc d n i s).rows = s.rows ∧ (sectionDoc d n i s).body = s.body ∧
    (sectionDoc d n i s).page.borderFirst = (if 0 < i then "" else d.page.borderFirst) ∧
    (sectionDoc d n i s).page.borderLast = (if i + 1 < n then "" else d.page.borderLast) ∧
    (sectionDoc d n i s).page.colWidth = d.page.colWidth ∧ (sectionDoc d n i s).page.nrow = d.page.nrow := by
  refine ⟨rfl, rfl, rfl, ?_, ?_, rfl, rfl⟩
  · simp only [sectionDoc]
    by_cases h : 0 < i <;> simp [h]
  · simp only [sectionDoc]
    by_cases h : i + 1 < n <;> simp [h]

/-! ## every row of every section once, in order -/

/-- **the data blocks of section `i`**, over its pages in rendering order, are `0 … nrows_i − 1`: every frame row of
every section is rendered exactly once, sections in order, rows in order within a section -/
theorem C02encm_rows_once_in_order (measure : Measure) (d : MDoc) (T : List (Doc × (Plan × Trace)))
    (hT : T.map Prod.fst = sectionDocs d)
    (hR : ∀ t ∈ T, plan measure t.1 = .ok t.2.1 ∧ Renders (ctxM d) t.1 t.2.1 t.2.2) :
    T.map (fun t => t.2.2.flatMap fun x => dataIdx (x.2.map Prod.fst)) =
      d.sections.map fun s => List.range s.rows.length := by
  have h1 : T.map (fun t => t.2.2.flatMap fun x => dataIdx (x.2.map Prod.fst)) =
      T.map (fun t => List.range t.1.rows.length) := by
    apply List.map_congr_left
    intro t ht
    obtain ⟨hp, hr⟩ := hR t ht
    exact Props.C02enc.C02enc_trace_rows_once measure (ctxM d) t.1 t.2.1 t.2.2 hp hr
  have h2 : T.map (fun t => List.range t.1.rows.length) =
      (T.map Prod.fst).map fun sd => List.range sd.rows.length := by
    rw [List.map_map]; rfl
  rw [h1, h2, hT]
  apply List.ext_getElem?
  intro i
  rw [List.getElem?_map, sectionDocs_getElem?, List.getElem?_map]
  cases d.sections[i]? with
  | none => rfl
  | some s => rfl

/-- every `.data i` block of every section's trace was rendered as exactly one table row: `encodeRow` with the page's
attributes of the SECTION document, the section's cumulative widths, the row's position on the page, and row `i` of the
section's final frame; one cell per value (`Props.C02enc.C02enc_data_row` for the section) -/
theorem C02encm_data_row (measure : Measure) (d : MDoc) (T : List (Doc × (Plan × Trace)))
    (hR : ∀ t ∈ T, plan measure t.1 = .ok t.2.1 ∧ Renders (ctxM d) t.1 t.2.1 t.2.2)
    (t : Doc × (Plan × Trace)) (ht : t ∈ T) (x : PageCtx × List (Block × List Elem)) (hx : x ∈ t.2.2)
    (y : Block × List Elem) (hy : y ∈ x.2) (i : Nat) (hb : y.1 = Block.data i) :
    ∃ cells fmt, t.2.1.rows[i]? = some cells ∧
      encodeRow (ctxM d) (pageAttrs t.1 t.2.1.bodyA t.2.1.p x.1).attrs t.2.1.p.cum (i - x.1.dataStart) cells
        = .ok (rowElem fmt) ∧
      y.2 = [rowElem fmt] ∧ cells ≠ [] ∧ fmt.cells.length = cells.length := by
  obtain ⟨cells, fmt, h1, h2, h3, h4, h5, _⟩ :=
    Props.C02enc.C02enc_data_row (ctxM d) t.1 t.2.1 t.2.2 (hR t ht).2 x hx y hy i hb
  exact ⟨cells, fmt, h1, h2, h3, h4, h5⟩

/-- **C02 for the multi-section encoder.**  For every accepted document: one plan and one trace per section, in order;
the output is the traces' elements joined by newlines; the data blocks of section `i` are `0 … nrows_i − 1` in order;
every data block is one table row of the section's final frame, and without group_by the final frame of a section is
its frame with the removed columns' positions dropped -/
theorem C02encm (measure : Measure) (d : MDoc) (x : DocG × Nat) (h : encodeWithM measure d = .ok x) :
    ∃ T : List (Doc × (Plan × Trace)), T.map Prod.fst = sectionDocs d ∧
      (∀ t ∈ T, plan measure t.1 = .ok t.2.1 ∧ Renders (ctxM d) t.1 t.2.1 t.2.2) ∧
      x.1.blocks = joinElems (T.flatMap fun t => t.2.2.elems) ++
        [BlockG.plain [Node.nl, Node.nl, Node.nl, Node.nl]] ∧
      (T.map (fun t => t.2.2.flatMap fun x => dataIdx (x.2.map Prod.fst)) =
        d.sections.map fun s => List.range s.rows.length) ∧
      (∀ t ∈ T, ∀ x ∈ t.2.2, ∀ y ∈ x.2, ∀ i, y.1 = Block.data i →
        ∃ cells fmt, t.2.1.rows[i]? = some cells ∧
          encodeRow (ctxM d) (pageAttrs t.1 t.2.1.bodyA t.2.1.p x.1).attrs t.2.1.p.cum (i - x.1.dataStart) cells
            = .ok (rowElem fmt) ∧
          y.2 = [rowElem fmt] ∧ cells ≠ [] ∧ fmt.cells.length = cells.length) ∧
      (∀ t ∈ T, t.1.body.groupByL = [] → ∃ removed, removedIdx t.1 = .ok removed ∧
        t.2.1.rows = t.1.rows.map (fun r => dropCols r removed)) := by
  obtain ⟨T, h1, h2, h3⟩ := C02encm_structure measure d x h
  refine ⟨T, h1, h2, h3, C02encm_rows_once_in_order measure d T h1 h2, ?_, ?_⟩
  · intro t ht x hx y hy i hb
    exact C02encm_data_row measure d T h2 t ht x hx y hy i hb
  · intro t ht hgb
    obtain ⟨removed, a1, _, _, a4, _⟩ := Props.C02enc.C02enc_rows_no_groupby measure t.1 t.2.1 (h2 t ht).1 hgb
    exact ⟨removed, a1, a4⟩

/-! ## a `Run` per section -/

/-- the same structure with all intermediate values of `encodePages` per section (`Proofs.EncodeAttrs.Run`): every
theorem of `Props/C07enc.lean`, `Props/C08enc.lean`, `Props/C09enc.lean` applies to every section document -/
theorem C02encm_runs (measure : Measure) (d : MDoc) (x : DocG × Nat) (h : encodeWithM measure d = .ok x) :
    ∃ Rs : List (Sigma fun sd : Doc => Run measure (ctxM d) sd), Rs.map (·.1) = sectionDocs d ∧
      x.1.blocks = joinElems (Rs.flatMap fun r => r.2.ess.flatten) ++
        [BlockG.plain [Node.nl, Node.nl, Node.nl, Node.nl]] :=
  encodeWithM_runs h

/-! ## the first / last page-border rule -/

/-- the border input `_apply_pagination_borders` gets for a page of section `i` of `n`: the page border_first is the
document's for section 0 and empty for every later section; the page border_last is the document's for the last section
and empty for every earlier one -/
theorem C02encm_page_border_inputs (d : MDoc) (n i : Nat) (s : Section) (A : TblAttrsOf MatV) (p : Prep)
    (pg : PageCtx) :
    (borderIn (sectionDoc d n i s) A p pg).pageFirst = (if 0 < i then "" else d.page.borderFirst) ∧
    (borderIn (sectionDoc d n i s) A p pg).pageLast = (if i + 1 < n then "" else d.page.borderLast) := by
  obtain ⟨_, _, _, h4, h5, _⟩ := C02encm_sectionDoc d n i s
  exact ⟨h4, h5⟩

/-- **the first table row of the document carries `rtf_page.border_first`**: on page 1 of section 0, when no header row
is rendered, every cell of the first data row is emitted with the control word of `d.page.borderFirst` as its top
border (`Props.C07enc.C07enc_first_row_emitted` for the first section document) -/
theorem C02encm_first_row_border (measure : Measure) (d : MDoc) (n : Nat) (s : Section)
    (R : Run measure (ctxM d) (sectionDoc d n 0 s))
    (hrect : frameRect (sectionDoc d n 0 s) = true) (hcols : 0 < R.p.ncolsDisp)
    (ht : Props.C07enc.edgeShapeOk s.body.attrs.bTop = true) (hb : Props.C07enc.edgeShapeOk s.body.attrs.bBottom = true)
    {pg : PageCtx} {blocks : List Block} (hr : R.Renders pg blocks) (hh : 0 < pg.height) (h1 : pg.number = 1)
    (h2 : hasHeaderRow (sectionDoc d n 0 s) = false) (h3 : d.page.borderFirst ≠ "") :
    ∃ code cells e cs gaph just, borderCodes.lookup d.page.borderFirst = some code ∧
      R.rows[pg.start]? = some cells ∧ e ∈ R.ess.flatten ∧
      e = rowElem { gaph := gaph, just := just, cells := cs } ∧ cs.length = cells.length ∧
      ∀ c ∈ cs, ∃ b, c.top = some b ∧ b.style = codeWord code :=
  Props.C07enc.C07enc_first_row_emitted R hrect hcols ht hb hr hh h1 h2 h3

/-- **… and the first row of a later section does not**: on page 1 of a section after the first, when no header row is
rendered, every cell of the first data row reads the user's own `border_top` at its original (row, column) — the page
border is not applied -/
theorem C02encm_later_first_row (measure : Measure) (d : MDoc) (n i : Nat) (hi : 0 < i) (s : Section)
    (R : Run measure (ctxM d) (sectionDoc d n i s)) (hcols : 0 < R.p.ncolsDisp)
    (ht : Props.C07enc.edgeShapeOk s.body.attrs.bTop = true) (hb : Props.C07enc.edgeShapeOk s.body.attrs.bBottom = true)
    {pg : PageCtx} {blocks : List Block} (hr : R.Renders pg blocks) {r : Nat} (hdata : Block.data r ∈ blocks)
    (h1 : pg.number = 1) (h2 : hasHeaderRow (sectionDoc d n i s) = false) :
    ∀ j c, (keptIdx s.cols.length R.removed)[j]? = some c →
      ∃ st, edgeStr R.A.bTop pg.start c = some st ∧
        ilocV (pageAttrs (sectionDoc d n i s) R.A R.p pg).attrs.bTop 0 j = .ok (.str st) := by
  have hok := Props.C07enc.C07enc_pageOK_of_run R hcols ht hb hr hdata
  have h3 : (sectionDoc d n i s).page.borderFirst = "" := by
    rw [(C02encm_sectionDoc d n i s).2.2.2.1, if_pos hi]
  exact Props.C07enc.C07enc_top_untouched hok R.A h1 h2 h3

/-- **the last table row of the document carries `rtf_page.border_last`**: on the last page of the last section, when no
table-rendered footnote / source is shown there, every cell of the last data row is emitted with the control word of
`d.page.borderLast` as its bottom border -/
theorem C02encm_last_row_border (measure : Measure) (d : MDoc) (n i : Nat) (hi : ¬ i + 1 < n) (s : Section)
    (R : Run measure (ctxM d) (sectionDoc d n i s))
    (hrect : frameRect (sectionDoc d n i s) = true) (hcols : 0 < R.p.ncolsDisp)
    (ht : Props.C07enc.edgeShapeOk s.body.attrs.bTop = true) (hb : Props.C07enc.edgeShapeOk s.body.attrs.bBottom = true)
    {pg : PageCtx} {blocks : List Block} (hr : R.Renders pg blocks) (hh : 0 < pg.height)
    (hlast : pg.number = pg.total) (h3 : d.page.borderLast ≠ "")
    (hf : footTableHere (sectionDoc d n i s).footnote d.page.pageFootnote (pg.number == 1) (pg.number == pg.total)
      = false)
    (hsrc : footTableHere (sectionDoc d n i s).source d.page.pageSource (pg.number == 1) (pg.number == pg.total)
      = false) :
    ∃ code cells e cs gaph just, borderCodes.lookup d.page.borderLast = some code ∧
      R.rows[pg.start + pg.height - 1]? = some cells ∧ e ∈ R.ess.flatten ∧
      e = rowElem { gaph := gaph, just := just, cells := cs } ∧ cs.length = cells.length ∧
      ∀ c ∈ cs, ∃ b, c.bottom = some b ∧ b.style = codeWord code := by
  have hbl : (sectionDoc d n i s).page.borderLast = d.page.borderLast := by
    rw [(C02encm_sectionDoc d n i s).2.2.2.2.1, if_neg hi]
  have hs := (Props.C07enc.C07enc_closing_style (sectionDoc d n i s) R.A R.p pg).2.1 hlast (by rw [hbl]; exact h3)
  rw [hbl] at hs
  exact Props.C07enc.C07enc_last_row_emitted R hrect hcols ht hb hr hh d.page.borderLast hs hf hsrc

/-- **… and the last page of an earlier section is not closed by it**: on the last page of a section before the last
there is no closing style; every data cell of the page reads the user's own `border_bottom` at its original
(row, column), and footnote / source get no override -/
theorem C02encm_earlier_last_page (measure : Measure) (d : MDoc) (n i : Nat) (hi : i + 1 < n) (s : Section)
    (R : Run measure (ctxM d) (sectionDoc d n i s)) (hcols : 0 < R.p.ncolsDisp)
    (ht : Props.C07enc.edgeShapeOk s.body.attrs.bTop = true) (hb : Props.C07enc.edgeShapeOk s.body.attrs.bBottom = true)
    {pg : PageCtx} {blocks : List Block} (hr : R.Renders pg blocks) {r : Nat} (hdata : Block.data r ∈ blocks)
    (hlast : pg.number = pg.total) :
    closingStyle (borderIn (sectionDoc d n i s) R.A R.p pg) = none ∧
    (pageAttrs (sectionDoc d n i s) R.A R.p pg).fnOverride = none ∧
    (pageAttrs (sectionDoc d n i s) R.A R.p pg).srcOverride = none ∧
    ∀ i' j c, i' < pg.height → (keptIdx s.cols.length R.removed)[j]? = some c →
      ∃ st, edgeStr R.A.bBottom (pg.start + i') c = some st ∧
        ilocV (pageAttrs (sectionDoc d n i s) R.A R.p pg).attrs.bBottom i' j = .ok (.str st) := by
  have hok := Props.C07enc.C07enc_pageOK_of_run R hcols ht hb hr hdata
  have hbl : (sectionDoc d n i s).page.borderLast = "" := by
    rw [(C02encm_sectionDoc d n i s).2.2.2.2.1, if_pos hi]
  have hs := (Props.C07enc.C07enc_closing_style (sectionDoc d n i s) R.A R.p pg).2.2.1 hlast hbl
  have hwf := Props.C07enc.C07enc_wf hok R.A
  obtain ⟨c1, c2, c3⟩ := bottom_untouched _ hwf.hne hwf.botGood hs
  obtain ⟨_, _, e3, e4⟩ := Proofs.EncodeAttrs.pageAttrs_edges (sectionDoc d n i s) R.A R.p pg
    (by have := hok.hpos; omega)
  refine ⟨hs, by rw [e3, c2], by rw [e4, c3], ?_⟩
  intro i' j c hi' hj
  have hjw : j < R.p.ncolsDisp := by rw [hok.ncols]; exact (List.getElem?_eq_some_iff.mp hj).1
  have h3 := c1 i' j hi'
  have hu := Props.C07enc.userEdge hok .bBottom hok.bottom hi' hj
  have hsome := hwf.botGood.iloc_isSome (pg.start + i') j
  cases hv : (borderIn (sectionDoc d n i s) R.A R.p pg).bottom.iloc (pg.start + i') j with
  | none => rw [hv] at hsome; cases hsome
  | some s' =>
    refine ⟨s', ?_, Props.C07enc.bottomRead hok R.A (by rw [h3]; exact hv)⟩
    exact hu.symm.trans hv

/-! ## one right edge, in every section -/

/-- the last `\cellx` of every data row of every section is `twip d.page.colWidth`: all sections share the table's right
edge -/
theorem C02encm_right_edge (measure : Measure) (d : MDoc) (n i : Nat) (s : Section)
    (R : Run measure (ctxM d) (sectionDoc d n i s)) (hw : Props.C08enc.WidthsOk (sectionDoc d n i s) R.p.keep) :
    (R.p.cum.map Model.Encode.twip).getLast? = some (Model.Encode.twip d.page.colWidth) :=
  Props.C08enc.C08enc_right_edge R hw

/-- … and every data row of the section is emitted with that `\cellx` vector -/
theorem C02encm_data_rows_cellx (measure : Measure) (d : MDoc) (n i : Nat) (s : Section)
    (R : Run measure (ctxM d) (sectionDoc d n i s)) (hrect : frameRect (sectionDoc d n i s) = true)
    (hw : Props.C08enc.WidthsOk (sectionDoc d n i s) R.p.keep)
    {pg : PageCtx} {blocks : List Block} (hr : R.Renders pg blocks) {r : Nat} (hb : Block.data r ∈ blocks) :
    ∃ cells e, R.rows[r]? = some cells ∧ e ∈ R.ess.flatten ∧
      Proofs.EncodeAttrs.elemCellx e = [R.p.cum.map Model.Encode.twip] ∧
      (R.p.cum.map Model.Encode.twip).getLast? = some (Model.Encode.twip d.page.colWidth) := by
  obtain ⟨cells, e, h1, h2, _, h4, _⟩ := Props.C08enc.C08enc_data_rows R hrect hw hr hb
  exact ⟨cells, e, h1, h2, h4, C02encm_right_edge measure d n i s R hw⟩

/-! ## non-vacuity -/

open Props.C01enc Props.C01encmore in
/-- three sections (2, 3 and 1 rows) under a flat header list, `nrow = 2`: section 1 needs two pages -/
def exMulti3 : MDoc :=
  { exMulti with
    sections := [{ cols := ["a".toList, "b".toList],
                   rows := [[some "x".toList, some "1".toList], [some "y".toList, some "2".toList]],
                   body := exBody, headers := [] },
                 { cols := ["a".toList, "b".toList],
                   rows := [[some "n>=3".toList, some "é".toList], [some "p".toList, none],
                            [some "q".toList, some "5".toList]],
                   body := exBody, headers := [] },
                 { cols := ["a".toList, "b".toList], rows := [[some "z".toList, some "9".toList]],
                   body := exBody, headers := [] }],
    page := { exPage with nrow := 2 } }

set_option maxRecDepth 100000

open Props.C01enc in
/-- the encoder accepts the example; the data blocks of the three sections are `0,1 | 0,1 / 2 | 0`, section 1 on two pages;
only the first section document keeps `border_first`, only the last keeps `border_last` -/
example :
    (match encodeWithM exMeasure exMulti3 with | .ok _ => true | .error _ => false) = true ∧
    ((sectionDocs exMulti3).map fun sd =>
      match encoderBlocks exMeasure sd with
      | .ok pbs => pbs.map (fun x => dataIdx x.2)
      | .error _ => []) = [[[0, 1]], [[0, 1], [2]], [[0]]] ∧
    (sectionDocs exMulti3).map (fun sd => (sd.page.borderFirst, sd.page.borderLast)) =
      [("double", ""), ("", ""), ("", "double")] := by
  refine ⟨by decide +kernel, by decide +kernel, by decide +kernel⟩

open Props.C01enc in
/-- the hypotheses of the main theorem are satisfiable: the theorem applied to the example -/
example : ∀ x, encodeWithM exMeasure exMulti3 = .ok x →
    ∃ T : List (Doc × (Plan × Trace)), T.map Prod.fst = sectionDocs exMulti3 ∧
      T.map (fun t => t.2.2.flatMap fun x => dataIdx (x.2.map Prod.fst)) = [[0, 1], [0, 1, 2], [0]] := by
  intro x h
  obtain ⟨T, h1, _, _, h4, _⟩ := C02encm exMeasure exMulti3 x h
  exact ⟨T, h1, h4⟩

end Props.C02encm
