import Generated.PyRtfColorIndex
import Model.Color
/-!
# C12 — translator tie for the colour index

`Generated.Py.RtfColorIndex.run` is regenerated on every run from the source of `ColorService.get_rtf_color_index`
(harness/pytranslate.py), in the exception monad.  The rest of the service enters as parameters: the dict
`self._name_to_type` as a lookup, the helpers `get_color_index` and `validate_color_list` (they stay tied by C12's
correspondence), the context variable.

This file proves: with the parameters instantiated by the model's table functions (`lookupRow`, `validateList`), the
translated function is `Model.Color.rtfColorIndex` — the index every colour reference of C12 resolves through — for every
table, context, colour and list of used colours: 0 for none / black, the master index without a list, the 1-based
position in the dense table (filtered, validated, sorted stably by master index), 0 when absent.
-/
set_option linter.unusedSimpArgs false
namespace Props.C12py
open Model.Color Generated Generated.Py Generated.Py.RtfColorIndex

/-- code points of a model string, and back -/
def codes (s : String) : List Nat := s.toList.map Char.toNat
def decode (l : List Nat) : String := String.ofList (l.map Char.ofNat)

theorem decode_codes (s : String) : decode (codes s) = s := by
  simp [decode, codes, List.map_map, Function.comp_def, Char.ofNat_toNat, String.ofList_toList]

theorem codes_inj {s t : String} (h : codes s = codes t) : s = t := by
  have := congrArg decode h
  simpa [decode_codes] using this

theorem decode_map_codes (l : List String) : (l.map codes).map decode = l := by
  simp [List.map_map, Function.comp_def, decode_codes]

/-! ## the parameters, instantiated by the model's table functions -/

/-- `self._name_to_type` -/
def n2t (tbl : List ColorRow) (cp : List Nat) : Option Int :=
  (lookupRow tbl (decode cp)).map fun r => Int.ofNat r.idx

/-- `self.get_color_index` -/
def gci (tbl : List ColorRow) (cp : List Nat) : Except Exc Int :=
  match lookupRow tbl (decode cp) with
  | some r => .ok (Int.ofNat r.idx)
  | none => .error .ColorValidationError

/-- `self.validate_color_list` (on a list of strings): the names themselves, or `ColorValidationError` -/
def vcl (tbl : List ColorRow) (l : List (List Nat)) : Except Exc (List (List Nat)) :=
  match validateList tbl (l.map decode) with
  | .ok _ => .ok l
  | .error _ => .error .ColorValidationError

/-! ## the pieces -/

theorem black_codes : codes "black" = [98, 108, 97, 99, 107] := by decide

theorem sig_codes (c : String) :
    ((!(codes c).isEmpty) && decide (codes c ≠ [98, 108, 97, 99, 107])) = significant c := by
  rw [← black_codes]
  have h1 : (codes c).isEmpty = (c == "") := by
    by_cases h : c = ""
    · subst h; decide
    · have : codes c ≠ [] := fun e => h (codes_inj (e.trans (by decide : ([] : List Nat) = codes "")))
      cases hc : codes c with
      | nil => exact absurd hc this
      | cons _ _ => simp [h]
  have h2 : decide (codes c ≠ codes "black") = (c != "black") := by
    by_cases h : c = "black"
    · subst h; simp
    · have : codes c ≠ codes "black" := fun e => h (codes_inj e)
      simp [h, this]
  simp [significant, h1, h2, bne]

/-- the two tests on a colour name, as values: whatever way the code combines them, `simp` can evaluate it -/
theorem sig_cases (c : String) :
    ((codes c).isEmpty = true ∧ codes c ≠ [98, 108, 97, 99, 107] ∧ significant c = false) ∨
    ((codes c).isEmpty = false ∧ codes c = [98, 108, 97, 99, 107] ∧ significant c = false) ∨
    ((codes c).isEmpty = false ∧ codes c ≠ [98, 108, 97, 99, 107] ∧ significant c = true) := by
  have h := sig_codes c
  cases hE : (codes c).isEmpty <;> by_cases hB : codes c = [98, 108, 97, 99, 107] <;> simp [hE, hB] at h ⊢
  · exact h
  · exact h
  · rw [hB] at hE; simp at hE
  · exact h

/-- the comprehension `[c for c in used_colors if c and c != "black"]` is the model's `filtered` -/
theorem loop_filter (n g v ctx col uc) (l : List String) (s : St) :
    (l.map codes).foldlM (loop1 n g v ctx col uc) s = .ok { s with v1 := s.v1 ++ (filtered l).map codes } := by
  induction l generalizing s with
  | nil => simp [filtered, pure, Except.pure]
  | cons c cs ih =>
    rw [List.map_cons, List.foldlM_cons]
    rcases sig_cases c with ⟨hE, hB, hs⟩ | ⟨hE, hB, hs⟩ | ⟨hE, hB, hs⟩ <;>
      simp [loop1, hE, hB, bind, Except.bind, pure, Except.pure, ih, filtered, hs]

theorem lookupRow_name {tbl : List ColorRow} {n : String} {r : ColorRow} (h : lookupRow tbl n = some r) :
    r.name = n := by
  induction tbl with
  | nil => simp [lookupRow] at h
  | cons row rest ih =>
    simp only [lookupRow] at h
    cases hr : lookupRow rest n with
    | some r' => rw [hr] at h; simp at h; subst h; exact ih hr
    | none =>
      rw [hr] at h
      by_cases hn : (row.name == n) = true
      · simp [hn] at h; subst h; simpa using hn
      · simp [hn] at h

/-- validated names: the rows carry the names, in order -/
theorem validateFrom_names (tbl : List ColorRow) (i : Nat) (names : List String) (rows : List ColorRow)
    (h : validateFrom tbl i names = .ok rows) :
    rows.map (·.name) = names ∧ names.map (lookupRow tbl) = rows.map some := by
  induction names generalizing i rows with
  | nil => simp [validateFrom] at h; subst h; simp
  | cons c cs ih =>
    simp only [validateFrom] at h
    cases hl : lookupRow tbl c with
    | none => rw [hl] at h; simp at h
    | some row =>
      rw [hl] at h
      cases hv : validateFrom tbl (i + 1) cs with
      | error e => rw [hv] at h; simp at h
      | ok rs =>
        rw [hv] at h; simp at h; subst h
        obtain ⟨h1, h2⟩ := ih (i + 1) rs hv
        simp [h1, h2, hl, lookupRow_name hl]

/-- one row as the pair (name, key) the translated sort works on -/
def pair (r : ColorRow) : List Nat × Int := (codes r.name, Int.ofNat r.idx)

theorem insert_pair (x : ColorRow) (l : List ColorRow) :
    insertByKey (pair x) (l.map pair) = (insertRow x l).map pair := by
  induction l with
  | nil => rfl
  | cons y ys ih =>
    simp only [List.map_cons, insertByKey, insertRow, pair]
    by_cases h : x.idx ≤ y.idx
    · have : (Int.ofNat x.idx) ≤ (Int.ofNat y.idx) := by simpa using h
      simp [h, this, pair]
    · have : ¬ (Int.ofNat x.idx) ≤ (Int.ofNat y.idx) := by simpa using h
      simp only [h, this, if_false, List.map_cons]
      rw [← ih]; rfl

/-- Python's stable `sorted(…, key=name_to_type)` is the model's insertion sort -/
theorem sort_pair (l : List ColorRow) : sortByKey (l.map pair) = (sortRows l).map pair := by
  induction l with
  | nil => rfl
  | cons x xs ih => simp only [List.map_cons, sortByKey, sortRows, ih, insert_pair]

/-- the keys of validated names exist: no `KeyError` -/
theorem keys_ok (tbl : List ColorRow) (rows : List ColorRow)
    (h : (rows.map (·.name)).map (lookupRow tbl) = rows.map some) :
    (rows.map fun r => codes r.name).mapM (fun k => pyDictGet (n2t tbl) k) = .ok (rows.map fun r => Int.ofNat r.idx) := by
  induction rows with
  | nil => rfl
  | cons r rs ih =>
    simp only [List.map_cons, List.cons.injEq] at h
    obtain ⟨h1, h2⟩ := h
    have hd : pyDictGet (n2t tbl) (codes r.name) = .ok (Int.ofNat r.idx) := by
      simp [pyDictGet, n2t, decode_codes, h1]
    rw [List.map_cons, List.mapM_cons, ih h2, hd]
    rfl

theorem sorted_ok (tbl : List ColorRow) (rows : List ColorRow)
    (h : (rows.map (·.name)).map (lookupRow tbl) = rows.map some) :
    pySortedByKey (rows.map fun r => codes r.name) (fun k => do let t ← pyDictGet (n2t tbl) k; pure t) =
      .ok ((sortRows rows).map fun r => codes r.name) := by
  have hk := keys_ok tbl rows h
  have hf : (fun k => do let t ← pyDictGet (n2t tbl) k; pure t) = fun k => pyDictGet (n2t tbl) k := by
    funext k; cases pyDictGet (n2t tbl) k <;> rfl
  have hz : (rows.map fun r => codes r.name).zip (rows.map fun r => Int.ofNat r.idx) = rows.map pair := by
    induction rows with
    | nil => rfl
    | cons r rs ih => simp [pair, List.zip_map']
  simp only [pySortedByKey, hf, hk, bind, Except.bind, pure, Except.pure, hz, sort_pair, List.map_map]
  rfl

theorem idxOf_codes [BEq (List Nat)] [LawfulBEq (List Nat)] (l : List String) (c : String) :
    (l.map codes).idxOf (codes c) = l.idxOf c := by
  induction l with
  | nil => rfl
  | cons x xs ih =>
    by_cases h : x = c
    · subst h; simp [List.idxOf_cons]
    · have : codes x ≠ codes c := fun e => h (codes_inj e)
      have e1 : (codes x == codes c) = false := by simpa using this
      have e2 : (x == c) = false := by simpa using h
      simp only [List.map_cons, List.idxOf_cons, e1, e2, ih, cond_false]

/-- `sorted_colors.index(color) + 1`, 0 on `ValueError` -/
theorem index_names (names : List String) (c : String) :
    (match (do let t ← pyListIndex (names.map codes) (codes c); pure (t + 1) : Except Exc Int) with
      | .error .ValueError => (pure 0 : Except Exc Int)
      | .error .ColorValidationError => pure 0
      | r => r) = .ok (Int.ofNat (if names.idxOf c < names.length then names.idxOf c + 1 else 0)) := by
  have hp : pyListIndex (names.map codes) (codes c) =
      if names.idxOf c < names.length then .ok (Int.ofNat (names.idxOf c)) else .error .ValueError := by
    simp only [pyListIndex, idxOf_codes, List.length_map]
  rw [hp]
  by_cases h : names.idxOf c < names.length
  · simp only [h, if_true, bind, Except.bind, pure, Except.pure]
    simp
  · simp only [h, if_false, bind, Except.bind, pure, Except.pure]
    rfl

theorem index_ok (rows : List ColorRow) (c : String) :
    (match (do let t ← pyListIndex (rows.map fun r => codes r.name) (codes c); pure (t + 1) : Except Exc Int) with
      | .error .ValueError => (pure 0 : Except Exc Int)
      | .error .ColorValidationError => pure 0
      | r => r) = .ok (Int.ofNat (indexIn rows c)) := by
  have hm : (rows.map fun r => codes r.name) = (rows.map (·.name)).map codes := by simp [List.map_map]
  rw [hm, index_names]
  simp [indexIn]

theorem notsig_codes (c : String) :
    ((!(!(codes c).isEmpty)) || decide (codes c = [98, 108, 97, 99, 107])) = !(significant c) := by
  rw [← sig_codes]
  cases (codes c).isEmpty <;> by_cases h : codes c = [98, 108, 97, 99, 107] <;> simp [h]

/-- the part of the function after `if used_colors is None: return self.get_color_index(color)`, for a list `u` -/
theorem dense_part (tbl : List ColorRow) (ctx uc) (color : String) (u : List String) (s : St) :
    (do
      let s := { s with v1 := [] }
      let s ← (u.map codes).foldlM (loop1 (n2t tbl) (gci tbl) (vcl tbl) ctx (codes color) uc) s
      if (!(!(s.v1).isEmpty)) then pure (0 : Int)
      else do
        let t2 ← vcl tbl s.v1
        let s := { s with v2 := t2 }
        let t4 ← pySortedByKey s.v2 (fun k1 => do let t3 ← pyDictGet (n2t tbl) k1; pure t3)
        let s := { s with v3 := t4 }
        (match (show Except Exc Int from do
            let t5 ← pyListIndex s.v3 (codes color)
            pure (t5 + (1 : Int))) with
        | .error Exc.ValueError => do pure (0 : Int)
        | .error Exc.ColorValidationError => do pure (0 : Int)
        | r => r) : Except Exc Int) =
      (if (filtered u).isEmpty then .ok 0 else
        match tableRows tbl u with
        | .error _ => .error .ColorValidationError
        | .ok rows => .ok (Int.ofNat (indexIn rows color))) := by
  simp only [loop_filter, bind, Except.bind, List.nil_append]
  cases hf : (filtered u).isEmpty
  · have hne : ((filtered u).map codes).isEmpty = false := by simpa using hf
    simp only [hne, Bool.not_false, Bool.not_true, Bool.false_eq_true, if_false, vcl, decode_map_codes, tableRows]
    cases hv : validateList tbl (filtered u) with
    | error e => rfl
    | ok rows =>
      obtain ⟨h1, h2⟩ := validateFrom_names tbl 0 (filtered u) rows hv
      have hn : (filtered u).map codes = rows.map fun r => codes r.name := by
        rw [← h1]; simp [List.map_map]
      have hs := sorted_ok tbl rows (by rw [h1]; exact h2)
      simp only [hn, hs]
      exact index_ok (sortRows rows) color
  · have he : ((filtered u).map codes).isEmpty = true := by simpa using hf
    simp only [he, Bool.not_true, Bool.not_false, if_true]
    rfl

/-- **the translated `get_rtf_color_index` is the model's `rtfColorIndex`**, for every colour table, context variable,
colour and list of used colours (the helpers instantiated by the model's table functions; every error of the model is a
`ColorValidationError` of the code) -/
theorem C12py_rtf_color_index_translated (tbl : List ColorRow) (ctx : Option (List String)) (color : String)
    (used : Option (List String)) :
    run (n2t tbl) (gci tbl) (vcl tbl) (ctx.map (·.map codes)) (codes color) (used.map (·.map codes)) =
      match rtfColorIndex tbl ctx color used with
      | .ok n => .ok (Int.ofNat n)
      | .error _ => .error .ColorValidationError := by
  unfold run rtfColorIndex
  rcases sig_cases color with ⟨hE, hB, hs⟩ | ⟨hE, hB, hs⟩ | ⟨hE, hB, hs⟩
  · simp [hE, hB, hs, pure, Except.pure]
  · simp [hE, hB, hs, pure, Except.pure]
  · simp only [hE, hB, hs, Bool.not_true, Bool.not_false, decide_false, Bool.or_false, Bool.false_or,
      Bool.false_eq_true, if_false]
    have hg : gci tbl (codes color) = match lookupRow tbl color with
        | none => .error .ColorValidationError
        | some row => .ok (Int.ofNat row.idx) := by
      simp only [gci, decode_codes]; cases lookupRow tbl color <;> rfl
    rcases used with _ | u <;> rcases ctx with _ | c
    · simp only [Option.map_none, Option.isNone_none, Option.isSome_none, Bool.and_false, Bool.false_eq_true,
        if_false, bind, Except.bind, pure, Except.pure, hg]
      cases lookupRow tbl color <;> rfl
    · simp only [Option.map_none, Option.map_some, Option.isNone_none, Option.isSome_some, Bool.and_true, if_true,
        bind, Except.bind, pure, Except.pure]
      have := dense_part tbl (some (c.map codes)) none color c
        { v0 := some (c.map codes), v1 := [], v2 := [], v3 := [] }
      simp only [bind, Except.bind, pure, Except.pure] at this
      refine Eq.trans this ?_
      cases (filtered c).isEmpty <;> simp <;> cases tableRows tbl c <;> rfl
    · simp only [Option.map_none, Option.map_some, Option.isNone_some, Bool.false_and, Bool.false_eq_true, if_false,
        bind, Except.bind, pure, Except.pure]
      have := dense_part tbl none (some (u.map codes)) color u
        { v0 := some (u.map codes), v1 := [], v2 := [], v3 := [] }
      simp only [bind, Except.bind, pure, Except.pure] at this
      refine Eq.trans this ?_
      cases (filtered u).isEmpty <;> simp <;> cases tableRows tbl u <;> rfl
    · simp only [Option.map_some, Option.isNone_some, Bool.false_and, Bool.false_eq_true, if_false,
        bind, Except.bind, pure, Except.pure]
      have := dense_part tbl (some (c.map codes)) (some (u.map codes)) color u
        { v0 := some (u.map codes), v1 := [], v2 := [], v3 := [] }
      simp only [bind, Except.bind, pure, Except.pure] at this
      refine Eq.trans this ?_
      cases (filtered u).isEmpty <;> simp <;> cases tableRows tbl u <;> rfl

/-- a three-colour table: `red` (master index 9) sorts after `blue` (3), so it is entry 2 of the dense table -/
example : rtfColorIndex [⟨"red", 9, 255, 0, 0, ""⟩, ⟨"blue", 3, 0, 0, 255, ""⟩, ⟨"black", 24, 0, 0, 0, ""⟩]
    (some ["red", "", "black", "blue"]) "red" none = .ok 2 := by rfl

end Props.C12py
