import Props.C02encm
/-!
# C02, sections that are given ONE body: the removed columns are every section's own

A caller may hand the very same `RTFBody` object for several sections of a list document (`rtf_body=[body, body]`).
The encoder model is a function of VALUES: a section enters `Model.EncodeMulti.encodeWithM` as (columns, rows, body,
headers) and two sections given one object are two sections whose `body` fields are equal.  What the property needs of
such documents is that nothing a section renders is decided by ANOTHER section of the same body — in particular the
positions of the page_by / subline_by columns, which are looked up by NAME in the section's own column list and may
therefore differ between two sections of one body (frames of equal shape with the key column at another position).

* `C02encshare_removed_own`     `removedIdx` of the section document of section `i`: every removed name's position in the
                                section's OWN column list (`list.index`), nothing else;
* `C02encshare_removed_local`   … so it is the same wherever the section stands in whatever document: it does not depend
                                on the other sections, on the section's index, on the number of sections;
* `C02encshare_rows`            for every accepted document and every section without group_by: the rows the section
                                renders are its own rows with the positions of the body's removed names IN ITS OWN COLUMN
                                LIST dropped — also when another section has the same body and other positions;
* `C02encshare_keep_order`      the columns that stay are the section's other positions in increasing order;
* example: two sections of one body (`page_by = ["g"]`), columns `g a b` and `a g b`, equal shape: position 0 is removed
  in the first, position 1 in the second; the data blocks are `0,1 | 0,1`.
-/
namespace Props.C02encshare
open Model.Rtf Model.Emit Model.Encode Model.EncodeMulti Model.Broadcast Model.Layout
open Proofs.EncodeLift Proofs.EncodeMultiLift Generated
open Props.C02 (dataIdx)

/-- the positions of the names `ns` in the column list `cols` (`list.index`; `ValueError` for a name that is no column) -/
def ownPositions (cols : List Str) (ns : List Str) : Except String (List Nat) :=
  ns.mapM fun n =>
    let i := cols.idxOf n
    if i < cols.length then .ok i else .error "ValueError"

/-- **the removed positions of a section are looked up in the section's own column list** -/
theorem C02encshare_removed_own (d : MDoc) (n i : Nat) (s : Section) :
    removedIdx (sectionDoc d n i s) = ownPositions s.cols (removedNames s.body) := rfl

/-- … hence they are the same wherever the section stands: no other section, no index, no section count enters -/
theorem C02encshare_removed_local (d d' : MDoc) (n n' i i' : Nat) (s : Section) :
    removedIdx (sectionDoc d n i s) = removedIdx (sectionDoc d' n' i' s) := rfl

/-- two sections of ONE body: each one's removed positions are the positions of the body's names among its own columns -/
theorem C02encshare_same_body (d : MDoc) (n i j : Nat) (s s' : Section) (hb : s.body = s'.body) :
    removedIdx (sectionDoc d n i s) = ownPositions s.cols (removedNames s.body) ∧
    removedIdx (sectionDoc d n j s') = ownPositions s'.cols (removedNames s.body) := by
  refine ⟨rfl, ?_⟩
  rw [hb]; rfl

/-- **every section renders its own rows without its own removed positions**: for every accepted document there is one
plan per section document, in order, and for every section without group_by the plan's rows are the section's rows with
the positions of the body's page_by / subline_by names in the section's OWN column list dropped -/
theorem C02encshare_rows (measure : Measure) (d : MDoc) (x : DocG × Nat) (h : encodeWithM measure d = .ok x) :
    ∃ T : List (Doc × (Plan × Trace)), T.map Prod.fst = sectionDocs d ∧
      (T.map (fun t => t.2.2.flatMap fun x => dataIdx (x.2.map Prod.fst)) =
        d.sections.map fun s => List.range s.rows.length) ∧
      ∀ t ∈ T, t.1.body.groupByL = [] → ∃ removed, ownPositions t.1.cols (removedNames t.1.body) = .ok removed ∧
        t.2.1.rows = t.1.rows.map (fun r => dropCols r removed) := by
  obtain ⟨T, h1, _, _, h4, _, h6⟩ := Props.C02encm.C02encm measure d x h
  exact ⟨T, h1, h4, h6⟩

/-- the cells that stay are the cells at the other positions, in increasing position: the kept columns keep their
order -/
theorem C02encshare_keep_order (r : List (Option Str)) (removed : List Nat) :
    dropCols r removed = (r.zipIdx.filter fun x => !removed.contains x.2).map (·.1) := rfl

/-! ## non-vacuity: one body for two sections whose key column sits at different positions -/

open Props.C01enc Props.C01encmore in
/-- one body with `page_by = ["g"]` (shown as spanning rows) and a full-length `col_rel_width` -/
def exSharedBody : Body :=
  { exBody with colRelWidth := some [1, 1, 1], pageBy := some ["g".toList] }

open Props.C01enc Props.C01encmore in
/-- two sections of that body: columns `g a b`, then `a g b`; both frames 2 × 3 -/
def exShared : MDoc :=
  { exMulti with
    sections := [{ cols := ["g".toList, "a".toList, "b".toList],
                   rows := [[some "G1".toList, some "a11".toList, some "b11".toList],
                            [some "G2".toList, some "a12".toList, some "b12".toList]],
                   body := exSharedBody, headers := [] },
                 { cols := ["a".toList, "g".toList, "b".toList],
                   rows := [[some "a21".toList, some "H1".toList, some "b21".toList],
                            [some "a22".toList, some "H1".toList, some "b22".toList]],
                   body := exSharedBody, headers := [] }] }

set_option maxRecDepth 100000

open Props.C01enc in
/-- the encoder accepts the example; position 0 is removed in the first section, position 1 in the second; both
sections render their rows `0, 1` -/
example :
    (match encodeWithM exMeasure exShared with | .ok _ => true | .error _ => false) = true ∧
    (sectionDocs exShared).map removedIdx = [.ok [0], .ok [1]] ∧
    ((sectionDocs exShared).map fun sd =>
      match encoderBlocks exMeasure sd with
      | .ok pbs => (pbs.map (fun x => dataIdx x.2)).flatten
      | .error _ => []) = [[0, 1], [0, 1]] := by
  refine ⟨by decide +kernel, by decide +kernel, by decide +kernel⟩

open Props.C01enc in
/-- the theorem applied to the example: the second section's rendered rows are its rows without position 1 -/
example : ∀ x, encodeWithM exMeasure exShared = .ok x →
    ∃ T : List (Doc × (Plan × Trace)), T.map Prod.fst = sectionDocs exShared ∧
      ∀ t ∈ T, ∃ removed, ownPositions t.1.cols (removedNames t.1.body) = .ok removed ∧
        t.2.1.rows = t.1.rows.map (fun r => dropCols r removed) := by
  intro x h
  obtain ⟨T, h1, _, h3⟩ := C02encshare_rows exMeasure exShared x h
  refine ⟨T, h1, fun t ht => h3 t ht ?_⟩
  have hm : t.1 ∈ sectionDocs exShared := by rw [← h1]; exact List.mem_map_of_mem ht
  have : ∀ sd ∈ sectionDocs exShared, sd.body.groupByL = [] := by decide +kernel
  exact this t.1 hm

end Props.C02encshare
