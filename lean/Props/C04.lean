import Model.Paginate
import Model.PaginateSpec
import Proofs.Paginate
import Proofs.PaginateGroups
/-!
# C04 — page breaks occur only when required, and always when required

Model: `Model.Paginate.assignPages` (= `PageBreakCalculator._assign_pages`) fed by `mkMeta`
(= the group-change part of `calculate_row_metadata`).

The statements are index-free: a position in the paginated table is a split
`done ++ (r, q) :: rest` of the list of (row, page number) pairs.
-/
namespace Props.C04
open Model.Paginate Proofs.Paginate

/-- rows paired with their assigned page number -/
def paged (nrow additional : Nat) (np : Bool) (rs : List RowMeta) : List (RowMeta × Nat) :=
  rs.zip (assignPages nrow additional np rs)

/-! ## (a) pages are non-empty, contiguous, in order: numbers start at 1, never decrease,
never skip -/

theorem C04_a_length (nrow additional np rs) :
    (assignPages nrow additional np rs).length = rs.length :=
  assignAux_length _ _ _ _ _ _

theorem C04_a_first (nrow additional np r rs) :
    (assignPages nrow additional np (r :: rs)).head? = some 1 := by
  simp [assignPages, assignAux, breaksBefore]

theorem C04_a_steps (nrow additional np rs) :
    Steps 1 (assignPages nrow additional np rs) :=
  assignAux_steps _ _ _ _ _ _

/-! ## generalised invariant behind (b) and (c) -/

/-- What holds at every position of `zs` lying after the prefix `done₀`. -/
def BreakSpec (avail : Nat) (np : Bool) (done₀ zs : List (RowMeta × Nat)) : Prop :=
  ∀ ext r q rest, zs = ext ++ (r, q) :: rest →
    let done := done₀ ++ ext
    let p := lastPage done
    let over := decide (loadOn p done + r.total > avail)
    -- only when required
    (q ≠ p → (demands np r = true ∨ over = true)) ∧
    -- always when required (as soon as the current page holds something)
    ((demands np r = true ∨ over = true) → loadOn p done > 0 → q = p + 1) ∧
    -- a break is a step to the next page number, otherwise the number is kept
    (q = p ∨ q = p + 1)

theorem loadOn_append (p : Nat) (a b : List (RowMeta × Nat)) :
    loadOn p (a ++ b) = loadOn p a + loadOn p b := by
  simp [loadOn, List.filter_append, List.map_append, List.sum_append]

theorem loadOn_fresh (p : Nat) (done : List (RowMeta × Nat)) (h : ∀ x ∈ done, x.2 < p) :
    loadOn p done = 0 := by
  have : done.filter (fun x => x.2 == p) = [] := by
    apply List.filter_eq_nil_iff.mpr
    intro x hx
    have := h x hx
    simp; omega
  simp [loadOn, this]

theorem lastPage_snoc (done : List (RowMeta × Nat)) (x : RowMeta × Nat) :
    lastPage (done ++ [x]) = x.2 := by
  simp [lastPage]

theorem breakSpec_aux (avail : Nat) (np : Bool) (rs : List RowMeta) :
    ∀ (page cur : Nat) (done₀ : List (RowMeta × Nat)),
      done₀ ≠ [] → lastPage done₀ = page → (∀ x ∈ done₀, x.2 ≤ page) → loadOn page done₀ = cur →
      BreakSpec avail np done₀ (rs.zip (assignAux avail np page cur true rs)) := by
  induction rs with
  | nil =>
    intro page cur done₀ _ _ _ _ ext r q rest h
    simp [assignAux] at h
  | cons r0 rs ih =>
    intro page cur done₀ hne hlast hle hload ext r q rest h
    simp only [assignAux, List.zip_cons_cons] at h
    cases ext with
    | nil =>
      simp only [List.nil_append, List.cons.injEq, Prod.mk.injEq] at h
      obtain ⟨⟨rfl, hq⟩, _⟩ := h
      simp only [List.append_nil]
      rw [hlast, hload]
      subst hq
      simp only [breaksBefore, forceBreak, demands, Bool.and_true]
      refine ⟨?_, ?_, ?_⟩
      · intro hne'
        split at hne'
        · rename_i hb
          simp only [Bool.and_eq_true, Bool.or_eq_true, decide_eq_true_eq] at hb
          rcases hb with ⟨hb | hb, _⟩
          · left; simpa [Bool.and_assoc] using hb
          · right; simpa using hb
        · exact absurd rfl hne'
      · intro hd hpos
        rw [if_pos]
        simp only [Bool.and_eq_true, Bool.or_eq_true, decide_eq_true_eq] at hd ⊢
        refine ⟨?_, hpos⟩
        rcases hd with (hd | hd) | hd
        · exact Or.inl (Or.inl hd)
        · left; right; simp [hd.1, hd.2]
        · exact Or.inr hd
      · split <;> simp
    | cons e ext =>
      simp only [List.cons_append, List.cons.injEq] at h
      obtain ⟨rfl, h⟩ := h
      -- e = (r0, page'), the rest is handled by the induction hypothesis with done₀ ++ [e]
      generalize hb : breaksBefore avail np cur true r0 = b at h
      have key := ih (if b then page + 1 else page) ((if b then 0 else cur) + r0.total)
        (done₀ ++ [(r0, if b then page + 1 else page)]) (by simp) (by simp [lastPage_snoc])
        (by
          intro x hx
          rcases List.mem_append.mp hx with hx | hx
          · have := hle x hx; split <;> omega
          · simp at hx; subst hx; simp)
        (by
          rw [loadOn_append]
          cases b with
          | true =>
            simp only [if_true]
            rw [loadOn_fresh (page + 1) done₀ (fun x hx => by have := hle x hx; omega)]
            simp [loadOn]
          | false =>
            simp only [Bool.false_eq_true, if_false, hload]
            simp [loadOn])
      have := key ext r q rest h
      simpa [List.append_assoc] using this

/-! ## (b) a break only when the next row does not fit or a grouping rule demands it;
## (c) always a break in those cases -/

/-- Full statement for every position after the first row. `avail = max 1 (nrow - additional)`
is "nrow after reserving the repeating components". -/
theorem C04_bc (nrow additional : Nat) (np : Bool) (rs : List RowMeta)
    (done : List (RowMeta × Nat)) (r : RowMeta) (q : Nat) (rest : List (RowMeta × Nat))
    (hsplit : paged nrow additional np rs = done ++ (r, q) :: rest) (hne : done ≠ []) :
    let p := lastPage done
    let over := decide (loadOn p done + r.total > availRows nrow additional)
    (q ≠ p → (demands np r = true ∨ over = true)) ∧
    ((demands np r = true ∨ over = true) → loadOn p done > 0 → q = p + 1) ∧
    (q = p ∨ q = p + 1) := by
  cases rs with
  | nil => simp [paged, assignPages, assignAux] at hsplit
  | cons r0 rs =>
    cases done with
    | nil => exact absurd rfl hne
    | cons d done' =>
      simp only [paged, assignPages, assignAux, List.zip_cons_cons, List.cons_append,
        List.cons.injEq] at hsplit
      obtain ⟨hd, hrest⟩ := hsplit
      have hbf : breaksBefore (availRows nrow additional) np 0 false r0 = false := by
        simp [breaksBefore]
      rw [hbf] at hd hrest
      simp only [Bool.false_eq_true, if_false, Nat.zero_add] at hd hrest
      have := breakSpec_aux (availRows nrow additional) np rs 1 r0.total [(r0, 1)]
        (by simp) (by simp [lastPage]) (by simp) (by simp [loadOn]) done' r q rest hrest
      subst hd
      simpa using this

/-- With every row at least one line high (which `calculate_row_metadata` guarantees through
`max(1, …)`) the current page is never empty after the first row, so (c) needs no side
condition: a demanded break always happens. -/
theorem loadOn_pos_of_last (done : List (RowMeta × Nat)) (hne : done ≠ [])
    (hpos : ∀ x ∈ done, 1 ≤ x.1.total) : loadOn (lastPage done) done > 0 := by
  obtain ⟨pre, x, rfl⟩ := List.eq_nil_or_concat done |>.resolve_left hne
  rw [List.concat_eq_append] at *
  rw [lastPage_snoc, loadOn_append]
  have := hpos x (by simp)
  simp [loadOn]; omega

theorem C04_c_always (nrow additional : Nat) (np : Bool) (rs : List RowMeta)
    (hpos : ∀ r ∈ rs, 1 ≤ r.total)
    (done : List (RowMeta × Nat)) (r : RowMeta) (q : Nat) (rest : List (RowMeta × Nat))
    (hsplit : paged nrow additional np rs = done ++ (r, q) :: rest) (hne : done ≠ [])
    (hreq : demands np r = true ∨
        loadOn (lastPage done) done + r.total > availRows nrow additional) :
    q = lastPage done + 1 := by
  have h := (C04_bc nrow additional np rs done r q rest hsplit hne).2.1
  apply h
  · rcases hreq with h | h
    · exact Or.inl h
    · exact Or.inr (by simpa using h)
  · apply loadOn_pos_of_last done hne
    intro x hx
    have hmem : x ∈ paged nrow additional np rs := by rw [hsplit]; simp [hx]
    have := List.of_mem_zip hmem
    exact hpos _ this.1

/-! ## (e) appending rows never changes how the earlier rows were paginated -/

theorem C04_e_prefix (nrow additional : Nat) (np : Bool) (rs ext : List RowMeta) :
    (assignPages nrow additional np (rs ++ ext)).take rs.length =
      assignPages nrow additional np rs := by
  simp only [assignPages, assignAux_append]
  rw [List.take_append_of_le_length (by simp [assignAux_length])]
  simp [List.take_of_length_le, assignAux_length]

/-- the metadata of the first rows does not depend on later rows either -/
theorem changesFrom_append {α} [DecidableEq α] (prev : α) (ks ext : List α) :
    (changesFrom prev (ks ++ ext)).take ks.length = changesFrom prev ks := by
  induction ks generalizing prev with
  | nil => simp [changesFrom]
  | cons k ks ih => simp [changesFrom, ih]

theorem C04_e_changes {α} [DecidableEq α] (ks ext : List α) :
    (changes (ks ++ ext)).take ks.length = changes ks := by
  cases ks with
  | nil => simp [changes]
  | cons k ks => simp [changes, changesFrom_append]


/-! ## (d) no page mixes rows of two subline_by groups, nor of two page_by groups when new_page is set -/

/-- Rows `i < j` that were put on the same page carry the same subline_by key, and the same page_by key when
`new_page` forces breaks — for the metadata `mkMeta` derives from the keys (group change = key differs from the
previous row's), provided every row is at least one line high (`max(1, …)` in `calculate_row_metadata`). -/
theorem C04_d_no_mixing {κ : Type} [DecidableEq κ] (nrow additional : Nat) (hasPageBy hasSubline np : Bool)
    (rows : List (RowIn κ)) (hpos : ∀ r ∈ rows, 1 ≤ r.dataRows)
    (i j : Nat) (hij : i < j) (ri rj : RowIn κ) (p : Nat)
    (hri : rows[i]? = some ri) (hrj : rows[j]? = some rj)
    (hpi : (assignPages nrow additional np (mkMeta hasPageBy hasSubline rows))[i]? = some p)
    (hpj : (assignPages nrow additional np (mkMeta hasPageBy hasSubline rows))[j]? = some p) :
    (hasSubline = true → ri.skey = rj.skey) ∧
    (hasPageBy = true → np = true → ri.pkey = rj.pkey) :=
  Proofs.PaginateGroups.no_mixing_aux (availRows nrow additional) hasPageBy hasSubline np rows hpos
    1 0 false i j hij ri rj p hri hrj hpi hpj

/-- non-vacuity: keys a a b b with nrow large: the change of key forces the break -/
example :
    assignPages 40 0 true (mkMeta true false
      [⟨1, 1, 1, "a", ""⟩, ⟨1, 1, 1, "a", ""⟩, ⟨1, 1, 1, "b", ""⟩, ⟨1, 1, 1, "b", ""⟩]) = [1, 1, 2, 2] := by decide

/-! ## non-vacuity: a concrete table that breaks for both reasons -/

example :
    assignPages 5 2 true
      [⟨1, true, false⟩, ⟨2, false, false⟩, ⟨1, false, false⟩, ⟨1, true, false⟩, ⟨3, false, false⟩]
      = [1, 1, 2, 3, 4] := by decide

end Props.C04
