import Model.Figure
import Model.FigureSpec
import Model.FigureMemo
import Proofs.Figure
import Proofs.FigurePos
import Props.C16
/-!
# C16, positions: page `k` shows file `k` at size `k` — whatever else is listed

"Figures appear one per page in the given order, per-figure sizes being taken positionally."  `figures` is a list of
POSITIONS: the same file may be listed several times (a legend between panels, the same plot small and large), under
one spelling of its path or under several, and different files may have equal bytes or equal names.  None of that is
visible to the model: a position is (suffix, bytes read), and

* `C16_pict_at_position`            the one picture on page `j` of a document is `encodeFigure` of the format of the
                                    suffix at position `j`, the bytes at position `j`, `getDim fig_width j`,
                                    `getDim fig_height j`;
* `C16_goal_at_position`            its `\picwgoal\pichgoal` are `⌊inches · 1440⌋` of the width / height of position `j`,
                                    its payload decodes to the bytes of position `j`;
* `C16_pict_depends_only_on_position`  **locality**: two positions — of one document or of two — with the same format,
                                    bytes, width and height show the same picture; no other position, no list length, no
                                    earlier page enters.  Conversely (`C16_repeated_file_sizes`) a file listed at two
                                    positions with different widths is shown with different `\picwgoal`.
* `C16_memo_sound`                  a page loop that remembers finished picture groups under a key and reuses them
                                    (`Model/FigureMemo.lean`) IS the page loop whenever the key determines format,
                                    bytes, width and height of the positions it is used at;
* `C16_path_memo_not_positional`    and is not otherwise: remembered under the path alone, `[overview, panel, overview]`
                                    at widths `[3, 4, 6]` × heights `[2, 3, 4]` shows page 3 at 4320 × 2880 twips instead
                                    of 8640 × 5760, which the document oracle rejects with clause `goal` on page 2 — the
                                    memo key of the hypothesis of `C16_memo_sound` cannot leave the size out.
-/
namespace Props.C16pos
open Model.Figure Proofs.Figure Proofs.FigurePos

/-- **page `j` shows position `j`**: the only picture a reader finds on page `j` is the encoding of the format of the
suffix at position `j`, the bytes at position `j`, and the width and height `getDim` selects for `j` -/
theorem C16_pict_at_position (d : FigDoc) (pieces : List Piece) (henc : encodeDoc d = .ok pieces)
    (j : Nat) (s : FigSrc) (hs : d.figs[j]? = some s) :
    ∃ f w h, fmtOfSuffix s.suffix = some f ∧ getDim d.widths j = some w ∧ getDim d.heights j = some h ∧
      ((observe pieces)[j]?).map (·.picts) = some [obsOfPict (encodeFigure f s.bytes w h)] := by
  obtain ⟨fs, ps, hfs, hps, hne, rfl⟩ := encodeDoc_ok d pieces henc
  obtain ⟨f, hf, hfj⟩ := readFormats_getElem? d.figs fs hfs j s hs
  obtain ⟨w, h, hw, hh, hp⟩ := encodePicts_getElem? d.widths d.heights 0 fs ps hps j f s.bytes hfj
  simp only [Nat.zero_add] at hw hh
  exact ⟨f, w, h, hf, hw, hh, by rw [observe_picts d.cfg ps hne j, hp]; rfl⟩

/-- the display size on page `j` is the size of position `j` (`⌊inches · 1440⌋` on the exact value), the payload
decodes to the bytes of position `j`, the keyword is the one of the suffix at position `j` -/
theorem C16_goal_at_position (d : FigDoc) (pieces : List Piece) (henc : encodeDoc d = .ok pieces)
    (j : Nat) (s : FigSrc) (hs : d.figs[j]? = some s) (hb : ∀ b ∈ s.bytes, b < 256) :
    ∃ w h p, getDim d.widths j = some w ∧ getDim d.heights j = some h ∧
      ((observe pieces)[j]?).map (·.picts) = some [p] ∧
      p.wgoal = truncMul w 1440 ∧ p.hgoal = truncMul h 1440 ∧ unhex p.payload = some s.bytes ∧
      wantBlip s.suffix = some p.blip := by
  obtain ⟨f, w, h, hf, hw, hh, hp⟩ := C16_pict_at_position d pieces henc j s hs
  refine ⟨w, h, _, hw, hh, hp, rfl, rfl, ?_, ?_⟩
  · simp [obsOfPict, encodeFigure, unhex_hexLines s.bytes hb]
  · simp [obsOfPict, encodeFigure, wantBlip_of_fmt s.suffix f hf]

/-- **locality**: the picture of a position depends on the format, the bytes, the width and the height of THAT
position only.  Two positions (of one document, `d' = d`, or of two documents of any lengths, with any other entries,
at any indices) that agree in these four show the same picture. -/
theorem C16_pict_depends_only_on_position (d d' : FigDoc) (pieces pieces' : List Piece)
    (henc : encodeDoc d = .ok pieces) (henc' : encodeDoc d' = .ok pieces')
    (j j' : Nat) (s s' : FigSrc) (hs : d.figs[j]? = some s) (hs' : d'.figs[j']? = some s')
    (hfmt : fmtOfSuffix s.suffix = fmtOfSuffix s'.suffix) (hbytes : s.bytes = s'.bytes)
    (hw : getDim d.widths j = getDim d'.widths j') (hh : getDim d.heights j = getDim d'.heights j') :
    ((observe pieces)[j]?).map (·.picts) = ((observe pieces')[j']?).map (·.picts) := by
  obtain ⟨f, w, h, e1, e2, e3, e4⟩ := C16_pict_at_position d pieces henc j s hs
  obtain ⟨f', w', h', e1', e2', e3', e4'⟩ := C16_pict_at_position d' pieces' henc' j' s' hs'
  rw [hfmt, e1'] at e1
  rw [hw, e2'] at e2
  rw [hh, e3'] at e3
  injection e1 with e1
  injection e2 with e2
  injection e3 with e3
  subst e1 e2 e3
  rw [e4, e4', hbytes]

/-- a file listed at two positions is shown at each position's own size: the two `\picwgoal` are the truncations of
the two widths (so they differ whenever those differ), likewise `\pichgoal`; the payloads are equal -/
theorem C16_repeated_file_sizes (d : FigDoc) (pieces : List Piece) (henc : encodeDoc d = .ok pieces)
    (j j' : Nat) (s : FigSrc) (hs : d.figs[j]? = some s) (hs' : d.figs[j']? = some s) :
    ∃ w h w' h' p p', getDim d.widths j = some w ∧ getDim d.heights j = some h ∧
      getDim d.widths j' = some w' ∧ getDim d.heights j' = some h' ∧
      ((observe pieces)[j]?).map (·.picts) = some [p] ∧ ((observe pieces)[j']?).map (·.picts) = some [p'] ∧
      p.wgoal = truncMul w 1440 ∧ p'.wgoal = truncMul w' 1440 ∧ p.hgoal = truncMul h 1440 ∧ p'.hgoal = truncMul h' 1440 ∧
      p.payload = p'.payload ∧ p.blip = p'.blip := by
  obtain ⟨f, w, h, e1, e2, e3, e4⟩ := C16_pict_at_position d pieces henc j s hs
  obtain ⟨f', w', h', e1', e2', e3', e4'⟩ := C16_pict_at_position d pieces henc j' s hs'
  rw [e1] at e1'
  injection e1' with e1'
  subst e1'
  exact ⟨w, h, w', h', _, _, e2, e3, e2', e3', e4, e4', rfl, rfl, rfl, rfl, rfl, rfl⟩

/-! ## remembering finished picture groups -/

/-- **a memo is transparent when its key determines the picture**: if positions with equal keys have equal format,
bytes, width and height, the memoising loop returns exactly what the page loop returns (pictures and `IndexError`
alike) -/
theorem C16_memo_sound {κ : Type} [DecidableEq κ] (ws hs : List Size) (items : List (Keyed κ))
    (hkey : ∀ a b xa xb, items[a]? = some xa → items[b]? = some xb → xa.key = xb.key →
      xa.fmt = xb.fmt ∧ xa.bytes = xb.bytes ∧ getDim ws a = getDim ws b ∧ getDim hs a = getDim hs b) :
    encodePictsMemo ws hs 0 [] items = encodePicts ws hs 0 (items.map Keyed.plain) := by
  apply encodePictsMemo_eq ws hs items 0 []
  · intro a b xa xb ha hb hk
    simpa using hkey a b xa xb ha hb hk
  · intro k p hm
    cases hm

/-- the demo document of the missed change, with tiny files: overview, panel, overview at 3 × 2, 4 × 3, 6 × 4 in -/
def exOverview : List Nat := [1, 0, 0, 0, 7]
def exPanel : List Nat := [1, 0, 0, 0, 9, 9]
def exWidths : List Size := [⟨3, 1⟩, ⟨4, 1⟩, ⟨6, 1⟩]
def exHeights : List Size := [⟨2, 1⟩, ⟨3, 1⟩, ⟨4, 1⟩]
/-- keyed by the PATH: 0 = overview.emf, 1 = panel.emf -/
def exByPath : List (Keyed Nat) :=
  [⟨0, .emf, exOverview⟩, ⟨1, .emf, exPanel⟩, ⟨0, .emf, exOverview⟩]
/-- keyed by path AND size -/
def exByPathAndSize : List (Keyed (Nat × Nat × Nat)) :=
  [⟨(0, 3, 2), .emf, exOverview⟩, ⟨(1, 4, 3), .emf, exPanel⟩, ⟨(0, 6, 4), .emf, exOverview⟩]
def exCfg0 : Cfg :=
  { pageTitle := .all, pageFootnote := .last, pageSource := .last, hasTitle := true, hasSubline := false,
    hasFootnote := false, hasSource := false }
def exWants : List Want :=
  wantsFrom exWidths exHeights 0 [(⟨['.', 'e', 'm', 'f'], exOverview⟩, none), (⟨['.', 'e', 'm', 'f'], exPanel⟩, none),
    (⟨['.', 'e', 'm', 'f'], exOverview⟩, none)]

/-- **a memo under the path alone is not the page loop**: the third position (overview again, configured 6 × 4 in) gets
the remembered picture of the first (3 × 2 in = 4320 × 2880 twips) instead of 8640 × 5760; every other number and all
payloads are as they should be; the document oracle rejects the document with clause `goal` on page 2 and accepts the
page loop's.  With the size in the key the memo is the page loop again (`C16_memo_sound` applies). -/
theorem C16_path_memo_not_positional :
    (encodePictsMemo exWidths exHeights 0 [] exByPath).map (·.map fun p => (p.wgoal, p.hgoal)) =
      some [(4320, 2880), (5760, 4320), (4320, 2880)] ∧
    (encodePicts exWidths exHeights 0 (exByPath.map Keyed.plain)).map (·.map fun p => (p.wgoal, p.hgoal)) =
      some [(4320, 2880), (5760, 4320), (8640, 5760)] ∧
    (encodePictsMemo exWidths exHeights 0 [] exByPath).map (fun ps => violations exCfg0 exWants (observe (figureLoop exCfg0 ps))) =
      some [(2, "goal")] ∧
    (encodePicts exWidths exHeights 0 (exByPath.map Keyed.plain)).map (fun ps => docOk exCfg0 exWants (observe (figureLoop exCfg0 ps))) =
      some true ∧
    encodePictsMemo exWidths exHeights 0 [] exByPathAndSize =
      encodePicts exWidths exHeights 0 (exByPathAndSize.map Keyed.plain) := by
  decide

/-- the hypothesis of `C16_memo_sound` is satisfiable by a list with a repeated key: the overview listed three times,
widths `[3, 6]` (positions 1 and 2 share the last value), one height — keyed by (path, width index capped) -/
example :
    let items : List (Keyed (Nat × Nat)) := [⟨(0, 0), .emf, exOverview⟩, ⟨(0, 1), .emf, exOverview⟩, ⟨(0, 1), .emf, exOverview⟩]
    encodePictsMemo [⟨3, 1⟩, ⟨6, 1⟩] [⟨2, 1⟩] 0 [] items = encodePicts [⟨3, 1⟩, ⟨6, 1⟩] [⟨2, 1⟩] 0 (items.map Keyed.plain) ∧
    (encodePicts [⟨3, 1⟩, ⟨6, 1⟩] [⟨2, 1⟩] 0 (items.map Keyed.plain)).map (·.map fun p => p.wgoal) = some [4320, 8640, 8640] := by
  decide

/-- locality on a concrete pair: position 2 of the three-figure document and position 0 of a one-figure document with the
same file at 6 × 4 in show the same picture -/
example :
    let d : FigDoc := { figs := [⟨['.', 'e', 'm', 'f'], exOverview⟩, ⟨['.', 'E', 'M', 'F'], exPanel⟩, ⟨['.', 'e', 'm', 'f'], exOverview⟩],
                        widths := exWidths, heights := exHeights, cfg := exCfg0 }
    let d' : FigDoc := { figs := [⟨['.', 'e', 'm', 'f'], exOverview⟩], widths := [⟨6, 1⟩], heights := [⟨4, 1⟩, ⟨9, 1⟩], cfg := exCfg0 }
    (match encodeDoc d, encodeDoc d' with
     | .ok ps, .ok ps' => ((observe ps)[2]?).map (·.picts) == ((observe ps')[0]?).map (·.picts) &&
         ((observe ps)[0]?).map (·.picts) != ((observe ps)[2]?).map (·.picts)
     | _, _ => false) = true := by
  decide

end Props.C16pos
