import Model.EncodeFigure
import Model.Figure
import Model.FigureSpec
import Proofs.EncodeFigure
import Proofs.EncodeFigureLift
import Proofs.RoundDouble
import Proofs.Figure
import Props.C16
import Props.C01encmore
/-!
# C16 for the figure-only encoder: figures are embedded byte-exactly, one per page, at the configured size

`Props/C16.lean` proves the property about the abstract model `Model/Figure.lean` (`encodeFigure`, `figureLoop`).  Here
it is stated about the ENCODER model `Model.EncodeFigure.encodeWithF` (byte-exact against `rtf_encode()` of a figure-only
document): for every `FDoc` the encoder accepts (`encodeWithF d = .ok (some g, n)`)

* `C16enc_structure`     the blocks of the document are the rendering (`renderPiece`: the encodings of the document's
                         own title / subline / footnote / source, the picture group, `\par`, `generate_page_break`) of
                         the abstract page loop `figureLoop (cfgOf d) picts`, followed by the closing newlines;
                         `picts[j] = pictOf fmt_j bytes_j (getDim widths j) (getDim heights j)` (`PictsOf`);
* `C16enc_blocks_by_page`  the same page by page: page `j` is the rendering of `pageBody`, followed by the page break
                         unless it is the last;
* `C16enc_pages`, `C16enc_page_count`, `C16enc_breaks`, `C16enc_page_j`, `C16enc_one_pict_in_order`
                         `figs.length` pages, figure `j` on page `j`, one picture per page, a page break between
                         consecutive figures and none after the last;
* `C16enc_pict`          the picture group of figure `j`: blip word of the format of its suffix, payload `hexLines bytes_j`
                         whose reader-side decoding is the file's bytes, `\picw\pich` from the header or the 96-dpi
                         fallback, `\picwgoal\pichgoal = ⌊roundDouble (inches · 1440)⌋`;
* `C16enc_pict_depends_only_on_position`  locality: the picture group of a position is a function of the format, bytes,
                         width and height of that position alone (two positions agreeing in these carry the same group;
                         nothing else listed, in particular no other occurrence of the same file, enters);
* `C16enc_pict_group`    how the picture is written: `\q? {\pict\<fmt>blip\picwN\pichN\picwgoalN\pichgoalN <hex lines>}`;
* `C16enc_goal_*`        the goal in doubles vs. the floor of the exact product (`Props.C16.C16_goal_floor`): equal or one
                         more; equal whenever the exact product is further than `q / 2^53` below the next integer
                         (`farBelow`), in particular whenever the oracle's `nearBelow` is false; always accepted by the
                         oracle's tolerance `goalOkTol`;
* `C16enc_dim_*`         sizes positional, last value reused;
* `C16enc_placement`     the title slot / subline / footnote / source are on page `j` exactly when their placement
                         selects it;
* `C16enc_doc_ok`        the complete C16 oracle `docOk` holds of what a reader observes of the encoder's piece sequence.
-/
namespace Props.C16enc
open Model.Rtf Model.Emit Model.Encode Model.EncodeFigure
open Model.Figure (Pict Piece Cfg figureLoop loopFrom pageParts pageBody getDim fmtOfSuffix blipWord hexLines unhex
  imageDims splitPages truncMul HeaderStates wantBlip goalOkTol nearBelow obsOfPict observe)
open Proofs.EncodeFigureLift
open Proofs.Figure (bodiesFrom)
open Proofs.RoundDouble (farBelow)

/-! ## the document as a rendering of the abstract page loop -/

/-- **structure of the figure-only document**: there is a figure, and the blocks are the pieces of the abstract page
loop — for the pictures `picts` (`PictsOf`: one per file in order, `pictOf` of the file's format and bytes at the size
`getDim` selects) — rendered with the document's own components, followed by the closing newlines -/
theorem C16enc_structure (d : FDoc) (g : DocG) (n : Nat) (h : encodeWithF d = .ok (some g, n)) :
    d.figs ≠ [] ∧ ∃ picts, PictsOf d picts ∧
      g.blocks = (figureLoop (cfgOf d) picts).flatMap (renderPiece d) ++ [BlockG.plain [Node.nl, Node.nl]] := by
  obtain ⟨h1, picts, h2, _, h4⟩ := encodeWithF_render h
  exact ⟨h1, picts, h2, h4⟩

theorem loopFrom_eq_flatMap (cfg : Cfg) (num : Nat) : ∀ (i : Nat) (ps : List Pict),
    loopFrom cfg num i ps = (ps.zipIdx i).flatMap fun x => pageParts cfg num x.2 x.1
  | _, [] => rfl
  | i, p :: ps => by
    rw [loopFrom, List.zipIdx_cons, List.flatMap_cons, loopFrom_eq_flatMap cfg num (i + 1) ps]

/-- page by page: the blocks of page `j` are the rendering of `pageBody … j picts[j]`, followed by the page break
(`generate_page_break`) unless `j` is the last page -/
theorem C16enc_blocks_by_page (d : FDoc) (g : DocG) (n : Nat) (h : encodeWithF d = .ok (some g, n)) :
    ∃ picts, PictsOf d picts ∧
      g.blocks = (picts.zipIdx.flatMap fun x =>
          (pageBody (cfgOf d) d.figs.length x.2 x.1).flatMap (renderPiece d) ++
            (if x.2 + 1 == d.figs.length then [] else breakBlocks d)) ++
        [BlockG.plain [Node.nl, Node.nl]] := by
  obtain ⟨_, picts, hP, hb⟩ := C16enc_structure d g n h
  refine ⟨picts, hP, ?_⟩
  rw [hb, figureLoop, loopFrom_eq_flatMap, hP.length, List.flatMap_assoc]
  congr 2
  funext x
  unfold pageParts
  rw [List.flatMap_append]
  congr 1
  cases (x.2 + 1 == d.figs.length) <;> simp [renderPiece]

/-! ## one figure per page, in order -/

/-- reading the piece sequence back page by page (pages = maximal page-break-free stretches) gives exactly the
per-figure page bodies -/
theorem C16enc_pages (d : FDoc) (picts : List Pict) (hP : PictsOf d picts) (hne : d.figs ≠ []) :
    splitPages (figureLoop (cfgOf d) picts) = bodiesFrom (cfgOf d) d.figs.length 0 picts := by
  have hne' : picts ≠ [] := by
    intro h0
    have := hP.length
    rw [h0] at this
    exact hne (List.eq_nil_of_length_eq_zero this.symm)
  rw [Props.C16.C16_pages (cfgOf d) picts hne', hP.length]

/-- as many pages as figures -/
theorem C16enc_page_count (d : FDoc) (picts : List Pict) (hP : PictsOf d picts) (hne : d.figs ≠ []) :
    (splitPages (figureLoop (cfgOf d) picts)).length = d.figs.length := by
  rw [C16enc_pages d picts hP hne, Proofs.Figure.bodiesFrom_length, hP.length]

/-- `n` figures, `n − 1` page breaks: one between consecutive figures, none after the last -/
theorem C16enc_breaks (d : FDoc) (picts : List Pict) (hP : PictsOf d picts) (hne : d.figs ≠ []) :
    (figureLoop (cfgOf d) picts).count Piece.pageBreak + 1 = d.figs.length := by
  have hne' : picts ≠ [] := by
    intro h0
    have := hP.length
    rw [h0] at this
    exact hne (List.eq_nil_of_length_eq_zero this.symm)
  rw [Props.C16.C16_breaks (cfgOf d) picts hne', hP.length]

/-- page `j` is the body built for figure `j` -/
theorem C16enc_page_j (d : FDoc) (picts : List Pict) (hP : PictsOf d picts) (j : Nat) (p : Pict)
    (hp : picts[j]? = some p) :
    (splitPages (figureLoop (cfgOf d) picts))[j]? = some (pageBody (cfgOf d) d.figs.length j p) := by
  obtain ⟨hj, rfl⟩ := List.getElem?_eq_some_iff.mp hp
  rw [Props.C16.C16_page_j (cfgOf d) picts j hj, hP.length]

/-- exactly one picture on page `j`, and it is the picture of figure `j` -/
theorem C16enc_one_pict_in_order (d : FDoc) (picts : List Pict) (hP : PictsOf d picts) (j : Nat) (f : FigFile)
    (hf : d.figs[j]? = some f) :
    ∃ fmt w h page, fmtOfSuffix f.suffix = some fmt ∧ getDim d.widths j = some w ∧ getDim d.heights j = some h ∧
      (splitPages (figureLoop (cfgOf d) picts))[j]? = some page ∧
      page = pageBody (cfgOf d) d.figs.length j (pictOf fmt f.bytes w h) ∧
      page.filterMap Model.Figure.pictOf = [obsOfPict (pictOf fmt f.bytes w h)] := by
  obtain ⟨fmt, w, h, h1, h2, h3, h4⟩ := hP.each j f hf
  refine ⟨fmt, w, h, _, h1, h2, h3, C16enc_page_j d picts hP j _ h4, rfl, ?_⟩
  have := Proofs.Figure.picts_pageBody (cfgOf d) d.figs.length j (pictOf fmt f.bytes w h)
  simpa [Model.Figure.obsPage] using this

/-! ## the picture group -/

/-- how a picture is written: the alignment word, then the group
`{\pict\<fmt>blip\picwN\pichN\picwgoalN\pichgoalN <hex lines>}` -/
theorem C16enc_pict_group (d : FDoc) (p : Pict) :
    renderPiece d (.pict p) =
      [BlockG.plain [cwSp (alignWord d.align),
        Node.grp ([cw0 "pict", Node.cw (blipWord p.fmt) none false, cwi "picw" p.picw, cwi "pich" p.pich,
                   cwi "picwgoal" p.wgoal, Node.cw "pichgoal".toList (some p.hgoal) true] ++ textNodes p.payload)]] :=
  rfl

/-- **the picture of figure `j`**: tagged with the blip word of the format of its suffix (the one the specification's
table `wantBlip` demands), payload = `hexLines` of the file's bytes — which an RTF reader decodes to exactly these
bytes —, pixel size from the image header when there is one and `int(inches * 96)` otherwise, display size
`int(inches * 1440)` with the products taken in IEEE doubles -/
theorem C16enc_pict (d : FDoc) (picts : List Pict) (hP : PictsOf d picts) (j : Nat) (f : FigFile)
    (hf : d.figs[j]? = some f) :
    ∃ fmt w h p, fmtOfSuffix f.suffix = some fmt ∧ getDim d.widths j = some w ∧ getDim d.heights j = some h ∧
      picts[j]? = some p ∧ p = pictOf fmt f.bytes w h ∧
      p.fmt = fmt ∧ wantBlip f.suffix = some (blipWord p.fmt) ∧
      p.payload = hexLines f.bytes ∧ ((∀ b ∈ f.bytes, b < 256) → unhex p.payload = some f.bytes) ∧
      (∀ t, imageDims fmt f.bytes = some t → p.picw = t.1 ∧ p.pich = t.2) ∧
      (imageDims fmt f.bytes = none → p.picw = truncFMul w 96 ∧ p.pich = truncFMul h 96) ∧
      p.wgoal = truncFMul w 1440 ∧ p.hgoal = truncFMul h 1440 := by
  obtain ⟨fmt, w, h, h1, h2, h3, h4⟩ := hP.each j f hf
  refine ⟨fmt, w, h, _, h1, h2, h3, h4, rfl, pictOf_fmt _ _ _ _, ?_, Proofs.EncodeFigure.pictOf_payload _ _ _ _, ?_,
    fun t ht => pictOf_pixels_some _ _ _ _ t ht, fun ht => pictOf_pixels_none _ _ _ _ ht,
    (pictOf_goals _ _ _ _).1, (pictOf_goals _ _ _ _).2⟩
  · rw [pictOf_fmt]; exact Proofs.Figure.wantBlip_of_fmt f.suffix fmt h1
  · intro hb
    rw [Proofs.EncodeFigure.pictOf_payload]
    exact Props.C16.C16_hex_roundtrip f.bytes hb

/-- **locality**: the picture group of a position depends on the format, the bytes, the width and the height of THAT
position only — not on what else is listed, not on whether the same file (path) stands at another position, not on the
number of figures.  Two positions, of one document (`d' = d`) or of two, that agree in these four carry the same picture
`p`; with the same `fig_align` the blocks written for it are identical.  (So a file listed twice with different sizes is
written twice, differently; a memo of picture groups under the path is not an instance of this model —
`Props.C16pos.C16_path_memo_not_positional`.) -/
theorem C16enc_pict_depends_only_on_position (d d' : FDoc) (picts picts' : List Pict) (hP : PictsOf d picts)
    (hP' : PictsOf d' picts') (j j' : Nat) (f f' : FigFile) (hf : d.figs[j]? = some f) (hf' : d'.figs[j']? = some f')
    (hfmt : fmtOfSuffix f.suffix = fmtOfSuffix f'.suffix) (hbytes : f.bytes = f'.bytes)
    (hw : getDim d.widths j = getDim d'.widths j') (hh : getDim d.heights j = getDim d'.heights j') :
    ∃ p, picts[j]? = some p ∧ picts'[j']? = some p ∧
      (d.align = d'.align → renderPiece d (.pict p) = renderPiece d' (.pict p)) := by
  obtain ⟨fmt, w, h, e1, e2, e3, e4⟩ := hP.each j f hf
  obtain ⟨fmt', w', h', e1', e2', e3', e4'⟩ := hP'.each j' f' hf'
  rw [hfmt, e1'] at e1
  rw [hw, e2'] at e2
  rw [hh, e3'] at e3
  injection e1 with e1
  injection e2 with e2
  injection e3 with e3
  subst e1 e2 e3
  refine ⟨_, e4, by rw [e4', hbytes], fun ha => ?_⟩
  rw [C16enc_pict_group, C16enc_pict_group, ha]

/-- pixel size when the file's header is valid for the format of its suffix and states `t` -/
theorem C16enc_pixels_from_header (sfx : List Char) (fmt : Model.Figure.Fmt) (bytes : List Nat) (t : Nat × Nat)
    (w h : Rat) (hf : fmtOfSuffix sfx = some fmt) (hs : HeaderStates sfx bytes t) :
    (pictOf fmt bytes w h).picw = t.1 ∧ (pictOf fmt bytes w h).pich = t.2 :=
  pictOf_pixels_some fmt bytes w h t (Proofs.Figure.imageDims_of_header sfx fmt bytes t hf hs)

/-- the encoder's picture, both cases at once: the pair written is the pair READ from the header — whatever its values,
`0` included — or, ONLY when the parser returns nothing, the 96-dpi estimate `int(inches * 96)` -/
theorem C16enc_pixels_read_or_fallback (fmt : Model.Figure.Fmt) (bytes : List Nat) (w h : Rat) :
    (∃ t, imageDims fmt bytes = some t ∧ (pictOf fmt bytes w h).picw = t.1 ∧ (pictOf fmt bytes w h).pich = t.2) ∨
    (imageDims fmt bytes = none ∧ (pictOf fmt bytes w h).picw = truncFMul w 96 ∧
      (pictOf fmt bytes w h).pich = truncFMul h 96) := by
  cases ht : imageDims fmt bytes with
  | none => exact Or.inr ⟨rfl, pictOf_pixels_none fmt bytes w h ht⟩
  | some t => exact Or.inl ⟨t, rfl, pictOf_pixels_some fmt bytes w h t ht⟩

/-- **the fallback is used only when the parser returns nothing**: if either number written differs from the number
read on that axis, nothing was read at all -/
theorem C16enc_fallback_only_when_unreadable (fmt : Model.Figure.Fmt) (bytes : List Nat) (w h : Rat)
    (hne : ∀ t, imageDims fmt bytes = some t → (pictOf fmt bytes w h).picw ≠ t.1 ∨ (pictOf fmt bytes w h).pich ≠ t.2) :
    imageDims fmt bytes = none := by
  cases ht : imageDims fmt bytes with
  | none => rfl
  | some t =>
    have := pictOf_pixels_some fmt bytes w h t ht
    rcases hne t ht with h1 | h2
    · exact absurd this.1 h1
    · exact absurd this.2 h2

/-- a header that states a zero dimension (JPEG frame header with `Y = 0` and the line count in a DNL segment; a PNG
IHDR with a zero field): the zero is written, next to the other axis' stated value -/
theorem C16enc_zero_height_stated (sfx : List Char) (fmt : Model.Figure.Fmt) (bytes : List Nat) (tw : Nat)
    (w h : Rat) (hf : fmtOfSuffix sfx = some fmt) (hs : HeaderStates sfx bytes (tw, 0)) :
    (pictOf fmt bytes w h).picw = tw ∧ (pictOf fmt bytes w h).pich = 0 :=
  C16enc_pixels_from_header sfx fmt bytes (tw, 0) w h hf hs

theorem C16enc_zero_width_stated (sfx : List Char) (fmt : Model.Figure.Fmt) (bytes : List Nat) (th : Nat)
    (w h : Rat) (hf : fmtOfSuffix sfx = some fmt) (hs : HeaderStates sfx bytes (0, th)) :
    (pictOf fmt bytes w h).picw = 0 ∧ (pictOf fmt bytes w h).pich = th :=
  C16enc_pixels_from_header sfx fmt bytes (0, th) w h hf hs

/-! ## the display size: IEEE doubles vs. the exact floor -/

/-- what the model computes: the exact product rounded to the nearest double (ties to even), then truncated -/
theorem C16enc_goal_def (w : Rat) (k : Nat) : truncFMul w k = (roundDouble (w * (k : Rat))).floor.toNat := rfl

/-- the exact floor `⌊w · k⌋` is `truncMul` on the exact value of the float — the value `Props.C16.C16_goal_floor`
characterises — for every positive size -/
theorem C16enc_goal_exact_floor (w : Rat) (hw : 0 < w) (k : Nat) :
    (w * (k : Rat)).floor = ((truncMul (Model.EncodeFigure.sizeOf w) k : Nat) : Int) ∧
    truncMul (Model.EncodeFigure.sizeOf w) k * w.den ≤ w.num.toNat * k ∧
    w.num.toNat * k < (truncMul (Model.EncodeFigure.sizeOf w) k + 1) * w.den :=
  ⟨Proofs.RoundDouble.floor_mul_eq_truncMul w hw k,
    Proofs.Figure.truncMul_floor (Model.EncodeFigure.sizeOf w) k w.den_pos⟩

/-- **the goal is the exact floor or one more** (positive size, product below `2^52`) -/
theorem C16enc_goal_bounds (w : Rat) (hw : 0 < w) (k : Nat) (hk : 0 < k) (hlt : w * (k : Rat) < pow2 52) :
    truncMul (Model.EncodeFigure.sizeOf w) k ≤ truncFMul w k ∧
      truncFMul w k ≤ truncMul (Model.EncodeFigure.sizeOf w) k + 1 :=
  Proofs.RoundDouble.truncFMul_bounds w hw k hk hlt

/-- **the goal IS the exact floor** `⌊inches · k⌋` whenever the exact product `q` is further than `q / 2^53` below the
next integer (`farBelow`, on natural numbers: `num·k < ((⌊q⌋ + 1)·den − num·k) · 2^53`) -/
theorem C16enc_goal_floor (w : Rat) (hw : 0 < w) (k : Nat) (hk : 0 < k) (hlt : w * (k : Rat) < pow2 52)
    (hfar : farBelow (Model.EncodeFigure.sizeOf w) k) :
    truncFMul w k = truncMul (Model.EncodeFigure.sizeOf w) k :=
  Proofs.RoundDouble.truncFMul_eq_of_far w hw k hk hlt hfar

/-- in particular whenever the oracle's `nearBelow` (within `2^-30` below an integer) is false and `q < 2^23` -/
theorem C16enc_goal_floor_of_not_near (w : Rat) (hw : 0 < w) (k : Nat) (hk : 0 < k) (hlt : w * (k : Rat) < pow2 23)
    (hnb : nearBelow (Model.EncodeFigure.sizeOf w) k = false) :
    truncFMul w k = truncMul (Model.EncodeFigure.sizeOf w) k :=
  Proofs.RoundDouble.truncFMul_eq_of_not_nearBelow w hw k hk hlt hnb

/-- the oracle's tolerance accepts the goal the encoder writes -/
theorem C16enc_goal_ok (w : Rat) (hw : 0 < w) (k : Nat) (hk : 0 < k) (hlt : w * (k : Rat) < pow2 23) :
    goalOkTol (Model.EncodeFigure.sizeOf w) k (truncFMul w k) = true :=
  Proofs.RoundDouble.goalOkTol_truncFMul w hw k hk hlt

/-- FINDING (known, DESIGN §6 float boundary): the goal is NOT always the floor of the exact product.  The double
nearest to `6.1` is `6.0999999999999996447…`; its exact product with 1440 is `8783.99999999999948…`, whose floor is
8783, but the double product is `8784.0` and `int()` gives 8784 -/
theorem C16enc_goal_finding :
    let w : Rat := 3433994715870003 / 562949953421312
    0 < w ∧ truncMul (Model.EncodeFigure.sizeOf w) 1440 = 8783 ∧ truncFMul w 1440 = 8784 ∧
      nearBelow (Model.EncodeFigure.sizeOf w) 1440 = true := by
  decide +kernel

/-! ## per-figure sizes -/

theorem C16enc_dim_positional (d : FDoc) (j : Nat) (h : j < d.widths.length) : getDim d.widths j = some d.widths[j] :=
  Props.C16.C16_dim_positional d.widths j h

theorem C16enc_dim_last_reused (d : FDoc) (j : Nat) (h : d.widths.length ≤ j) (hne : d.widths ≠ []) :
    getDim d.widths j = some (d.widths.getLast hne) :=
  Props.C16.C16_dim_last_reused d.widths j h hne

/-- an accepted document has at least one width and one height -/
theorem C16enc_dims_nonempty (d : FDoc) (g : DocG) (n : Nat) (h : encodeWithF d = .ok (some g, n)) :
    d.widths ≠ [] ∧ d.heights ≠ [] := by
  obtain ⟨hne, picts, hP, _⟩ := C16enc_structure d g n h
  obtain ⟨f, hf⟩ : ∃ f, d.figs[0]? = some f := by
    cases hfig : d.figs with
    | nil => exact absurd hfig hne
    | cons f _ => exact ⟨f, rfl⟩
  obtain ⟨_, w, hh, _, h2, h3, _⟩ := hP.each 0 f hf
  constructor
  · intro h0; rw [h0, Proofs.Figure.getDim_nil] at h2; cases h2
  · intro h0; rw [h0, Proofs.Figure.getDim_nil] at h3; cases h3

/-! ## placement of title, subline, footnote, source -/

/-- the title slot (title text and newline), the subline, the footnote and the source are on page `j` of `N` exactly
when their placement selects it: `first` ↔ `j = 0`, `last` ↔ `j + 1 = N`, `all` ↔ always; the subline follows
`page_title` -/
theorem C16enc_placement (d : FDoc) (N j : Nat) (p : Pict) :
    (Piece.title ∈ pageBody (cfgOf d) N j p ↔ d.page.pageTitle.shows (j == 0) (j + 1 == N) = true) ∧
    (Piece.subline ∈ pageBody (cfgOf d) N j p ↔
      (d.subline.isSome && d.page.pageTitle.shows (j == 0) (j + 1 == N)) = true) ∧
    (Piece.footnote ∈ pageBody (cfgOf d) N j p ↔
      (d.footnote.isSome && d.page.pageFootnote.shows (j == 0) (j + 1 == N)) = true) ∧
    (Piece.source ∈ pageBody (cfgOf d) N j p ↔
      (d.source.isSome && d.page.pageSource.shows (j == 0) (j + 1 == N)) = true) := by
  have := Props.C16.C16_placement (cfgOf d) N j p
  simpa only [cfgOf, shows_figPl, Bool.true_and] using this

/-- what the placed pieces are rendered to: the encodings of the document's own components (paragraph-style footnote
whatever `as_table` says), `\par` after the picture, `generate_page_break` between pages -/
theorem C16enc_render (d : FDoc) :
    renderPiece d .title = titleBlocks d ∧ renderPiece d .subline = sublineBlocks d ∧
    renderPiece d .footnote = footnoteBlocks d ∧ renderPiece d .source = sourceBlocks d ∧
    renderPiece d .par = [BlockG.plain [cwSp "par"]] ∧ renderPiece d .pageBreak = breakBlocks d :=
  ⟨rfl, rfl, rfl, rfl, rfl, rfl⟩

/-! ## the whole document against the oracle -/

/-- **the complete C16 oracle on the encoder**: for every accepted figure document with byte-valued files and positive
sizes below `2^23 / 1440` inches, what a reader observes of the piece sequence the encoder renders satisfies `docOk` —
as many pages as figures, on page `j` exactly one picture with the payload, blip word, pixel size (claimed when the
header is valid: `truths`) and display size (with the oracle's float tolerance) of figure `j`, and title / footnote /
source on exactly the pages selected -/
theorem C16enc_doc_ok (d : FDoc) (g : DocG) (n : Nat) (h : encodeWithF d = .ok (some g, n))
    (truths : List (Option (Nat × Nat))) (hlen : truths.length = d.figs.length)
    (hbytes : ∀ f ∈ d.figs, ∀ b ∈ f.bytes, b < 256)
    (hw : ∀ w ∈ d.widths, 0 < w ∧ w * ((1440 : Nat) : Rat) < pow2 23)
    (hh : ∀ h ∈ d.heights, 0 < h ∧ h * ((1440 : Nat) : Rat) < pow2 23)
    (htruth : ∀ (j : Nat) (f : FigFile) (t : Nat × Nat), d.figs[j]? = some f → truths[j]? = some (some t) →
      HeaderStates f.suffix f.bytes t) :
    ∃ picts, PictsOf d picts ∧
      g.blocks = (figureLoop (cfgOf d) picts).flatMap (renderPiece d) ++ [BlockG.plain [Node.nl, Node.nl]] ∧
      Model.Figure.docOk (cfgOf d) (wantsOf d truths) (observe (figureLoop (cfgOf d) picts)) = true := by
  obtain ⟨hne, picts, hP, hb⟩ := C16enc_structure d g n h
  refine ⟨picts, hP, hb, ?_⟩
  have hmain := pagesOk_encoder (cfgOf d) d.figs.length d.widths d.heights hw hh d.figs truths picts 0 hlen hP.length
    (fun j f hf => by rw [Nat.zero_add]; exact hP.each j f hf) hbytes htruth
  have hwl : (wantsOf d truths).length = d.figs.length := by
    unfold wantsOf
    rw [wantsFrom_length]
    · simp [hlen]
    · intro j hj
      have hj' : j < d.figs.length := by simpa [hlen] using hj
      obtain ⟨_, w, hh', _, h2, h3, _⟩ := hP.each j _ (List.getElem?_eq_getElem hj')
      rw [Nat.zero_add, getDim_map, getDim_map, h2, h3]
      exact ⟨rfl, rfl⟩
  unfold Model.Figure.docOk observe
  rw [C16enc_pages d picts hP hne, hwl]
  exact hmain

/-- **C16 for the figure-only encoder, all at once.**  For every accepted figure document: the blocks are the rendering
of the abstract page loop for the pictures `picts`; read back page by page there are as many pages as figures, with one
page break fewer; page `j` is the body of figure `j` and holds exactly one picture, `pictOf` of the format of the `j`-th
suffix, the `j`-th file's bytes (payload `hexLines`, decoded by a reader to the bytes) and the size `getDim` selects -/
theorem C16enc (d : FDoc) (g : DocG) (n : Nat) (h : encodeWithF d = .ok (some g, n)) :
    ∃ picts, PictsOf d picts ∧
      g.blocks = (figureLoop (cfgOf d) picts).flatMap (renderPiece d) ++ [BlockG.plain [Node.nl, Node.nl]] ∧
      (splitPages (figureLoop (cfgOf d) picts)).length = d.figs.length ∧
      (figureLoop (cfgOf d) picts).count Piece.pageBreak + 1 = d.figs.length ∧
      ∀ j f, d.figs[j]? = some f → ∃ fmt w h page, fmtOfSuffix f.suffix = some fmt ∧
        getDim d.widths j = some w ∧ getDim d.heights j = some h ∧
        (splitPages (figureLoop (cfgOf d) picts))[j]? = some page ∧
        page = pageBody (cfgOf d) d.figs.length j (pictOf fmt f.bytes w h) ∧
        page.filterMap Model.Figure.pictOf = [obsOfPict (pictOf fmt f.bytes w h)] ∧
        (pictOf fmt f.bytes w h).payload = hexLines f.bytes ∧
        ((∀ b ∈ f.bytes, b < 256) → unhex (pictOf fmt f.bytes w h).payload = some f.bytes) := by
  obtain ⟨hne, picts, hP, hb⟩ := C16enc_structure d g n h
  refine ⟨picts, hP, hb, C16enc_page_count d picts hP hne, C16enc_breaks d picts hP hne, ?_⟩
  intro j f hf
  obtain ⟨fmt, w, hh, page, h1, h2, h3, h4, h5, h6⟩ := C16enc_one_pict_in_order d picts hP j f hf
  refine ⟨fmt, w, hh, page, h1, h2, h3, h4, h5, h6, Proofs.EncodeFigure.pictOf_payload _ _ _ _, ?_⟩
  intro hbytes
  rw [Proofs.EncodeFigure.pictOf_payload]
  exact Props.C16.C16_hex_roundtrip f.bytes hbytes

/-! ## non-vacuity: two figures (a valid 3×2 PNG and a JPEG with a 5×4 frame header), sizes `[2.5]` × `[1, 3]`, title on
every page, footnote on the last page -/

open Props.C01enc in
def exFigDoc : FDoc :=
  { figs := [{ suffix := ".Png".toList, bytes := Props.C16.exPng }, { suffix := ".jpeg".toList, bytes := Props.C16.exJpeg }],
    widths := [5 / 2], heights := [1, 3], align := "center", page := { exPage with pageFootnote := .last },
    pageHeader := none, pageFooter := none,
    title := some { text := some ["Figure x^2".toList], attrs := exText }, subline := none,
    footnote := some { text := some "note é".toList, asTable := true, colRelWidth := some [1], attrs := exTbl },
    source := none, body := some exTbl, headers := [] }

set_option maxRecDepth 100000

/-- the encoder accepts the example; its pictures: pixel sizes from the two headers, goals `2.5·1440`, `1·1440`,
`3·1440`; two pages with one page break; the title on both pages, the footnote on the last -/
example :
    (match encodeWithF exFigDoc with
     | .ok (some g, _) =>
       g.blocks.length == 11 &&
       (g.blocks.filterMap fun b => match b with
          | BlockG.plain [_, Node.grp (_ :: Node.cw blip none false :: Node.cw _ (some pw) _ :: Node.cw _ (some ph) _ ::
              Node.cw _ (some wg) _ :: Node.cw _ (some hg) _ :: _)] => some (String.ofList blip, pw, ph, wg, hg)
          | _ => none) == [("pngblip", 3, 2, 3600, 1440), ("jpegblip", 5, 4, 3600, 4320)]
     | _ => false) = true ∧
    (figureLoop (cfgOf exFigDoc) [pictOf .png Props.C16.exPng (5 / 2) 1, pictOf .jpeg Props.C16.exJpeg (5 / 2) 3]).map
        (fun x => match x with
          | .title => 0 | .subline => 1 | .pict _ => 2 | .par => 3 | .footnote => 4 | .source => 5 | .pageBreak => 6) =
      [0, 2, 3, 6, 0, 2, 3, 4] := by
  refine ⟨by decide +kernel, by decide +kernel⟩

/-- the hypotheses of `C16enc_doc_ok` are satisfiable: the theorem applied to the example with the header truths
`3 × 2` and `5 × 4` -/
example : ∀ g n, encodeWithF exFigDoc = .ok (some g, n) →
    ∃ picts, PictsOf exFigDoc picts ∧
      g.blocks = (figureLoop (cfgOf exFigDoc) picts).flatMap (renderPiece exFigDoc) ++
        [BlockG.plain [Node.nl, Node.nl]] ∧
      Model.Figure.docOk (cfgOf exFigDoc) (wantsOf exFigDoc [some (3, 2), some (5, 4)])
        (observe (figureLoop (cfgOf exFigDoc) picts)) = true := by
  intro g n h
  apply C16enc_doc_ok exFigDoc g n h [some (3, 2), some (5, 4)] rfl
  · decide +kernel
  · decide +kernel
  · decide +kernel
  · intro j f t hf ht
    match j, hf, ht with
    | 0, hf, ht =>
      cases hf; cases ht
      exact Or.inl ⟨by decide, [0, 0, 0, 13, 0x49, 0x48, 0x44, 0x52], [8, 2, 0, 0, 0, 1, 2, 3, 4], by decide, by decide,
        by decide, by decide, by decide⟩
    | 1, hf, ht =>
      cases hf; cases ht
      refine Or.inr ⟨by decide, [.seg 1 0xE0 0 4 [0x4A, 0x46], .standalone 0 0xD0], 2, 0xC0, 0, 11, 8,
        [1, 1, 0x11, 0, 0xFF, 0xD9], ?_, by decide, by decide, by decide⟩
      intro it hit
      simp at hit
      rcases hit with rfl | rfl
      · exact ⟨by decide, by decide, by decide, by decide⟩
      · show Model.Figure.isStandalone 0xD0 = true
        decide
    | j + 2, hf, _ => simp [exFigDoc] at hf

end Props.C16enc
