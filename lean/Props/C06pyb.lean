import Generated.PyPageBreak
import Generated.PyPageMargin
import Props.C06pym
/-!
# C06 — translator tie for the page break

`Generated.Py.PageBreak.run` is regenerated on every run from `RTFEncodingService.encode_page_break`; the margin
encoder it is handed is a parameter.  Proved here: with the translated `encode_page_margin` of the same page in that
place — what `RTFDocumentService.generate_page_break` passes — the string is the printed `Model.Encode.pageBreak pg`:
the two tiny paragraphs around `\page`, the paper size, the margins.  An exception of the margin encoder propagates.
-/
set_option linter.unusedSimpArgs false
namespace Props.C06pyb
open Model.Rtf Model.Emit Model.Encode Generated.Py Generated.Py.PageBreak Props.C01py Props.C01pyc

/-- the paper-size words, as the page break and the document start both write them -/
def paperStr (i2t : Rat → Int) (width height : Rat) : List Nat :=
  cps ('\\' :: "paperw".toList) ++ strOfInt (i2t width) ++ cps ('\\' :: "paperh".toList) ++ strOfInt (i2t height)

/-- `{\pard\fs2\par}\page{\pard\fs2\par}` and a newline -/
def breakStr : List Nat := cps "{\\pard\\fs2\\par}\\page{\\pard\\fs2\\par}\n".toList

/-- what the function computes, for every margin encoder that returns -/
theorem run_eq (i2t : Rat → Int) (width height : Rat) (ms : List Nat) :
    run i2t (.ok ms) width height = .ok (breakStr ++ paperStr i2t width height ++ [10, 10] ++ ms ++ [10]) := by
  -- both sides are normalised to explicit code points, so the proof does not depend on how the source cuts the
  -- string into literals
  simp [PageBreak.run, bind, Except.bind, pure, Except.pure, breakStr, paperStr, cps]

/-- an exception of the margin encoder leaves the function -/
theorem C06py_page_break_margin_error (i2t : Rat → Int) (width height : Rat) (e : Exc) :
    run i2t (.error e) width height = .error e := by
  simp [PageBreak.run, bind, Except.bind]

/-- **the translated `encode_page_break`, given the translated margin encoder of the same page, prints the model's page
break** -/
theorem C06py_page_break_translated (pg : Page) (h6 : pg.margin.length = 6) :
    ∃ ns, pageBreak pg = .ok ns ∧
      run Model.Encode.twip (PageMargin.run Model.Encode.twip pg.margin) pg.width pg.height =
        .ok (cps (printNodes ns)) := by
  obtain ⟨ms, hms, hrun⟩ := C06pym.C06py_page_margin_translated pg h6
  refine ⟨_, by simp only [pageBreak, hms, bind, Except.bind, pure, Except.pure]; rfl, ?_⟩
  rw [hrun, run_eq]
  have d2 : intDigits 2 = ['2'] := by decide
  simp [d2, breakStr, paperStr, Proofs.Emit.printNodes_append, cps_append, printNodes, printNode, cw0, cwi, cps,
    strOfInt_digits, List.map_append]

end Props.C06pyb
