import Model.Assemble
import Proofs.Assemble
/-!
# C17 — `assemble_rtf` yields one well-formed document with every input in order

Model: `Model.Assemble` (= `rtflite.assemble.assemble_rtf` with the repair `assemble-body-start`,
on lists of lines as `readlines()` returns them).

An input "written by rtflite" is a `Shaped` record `s` (the file is `s.file = s.pre ++ s.font ++
s.close :: s.mid ++ [s.last]`) with `s.ok`: no `fcharset` before the font table, the font table a
non-empty run of lines containing `fcharset`, the next line (which closes the table) without it, the
last line `}`.  NOTHING is assumed about `s.mid`: user text may contain the word `fcharset` (D24).
`Model.Assemble.decompose` computes this cut for any file (theorems `C17_cut_*`), so the hypothesis
is decidable and is evaluated on every real input by the harness.

Statement clauses and where they are:
* one well-formed file                                   → `C17_wellformed`, `C17_wellformed_meaning`
* every input in argument order, each after a `\page`    → `C17_lines`, `C17_block`, `C17_first_kept`
* each later input keeps everything after its font table
  (page header/footer, `\paperw…`, margins, all content) → `C17_lines` (`Shaped.body`), `C17_keeps`
* single input unchanged, empty list writes nothing,
  missing input ⇒ FileNotFoundError, output untouched    → `C17_single`, `C17_empty`, `C17_missing`
* the result can be assembled again                      → `C17_closed`, `C17_nested`
* the output path may be one of the inputs (reads first)  → `C17_reads_before_write`, `C17_alias_output_is_input`,
                                                           `C17_grow_in_place`
* what the unrepaired helper did                         → `D24_*` (about `assembleLinesOld`)
-/
namespace Props.C17
open Model.Assemble Proofs.Assemble

/-- all inputs have the rtflite shape -/
def AllOk (ss : List Shaped) : Prop := ∀ t ∈ ss, t.ok = true

/-! ## (1) the assembled line list, in closed form -/

/-- For inputs of the rtflite shape the loop produces exactly: the first file without its last
line, then for every further file `\page` followed by everything after its font table (without its
last line), then the last line of the last file. -/
theorem C17_lines (s : Shaped) (rest : List Shaped) (h : AllOk (s :: rest)) :
    assembleLines ((s :: rest).map Shaped.file) = .ok (expected (s :: rest)) :=
  assembleLines_shaped s rest (allOk_iff.mp h)

/-- the whole call: all inputs exist ⇒ normal return and exactly these lines are written -/
theorem C17_call {α : Type} (fs : α → Option File) (inputs : List α) (s : Shaped) (rest : List Shaped)
    (hfs : inputs.map fs = (s :: rest).map (fun t => some t.file)) (h : AllOk (s :: rest)) :
    assembleRtf fs inputs = ⟨.returned, some (expected (s :: rest))⟩ := by
  have hfs' : inputs.map fs = ((s :: rest).map Shaped.file).map some := by
    rw [hfs, List.map_map]; rfl
  obtain ⟨h1, h2⟩ := filter_none_nil fs inputs _ hfs'
  have hne : inputs ≠ [] := by
    intro h0; rw [h0] at hfs; simp at hfs
  have hne' : inputs.isEmpty = false := by
    cases inputs with
    | nil => exact absurd rfl hne
    | cons a b => rfl
  simp only [assembleRtf, hne', h1, h2, C17_lines s rest h]
  simp

/-! ## (2) the result is one balanced top-level group -/

/-- If every input is one balanced group closing in its last line, and the skipped head of every
later input (signature, font table up to its closing brace) is balanced at depth 1, the output is
one balanced group closing in its last line. -/
theorem C17_wellformed (s : Shaped) (rest : List Shaped) (h : AllOk (s :: rest))
    (hw : ∀ t ∈ s :: rest, wellFormedDoc t.file = true)
    (hb : ∀ t ∈ rest, t.headBalanced = true) :
    ∃ out, assembleLines ((s :: rest).map Shaped.file) = .ok out ∧ wellFormedDoc out = true :=
  ⟨_, C17_lines s rest h,
    expected_wellFormed s rest (allOk_iff.mp h) (hw s (by simp))
      (fun t ht => ⟨hb t ht, hw t (List.mem_cons_of_mem _ ht)⟩)⟩

/-- what `wellFormedDoc` gives: the text starts with `{` and the scan over all characters
(escaped braces ignored) ends at depth 0; by definition the depth stays ≥ 1 before the last line -/
theorem C17_wellformed_meaning (f : File) (h : wellFormedDoc f = true) :
    runB s0 f.flatten = s0 ∧ f.flatten.head? = some '{' :=
  wellFormed_total f h

/-- the brace scan is compositional -/
theorem C17_depth_append (s : BState) (a b : List Char) :
    runB s (a ++ b) = runB (runB s a) b ∧ inside s (a ++ b) = (inside s a && inside (runB s a) b) :=
  ⟨runB_append s a b, inside_append s a b⟩

/-! ## (3) every input is there, whole, in argument order, each later one right after `\page` -/

/-- the first input is reproduced up to its last line -/
theorem C17_first_kept (s : Shaped) (rest : List Shaped) :
    s.init <+: expected (s :: rest) :=
  ⟨tailLines rest ++ [(lastOf s rest).last], by simp [expected, List.append_assoc]⟩

/-- input `t` (anywhere after the first) appears as the block `\page :: t.body`, preceded by the
blocks of the inputs before it and followed by those after it -/
theorem C17_block (s : Shaped) (r1 : List Shaped) (t : Shaped) (r2 : List Shaped) :
    expected (s :: (r1 ++ t :: r2)) =
      (s.init ++ tailLines r1) ++ (pageCmd :: t.body) ++ (tailLines r2 ++ [(lastOf t r2).last]) :=
  expected_split s r1 t r2

/-- nothing after the font table of a later input is lost: every line of `t.mid` (page
header/footer, `\paperw…`, margins, all pages) is in the output -/
theorem C17_keeps (s : Shaped) (r1 : List Shaped) (t : Shaped) (r2 : List Shaped) (l : Line)
    (hl : l ∈ t.mid) : l ∈ expected (s :: (r1 ++ t :: r2)) := by
  rw [expected_split]
  simp [Shaped.body, hl]

/-- the body of a later input: what follows the font table's closing brace on its line (if not
blank) and all lines after it -/
theorem C17_body (t : Shaped) :
    t.body = (if strip (afterFirstBrace t.close) != [] then [afterFirstBrace t.close] else []) ++ t.mid :=
  rfl

/-! ## (4) single input, empty list, missing input -/

/-- a single existing input (of any content) is written back unchanged -/
theorem C17_single {α : Type} (fs : α → Option File) (p : α) (f : File) (hp : fs p = some f) :
    assembleRtf fs [p] = ⟨.returned, some f⟩ := by
  simp [assembleRtf, hp, assembleLines, assembleAux, part_first_last]

/-- an empty list returns without opening the output -/
theorem C17_empty {α : Type} (fs : α → Option File) :
    assembleRtf fs ([] : List α) = ⟨.returned, none⟩ := rfl

/-- a missing input raises FileNotFoundError naming all missing inputs, and the output path is
never opened (whatever it held before is untouched) -/
theorem C17_missing {α : Type} (fs : α → Option File) (inputs : List α) (p : α) (hp : p ∈ inputs)
    (hmiss : fs p = none) :
    assembleRtf fs inputs =
      ⟨.fileNotFound (inputs.filter (fun q => (fs q).isNone)), none⟩ := by
  have hne : inputs.isEmpty = false := by
    cases inputs with
    | nil => simp at hp
    | cons a b => rfl
  have hm : (inputs.filter (fun q => (fs q).isNone)).isEmpty = false := by
    have : p ∈ inputs.filter (fun q => (fs q).isNone) := by simp [List.mem_filter, hp, hmiss]
    cases hf : inputs.filter (fun q => (fs q).isNone) with
    | nil => rw [hf] at this; simp at this
    | cons a b => rfl
  simp [assembleRtf, hne, hm]

/-- the output path is opened only on the success path -/
theorem C17_written_only_on_success {α : Type} (fs : α → Option File) (inputs : List α) (ls : File)
    (h : (assembleRtf fs inputs).written = some ls) : (assembleRtf fs inputs).result = .returned := by
  unfold assembleRtf at h ⊢
  by_cases h1 : inputs.isEmpty = true
  · simp [h1]
  · by_cases h2 : (!(inputs.filter (fun p => (fs p).isNone)).isEmpty) = true
    · simp [h1, h2] at h
    · by_cases h3 : (inputs.filterMap fs).isEmpty = true
      · simp [h1, h2, h3]
      · cases h4 : assembleLines (inputs.filterMap fs) with
        | error e => simp [h1, h2, h3, h4] at h
        | ok out => simp [h1, h2, h3, h4]

/-! ## (5) names: exactly the listed names are read, whatever else the directory holds -/

/-- The outcome depends only on what the file system holds under the LISTED names: two file systems that
agree on them (and differ arbitrarily elsewhere — neighbours whose names a listed name would match as a
pattern, backup copies, same stems with other suffixes, the previous content of the output path) give the
same outcome. -/
theorem C17_reads_only_listed {α : Type} (fs fs' : α → Option File) (inputs : List α)
    (h : ∀ p ∈ inputs, fs p = fs' p) : assembleRtf fs inputs = assembleRtf fs' inputs := by
  have h1 : inputs.filter (fun p => (fs p).isNone) = inputs.filter (fun p => (fs' p).isNone) :=
    List.filter_congr (fun p hp => by rw [h p hp])
  have h2 : inputs.filterMap fs = inputs.filterMap fs' := filterMap_congr' fs fs' inputs h
  unfold assembleRtf
  rw [h1, h2]

/-- Names do not matter at all, only the contents found under them, in argument order: the lines written
(and whether the call returns normally or fails) are a function of `inputs.map fs`. -/
theorem C17_contents_only {α β : Type} (fs : α → Option File) (fs' : β → Option File)
    (inputs : List α) (inputs' : List β) (h : inputs.map fs = inputs'.map fs') :
    (assembleRtf fs inputs).written = (assembleRtf fs' inputs').written ∧
    ((assembleRtf fs inputs).result = .returned ↔ (assembleRtf fs' inputs').result = .returned) ∧
    ((assembleRtf fs inputs).result = .indexError ↔ (assembleRtf fs' inputs').result = .indexError) := by
  have hk := assembleRtf_kind fs inputs
  have hk' := assembleRtf_kind fs' inputs'
  rw [h, ← hk'] at hk
  have h1 := congrArg Prod.fst hk
  have h2 := congrArg Prod.snd hk
  simp only at h1 h2
  refine ⟨h2, ?_, ?_⟩
  · rw [kind_returned, kind_returned, h1]
  · rw [kind_indexError, kind_indexError, h1]

/-- Decoys: files added to the directory under names that are not listed change nothing. -/
theorem C17_decoys {α : Type} [DecidableEq α] (d decoys : Fs α) (inputs : List α) (out : α)
    (h : ∀ p ∈ inputs, ∀ e ∈ decoys, e.1 ≠ p) :
    (assembleIn (decoys ++ d) inputs out).1 = (assembleIn d inputs out).1 := by
  simp only [assembleIn]
  exact C17_reads_only_listed _ _ inputs (fun p hp => read_append_of_not_key decoys d p (h p hp))

/-- The only name whose content can change is the output path: every other file of the directory (the
inputs, their neighbours) reads the same afterwards. -/
theorem C17_others_untouched {α : Type} [DecidableEq α] (d : Fs α) (inputs : List α) (out q : α)
    (hq : out ≠ q) : (assembleIn d inputs out).2.read q = d.read q := by
  simp only [assembleIn]
  cases (assembleRtf d.read inputs).written with
  | none => rfl
  | some ls => simp [Fs.write, Fs.read, hq]

/-- on success the output path holds exactly the lines of the outcome … -/
theorem C17_output_holds {α : Type} [DecidableEq α] (d : Fs α) (inputs : List α) (out : α) (ls : File)
    (h : (assembleIn d inputs out).1.written = some ls) : (assembleIn d inputs out).2.read out = some ls := by
  simp only [assembleIn] at h ⊢
  rw [h]; simp [Fs.write, Fs.read]

/-- … and when nothing is written (empty list, missing input, IndexError) the directory is unchanged,
the previous content of the output path included -/
theorem C17_nothing_written {α : Type} [DecidableEq α] (d : Fs α) (inputs : List α) (out : α)
    (h : (assembleIn d inputs out).1.result ≠ .returned ∨ inputs = []) : (assembleIn d inputs out).2 = d := by
  have hw : (assembleRtf d.read inputs).written = none := by
    rcases h with h | h
    · cases hw : (assembleRtf d.read inputs).written with
      | none => rfl
      | some ls => exact absurd (C17_written_only_on_success _ _ ls hw) h
    · subst h; rfl
  simp only [assembleIn, hw]

/-! ## (6) the output path may denote the file of one of the inputs

`Dir`: names resolve to files (`key`), several names may denote one file (other spellings of a path, symbolic
links, hard links).  All inputs are read before the output is opened. -/

/-- the call does not change which file a name denotes -/
theorem C17_dir_key {α κ : Type} [DecidableEq κ] (d : Dir α κ) (inputs : List α) (out : α) :
    (assembleInDir d inputs out).2.key = d.key := by
  simp only [assembleInDir]
  cases (assembleRtf d.read inputs).written with
  | none => rfl
  | some ls => rfl

/-- Reads come first: the outcome is that of the contents found under the listed names WHEN THE CALL STARTS,
whatever file the output path denotes — a new one, an old unrelated one, or the file of one of the inputs; afterwards
every name of the output's file reads the lines written, every other name reads what it read before; when nothing is
written (empty list, missing input, IndexError) every name reads what it read before, the output's included. -/
theorem C17_reads_before_write {α κ : Type} [DecidableEq κ] (d : Dir α κ) (inputs : List α) (out : α) :
    (assembleInDir d inputs out).1 = assembleRtf d.read inputs ∧
    ∀ q, (assembleInDir d inputs out).2.read q =
      match (assembleRtf d.read inputs).written with
      | some ls => if d.key q = d.key out then some ls else d.read q
      | none => d.read q := by
  refine ⟨rfl, fun q => ?_⟩
  simp only [assembleInDir]
  cases (assembleRtf d.read inputs).written with
  | none => rfl
  | some ls =>
    simp only [Dir.write, Dir.read, Fs.write, Fs.read]
    by_cases hk : d.key q = d.key out
    · simp [hk]
    · have hk' : ¬ d.key out = d.key q := fun e => hk e.symm
      simp [hk, hk']

/-- Aliasing is safe: if every listed name holds a file of the rtflite shape when the call starts, the call returns
normally and the output's file holds the closed form of THOSE contents afterwards — no hypothesis relates `out` to the
inputs, so `out` may be one of them (any position, listed under the same name or under another name of the same file). -/
theorem C17_alias_output_is_input {α κ : Type} [DecidableEq κ] (d : Dir α κ) (inputs : List α) (out : α)
    (s : Shaped) (rest : List Shaped)
    (hfs : inputs.map d.read = (s :: rest).map (fun t => some t.file)) (h : AllOk (s :: rest)) :
    (assembleInDir d inputs out).1 = ⟨.returned, some (expected (s :: rest))⟩ ∧
    ∀ q, (assembleInDir d inputs out).2.read q =
      if d.key q = d.key out then some (expected (s :: rest)) else d.read q := by
  have hc := C17_call d.read inputs s rest hfs h
  obtain ⟨h1, h2⟩ := C17_reads_before_write d inputs out
  refine ⟨h1.trans hc, fun q => ?_⟩
  rw [h2 q, hc]

/-- Growing a deliverable in place: `assemble_rtf(ins1, out)` and then `assemble_rtf([c] ++ ins2, out)` where `c` is
any name of the output's file (the same spelling, another one, a link) leaves in that file what assembling
`ins1 ++ ins2` at once yields. -/
theorem C17_grow_in_place {α κ : Type} [DecidableEq κ] (d : Dir α κ) (ins1 ins2 : List α) (out c : α)
    (s : Shaped) (rest more : List Shaped) (h : AllOk (s :: (rest ++ more)))
    (h1 : ins1.map d.read = (s :: rest).map (fun t => some t.file))
    (h2 : ins2.map d.read = more.map (fun t => some t.file))
    (hc : d.key c = d.key out) (hout : ∀ p ∈ ins2, d.key p ≠ d.key out) :
    ∀ q, d.key q = d.key out →
      (assembleInDir (assembleInDir d ins1 out).2 (c :: ins2) out).2.read q =
        some (expected (s :: (rest ++ more))) := by
  have hA1 : AllOk (s :: rest) := fun t ht => h t (by
    rcases List.mem_cons.mp ht with rfl | ht
    · simp
    · simp [ht])
  have hA2 : AllOk (assembled s rest :: more) := by
    intro t ht
    rcases List.mem_cons.mp ht with rfl | ht
    · exact (ok_iff _).mpr (assembled_ok s rest (allOk_iff.mp hA1))
    · exact h t (by simp [ht])
  obtain ⟨_, hr1⟩ := C17_alias_output_is_input d ins1 out s rest h1 hA1
  have hk := C17_dir_key d ins1 out
  generalize (assembleInDir d ins1 out).2 = d1 at hr1 hk
  have hmap : (c :: ins2).map d1.read = (assembled s rest :: more).map (fun t => some t.file) := by
    simp only [List.map_cons]
    rw [hr1 c, if_pos hc, assembled_file, ← h2]
    congr 1
    exact List.map_congr_left (fun p hp => by rw [hr1 p, if_neg (hout p hp)])
  obtain ⟨_, hr2⟩ := C17_alias_output_is_input d1 (c :: ins2) out (assembled s rest) more hmap hA2
  intro q hq
  rw [hr2 q, hk, if_pos hq, expected_nested]

/-! ## the decidable cut -/

theorem C17_cut_sound (f : File) (s : Shaped) (h : decompose f = some s) : s.file = f ∧ s.ok = true :=
  decompose_some f s h

theorem C17_cut_complete (s : Shaped) (h : s.ok = true) : decompose s.file = some s :=
  decompose_file s ((ok_iff s).mp h)

/-! ## closure -/

/-- the output has the rtflite shape again (same head as the first input) … -/
theorem C17_closed (s : Shaped) (rest : List Shaped) (h : AllOk (s :: rest)) :
    (assembled s rest).file = expected (s :: rest) ∧ (assembled s rest).ok = true ∧
      (assembled s rest).headChars = s.headChars :=
  ⟨assembled_file s rest, (ok_iff _).mpr (assembled_ok s rest (allOk_iff.mp h)), rfl⟩

/-- … so assembling an assembled file with further inputs equals assembling all of them at once -/
theorem C17_nested (s : Shaped) (rest more : List Shaped) (h : AllOk (s :: (rest ++ more))) :
    assembleLines ((assembled s rest :: more).map Shaped.file) =
      assembleLines ((s :: (rest ++ more)).map Shaped.file) := by
  have h1 : AllOk (s :: rest) := fun t ht => h t (by
    rcases List.mem_cons.mp ht with rfl | ht
    · simp
    · simp [ht])
  have h2 : AllOk (assembled s rest :: more) := by
    intro t ht
    rcases List.mem_cons.mp ht with rfl | ht
    · exact (C17_closed s rest h1).2.1
    · exact h t (by simp [ht])
  rw [C17_lines _ _ h2, C17_lines _ _ h, expected_nested]

/-! ## non-vacuity: a portrait table, then a document whose text contains `fcharset`, then a
figure-style document whose colour table starts on the font table's closing line -/

def exA : Shaped :=
  ⟨["{\\rtf1\\ansi\n".toList, "\\deff0\n".toList], ["{\\fonttbl{\\f0\\fcharset1 T;}\n".toList],
   "}\n".toList, ["\\paperw12240\n".toList, "{\\f0 a}\\par\n".toList], "}".toList⟩
def exB : Shaped :=
  ⟨["{\\rtf1\\ansi\n".toList, "\\deff0\n".toList], ["{\\fonttbl{\\f0\\fcharset1 T;}\n".toList],
   "}\n".toList, ["\\paperw15840\n".toList, "{\\f0 second fcharset doc}\\par\n".toList], "}".toList⟩
def exC : Shaped :=
  ⟨["{\\rtf1\\ansi\n".toList], ["\\deff0{\\fonttbl{\\f0\\fcharset1 T;}\n".toList],
   "}{\\colortbl;\n".toList, ["\\red255;\n".toList, "}\n".toList, "\\paperw9\n".toList], "}".toList⟩

example : AllOk [exA, exB, exC] ∧ (∀ t ∈ [exA, exB, exC], wellFormedDoc t.file = true) ∧
    (∀ t ∈ [exB, exC], t.headBalanced = true) ∧
    assembleLines ([exA, exB, exC].map Shaped.file) = .ok
      ["{\\rtf1\\ansi\n".toList, "\\deff0\n".toList, "{\\fonttbl{\\f0\\fcharset1 T;}\n".toList,
       "}\n".toList, "\\paperw12240\n".toList, "{\\f0 a}\\par\n".toList,
       "\\page\n".toList, "\\paperw15840\n".toList, "{\\f0 second fcharset doc}\\par\n".toList,
       "\\page\n".toList, "{\\colortbl;\n".toList, "\\red255;\n".toList, "}\n".toList,
       "\\paperw9\n".toList, "}".toList] := by
  refine ⟨?_, ?_, ?_, ?_⟩
  · intro t ht; simp only [List.mem_cons, List.not_mem_nil, or_false] at ht
    rcases ht with rfl | rfl | rfl <;> decide
  · intro t ht; simp only [List.mem_cons, List.not_mem_nil, or_false] at ht
    rcases ht with rfl | rfl | rfl <;> decide
  · intro t ht; simp only [List.mem_cons, List.not_mem_nil, or_false] at ht
    rcases ht with rfl | rfl <;> decide
  · decide

/-- a listed name that contains pattern characters is still one name: with `t14[1].rtf` and its neighbour
`t141.rtf` in the directory, listing the former yields the former's lines -/
example : (assembleIn [("t141.rtf", exB.file), ("t14[1].rtf", exA.file), ("out.rtf", [])]
    ["t14[1].rtf"] "out.rtf").2.read "out.rtf" = some exA.file := by decide

/-- growing in place: `assemble([a, b], out)`, then `assemble(["./out", c], out)` — the second call lists the output's
file under another spelling — holds what assembling a, b, c at once yields; listing the combined file LAST reads it
before it is overwritten just the same -/
def exDir : Dir String String :=
  ⟨fun p => if p = "./out" then "out" else p, [("a", exA.file), ("b", exB.file), ("c", exC.file)]⟩

example : (assembleInDir (assembleInDir exDir ["a", "b"] "out").2 ["./out", "c"] "out").2.read "out" =
    some (expected [exA, exB, exC]) := by decide

example : (assembleInDir (assembleInDir exDir ["b", "c"] "out").2 ["a", "./out"] "out").2.read "out" =
    some (expected [exA, exB, exC]) := by decide

/-! ## what the unrepaired helper did (kept as a record of D24; not part of the property) -/

/-- D24: with the old `find_start_index` (last `fcharset` line of the whole file) a later input whose
text contains the word loses everything up to and including that line — here the whole input,
page size and closing brace included -/
theorem D24_unrepaired_loses_body :
    assembleLinesOld ([exA, exB].map Shaped.file) = .ok
      ["{\\rtf1\\ansi\n".toList, "\\deff0\n".toList, "{\\fonttbl{\\f0\\fcharset1 T;}\n".toList,
       "}\n".toList, "\\paperw12240\n".toList, "{\\f0 a}\\par\n".toList,
       "\\page\n".toList] := by decide

/-- second defect of the old helper: the colour table of a figure-style input starts on the font
table's closing line, the line is skipped whole and the output is not a well-formed document -/
theorem D24_unrepaired_unbalanced :
    ∃ out, assembleLinesOld ([exA, exC].map Shaped.file) = .ok out ∧ wellFormedDoc out = false :=
  ⟨_, rfl, by decide⟩

end Props.C17
