import Generated.PyBorderDecision
import Props.C06py
import Model.Borders
import Model.Encode
/-!
# C07 — translator tie for the decisions of the border hierarchy

Two pieces of `pagination/processor.py` are regenerated from their source on every run (harness/pytranslate.py):

* `Generated.Py.BorderDecision.run` — the statements of `_apply_pagination_borders` from `has_footnote_on_page = …` to
  the end of `if not page.is_last_page: … elif document.rtf_page.border_last: …`: is a footnote / source shown on this
  page as a table row, and which style closes the page's table;
* `Generated.Py.FootnoteSourceBorders.run` — `_apply_footnote_source_borders`: which component takes that style
  (tied in `Props/C07pyc.lean`, so that either piece can leave the translated subset without taking the other's tie along).

This file proves that they are the decisions of `Model.Borders.applyBorders`, the function all C07 theorems are about:
`fnTableHere` / `srcTableHere` (as `Model.Encode.footTableHere` computes them), `closingStyle`, and the
`fnOverride` / `srcOverride` of the branch "a table-rendered component ends the page".  What lies between the two
pieces in the source — `if border_style:` and `if not (footnote_table_on_page or source_table_on_page):` — and the
matrix edits are NOT translated; they stay tied by C07's correspondence only.
-/
set_option linter.unusedSimpArgs false
namespace Props.C07py
open Model.Borders Model.Layout Generated.Py

/-- code points of a model string -/
def codes (s : String) : List Nat := s.toList.map Char.toNat

theorem codes_eq_nil (s : String) : codes s = [] ↔ s = "" := by
  simp [codes, String.toList_eq_nil_iff]

/-- `bool(t)` for `t : Sequence[str] | None` -/
def seqTruthy (t : Option (List (List Nat))) : Bool :=
  match t with
  | some l => !l.isEmpty
  | none => false

/-! ## the decision fragment -/
open Generated.Py.BorderDecision

/-- `Model.Encode.footTableHere` in the vocabulary of the typed Python inputs: the component has text, is shown on this
page, and is rendered as a table -/
def tableHere (f : Option Foot) (pl : Placement) (isFirst isLast : Bool) : Bool :=
  match f with
  | some f => seqTruthy f.text && pl.shows isFirst isLast && f.as_table
  | none => false

/-- the style the fragment leaves in `border_style` (`v4`), before the `if border_style:` that follows it -/
def rawStyle (isLast : Bool) (bodyLast : List (List (List Nat))) (pageLast : Option (List Nat)) :
    Option (List Nat) :=
  if !isLast then (match bodyLast with
    | [] => none
    | r :: _ => r.head?)
  else (match pageLast with
    | none => none
    | some st => if st.isEmpty then none else some st)

/-- **the translated decision fragment**: for the three documented placements, every pair of components and every
border setting.  `v2` = `footnote_table_on_page`, `v3` = `source_table_on_page`, `v4` = `border_style` (side file
`Generated/PyBorderDecision.source.txt`).  The only exception is the `IndexError` of `border_last[0][0]` on an empty first
row (not constructible through `RTFBody`, whose `border_last` is a non-empty matrix). -/
theorem C07py_decision_translated (isFirst isLast : Bool) (fn src : Option Foot) (pf ps : Placement)
    (bodyLast : List (List (List Nat))) (pageLast : Option (List Nat))
    (hrow : isLast = false → bodyLast.head? ≠ some []) :
    ∃ s, run isFirst isLast fn src (C06py.name pf) (C06py.name ps) bodyLast pageLast = .ok s ∧
      s.v2 = tableHere fn pf isFirst isLast ∧ s.v3 = tableHere src ps isFirst isLast ∧
      s.v4 = rawStyle isLast bodyLast pageLast := by
  have hshow : ∀ p : Placement, ShouldShow.run (C06py.name p) isFirst isLast = p.shows isFirst isLast :=
    fun p => C06py.C06py_should_show_translated p isFirst isLast
  cases isLast with
  | false =>
    rcases bodyLast with _ | ⟨r, rest⟩
    · rcases fn with _ | ⟨_ | t, a⟩ <;> rcases src with _ | ⟨_ | t', a'⟩ <;>
        exact ⟨_, by simp only [run, hshow, bind, Except.bind, pure, Except.pure]; rfl,
          by simp [tableHere, seqTruthy], by simp [tableHere, seqTruthy], by simp [rawStyle]⟩
    · rcases r with _ | ⟨x, xs⟩
      · exact absurd rfl (hrow rfl)
      · have hi : pyIndex (x :: xs) 0 = .ok x := by simp [pyIndex]
        rcases fn with _ | ⟨_ | t, a⟩ <;> rcases src with _ | ⟨_ | t', a'⟩ <;>
          exact ⟨_, by simp only [run, hshow, hi, bind, Except.bind, pure, Except.pure]; rfl,
            by simp [tableHere, seqTruthy], by simp [tableHere, seqTruthy], by simp [rawStyle]⟩
  | true =>
    rcases pageLast with _ | st
    · rcases fn with _ | ⟨_ | t, a⟩ <;> rcases src with _ | ⟨_ | t', a'⟩ <;>
        exact ⟨_, by simp only [run, hshow, bind, Except.bind, pure, Except.pure]; rfl,
          by simp [tableHere, seqTruthy], by simp [tableHere, seqTruthy], by simp [rawStyle]⟩
    · cases hst : st.isEmpty <;> rcases fn with _ | ⟨_ | t, a⟩ <;> rcases src with _ | ⟨_ | t', a'⟩ <;>
        exact ⟨_, by simp only [run, hshow, hst, bind, Except.bind, pure, Except.pure]; rfl,
          by simp [tableHere, seqTruthy], by simp [tableHere, seqTruthy], by simp [rawStyle, hst]⟩

/-- the model's `closingStyle` is the fragment's style once the `if border_style:` that follows has dropped an empty
one: for every `BorderIn` whose `isLast`, `bodyLast`, `pageLast` say what the Python values say -/
theorem C07py_closing_style (b : BorderIn) (pageLast : Option (List Nat))
    (hp : pageLast.getD [] = codes b.pageLast) :
    (closingStyle b).map codes =
      (rawStyle b.isLast (b.bodyLast.map (·.map codes)) pageLast).filter (fun st => !st.isEmpty) := by
  unfold closingStyle rawStyle bodyLastStyle
  cases b.isLast with
  | false =>
    rcases hb : b.bodyLast with _ | ⟨r, rest⟩
    · simp
    · rcases r with _ | ⟨x, xs⟩
      · simp
      · by_cases hx : x = ""
        · simp [hx, codes, Option.filter]
        · have : codes x ≠ [] := fun h => hx ((codes_eq_nil x).1 h)
          simp [hx, this, Option.filter]
  | true =>
    rcases pageLast with _ | st
    · have : b.pageLast = "" := (codes_eq_nil _).1 (by simpa using hp.symm)
      simp [this]
    · have hst : st = codes b.pageLast := by simpa using hp
      by_cases hx : b.pageLast = ""
      · simp [hst, hx, codes, Option.filter]
      · have : codes b.pageLast ≠ [] := fun h => hx ((codes_eq_nil _).1 h)
        simp [hst, hx, this, Option.filter]

/-- a footnote / source of the encoder model as the typed Python input (its text is one `str` after construction: the
sequence of its characters) -/
def pyFoot (f : Option Model.Encode.Foot) : Option Foot :=
  f.map fun f => ⟨f.text.map (·.map fun c => [c.toNat]), f.asTable⟩

/-- `fnTableHere` / `srcTableHere` as the whole-encoder model fills them in (`Model.Encode.footTableHere`) are the
fragment's `footnote_table_on_page` / `source_table_on_page` -/
theorem C07py_table_here_encoder (f : Option Model.Encode.Foot) (pl : Placement) (isFirst isLast : Bool) :
    Model.Encode.footTableHere f pl isFirst isLast = tableHere (pyFoot f) pl isFirst isLast := by
  rcases f with _ | ⟨_ | t, a, w, at'⟩ <;>
    simp [Model.Encode.footTableHere, tableHere, pyFoot, seqTruthy, Model.Encode.placementOf]


example : run true false (some ⟨some [[70]], true⟩) none (C06py.name .all) (C06py.name .last)
    [[[100]]] (some [120]) =
    .ok { v0 := true, v1 := false, v2 := true, v3 := false, v4 := some [100] } := by rfl

end Props.C07py
