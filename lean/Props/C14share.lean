import Model.World
import Props.C14
/-!
# C14 — one component object in several documents and section positions

`Props/C14.lean` proves purity for every history over a heap addressed by identity.  This file says WHEN a document
built by `RTFDocument(...)` holds the caller's own object rather than a width-resolved copy of it — the situation in
which anything an encode wrote into the object it renders from would be seen by every other document built on the
same object, whatever the section position the object has there:

* a body (the single one, or the body of any section of a multi-section document) is held by reference exactly when
  it carries explicit `col_rel_width` that need no broadcasting (`C14share_body_by_reference_iff`);
* a column header (flat, or nested at any section index) exactly when it carries widths of its own
  (`C14share_header_by_reference_iff`);
* what is read through such a reference after ANY history — encodes of multi-section documents that hold the object
  in their first, a middle or their last section included — is the object as the caller created it
  (`C14share_reference_reads_callers_object`), so the outcome of a target is that of the fresh world whichever of its
  sections are references (`C14share_purity_any_position`, an instance of `C14_purity`).

The harness's shared-sections family (`harness/props/c14.py: gen_sharefamily`) drives the real library through exactly
these situations: three body objects and three header objects, with and without explicit widths, in single- and
multi-section documents at every section position, both orders of every pair of documents.
-/
namespace Props.C14
open Model.World

/-- `_resolve_body_widths` returns the caller's object itself iff the body has explicit widths that need no
broadcasting: more or fewer than one entry, or one entry for a one-column frame. -/
theorem C14share_body_by_reference_iff (o : Obj) (i : ObjId) (ncol : Nat) :
    resolveBody o i ncol = .ref i ↔ ∃ w, o.widths = some w ∧ (w.length ≠ 1 ∨ ncol ≤ 1) := by
  unfold resolveBody
  rcases h : o.widths with _ | w
  · simp
  · rcases w with _ | ⟨x, _ | ⟨y, r⟩⟩
    · simp
    · by_cases hn : ncol > 1
      · simp [hn]
      · simp [hn]; omega
    · simp

/-- the document holds either the caller's object or a copy of its own -/
theorem C14share_body_ref_or_copy (o : Obj) (i : ObjId) (ncol : Nat) :
    resolveBody o i ncol = .ref i ∨ ∃ o', resolveBody o i ncol = .own o' := by
  unfold resolveBody
  rcases o.widths with _ | w
  · exact .inr ⟨_, rfl⟩
  · rcases w with _ | ⟨x, _ | ⟨y, r⟩⟩
    · exact .inl rfl
    · by_cases hn : ncol > 1
      · simp [hn]
      · simp [hn]
    · exact .inl rfl

/-- a copy is out of reach of every heap — hence of every history -/
theorem C14share_body_copy_isolated (o : Obj) (i : ObjId) (ncol : Nat) (h h' : Heap)
    (hown : resolveBody o i ncol ≠ .ref i) :
    (resolveBody o i ncol).get h = (resolveBody o i ncol).get h' := by
  rcases C14share_body_ref_or_copy o i ncol with hr | ⟨o', hr⟩
  · exact absurd hr hown
  · rw [hr]; rfl

/-- `_inherit_header_widths` keeps the caller's header object iff it has widths of its own -/
theorem C14share_header_by_reference_iff (o : Obj) (i : ObjId) (bw : List Width) :
    inheritHeader o (.ref i) bw = .ref i ↔ o.widths.isSome := by
  unfold inheritHeader
  rcases o.widths with _ | w <;> simp

/-- After any history, what a document reads through a reference is the object the caller created. -/
theorem C14share_reference_reads_callers_object (T : Table) (w : World) (ops : List Op) (i : ObjId) :
    (Comp.ref i).get (run T w ops).1.heap = aget i w.heap := by
  rw [C14_heap_unchanged]; rfl

/-- Purity does not depend on where the target (or any earlier document) holds a shared object: for every constructor
call — any kind, any number of sections, any of them references — the outcome after any history is the fresh one. -/
theorem C14share_purity_any_position (T : Table) (w₀ : World) (hctx : w₀.ctx = none) (hdocs : w₀.docs = [])
    (ops : List Op) (kind : Kind) (secs : List (FrameId × ObjId)) (hs : HeaderArg) (others : List ObjId) :
    (encodeCtor T (run T w₀ ops).1 { kind := kind, secs := secs, headers := hs, others := others }).2
      = (encodeCtor T w₀ { kind := kind, secs := secs, headers := hs, others := others }).2 :=
  C14_purity T w₀ hctx hdocs ops _

/-- Non-vacuity: one body with explicit widths held by reference as the FIRST section of a two-section document and as
the body of a single-section document; a width-less body is copied. -/
example :
    resolveBody { (default : Obj) with widths := some [2000, 1000] } 7 2 = .ref 7
    ∧ resolveBody { (default : Obj) with widths := none } 7 2 ≠ .ref 7
    ∧ resolveBody { (default : Obj) with widths := some [2000] } 7 2 ≠ .ref 7 := by
  decide

end Props.C14
