import Generated.PyPageSettings
import Generated.PyEncodePageSettings
import Generated.PyPageBreak
import Generated.PyPageMargin
import Props.C06pyb
/-!
# C06 — translator tie for the page settings of the document start

`Generated.Py.PageSettings.run` is regenerated on every run from `RTFSyntaxGenerator.generate_page_settings`
(`rtf/syntax.py`), `Generated.Py.EncodePageSettings.run` from `RTFEncodingService.encode_page_settings`, which hands the
page's width, height, margin and orientation to it.  Proved here: for a page with six margins the string is the printed
`Model.Encode.pageSettings pg` (`\landscape ` exactly for the orientation "landscape"); fewer than six margins raise
`IndexError`; and `C06py_break_restates_settings`: the page break (`Props/C06pyb.lean`) carries, character for
character, the paper-size words and the margin words of the page settings — C06's "every page restates the paper size
and margins the document opened with", for the functions as they read now.
-/
set_option linter.unusedSimpArgs false
namespace Props.C06pys
open Model.Rtf Model.Emit Model.Encode Generated.Py Generated.Py.PageSettings Props.C01py Props.C01pyc

/-- the orientation string of a landscape page -/
def landscapeName : List Nat := cps "landscape".toList

/-- what the function computes for six margins (the loop unfolds on the six elements: no local of the function is
named, so the proof survives a reordering of its statements) -/
theorem run_eq (i2t : Rat → Int) (width height : Rat) (a b c d e f : Rat) (o : Option (List Nat)) :
    run i2t width height [a, b, c, d, e, f] o =
      .ok (C06pyb.paperStr i2t width height ++
        (if o = some landscapeName then cps "\\landscape ".toList else []) ++ [10] ++
        C06pym.marginStr i2t a b c d e f) := by
  have el : ([108, 97, 110, 100, 115, 99, 97, 112, 101] : List Nat) = landscapeName := by decide
  by_cases ho : o = some landscapeName <;>
    simp [PageSettings.run, loop1, List.foldlM, el, ho, pyIndex, bind, Except.bind, pure, Except.pure, C06pyb.paperStr,
      C06pym.marginStr, cps, List.map_append]

/-- **six margins: the translated `generate_page_settings` prints the model's page settings** -/
theorem C06py_page_settings_translated (pg : Page) (h6 : pg.margin.length = 6) (o : Option (List Nat))
    (ho : pg.landscape = decide (o = some landscapeName)) :
    ∃ ns, pageSettings pg = .ok ns ∧
      run Model.Encode.twip pg.width pg.height pg.margin o = .ok (cps (printNodes ns)) := by
  rcases hm : pg.margin with _ | ⟨a, _ | ⟨b, _ | ⟨c, _ | ⟨d, _ | ⟨e, _ | ⟨f, _ | ⟨g, rest⟩⟩⟩⟩⟩⟩⟩ <;>
    simp only [hm, List.length_cons, List.length_nil] at h6 <;> try omega
  refine ⟨_, by simp [pageSettings, marginNodes, hm, pure, Except.pure, bind, Except.bind]; rfl, ?_⟩
  rw [run_eq]
  by_cases hl : o = some landscapeName <;> simp only [hl, decide_true, decide_false] at ho <;>
    simp [ho, hl, C06pyb.paperStr, C06pym.marginStr, cwSp, Proofs.Emit.printNodes_append, cps_append, printNodes, printNode,
      cwi, cps, strOfInt_digits, List.map_append]

/-- fewer than six margins: `IndexError` (`margin_twips[k]`) -/
theorem C06py_page_settings_short (i2t : Rat → Int) (width height : Rat) (margins : List Rat) (o : Option (List Nat))
    (h : margins.length < 6) : run i2t width height margins o = .error .IndexError := by
  rcases margins with _ | ⟨a, _ | ⟨b, _ | ⟨c, _ | ⟨d, _ | ⟨e, _ | ⟨f, rest⟩⟩⟩⟩⟩⟩ <;>
    simp only [List.length_cons, List.length_nil] at h <;> try omega
  all_goals simp [PageSettings.run, loop1, List.foldlM, pyIndex, bind, Except.bind, pure, Except.pure]

/-- `encode_page_settings` is `generate_page_settings` on the fields of the page -/
theorem C06py_encode_page_settings_translated (i2t : Rat → Int) (width height : Rat) (margin : List Rat)
    (o : Option (List Nat)) :
    EncodePageSettings.run i2t width height margin o = run i2t width height margin o := by
  cases h : run i2t width height margin o <;> simp [EncodePageSettings.run, h, bind, Except.bind, pure, Except.pure]

/-- **the page break restates the page settings**: for every page with six margins the document start is
`paper ++ landscape? ++ "\n" ++ margins` and every page break is `{…}\page{…}"\n" ++ paper ++ "\n\n" ++ margins ++
"\n\n"` with the SAME `paper` and `margins` strings (any `inch_to_twip`) -/
theorem C06py_break_restates_settings (i2t : Rat → Int) (width height : Rat) (a b c d e f : Rat)
    (o : Option (List Nat)) :
    ∃ paper margins landscape,
      EncodePageSettings.run i2t width height [a, b, c, d, e, f] o = .ok (paper ++ landscape ++ [10] ++ margins) ∧
      PageBreak.run i2t (PageMargin.run i2t [a, b, c, d, e, f]) width height =
        .ok (C06pyb.breakStr ++ paper ++ [10, 10] ++ margins ++ [10, 10]) := by
  refine ⟨C06pyb.paperStr i2t width height, C06pym.marginStr i2t a b c d e f,
    if o = some landscapeName then cps "\\landscape ".toList else [], ?_, ?_⟩
  · rw [C06py_encode_page_settings_translated, run_eq]
  · rw [C06pym.run_six, C06pyb.run_eq]
    simp

end Props.C06pys
