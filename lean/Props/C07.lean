import Model.Broadcast
import Model.Borders
import Proofs.Broadcast
import Proofs.Borders
/-!
# C07 — table edges are closed by the documented border hierarchy on every page

About `applyBorders` (Model/Borders.lean), the model of `_apply_pagination_borders` for one page:
`topAt o i c` / `bottomAt o i c` are the styles `_encode` reads for page row `i`, displayed column `c`.
-/
namespace Props.C07
open Model.Broadcast Model.Borders Proofs.Broadcast Proofs.Borders

/-- well-formed input: a non-empty page, rectangular non-empty user matrices -/
structure WF (b : BorderIn) : Prop where
  hpos : 0 < b.height
  wpos : 0 < b.width
  topNe : b.top ≠ []
  topRect : b.top.Rect
  topCols : 0 < b.top.ncols
  botNe : b.bottom ≠ []
  botRect : b.bottom.Rect
  botCols : 0 < b.bottom.ncols

theorem WF.topGood {b : BorderIn} (h : WF b) : Good b.top := ⟨h.topNe, h.topRect, h.topCols⟩
theorem WF.botGood {b : BorderIn} (h : WF b) : Good b.bottom := ⟨h.botNe, h.botRect, h.botCols⟩
theorem WF.hne {b : BorderIn} (h : WF b) : b.height ≠ 0 := Nat.pos_iff_ne_zero.mp h.hpos

/-- (1) first page, no header row: the first data row carries rtf_page.border_first -/
theorem C07_first_page_no_header (b : BorderIn) (h : WF b)
    (h1 : b.isFirst = true) (h2 : b.hasHeaders = false) (h3 : b.pageFirst ≠ "") :
    ∀ c, c < b.width → topAt (applyBorders b) 0 c = some b.pageFirst := by
  intro c hc
  have hg := top0_good h.topGood h.hpos
  unfold topAt
  rw [applyBorders_top b h.hne]
  unfold top2
  rw [if_neg (by simp [h1, h2])]
  unfold top1
  rw [if_pos (by simp [h1, h2, h3])]
  rw [applyRow_iloc hg h.hpos _ h.hpos hc, if_pos rfl]

/-- (2) first page under a header row, and every later page: the first data row carries
rtf_body.border_first (column-wise, with the code's fall-back to column 0 and the user's longer
border_top row taking precedence where it is non-empty) -/
theorem C07_body_first (b : BorderIn) (h : WF b)
    (h1 : (b.isFirst = true ∧ b.hasHeaders = true) ∨ b.isFirst = false) (h2 : b.bodyFirst ≠ []) :
    ∀ c, c < b.width → topAt (applyBorders b) 0 c = some (bodyFirstStyle b c) := by
  intro c hc
  have hg := top1_good h.topGood h.hpos h.wpos
  have hl : 0 < b.bodyFirst.length := List.length_pos_iff.mpr h2
  unfold topAt
  rw [applyBorders_top b h.hne]
  unfold top2
  rw [if_pos (by rcases h1 with ⟨h1, h1'⟩ | h1 <;> simp [*])]
  rw [applyRow_iloc hg h.hpos _ h.hpos hc, if_pos rfl]

/-- with the default (1×1) body border_first and a user border_top that is not longer, the style is simply
rtf_body.border_first -/
theorem C07_body_first_default (b : BorderIn) (s : String) (hbf : b.bodyFirst = [[s]])
    (hbt : (b.bodyTopOrig.head?.getD []).length ≤ 1) (c : Nat) :
    bodyFirstStyle b c = s := by
  unfold bodyFirstStyle
  simp only [hbf, List.head?_cons, Option.getD_some, List.length_cons, List.length_nil]
  have hlt : ¬ ((b.bodyTopOrig.head?.getD []).length > 0 + 1) := by omega
  simp only [hlt, decide_false, Bool.and_false, Bool.false_and, Bool.false_eq_true, if_false]
  split
  · next hc => have : c = 0 := by omega
               subst this; rfl
  · rfl

/-- (3) what closes the table: rtf_body.border_last on a page that is not the last, rtf_page.border_last on
the last page -/
theorem C07_closing_style (b : BorderIn) :
    (b.isLast = false → b.bodyLast ≠ [] → bodyLastStyle b ≠ "" → closingStyle b = some (bodyLastStyle b)) ∧
    (b.isLast = true → b.pageLast ≠ "" → closingStyle b = some b.pageLast) ∧
    (b.isLast = true → b.pageLast = "" → closingStyle b = none) := by
  unfold closingStyle
  refine ⟨?_, ?_, ?_⟩
  · intro h1 h2 h3
    have hl : 0 < b.bodyLast.length := List.length_pos_iff.mpr h2
    simp [h1, hl, h3]
  · intro h1 h2; simp [h1, h2]
  · intro h1 h2; simp [h1, h2]

/-- (4) no table-rendered footnote/source on the page: the last data row carries the closing style -/
theorem C07_closing_on_last_data_row (b : BorderIn) (h : WF b) (s : String)
    (hs : closingStyle b = some s) (hf : b.fnTableHere = false) (hsrc : b.srcTableHere = false) :
    (∀ c, c < b.width → bottomAt (applyBorders b) (b.height - 1) c = some s) ∧
    (applyBorders b).fnOverride = none ∧ (applyBorders b).srcOverride = none := by
  rw [applyBorders_data b h.hne s hs hf hsrc]
  refine ⟨?_, rfl, rfl⟩
  intro c hc
  have hp := h.hpos
  unfold bottomAt
  show (applyRow (bot0 b) b.height b.width (b.height - 1) (fun _ => s)).iloc (b.height - 1) c = some s
  rw [applyRow_iloc (bot0_good h.botGood h.hpos) (by omega) _ (by omega) hc, if_pos rfl]

/-- (5) a table-rendered footnote/source ends the page: the closing style goes to it (the source when it
is a table, since it is rendered last; otherwise the footnote) and the data rows keep the user's borders -/
theorem C07_closing_on_component (b : BorderIn) (h : WF b) (s : String)
    (hs : closingStyle b = some s) (hc : b.fnTableHere = true ∨ b.srcTableHere = true) :
    (b.srcTableHere = true → (applyBorders b).srcOverride = some s ∧ (applyBorders b).fnOverride = none) ∧
    (b.srcTableHere = false → (applyBorders b).fnOverride = some s ∧ (applyBorders b).srcOverride = none) ∧
    (∀ i c, i < b.height → c < b.width →
        bottomAt (applyBorders b) i c = b.bottom.iloc (b.start + i) c) := by
  refine ⟨?_, ?_, ?_⟩
  · intro h1; rw [applyBorders_src b h.hne s hs h1]; exact ⟨rfl, rfl⟩
  · intro h1
    have hf : b.fnTableHere = true := by rcases hc with hc | hc; exact hc; simp [h1] at hc
    rw [applyBorders_fn b h.hne s hs hf h1]; exact ⟨rfl, rfl⟩
  · intro i c hi _
    have hb : (applyBorders b).bottom = bot0 b := by
      cases h1 : b.srcTableHere
      · have hf : b.fnTableHere = true := by rcases hc with hc | hc; exact hc; simp [h1] at hc
        rw [applyBorders_fn b h.hne s hs hf h1]
      · rw [applyBorders_src b h.hne s hs h1]
    unfold bottomAt
    rw [hb, bot0_iloc h.botGood hi]

/-- (6) all other data-cell edges carry exactly the user's border_top / border_bottom of the cell's
original row -/
theorem C07_other_edges (b : BorderIn) (h : WF b) :
    (∀ i c, 0 < i → i < b.height → c < b.width →
        topAt (applyBorders b) i c = b.top.iloc (b.start + i) c) ∧
    (∀ i c, i + 1 < b.height → c < b.width →
        bottomAt (applyBorders b) i c = b.bottom.iloc (b.start + i) c) := by
  refine ⟨?_, ?_⟩
  · intro i c h0 hi hc
    unfold topAt
    rw [applyBorders_top b h.hne, top2_iloc_rest h.topGood h0 hi hc]
  · intro i c hi hc
    have hi' : i < b.height := by omega
    unfold bottomAt
    cases hs : closingStyle b with
    | none => rw [applyBorders_none b h.hne hs]; exact bot0_iloc h.botGood hi' c
    | some s =>
      cases h1 : b.srcTableHere
      · cases hf : b.fnTableHere
        · rw [applyBorders_data b h.hne s hs hf h1]
          show (applyRow (bot0 b) b.height b.width (b.height - 1) (fun _ => s)).iloc i c = _
          rw [applyRow_iloc (bot0_good h.botGood h.hpos) (by omega) _ hi' hc, if_neg (by omega),
            bot0_iloc h.botGood hi']
        · rw [applyBorders_fn b h.hne s hs hf h1]; exact bot0_iloc h.botGood hi' c
      · rw [applyBorders_src b h.hne s hs h1]; exact bot0_iloc h.botGood hi' c

/-- (7) when no top rule applies (first page, no header row, empty page border_first) the first row keeps
the user's top border too -/
theorem C07_top_untouched (b : BorderIn) (h : WF b)
    (h1 : b.isFirst = true) (h2 : b.hasHeaders = false) (h3 : b.pageFirst = "") :
    ∀ c, c < b.width → topAt (applyBorders b) 0 c = b.top.iloc b.start c := by
  intro c _
  unfold topAt
  rw [applyBorders_top b h.hne]
  unfold top2
  rw [if_neg (by simp [h1, h2])]
  unfold top1
  rw [if_neg (by simp [h3])]
  exact top0_iloc h.topGood h.hpos c

/-- non-vacuity: page 2 of 3, four rows, two columns, paragraph footnote shown -/
example :
    let o := applyBorders ⟨false, false, 4, 4, 2, [[""]], [[""]], [["single"]], [[""]], [["single"]],
      "double", "double", true, false, false⟩
    (topAt o 0 0, topAt o 1 1, bottomAt o 3 1, bottomAt o 2 0) =
      (some "single", some "", some "single", some "") := by decide

end Props.C07
