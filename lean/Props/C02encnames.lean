import Model.Encode
import Proofs.EncodeLift
import Proofs.EncodeNames
import Props.C02enc
/-!
# C02 for the encoder model: what a table shows does not depend on the column NAMES

The model removes the page_by / subline_by columns **by position**: `removedIdx` turns every name of
`columns_to_remove` into the index of its (first, and for a polars frame only) occurrence among the frame's columns,
`keepMask` / `dropCols` then work with indices only, on the frame's rows and on every attribute matrix alike — as
`prepare_dataframe_for_body_encoding` does with `pl.nth(remaining_positions)`, and as
`_apply_data_post_processing` does by cutting the pages out of the column-reduced frame with `slice(offset, rows)`.
A column name is never interpreted: `*`, `^x$`, `^.*$`, the empty string, a name that is a prefix or a regular
expression of another name are names like any other (a projection BY NAME, `frame.select(names)`, would read the
first three as a wildcard / regular-expression selector).

Stated here for an arbitrary renaming `ρ` of the names that is injective on the names the document uses
(`InjOn ρ (d.cols ++ removedNames d.body)`: distinct names stay distinct — polars admits no frame with two equal
names):

* `C02encnames_idxOf`        the position of a name among the columns is the position of its image among the images;
* `C02encnames_removedIdx`   `removedIdx (renameDoc ρ d) = removedIdx d` — the same positions are removed, the same
                             `ValueError` for a page_by / subline_by name that is no column;
* `C02encnames_prepare`      the processed frame (`dispRows`), the removed positions and the keep mask of the renamed
                             document are those of the original one; the displayed names are the images of the
                             displayed names;
* `C02encnames_rows`         (without group_by) the frame the encoder takes its data rows from is the same for `d` and
                             for `renameDoc ρ d`, whenever both are accepted (the PAGINATION may differ: the width of a
                             group heading is measured on the text `name: value`); with `C02enc_data_row` /
                             `C02enc_rows_once_in_order` of `Props.C02enc`, both documents render every frame row once,
                             in order, from the same cells;
* `C02encnames_row_content`  for EVERY list of distinct names: row `i` of that frame is frame row `i` with exactly the
                             positions of the removed names dropped — restated with positions only (no name occurs on
                             the right-hand side).
-/
namespace Props.C02encnames
open Model.Encode Model.Broadcast Proofs.EncodeLift Proofs.EncodeNames

/-- the position of a name among the columns is the position of its image among the images -/
theorem C02encnames_idxOf (ρ : Str → Str) (cols : List Str) (n : Str) (h : InjOn ρ (n :: cols)) :
    (cols.map ρ).idxOf (ρ n) = cols.idxOf n :=
  idxOf_rename ρ cols n h

/-- **the same positions are removed under every injective renaming** (and the same refusal when a page_by /
subline_by name is no column) -/
theorem C02encnames_removedIdx (ρ : Str → Str) (d : Doc) (h : InjOn ρ (d.cols ++ removedNames d.body)) :
    removedIdx (renameDoc ρ d) = removedIdx d := by
  unfold removedIdx
  rw [renameDoc_removedNames]
  have hl : (renameDoc ρ d).cols.length = d.cols.length := by simp [renameDoc]
  rw [hl]
  exact mapM_idx_rename ρ d.cols (removedNames d.body) h

/-- the processed frame, the removed positions and the keep mask do not depend on the names; the displayed names are
the images of the displayed names -/
theorem C02encnames_prepare (ρ : Str → Str) (d : Doc) (p p' : Prep)
    (h : InjOn ρ (d.cols ++ removedNames d.body))
    (hp : prepare d = .ok p) (hp' : prepare (renameDoc ρ d) = .ok p') :
    p'.removed = p.removed ∧ p'.keep = p.keep ∧ p'.dispRows = p.dispRows ∧ p'.dispCols = p.dispCols.map ρ := by
  obtain ⟨r, hr, h1, h2, _, h4, h5⟩ := prepare_parts hp
  obtain ⟨r', hr', h1', h2', _, h4', h5'⟩ := prepare_parts hp'
  rw [C02encnames_removedIdx ρ d h, hr] at hr'
  cases hr'
  refine ⟨by rw [h1, h1'], ?_, by rw [h5, h5']; rfl, ?_⟩
  · rw [h2, h2']; simp [renameDoc]
  · rw [h4, h4']; exact dropCols_map ρ d.cols r

/-- **(without group_by) the rows the encoder renders do not depend on the column names**: for every injective
renaming, whenever the encoder accepts both documents, the frame the data rows are taken from is the same -/
theorem C02encnames_rows (measure : Measure) (ρ : Str → Str) (d : Doc) (pl pl' : Plan)
    (h : InjOn ρ (d.cols ++ removedNames d.body)) (hgb : d.body.groupByL = [])
    (hp : plan measure d = .ok pl) (hp' : plan measure (renameDoc ρ d) = .ok pl') :
    pl'.rows = pl.rows ∧ pl'.rows.length = d.rows.length := by
  have hgb' : (renameDoc ρ d).body.groupByL = [] := by
    unfold Body.groupByL at hgb ⊢
    unfold renameDoc
    cases hg : d.body.groupBy with
    | none => rfl
    | some l =>
      rw [hg] at hgb
      simp only [Option.getD_some] at hgb
      subst hgb
      rfl
  obtain ⟨r, hr, _, _, h3, _⟩ := Props.C02enc.C02enc_rows_no_groupby measure d pl hp hgb
  obtain ⟨r', hr', _, _, h3', _⟩ := Props.C02enc.C02enc_rows_no_groupby measure _ pl' hp' hgb'
  rw [C02encnames_removedIdx ρ d h, hr] at hr'
  cases hr'
  refine ⟨by rw [h3, h3']; rfl, ?_⟩
  rw [h3']
  simp [renameDoc]

/-- (without group_by) row `i` of the frame the encoder renders is frame row `i` with the POSITIONS of the removed
names dropped: once the names have been resolved to positions, no name takes part -/
theorem C02encnames_row_content (measure : Measure) (d : Doc) (pl : Plan) (hp : plan measure d = .ok pl)
    (hgb : d.body.groupByL = []) (i : Nat) (row : List (Option Str)) (hrow : d.rows[i]? = some row) :
    ∃ removed, removedIdx d = .ok removed ∧
      pl.rows[i]? = some ((row.zipIdx.filter fun x => !removed.contains x.2).map (·.1)) := by
  obtain ⟨r, hr, _, _, h3, _⟩ := Props.C02enc.C02enc_rows_no_groupby measure d pl hp hgb
  refine ⟨r, hr, ?_⟩
  rw [h3, List.getElem?_map, hrow]
  rfl

/-! ## non-vacuity: names that polars would read as selectors -/

/-- a frame whose displayed columns are called `^g.*$` (a regular expression matching the consumed column `grp`) and
`*`, with `page_by = ["grp"]` shown as spanning rows -/
def exCols : List Str := ["grp".toList, "^g.*$".toList, "*".toList]

def exBody : Body :=
  { (default : Body) with pageBy := some ["grp".toList], newPage := false, pagebyColumn := true }

def exDoc : Doc :=
  { (default : Doc) with
    cols := exCols,
    rows := [[some "A".toList, some "r1".toList, some "x".toList], [some "A".toList, some "r2".toList, none],
             [some "B".toList, some "r3".toList, some "z".toList]],
    body := exBody }

/-- the renaming that gives the odd names ordinary ones -/
def exRho (s : Str) : Str :=
  if s = "^g.*$".toList then "item".toList else if s = "*".toList then "val".toList else s

/-- exactly position 0 (`grp`) is removed — with the odd names and with ordinary ones —, the displayed columns are
`^g.*$` and `*` in their order, the hypotheses of the theorems above hold for the example -/
example :
    removedIdx exDoc = .ok [0] ∧ removedIdx (renameDoc exRho exDoc) = .ok [0] ∧
    dropCols exDoc.cols [0] = ["^g.*$".toList, "*".toList] ∧
    exDoc.rows.map (fun r => dropCols r [0]) =
      [[some "r1".toList, some "x".toList], [some "r2".toList, none], [some "r3".toList, some "z".toList]] ∧
    (renameDoc exRho exDoc).cols = ["grp".toList, "item".toList, "val".toList] ∧
    InjOn exRho (exDoc.cols ++ removedNames exDoc.body) ∧ exDoc.body.groupByL = [] := by
  refine ⟨by decide, by decide, by decide, by decide, by decide, ?_, rfl⟩
  intro a ha b hb
  have hl : exDoc.cols ++ removedNames exDoc.body =
      ["grp".toList, "^g.*$".toList, "*".toList, "grp".toList] := by decide
  rw [hl] at ha hb
  simp only [List.mem_cons, List.not_mem_nil, or_false] at ha hb
  rcases ha with rfl | rfl | rfl | rfl <;> rcases hb with rfl | rfl | rfl | rfl <;> decide

end Props.C02encnames
