import Model.Export
import Model.ExportSpec
import Proofs.Export
import Props.C18
/-!
# C18 — names as data: where the HTML resource folder goes, for an arbitrary target name

`Props/C18.lean` proves the success clause for an arbitrary converter answer `p`: the folder
`<p.name>_files` produced next to `p` ends up at `target.parent/<p.name>_files`.  Here the chain of
names is closed: the export names the intermediate RTF `<target stem>.rtf` (`rtfNameOf`), a converter
that names its output after its input (LibreOffice, `LibreOfficeConverter`, the harness stubs: `stubN`)
answers `<stem>.<fmt>`, hence for **every** target name `tname` — whatever its suffix, `.html`, `.htm`,
`.XHTML`, none, several, a hidden file — the folder is `target.parent/<stem tname>.<fmt>_files`.  The
folder's name is a function of the *converted* file's name; it is `<tname>_files` only when
`tname = <stem>.<fmt>` (`C18names_folder_is_tname_files_iff`).
-/
namespace Props.C18names
open Model.Export Proofs.Export

/-! ## `stem` -/

/-- `PurePath(x + "." + s).stem == x` for a non-empty `x` and a non-empty dot-free `s` -/
theorem C18names_stem_append (x s : Name) (hx : x ≠ []) (hs : s ≠ []) (h : '.' ∉ s) :
    stem (x ++ '.' :: s) = x := by
  simp [stem, splitLastDot_append x s h, hx, hs]

/-- the stem of a non-empty name is non-empty -/
theorem C18names_stem_ne_nil (n : Name) (h : n ≠ []) : stem n ≠ [] := by
  unfold stem
  split
  · split
    · rename_i h'; exact h'.1
    · exact h
  · exact h

/-- the converter is handed `<stem>.rtf` and its stem is the target's stem again: whatever the target's
suffix was, the converted file is called `<target stem>.<fmt>` -/
theorem C18names_converted_name (tname : Name) (fmt : List Char) (dir : Path) (h : tname ≠ []) :
    convName fmt (dir ++ [rtfNameOf tname]) = stem tname ++ '.' :: fmt := by
  have : stem (rtfNameOf tname) = stem tname :=
    C18names_stem_append (stem tname) ['r', 't', 'f'] (C18names_stem_ne_nil tname h) (by simp) (by decide)
  simp [convName, this]

/-- … and the resource folder is named after the *converted* file -/
theorem C18names_folder_name (tname : Name) (fmt : List Char) (tA out dir : Path) (h : tname ≠ []) :
    resourcesOf (out ++ [convName fmt (tA ++ [rtfNameOf tname])])
      = out ++ [stem tname ++ '.' :: fmt ++ filesSuffix]
    ∧ resDst dir (out ++ [convName fmt (tA ++ [rtfNameOf tname])])
      = dir ++ [stem tname ++ '.' :: fmt ++ filesSuffix] := by
  rw [C18names_converted_name tname fmt tA h]
  simp [resourcesOf, resDst]

/-- the folder is called `<target name>_files` exactly when the target's name is `<stem>.<fmt>` — for
`report.htm`, `report.HTML`, `report` … it is *not* -/
theorem C18names_folder_is_tname_files_iff (tname : Name) (fmt : List Char) :
    stem tname ++ '.' :: fmt ++ filesSuffix = tname ++ filesSuffix ↔ tname = stem tname ++ '.' :: fmt := by
  constructor
  · intro h; exact (List.append_cancel_right h).symm
  · intro h; rw [← h]

example : stem "report.htm".toList = "report".toList ∧ stem "report".toList = "report".toList
    ∧ stem ".html".toList = ".html".toList ∧ stem "report.".toList = "report.".toList
    ∧ stem "a.b.HTML".toList = "a.b".toList ∧ stem "..html".toList = ".".toList := by decide

/-! ## the stub that names its output after its input -/

theorem C18names_stubN_confined (beh : Beh) (fmt : List Char) : Confined (stubN beh fmt) := by
  constructor
  · intro fs inp out q hq
    exact (Props.C18.C18_stub_confined beh fmt (convName fmt inp)).frame fs inp out q hq
  · intro fs inp out p h
    exact (Props.C18.C18_stub_confined beh fmt (convName fmt inp)).ret fs inp out p h

/-! ## the success clause for an arbitrary target name -/

/-- **Success of `write_html` with a converter that names its output after its input, for every target
name.**  Let the intermediate RTF be named as the code names it (`P.Named`) and the converter be the
stub producing a resource folder.  If the call returns then, with `out := <stem tname>.<fmt>`:
1. the target holds the converter's bytes for the encoder's string (unless the target was a directory,
   or is itself called `out_files`);
2. `target.parent/out_files` — named after the **converted** file, next to the **target** — is a directory
   holding the converter's entries, and is at every relative path equal to the converter's folder
   (nothing stale, nothing nested);
3. every other path outside the two (removed) temporary directories is unchanged or a created ancestor
   directory: the folder is nowhere else;
4. both temporary directories are gone. -/
theorem C18names_html_success (k : Nat) (P : Params) (fs : Fs) (fmt : List Char)
    (hconv : P.conv = .ok (stubN .okRes fmt)) (hnamed : P.Named) (hhtml : P.html = true)
    (hne : P.tname ≠ []) (hN : NoClash P)
    (h : (writeConv k P fs).1 = .ok ()) :
    ∃ b fsc, P.enc = .ok b
      ∧ (fget fs P.target ≠ some .dir → stem P.tname ++ '.' :: fmt ++ filesSuffix ≠ P.tname →
          fget (writeConv k P fs).2.fs P.target = some (.file (stubBytes fmt b)))
      ∧ fget (writeConv k P fs).2.fs (P.dir ++ [stem P.tname ++ '.' :: fmt ++ filesSuffix]) = some .dir
      ∧ fget (writeConv k P fs).2.fs (P.dir ++ [stem P.tname ++ '.' :: fmt ++ filesSuffix, ['r', '.', 't', 'x', 't']])
          = some (.file ['r', 'e', 's', 'o', 'u', 'r', 'c', 'e'])
      ∧ fget (writeConv k P fs).2.fs (P.dir ++ [stem P.tname ++ '.' :: fmt ++ filesSuffix, ['s', 'u', 'b'], ['s', '.', 't', 'x', 't']])
          = some (.file ['n', 'e', 's', 't', 'e', 'd'])
      ∧ (∀ r, fget (writeConv k P fs).2.fs (P.dir ++ [stem P.tname ++ '.' :: fmt ++ filesSuffix] ++ r)
          = fget fsc (P.tmpRoot ++ [P.tB] ++ [stem P.tname ++ '.' :: fmt ++ filesSuffix] ++ r))
      ∧ (∀ q, under (P.tmpRoot ++ [P.tA]) q = false → under (P.tmpRoot ++ [P.tB]) q = false →
          under P.target q = false → under (P.dir ++ [stem P.tname ++ '.' :: fmt ++ filesSuffix]) q = false →
          Same fs P.dir (writeConv k P fs).2.fs q)
      ∧ (∀ q, (under (P.tmpRoot ++ [P.tA]) q = true ∨ under (P.tmpRoot ++ [P.tB]) q = true) →
          fget (writeConv k P fs).2.fs q = none) := by
  have hconf : ∀ c, P.conv = .ok c → Confined c := by
    intro c hc; rw [hconv] at hc; cases hc; exact C18names_stubN_confined _ _
  obtain ⟨c, b, p, fsIn, fsc, hC, hT, hR, hF, htemps⟩ := Props.C18.C18_conv_success k P fs hconf hN h
  have hc : c = stubN .okRes fmt := by
    have := hC.conv; rw [hconv] at this; cases this; rfl
  subst hc
  have hrun := hC.run
  rw [hnamed] at hrun
  have hin := hC.input
  rw [hnamed] at hin
  obtain ⟨hp, hpf, hrd, hr1, _, hr3⟩ := stubN_okRes_run hin hrun
  have hdst' : resDst P.dir p = P.dir ++ [stem P.tname ++ '.' :: fmt ++ filesSuffix] := by
    rw [hp]; exact (C18names_folder_name P.tname fmt (P.tmpRoot ++ [P.tA]) (P.tmpRoot ++ [P.tB]) P.dir hne).2
  have hres' : resourcesOf p = P.tmpRoot ++ [P.tB] ++ [stem P.tname ++ '.' :: fmt ++ filesSuffix] := by
    rw [hp]; exact (C18names_folder_name P.tname fmt (P.tmpRoot ++ [P.tA]) (P.tmpRoot ++ [P.tB]) P.dir hne).1
  have hRall := hR hhtml hrd
  refine ⟨b, fsc, hC.enc, ?_, ?_, ?_, ?_, ?_, ?_, ?_⟩
  · intro hnd hcoll
    refine hT _ hpf hnd (fun _ => ?_)
    rw [hdst', Params.target]
    intro e
    exact hcoll (by simpa using e)
  · have := hRall []
    rw [List.append_nil, List.append_nil, hdst'] at this
    rw [this]; exact hrd
  · have := hRall [['r', '.', 't', 'x', 't']]
    rw [hdst'] at this
    simp only [List.append_assoc, List.cons_append, List.nil_append] at this hr1 ⊢
    rw [this]; exact hr1
  · have := hRall [['s', 'u', 'b'], ['s', '.', 't', 'x', 't']]
    rw [hdst'] at this
    simp only [List.append_assoc, List.cons_append, List.nil_append] at this hr3 ⊢
    rw [this]; exact hr3
  · intro r
    have := hRall r
    rw [hdst', hres'] at this
    exact this
  · intro q hA hB hTq hRq
    exact hF q hA hB hTq (fun _ _ => by rw [hdst']; exact hRq)
  · intro q hq
    have hgone := Props.C18.C18_conv_temps_gone k P fs hconf hN
    rw [htemps] at hgone
    rcases hq with hq | hq
    · exact (hgone (P.tmpRoot ++ [P.tA]) (by simp)).2.2 q hq
    · exact (hgone (P.tmpRoot ++ [P.tB]) (by simp)).2.2 q hq

/-- the same for the target itself with any of the two succeeding stubs and any of the three converter
functions: the target holds the converter's output, whatever the target is called -/
theorem C18names_target_success (k : Nat) (P : Params) (fs : Fs) (fmt : List Char) (beh : Beh)
    (hbeh : beh = .okPlain ∨ beh = .okRes)
    (hconv : P.conv = .ok (stubN beh fmt)) (hN : NoClash P)
    (hnd : fget fs P.target ≠ some .dir)
    (hcoll : P.html = true → P.dir ++ [convName fmt (P.tmpRoot ++ [P.tA] ++ [P.rtfName]) ++ filesSuffix] ≠ P.target)
    (h : (writeConv k P fs).1 = .ok ()) :
    ∃ b, P.enc = .ok b ∧ fget (writeConv k P fs).2.fs P.target = some (.file (stubBytes fmt b)) := by
  have hconf : ∀ c, P.conv = .ok c → Confined c := by
    intro c hc; rw [hconv] at hc; cases hc; exact C18names_stubN_confined _ _
  obtain ⟨c, b, p, fsIn, fsc, hC, hT, _, _, _⟩ := Props.C18.C18_conv_success k P fs hconf hN h
  have hc : c = stubN beh fmt := by
    have := hC.conv; rw [hconv] at this; cases this; rfl
  subst hc
  have hrun := hC.run
  have hin := hC.input
  refine ⟨b, hC.enc, ?_⟩
  have hpp : p = P.tmpRoot ++ [P.tB] ++ [convName fmt (P.tmpRoot ++ [P.tA] ++ [P.rtfName])]
      ∧ fget fsc p = some (.file (stubBytes fmt b)) := by
    unfold stubN stub at hrun
    simp only [hin] at hrun
    rcases hbeh with rfl | rfl
    · simp only at hrun
      obtain ⟨hp, hfs⟩ := Prod.mk.inj hrun
      injection hp with hp; injection hp with hp
      subst hp
      refine ⟨rfl, ?_⟩
      rw [← hfs]; simp [fget_fset]
    · exact ⟨(stubN_okRes_run hin hC.run).1, (stubN_okRes_run hin hC.run).2.1⟩
  refine hT _ hpp.2 hnd (fun hh => ?_)
  rw [hpp.1]
  have := hcoll hh
  simpa [resDst] using this

/-! ## non-vacuity: a target called `o.htm` -/

section Examples
def w : Name := ['w']
def t : Name := ['t']
def oHtm : Name := ['o', '.', 'h', 't', 'm']
def html : List Char := ['h', 't', 'm', 'l']

/-- an old export at `w/o.htm`, its stale resource folder `w/o.html_files`, and an unrelated `w/o.htm_files` -/
def fsHtm : Fs :=
  [([t], .dir), ([w], .dir), ([w, oHtm], .file ['O']),
   ([w, ['o', '.', 'h', 't', 'm', 'l'] ++ filesSuffix], .dir),
   ([w, ['o', '.', 'h', 't', 'm', 'l'] ++ filesSuffix, ['s']], .file ['x']),
   ([w, oHtm ++ filesSuffix], .dir), ([w, oHtm ++ filesSuffix, ['m']], .file ['y'])]

def pHtm : Params where
  dir := [w]
  tname := oHtm
  tmpRoot := [t]
  tA := ['a']
  tB := ['b']
  rtfName := rtfNameOf oHtm
  enc := .ok ['R']
  explicitConv := true
  conv := .ok (stubN .okRes html)
  html := true

example : pHtm.Named := rfl

/-- `write_html("w/o.htm")`: the HTML is at `w/o.htm`, the folder at `w/o.html_files` (fresh: the stale entry is
gone), the bystander `w/o.htm_files` is untouched, no temporaries remain -/
example :
    isOk (writeConv 100 pHtm fsHtm).1 = true
    ∧ fget (writeConv 100 pHtm fsHtm).2.fs [w, oHtm] = some (.file ['h', 't', 'm', 'l', '<', 'R', '>'])
    ∧ fget (writeConv 100 pHtm fsHtm).2.fs [w, ['o', '.', 'h', 't', 'm', 'l'] ++ filesSuffix, ['r', '.', 't', 'x', 't']]
        = some (.file ['r', 'e', 's', 'o', 'u', 'r', 'c', 'e'])
    ∧ fget (writeConv 100 pHtm fsHtm).2.fs [w, ['o', '.', 'h', 't', 'm', 'l'] ++ filesSuffix, ['s']] = none
    ∧ fget (writeConv 100 pHtm fsHtm).2.fs [w, oHtm ++ filesSuffix, ['m']] = some (.file ['y'])
    ∧ fget (writeConv 100 pHtm fsHtm).2.fs [w, oHtm ++ filesSuffix, ['r', '.', 't', 'x', 't']] = none
    ∧ fget (writeConv 100 pHtm fsHtm).2.fs [t, ['a']] = none
    ∧ fget (writeConv 100 pHtm fsHtm).2.fs [t, ['b']] = none := by decide
end Examples

end Props.C18names
