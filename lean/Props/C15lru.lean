import Model.InterleaveLru
/-!
# C15 — a bounded, content-keyed cache on a process-wide service: who can be hurt

`Model.InterleaveLru`: the check-then-act "insert, trim, read again" on a least-recently-used
store of capacity `cap` shared by all threads.
-/
namespace Props.C15lru
open Model.InterleaveLru

/-- **Atomic use is safe**: a lookup whose three steps run without another thread in between
finds its entry, whatever the cache held (any capacity ≥ 1) — sequential use, and every
schedule that does not preempt inside a lookup. -/
theorem C15lru_atomic_lookup_hits (cap : Nat) (hcap : 1 ≤ cap) (c : Cache) (k : Nat) :
    (trim cap (touch c k)).contains k = true := by
  unfold trim touch
  have hlen : (c.filter (· ≠ k) ++ [k]).length - cap ≤ (c.filter (· ≠ k)).length := by
    simp only [List.length_append, List.length_singleton]
    omega
  rw [List.drop_append_of_le_length hlen]
  simp

/-- **Two threads cannot hurt each other** (capacity 2, the two palettes different or equal,
any leftover cache content over the keys in play): under EVERY schedule — all 64 interleavings
and partial executions of the two lookups' six steps — no read fails. -/
theorem C15lru_two_threads_safe :
    ∀ c₀ ∈ [[], [1], [2], [1, 2], [2, 1], [7, 8], [7, 1], [2, 7]],
    ∀ progs ∈ [[lookupProg 1, lookupProg 2], [lookupProg 1, lookupProg 1]],
    ∀ sched ∈ allScheds 2 6, allHits (run 2 sched (init c₀ progs)) = true := by
  decide

/-- **Three threads with three different palettes: one preemption breaks it.**  Thread 0 is
stopped right after inserting its entry (before `trim`), threads 1 and 2 each resolve a colour,
thread 0 resumes: its own entry is the least recently used one, `trim` evicts it, the re-read
fails (`KeyError` out of `rtf_encode()`).  From an empty cache and from the history "the two
other documents were encoded last" alike; both orders of the others; the others are unharmed. -/
theorem C15lru_three_threads_witness :
    let progs := [encodeProg 1 1, encodeProg 2 1, encodeProg 3 1]
    (∀ c₀ ∈ [[], [2, 3], [3, 2]], ∀ sched ∈ [[0, 1, 1, 1, 2, 2, 2, 0, 0], [0, 2, 2, 2, 1, 1, 1, 0, 0]],
      (run 2 sched (init c₀ progs)).outs = [[false], [true], [true]]) ∧
    -- the same threads one after the other, in any order: no read fails
    (∀ sched ∈ [[0, 0, 0, 1, 1, 1, 2, 2, 2], [1, 1, 1, 2, 2, 2, 0, 0, 0], [2, 2, 2, 0, 0, 0, 1, 1, 1]],
      allHits (run 2 sched (init [] progs)) = true) ∧
    -- (in the model the victim is as exposed between `trim` and `read`; in the code the re-read
    -- follows the trim without a function-call boundary, so the scheduler has no such point)
    (run 2 [0, 0, 1, 1, 1, 2, 2, 2, 0] (init [] progs)).outs = [[false], [true], [true]] ∧
    -- with room for all three palettes nothing is ever evicted
    (∀ sched ∈ [[0, 1, 1, 1, 2, 2, 2, 0, 0], [0, 2, 2, 2, 1, 1, 1, 0, 0]],
      allHits (run 3 sched (init [] progs)) = true) := by
  decide

end Props.C15lru
