import Model.World
import Model.Memo
import Model.WorldFiles
import Proofs.World
import Proofs.Memo
import Proofs.WorldFiles
import Props.C14
import Props.C14memo
/-!
# C14, the files a figure document reads

`Props/C14.lean` proves purity for the process state the code has; `Props/C14memo.lean` says when a process-global
keyed store keeps it.  This file adds the part of the OUTSIDE world an encode reads — the working directory and the
contents of the image files of a figure document (`Model/WorldFiles.lean`) — to the histories: between two operations
a file may be written / replaced / deleted / renamed / touched and the process may change its working directory.

"What a fresh interpreter produces for an equal-valued document" is the outcome of a fresh process in the file
system AS IT IS WHEN THE TARGET IS ENCODED (same working directory, files as they are then).

* `C14files_code_purity`      the code as it is (no store: every `rtf_encode()` opens every file): after any history
                              of operations and file-system events, the target's outcome and the contents it embeds
                              are the fresh process's in the file system reached;
* `C14files_purity`           the same with any store of file contents whose key determines the content;
* `C14files_reads_current`    … and what is embedded is what the paths designate NOW (`Fs.read` of the state reached);
* `C14files_pure_iff`         exactly then (instance of `C14memo_pure_iff`);
* `C14files_spelling_*`       a store keyed by the path as the caller spelled it is not of that kind, and NO file
                              has to change for it to show: the same relative name encoded in one working directory
                              and then in another (`C14files_spelling_cwd_witness`, a history inside the quantifier of
                              C14 as written); a file regenerated between two encodes (`…_rewrite_witness`);
* `C14files_resolved_*`       a store keyed by the resolved path survives every history that changes no file
                              (`C14files_resolved_pure_readonly`) and fails on a rewrite;
* `C14files_fingerprint_faithful`  a key that contains a fingerprint of the file's present content is harmless.
-/
namespace Props.C14files
open Model.Memo Model.World Proofs.Memo Proofs.WorldFiles

variable {κ : Type} [DecidableEq κ]

/-- With a store whose key determines the content: after any history of operations (encodes read through the store,
failing ones too) and file-system events, the target's modelled outcome and the content every one of its paths is
answered with are those of a fresh process in the file system as it is then. -/
theorem C14files_purity (S : Spec FileReq κ (Option Content)) (hF : Faithful S) (q : Paths) (T : Table) (w₀ : World)
    (fs₀ : Fs) (ops : List FOp) (c : Ctor) :
    encodeCtorF S q T (runF S q T (freshF w₀ fs₀) ops) c
      = encodeCtorF S q T (freshF w₀ (fs₀.run (eventsF ops))) c := by
  have hb : (runF S q T (freshF w₀ fs₀) ops).base = (run T w₀ (baseOpsF ops)).1 := runF_base S q T ops (freshF w₀ fs₀)
  have hfs : (runF S q T (freshF w₀ fs₀) ops).fs = fs₀.run (eventsF ops) := runF_fs S q T ops (freshF w₀ fs₀)
  have hs : Sound S (runF S q T (freshF w₀ fs₀) ops).store := runF_sound S hF q T ops (freshF w₀ fs₀) (sound_nil S)
  have hh : (runF S q T (freshF w₀ fs₀) ops).base.heap = w₀.heap := by
    rw [hb]; exact Props.C14.C14_heap_unchanged T w₀ _
  have hf : (runF S q T (freshF w₀ fs₀) ops).base.frames = w₀.frames := by
    rw [hb]; exact Props.C14.C14_frames_unchanged T w₀ _
  have hsd : (runF S q T (freshF w₀ fs₀) ops).base.seed = w₀.seed := by
    rw [hb]; exact Props.C14.C14_seed_unchanged T w₀ _
  clear hb
  generalize runF S q T (freshF w₀ fs₀) ops = fw at hs hh hf hsd hfs
  unfold encodeCtorF
  rw [hh, hf, hfs]
  show (match construct w₀.heap w₀.frames c with
    | .ok d => ((encodeDoc T fw.base d).2, (readDoc S q w₀.heap (fs₀.run (eventsF ops)) fw.store d).2)
    | .error e => (Outcome.error e, [])) = (match construct w₀.heap w₀.frames c with
    | .ok d => ((encodeDoc T w₀ d).2, (readDoc S q w₀.heap (fs₀.run (eventsF ops)) [] d).2)
    | .error e => (Outcome.error e, []))
  cases construct w₀.heap w₀.frames c with
  | ok d =>
    simp only
    rw [(readDoc_sound S hF q _ _ _ hs d).2, (readDoc_sound S hF q _ _ _ (sound_nil S) d).2,
      Proofs.World.encodeDoc_outcome T d hsd hh hf]
  | error e => rfl

/-- … and those contents are what the document's paths designate in the file system as it is then: a relative path
against the working directory of that moment, the bytes the file holds at that moment. -/
theorem C14files_reads_current (key : FileReq → κ) (hF : Faithful (readSpec key)) (q : Paths) (T : Table) (w₀ : World)
    (fs₀ : Fs) (ops : List FOp) (c : Ctor) (d : Doc) (hc : construct w₀.heap w₀.frames c = .ok d) :
    (encodeCtorF (readSpec key) q T (runF (readSpec key) q T (freshF w₀ fs₀) ops) c).2
      = (q w₀.heap d).map (fs₀.run (eventsF ops)).read := by
  rw [C14files_purity (readSpec key) hF q T w₀ fs₀ ops c]
  unfold encodeCtorF
  show (match construct w₀.heap w₀.frames c with
    | .ok d => ((encodeDoc T w₀ d).2, (readDoc (readSpec key) q w₀.heap (fs₀.run (eventsF ops)) [] d).2)
    | .error e => (Outcome.error e, [])).2 = _
  rw [hc]
  simp only
  rw [(readDoc_sound (readSpec key) hF q _ _ _ (sound_nil _) d).2, List.map_map]
  rfl

/-- no store: every request is its own key -/
theorem C14files_nostore_faithful : Faithful noStore := fun _ _ h => by cases h; rfl

/-- The code as it is: after any history of operations and file-system events, the target's outcome and the contents
it embeds are those of a fresh process in the file system as it is when the target is encoded. -/
theorem C14files_code_purity (q : Paths) (T : Table) (w₀ : World) (fs₀ : Fs) (ops : List FOp) (c : Ctor) :
    encodeCtorF noStore q T (runF noStore q T (freshF w₀ fs₀) ops) c
      = encodeCtorF noStore q T (freshF w₀ (fs₀.run (eventsF ops))) c :=
  C14files_purity noStore C14files_nostore_faithful q T w₀ fs₀ ops c

/-- Exactly then: every file read is answered with the file's present content after every history of reads iff the
key determines the content (`C14memo_pure_iff` for stores of file contents). -/
theorem C14files_pure_iff (key : FileReq → κ) :
    (∀ (hist : List FileReq) (r : FileReq), (ask (readSpec key) (askAll (readSpec key) [] hist).1 r).2 = r.fs.read r.path)
      ↔ Faithful (readSpec key) :=
  Props.C14memo.C14memo_pure_iff (readSpec key)

/-- two report directories, each with its own, unchanged `fig.png` (name 0): contents 10 and 11 -/
def twoDirs (cwd : Nat) : Fs := { cwd := cwd, files := [((0, 0), 10), ((1, 0), 11)] }

/-- Keyed by the path as spelled: the same relative name in two working directories — no file differs between the
two requests, only the directory the process is in. -/
theorem C14files_spelling_not_faithful : ¬ Faithful spellingKey := by
  intro h
  have := h { fs := twoDirs 0, path := .rel 0 } { fs := twoDirs 1, path := .rel 0 } rfl
  exact absurd this (by decide)

/-- … and an absolute spelling does not save it: the file was regenerated between the two requests. -/
theorem C14files_spelling_not_faithful_abs : ¬ Faithful spellingKey := by
  intro h
  have := h { fs := twoDirs 0, path := .abs 0 0 } { fs := (twoDirs 0).step (.write 0 0 12), path := .abs 0 0 } rfl
  exact absurd this (by decide)

/-- Keyed by the resolved path: the working directory no longer matters, a rewrite still does. -/
theorem C14files_resolved_not_faithful : ¬ Faithful resolvedKey := by
  intro h
  have := h { fs := twoDirs 0, path := .abs 0 0 } { fs := (twoDirs 0).step (.write 0 0 12), path := .rel 0 } rfl
  exact absurd this (by decide)

/-- Keyed by the resolved path, the store is harmless as long as NO FILE CHANGES: after any history of operations,
changes of the working directory and touches, the target's outcome and embedded contents are the fresh process's. -/
theorem C14files_resolved_pure_readonly (q : Paths) (T : Table) (w₀ : World) (fs₀ : Fs) (ops : List FOp) (c : Ctor)
    (hro : (eventsF ops).all (fun e => !e.changesFiles) = true) :
    encodeCtorF resolvedKey q T (runF resolvedKey q T (freshF w₀ fs₀) ops) c
      = encodeCtorF resolvedKey q T (freshF w₀ (fs₀.run (eventsF ops))) c := by
  have hb : (runF resolvedKey q T (freshF w₀ fs₀) ops).base = (run T w₀ (baseOpsF ops)).1 :=
    runF_base resolvedKey q T ops (freshF w₀ fs₀)
  have hfs : (runF resolvedKey q T (freshF w₀ fs₀) ops).fs = fs₀.run (eventsF ops) :=
    runF_fs resolvedKey q T ops (freshF w₀ fs₀)
  have hfiles : (fs₀.run (eventsF ops)).files = fs₀.files := run_files_of_not_changes _ fs₀ hro
  have hs : SoundAt (fs₀.run (eventsF ops)).files (runF resolvedKey q T (freshF w₀ fs₀) ops).store := by
    rw [hfiles]
    exact runF_at q T ops (freshF w₀ fs₀) (soundAt_nil _) hro
  have hh : (runF resolvedKey q T (freshF w₀ fs₀) ops).base.heap = w₀.heap := by
    rw [hb]; exact Props.C14.C14_heap_unchanged T w₀ _
  have hf : (runF resolvedKey q T (freshF w₀ fs₀) ops).base.frames = w₀.frames := by
    rw [hb]; exact Props.C14.C14_frames_unchanged T w₀ _
  have hsd : (runF resolvedKey q T (freshF w₀ fs₀) ops).base.seed = w₀.seed := by
    rw [hb]; exact Props.C14.C14_seed_unchanged T w₀ _
  clear hb
  generalize runF resolvedKey q T (freshF w₀ fs₀) ops = fw at hs hh hf hsd hfs
  unfold encodeCtorF
  rw [hh, hf, hfs]
  show (match construct w₀.heap w₀.frames c with
    | .ok d => ((encodeDoc T fw.base d).2, (readDoc resolvedKey q w₀.heap (fs₀.run (eventsF ops)) fw.store d).2)
    | .error e => (Outcome.error e, [])) = (match construct w₀.heap w₀.frames c with
    | .ok d => ((encodeDoc T w₀ d).2, (readDoc resolvedKey q w₀.heap (fs₀.run (eventsF ops)) [] d).2)
    | .error e => (Outcome.error e, []))
  cases construct w₀.heap w₀.frames c with
  | ok d =>
    simp only
    rw [(readDoc_at q _ _ _ hs d).2, (readDoc_at q _ _ _ (soundAt_nil _) d).2,
      Proofs.World.encodeDoc_outcome T d hsd hh hf]
  | error e => rfl

/-- A key that contains a fingerprint of what the file holds now determines the content. -/
theorem C14files_fingerprint_faithful : Faithful fingerprintKey := by
  intro r r' h
  have h2 : r.fs.read r.path = r'.fs.read r'.path := (Prod.mk.inj h).2
  exact h2

/-- a figure document always constructs; its paths are put in by `q` -/
def figCtor : Ctor := { kind := .figure, secs := [], headers := .default, others := [] }

/-- In the world, NO FILE CHANGING: a document naming `fig.png` is encoded in directory 0, the process changes into
directory 1 (which holds its own `fig.png`), the target naming `fig.png` is encoded there.  With the store keyed by
the spelling the target embeds directory 0's file; a fresh process in directory 1 embeds directory 1's. -/
theorem C14files_spelling_cwd_witness :
    let q : Paths := fun _ _ => [.rel 0]
    let other : Ctor := { figCtor with others := [7] }
    let ops : List FOp := [.op (.construct 0 other), .op (.encode 0), .ev (.chdir 1)]
    (eventsF ops).all (fun e => !e.changesFiles) = true ∧
    (encodeCtorF spellingKey q [] (runF spellingKey q [] (freshF (fresh [] []) (twoDirs 0)) ops) figCtor).2 = [some 10] ∧
    (encodeCtorF spellingKey q [] (freshF (fresh [] []) ((twoDirs 0).run (eventsF ops))) figCtor).2 = [some 11] := by
  decide

/-- In the world, a file regenerated between two encodes (absolute path, the working directory never changes): the
target embeds the old plot, a fresh process the new one. -/
theorem C14files_spelling_rewrite_witness :
    let q : Paths := fun _ _ => [.abs 0 0]
    let other : Ctor := { figCtor with others := [7] }
    let ops : List FOp := [.op (.construct 0 other), .op (.encode 0), .ev (.write 0 0 12)]
    (encodeCtorF spellingKey q [] (runF spellingKey q [] (freshF (fresh [] []) (twoDirs 0)) ops) figCtor).2 = [some 10] ∧
    (encodeCtorF spellingKey q [] (freshF (fresh [] []) ((twoDirs 0).run (eventsF ops))) figCtor).2 = [some 12] := by
  decide

/-- … the same with the store keyed by the resolved path, and with the SAME document encoded twice around the
rewrite (no other document involved). -/
theorem C14files_resolved_rewrite_witness :
    let q : Paths := fun _ _ => [.rel 0]
    let ops : List FOp := [.op (.construct 0 figCtor), .op (.encode 0), .ev (.write 0 0 12)]
    encodeCtorF resolvedKey q [] (runF resolvedKey q [] (freshF (fresh [] []) (twoDirs 0)) ops) figCtor
      ≠ encodeCtorF resolvedKey q [] (freshF (fresh [] []) ((twoDirs 0).run (eventsF ops))) figCtor := by
  decide

/-- Non-vacuity of `C14files_code_purity`: on the history of `C14files_spelling_cwd_witness` the code as it is embeds
directory 1's file. -/
example :
    (encodeCtorF noStore (fun _ _ => [.rel 0]) [] (runF noStore (fun _ _ => [.rel 0]) []
        (freshF (fresh [] []) (twoDirs 0))
        [.op (.construct 0 { figCtor with others := [7] }), .op (.encode 0), .ev (.chdir 1)]) figCtor).2 = [some 11] := by
  decide

end Props.C14files
