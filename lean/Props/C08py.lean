import Generated.PyColWidths
import Model.Widths
/-!
# C08 — translator tie for the cumulative column widths

`Generated.Py.ColWidths.run` is regenerated on every run from the source of `Utils._col_widths` (harness/pytranslate.py):
`sum`, the walrus accumulator of the list comprehension and the float division, in the exception monad
(`ZeroDivisionError` when the relative widths sum to 0), **floats as exact rationals** (the float caveat of DESIGN §6).

This file proves that it is `Model.Widths.colWidthsE` / `colWidths` — the function every C08 theorem (one right edge,
proportional columns) is about — for every list of relative widths and every table width.
-/
set_option linter.unusedSimpArgs false
namespace Props.C08py
open Model.Widths Generated.Py Generated.Py.ColWidths

/-- Python's left-to-right `sum` is the model's sum (exact arithmetic) -/
theorem foldl_add (l : List Rat) (a : Rat) : l.foldl (· + ·) a = a + sumQ l := by
  induction l generalizing a with
  | nil => simp [sumQ, Rat.add_zero]
  | cons x xs ih => simp only [List.foldl_cons, ih, sumQ, Rat.add_assoc]

theorem sumRat_eq (l : List Rat) : sumRat l = sumQ l := by
  simp [sumRat, foldl_add, Rat.zero_add]

/-- one element over a non-zero total: no exception; the total is kept, the accumulator grows by this column's share
and is appended to the result (proved from the generated loop body by `simp`, up to commutativity of `+`) -/
theorem loop1_ok (w : List Rat) (W : Rat) (x : Rat) (s : St) (h : s.v0 ≠ 0) :
    ∃ s1, loop1 w W s x = .ok s1 ∧ s1.v0 = s.v0 ∧
      s1.v1 = s.v1 + x * W / s.v0 ∧ s1.v2 = s.v2 ++ [s1.v1] := by
  have hd : ∀ a : Rat, pyDiv a s.v0 = .ok (a / s.v0) := by intro a; simp [pyDiv, h]
  refine ⟨_, by simp only [loop1, hd, bind, Except.bind, pure, Except.pure]; rfl, ?_, ?_, ?_⟩ <;>
    simp [Rat.add_comm, Rat.mul_comm]

/-- the comprehension over a non-zero total: no exception, the accumulator runs through `cumFrom` -/
theorem loop_ok (w : List Rat) (W : Rat) (l : List Rat) (s : St) (h : s.v0 ≠ 0) :
    ∃ s', l.foldlM (loop1 w W) s = .ok s' ∧ s'.v2 = s.v2 ++ cumFrom s.v0 W s.v1 l := by
  induction l generalizing s with
  | nil => exact ⟨s, rfl, by simp [cumFrom]⟩
  | cons x xs ih =>
    obtain ⟨s1, e1, ht, hc, hl⟩ := loop1_ok w W x s h
    obtain ⟨s', h1, h2⟩ := ih s1 (ht ▸ h)
    refine ⟨s', ?_, ?_⟩
    · simp only [List.foldlM_cons, e1, bind, Except.bind]
      exact h1
    · rw [h2, hl, ht, hc]; simp [cumFrom]

/-- a zero total: the first element already divides by zero -/
theorem loop_zero (w : List Rat) (W : Rat) (x : Rat) (xs : List Rat) (s : St) (h : s.v0 = 0) :
    (x :: xs).foldlM (loop1 w W) s = .error .ZeroDivisionError := by
  simp [List.foldlM_cons, loop1, pyDiv, h, bind, Except.bind]

/-- **the translated `_col_widths` is the model** (floats as exact rationals): `ZeroDivisionError` exactly when a
non-empty list sums to zero, otherwise the cumulative widths `colWidths` -/
theorem C08py_col_widths_translated (w : List Rat) (W : Rat) :
    run w W = if w ≠ [] ∧ sumQ w = 0 then .error .ZeroDivisionError else .ok (colWidths w W) := by
  by_cases hz : sumQ w = 0
  · cases w with
    | nil => simp [run, colWidths, cumFrom, bind, Except.bind, pure, Except.pure]
    | cons x xs =>
      have := loop_zero (x :: xs) W x xs
        { v0 := sumRat (x :: xs), v1 := 0, v2 := [] } (by simp [sumRat_eq, hz])
      simp only [run, this, bind, Except.bind]
      simp [hz]
  · obtain ⟨s', h1, h2⟩ := loop_ok w W w { v0 := sumRat w, v1 := 0, v2 := [] }
      (by simp [sumRat_eq, hz])
    simp only [run, h1, bind, Except.bind, pure, Except.pure]
    simp [hz, h2, colWidths, sumRat_eq]

/-- in the vocabulary of the model's own exception type -/
theorem C08py_col_widths_model (w : List Rat) (W : Rat) :
    (run w W).toOption = (colWidthsE w W).toOption := by
  rw [C08py_col_widths_translated]
  unfold colWidthsE
  split <;> rfl

example : run [1, 1, 2] 8 = .ok [2, 4, 8] := by
  rw [C08py_col_widths_translated]; decide +kernel

end Props.C08py
