import Model.Escape
import Proofs.Escape
/-!
# C10 — every Unicode character reaches the reader intact

Writer model: `Model.Escape.escape` (= the per-character loop `TextContent._escape_non_ascii` that ends
`TextContent._convert_special_chars`, i.e. the whole function when `convert=False`), `utf8`
(= `Path.write_text(encoding="utf-8")`), `sublineHeader` (= `PageRenderer._generate_subline_header`).
Reader (the specification): `Model.Escape.decode` — 7-bit bytes are themselves, bytes ≥ 0x80 and `\'hh`
are cp1252, `\uN` is a signed 16-bit UTF-16 code unit followed by `\uc` fallback items, surrogate
pairs combine, CR/LF are ignored.  A Python `str` is modelled by its code points; a `Char` is
exactly a Unicode scalar value, `cps` is injective (`C10_cps_injective`), so the statements below
are about every Unicode text.

Clauses of the statement and where they are:
* "every character … is read back as the same character"     → `C10_char_roundtrip`, `C10_roundtrip`
* "Unicode escapes stay within RTF's signed 16-bit \u range
   and are followed by exactly the declared number of
   fallback characters"                                        → `C10_u_escapes`
* "the file … contains only bytes that an RTF reader decodes
   back" (file bytes = UTF-8 of the text, under `\ansi`)       → `C10_seven_bit`, `C10_bytes_on_disk`
* the group heading (`subline_by`) position                    → `C10_subline_heading`
The remaining text-bearing positions all call `_convert_special_chars`; that they do is observed on
real documents by `harness/props/c10.py` (file bytes of `write_rtf`, every position).
-/
namespace Props.C10
open Model.Escape Proofs.Escape

/-- the code points of a text -/
def cps (t : List Char) : List Nat := t.map Char.toNat

/-- the property's domain: no C0/C1 control, not a raw `\`, `{`, `}` -/
def Plain (c : Char) : Prop := inDomain c.toNat = true

instance (c : Char) : Decidable (Plain c) := by unfold Plain; infer_instance

/-- texts are determined by their code points -/
theorem C10_cps_injective (s t : List Char) (h : cps s = cps t) : s = t :=
  map_toNat_inj s t h

/-- the bytes on disk are the escaper's output itself: it is 7-bit for *every* input (so the file
does not depend on the reader's code page), and 7-bit text is its own UTF-8 encoding -/
theorem C10_seven_bit (t : List Char) : ∀ b ∈ escape (cps t), b < 128 :=
  escape_ascii _

theorem C10_bytes_on_disk (t : List Char) : utf8 (escape (cps t)) = some (escape (cps t)) :=
  utf8_escape _

/-- core lemma, one character: `decode (utf8 (escape [c])) = [c]` for every scalar value in the domain -/
theorem C10_char_roundtrip (c : Char) (h : Plain c) :
    (utf8 (escape [c.toNat])).map (fun bytes => (decode bytes).text) = some [c.toNat] := by
  have hr : ∀ n ∈ [c.toNat], readable n = true := by
    intro n hn
    simp only [List.mem_cons, List.mem_nil_iff, or_false] at hn
    subst hn
    exact inDomain_readable _ h
  rw [utf8_escape, Option.map_some, decode_escape _ hr]

/-- all texts: what the reader makes of the bytes written for `t` is `t`, nothing malformed, no
formatting words, all groups closed; the `\u` escapes it meets are exactly `uTrace t` -/
theorem C10_roundtrip (t : List Char) (h : ∀ c ∈ t, Plain c) :
    (utf8 (escape (cps t))).map decode =
      some { text := cps t, us := uTrace (cps t), words := 0, errs := [], depth := 0 } := by
  have hr : ∀ n ∈ cps t, readable n = true := by
    intro n hn
    simp only [cps, List.mem_map] at hn
    obtain ⟨c, hc, rfl⟩ := hn
    exact inDomain_readable _ (h c hc)
  rw [utf8_escape, Option.map_some, decode_escape _ hr]

/-- every `\uN` the reader meets has `N` in the signed 16-bit range, is governed by `\uc1`, and is
followed by exactly that one fallback item (which the reader skips) -/
theorem C10_u_escapes (t : List Char) (h : ∀ c ∈ t, Plain c) :
    ∀ e ∈ (decode (escape (cps t))).us,
      -32768 ≤ e.arg ∧ e.arg ≤ 32767 ∧ e.uc = 1 ∧ e.skipped = e.uc := by
  have hr : ∀ n ∈ cps t, readable n = true := by
    intro n hn
    simp only [cps, List.mem_map] at hn
    obtain ⟨c, hc, rfl⟩ := hn
    exact inDomain_readable _ (h c hc)
  rw [decode_escape _ hr]
  intro e he
  have := uTrace_ok (cps t) (fun n hn => readable_lt n (hr n hn)) e he
  simp only [uOk, Bool.and_eq_true, decide_eq_true_eq, beq_iff_eq] at this
  exact ⟨this.1.1.1, this.1.1.2, this.2, this.1.2⟩

/-- the decidable oracle used on the implementation's output holds of the model's output -/
theorem C10_intact (t : List Char) (h : ∀ c ∈ t, Plain c) :
    intact (cps t) (decode (escape (cps t))) = true := by
  apply intact_escape
  intro n hn
  simp only [cps, List.mem_map] at hn
  obtain ⟨c, hc, rfl⟩ := hn
  exact inDomain_readable _ (h c hc)

/-- stronger than the statement asks: the only characters that do not survive are RTF's own syntax
`\ { }` and the two characters readers ignore (CR, LF); tabs, DEL and C1 controls do survive -/
theorem C10_roundtrip_all_but_syntax (t : List Char)
    (h : ∀ c ∈ t, c ≠ '\\' ∧ c ≠ '{' ∧ c ≠ '}' ∧ c ≠ '\n' ∧ c ≠ '\r') :
    (decode (escape (cps t))).text = cps t := by
  have hr : ∀ n ∈ cps t, readable n = true := by
    intro n hn
    simp only [cps, List.mem_map] at hn
    obtain ⟨c, hc, rfl⟩ := hn
    exact char_readable c (h c hc)
  rw [decode_escape _ hr]

/-- the `subline_by` heading paragraph (`{\pard\hyphpar\fi0\li0\ri0\ql\fs18{\f0 …}\par}`) reads back
as the group values joined by ", " (`None` values dropped), with balanced groups and no error -/
theorem C10_subline_heading (vals : List (Option (List Char)))
    (h : ∀ s, some s ∈ vals → ∀ c ∈ s, Plain c)
    (hne : formatGroupHeader (vals.map (Option.map cps)) ≠ []) :
    let vs := vals.map (Option.map cps)
    (utf8 (sublineHeader vs)).map decode =
      some { text := formatGroupHeader vs, us := uTrace (formatGroupHeader vs), words := 9, errs := [],
             depth := 0 } := by
  intro vs
  have hr : ∀ s, some s ∈ vs → ∀ n ∈ s, readable n = true := by
    intro s hs n hn
    simp only [vs, List.mem_map] at hs
    obtain ⟨v, hv, hvs⟩ := hs
    cases v with
    | none => simp at hvs
    | some w =>
      simp only [Option.map_some, Option.some.injEq] at hvs
      subst hvs
      simp only [cps, List.mem_map] at hn
      obtain ⟨c, hc, rfl⟩ := hn
      exact inDomain_readable _ (h w hv c hc)
  have hb : utf8 (sublineHeader vs) = some (sublineHeader vs) := by
    apply utf8_ascii
    intro b hb
    unfold sublineHeader at hb
    simp only [vs, hne, if_false] at hb
    simp only [List.mem_append] at hb
    rcases hb with (hb | hb) | hb
    · revert b; decide
    · exact escape_ascii _ b hb
    · revert b; decide
  rw [hb, Option.map_some, decode_sublineHeader vs hr hne]

/-! Non-vacuity: Latin-1 letter, Greek, a BMP character above U+7FFF (negative `\u`), an astral
character (surrogate pair), ASCII around them — all in the domain, and the oracle accepts. -/
example :
    let t := ['c', 'a', 'f', 'é', ' ', 'α', '€', '�', '😀', '!']
    (∀ c ∈ t, Plain c) ∧ intact (cps t) (decode (escape (cps t))) = true ∧
    (decode (escape (cps t))).us.length = 6 := by
  decide

/-- the reader is not trivial: the bytes the *unrepaired* escaper wrote for `é` (raw UTF-8 C3 A9) and
for U+1F600 (`\uc1\u62976*`) are not read back intact -/
example : intact [233] (decode [0xC3, 0xA9]) = false ∧
    intact [0x1F600] (decode [92, 117, 99, 49, 92, 117, 54, 50, 57, 55, 54, 42]) = false := by
  decide

end Props.C10
