import Model.Rtf
import Model.RtfDoc
import Proofs.Rtf
/-!
# C01 — every accepted document encodes to well-formed RTF   (grammar part)

`wellFormed` (Model/Rtf.lean) is the decidable form of C01's clauses on a document string: it lexes
(`lex = some _` — every control sequence is lexically valid), begins with `{\rtf1`, is exactly one top-level
group with balanced nested groups and nothing after its closing brace, every `\u` is a signed 16-bit value
followed by its `\uc` fallback characters, and every `\trowd…\row` declares as many `\cellx` as `\cell`
with positive non-decreasing boundaries.

`DocG` (Model/RtfDoc.lean) is the grammar of what rtflite prints: plain material and table rows printed from
ONE list of cells.  The theorems: the printer is inverted by the lexer, and every document of the grammar that
satisfies the decidable side condition `docOk` is well-formed — for every number of pages, rows, cells and
every text.  That each real output IS such a document is re-checked on every run (the harness parses the real
string into a `DocG`, the driver prints it back and evaluates `docOk`).
-/
namespace Props.C01
open Model.Rtf

/-- the lexer inverts the printer (compositional lexer inversion) -/
theorem C01_lex_print (ns : List Node) (h : nodesOk ns none = true) :
    lex (printNodes ns) = some (toksNodes ns) :=
  Proofs.Rtf.lex_print ns h

/-- one top-level group: balanced, depth returns to 0 exactly at the last token -/
theorem C01_balanced (ns : List Node) :
    depthOk 0 (toksNode (Node.grp ns)) = true :=
  Proofs.Rtf.balanced ns

/-- rows printed from one cell list have as many `\cellx` as `\cell`, boundaries positive and non-decreasing -/
theorem C01_rows (d : DocG) (h1 : plainNodes d.head = true) (h2 : d.blocks.all blockOk = true) :
    rowsOk false 0 0 0 (toksNode (Node.grp (docNodes d))) = true :=
  Proofs.Rtf.rows_doc d h1 h2

/-- every document of the grammar is well-formed RTF -/
theorem C01_grammar_wellformed (d : DocG) (h : docOk d = true) :
    wellFormed (printDoc d) = true := by
  simp only [docOk, Bool.and_eq_true] at h
  obtain ⟨⟨⟨h1, h2⟩, h3⟩, h4⟩ := h
  have hl := C01_lex_print [Node.grp (docNodes d)] h3
  simp only [printNodes, toksNodes, List.append_nil] at hl
  have hs : signatureOk (toksNode (Node.grp (docNodes d))) = true := by
    simp [toksNode, docNodes, toksNodes, signatureOk]
  simp only [wellFormed, printDoc, hl, tokensOk, hs, C01_balanced, h4, C01_rows d h1 h2, Bool.and_self]

/-- the same with the linear-time side condition the driver evaluates (`docOkFast d = docOk d`) -/
theorem C01_grammar_wellformed_fast (d : DocG) (h : docOkFast d = true) :
    wellFormed (printDoc d) = true :=
  C01_grammar_wellformed d (by rw [← Proofs.Rtf.docOkFast_eq]; exact h)

/-- the decimal printer used for parameters is inverted by the lexer's digit reader -/
theorem C01_digits (n : Nat) : digitsValRev (natDigits n).reverse = n ∧ (natDigits n) ≠ [] ∧
    (natDigits n).all isDigit = true :=
  Proofs.Rtf.natDigits_spec n

/-- non-vacuity: a two-cell row inside a document -/
example :
    let cell (x : Int) (t : String) : CellG :=
      { defn := [cw0 "clbrdrl", cw0 "brdrs", Node.cw "brdrw".toList (some 15) false], cellx := x,
        content := [Node.nl, cw0 "pard", Node.cw "fs".toList (some 18) false,
                    Node.grp [Node.cw "f".toList (some 0) true, Node.txt t.toList]] }
    let d : DocG := { head := [cw0 "ansi", Node.nl],
                      blocks := [BlockG.row [Node.cw "trgaph".toList (some 108) false] [cell 4500 "a b", cell 9000 "c"]
                                   [Node.nl, cw0 "intbl"], BlockG.plain [cw0 "pard", Node.nl]] }
    docOk d = true ∧ wellFormed (printDoc d) = true := by decide

end Props.C01
