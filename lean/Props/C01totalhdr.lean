import Model.Widths
import Model.Encode
import Model.EncodeAccepted
import Proofs.Widths
import Props.C01total
/-!
# C01, first clause: explicit header rows written without regard to the columns the table displays

`shapesInQuantifier` asks of every header row that "its width vector covers its cells" — stated on the vector the
renderer USES (`headerCells`: the header's `col_rel_width` after `_displayed_col_rel_width`, the slice that drops the
entries of the columns page_by / subline_by take out of the table).  This file shows that the clause can be read on
the vector the user WROTE (or the header inherited from the body at construction): the slice is taken only when the
row has exactly one cell per DISPLAYED column, so it never leaves a row with fewer width entries than cells.

Hence every explicit header row with 1 … `len(col_rel_width)` cells is inside C01's quantifier under every
column-removal mode — a spanning cell, fewer cells than displayed columns, one cell per displayed column, one cell per
ORIGINAL column (the row still names the page_by / subline_by columns), anything in between — and the totality theorem
`C01_encode_total` applies to it: the encoder must return a document.  (A row with MORE cells than width entries is
outside the quantifier: `C01total_outside_short_widths`.)
-/
namespace Props.C01totalhdr
open Model.Rtf Model.Encode Model.EncodeDomain Model.EncodeAccepted
open Model.Widths (headerDisplayed nDisplayed anyRemoved slice)

/-- the removal slice is taken only for a row with one cell per displayed column; every other row keeps the vector
it was constructed with — whatever its length and whichever columns are removed -/
theorem C01_header_widths_kept (hw : List Rat) (keep : List Bool) (n : Nat) (h : n ≠ nDisplayed keep) :
    headerDisplayed hw keep n = hw := by
  unfold headerDisplayed
  simp [h]

/-- where the slice is taken the result has exactly one entry per cell -/
theorem C01_header_widths_sliced (hw : List Rat) (keep : List Bool) (n : Nat)
    (h : headerDisplayed hw keep n ≠ hw) : (headerDisplayed hw keep n).length = n := by
  unfold headerDisplayed at h ⊢
  by_cases hc : (anyRemoved keep && decide (hw.length = keep.length) && decide (n = nDisplayed keep)) = true
  · simp only [hc, if_true]
    simp only [Bool.and_eq_true, decide_eq_true_eq] at hc
    rw [Proofs.Widths.slice_length hw keep hc.1.2, hc.2]
  · simp [hc] at h

/-- **the widths a header row was constructed with cover its cells ⇒ the widths the renderer uses cover them**:
`_displayed_col_rel_width` never produces a vector shorter than the row -/
theorem C01_header_widths_cover (hw : List Rat) (keep : List Bool) (n : Nat) (h : n ≤ hw.length) :
    n ≤ (headerDisplayed hw keep n).length := by
  by_cases hk : headerDisplayed hw keep n = hw
  · rw [hk]; exact h
  · rw [C01_header_widths_sliced hw keep n hk]; exact Nat.le_refl n

/-- the header clause of `shapesInQuantifier` read on the constructed state: an explicit header row with at least one
cell, attribute shapes of the quantifier and a width vector (own, or inherited from the body) with at least as many
entries as the row has cells satisfies `headerShape` — for every set of removed columns -/
theorem C01_headerShape_of_constructed (d : Doc) (removed : List Nat) (h : Header) (t : List Str) (w : List Rat)
    (ht : h.text = some t) (hw : h.colRelWidth = some w) (hpos : 0 < t.length) (hcov : t.length ≤ w.length)
    (hattrs : TblAttrsOf.zipAll shpAttr tblSpec h.attrs = true) :
    headerShape d removed (some h) = true := by
  have hc := C01_header_widths_cover w (keepMask d.cols.length removed) t.length hcov
  have hcells : headerCells d removed h =
      some (t.length, match some (headerDisplayed w (keepMask d.cols.length removed) t.length) with
        | some (x :: xs) => x :: xs
        | _ => List.replicate t.length 1) := by
    unfold headerCells
    rw [ht, hw]
    rfl
  unfold headerShape
  simp only [hattrs, Bool.true_and, hcells]
  cases hv : headerDisplayed w (keepMask d.cols.length removed) t.length with
  | nil =>
    rw [hv] at hc
    have : t.length = 0 := by simpa using hc
    omega
  | cons x xs =>
    rw [hv] at hc
    simp only [Bool.and_eq_true, decide_eq_true_eq]
    exact ⟨hpos, hc⟩

/-! ## non-vacuity: `exDoc` of `Props/C01total.lean` (page_by column `g` shown as spanning rows, so the table displays
`a`, `b`) under header rows that ignore the removal -/

open Props.C01total

/-- one cell per ORIGINAL column (the row still names the page_by column), widths per original column -/
def exHdrOriginal : Doc :=
  { exDoc with headers := [some { text := some ["G".toList, "A".toList, "B".toList], colRelWidth := some [1, 2, 1],
                                  attrs := exTbl }] }

/-- a spanning row over a row with one cell per original column; both inherit the body's three widths -/
def exHdrSpanOriginal : Doc :=
  { exDoc with headers := [some { text := some ["All".toList], colRelWidth := some [1, 2, 1], attrs := exTbl },
                           some { text := some ["G".toList, "A".toList, "B".toList], colRelWidth := some [1, 2, 1],
                                  attrs := exTbl }] }

/-- one cell MORE than the frame has columns, with a width vector of its own that covers them -/
def exHdrOver : Doc :=
  { exDoc with headers := [some { text := some ["G".toList, "A".toList, "B".toList, "C".toList],
                                  colRelWidth := some [1, 2, 1, 1], attrs := exTbl }] }

set_option maxRecDepth 100000

/-- they are accepted, inside the quantifier, measurable and in the text domain … -/
theorem C01total_header_rows_in_quantifier :
    (accepted exHdrOriginal && shapesInQuantifier exHdrOriginal && measureOk exMeasure exHdrOriginal) = true ∧
    (accepted exHdrSpanOriginal && shapesInQuantifier exHdrSpanOriginal && measureOk exMeasure exHdrSpanOriginal) = true ∧
    (accepted exHdrOver && shapesInQuantifier exHdrOver && measureOk exMeasure exHdrOver) = true := by
  decide +kernel

/-- … so the encoder model returns a document for each (totality applied; no evaluation of the encoder) -/
theorem C01total_header_original_columns_encodes :
    (∃ g, encode exMeasure exHdrOriginal = .ok g) ∧ (∃ g, encode exMeasure exHdrSpanOriginal = .ok g) ∧
    (∃ g, encode exMeasure exHdrOver = .ok g) := by
  have hc : ∀ d, groupKeysContiguous d = true → Proofs.EncodeTotal.GroupKeysContiguous d :=
    fun d h => (C01_groupKeysContiguous_decidable d).mp h
  refine ⟨?_, ?_, ?_⟩
  · exact C01_encode_total_contiguous exMeasure exHdrOriginal (by decide +kernel) (by decide +kernel)
      (by decide +kernel) (hc _ (by decide +kernel))
  · exact C01_encode_total_contiguous exMeasure exHdrSpanOriginal (by decide +kernel) (by decide +kernel)
      (by decide +kernel) (hc _ (by decide +kernel))
  · exact C01_encode_total_contiguous exMeasure exHdrOver (by decide +kernel) (by decide +kernel)
      (by decide +kernel) (hc _ (by decide +kernel))

/-- the rows keep one boundary per cell: three cells on the row that names every original column although the table
below it has two columns (the vector is NOT cut to the displayed columns) -/
theorem C01total_header_original_columns_cells :
    headerCells exHdrOriginal [0] (exHdrOriginal.headers.head!.get!) = some (3, [1, 2, 1]) := by
  decide +kernel

end Props.C01totalhdr
