import Model.Encode
import Model.Color
import Proofs.EncodeLift
import Proofs.EncodeAttrs
import Proofs.EncodeColor
import Proofs.EncodeText
import Props.C12
import Props.C01enc
/-!
# C12 for the whole-encoder model: colour and font references resolve to what the user asked for

`Props/C12.lean` proves the property about `Model.Color` (the colour service) for every list of collected colours.
Here it is stated about the ENCODER model `Model.Encode.encode` (byte-exact against `rtf_encode()`):

* the colour table in the head of the output is the dense table of the colours collected from the WHOLE document
  (`usedColors d = collect (colorDoc d)`), sorted by master index, without repetition (`C12enc_table`);
* the index the encoder prints for a colour name `c` is `(mkColorCtx d).index c` = `Utils._get_color_index` under that
  context (`C12enc_index_eq`); it is right for the printed table (`RefOk`, `C12enc_index`): in range, `0` for `""` /
  `"black"` (`C12enc_default_zero`), the 1-based position of `c`'s own row whenever `c` was collected
  (`C12enc_index_resolves`) — ONE numbering for the printed table and for every index (`C12enc_same_numbering`), `0` when it was not (`C12enc_index_in_range`), independent of the order in which the
  components mention colours (`C12enc_order_independent`);
* every `\cf` / `\chcbpat` / `\brdrcf` / `\f` the encoder emits comes from `resolveText` / `resolveBorder`
  (`C12enc_text_refs`, `C12enc_border_refs`); for a table cell (`cellOf` = `encodeCell`: data rows, column headers,
  table footnote / source) and for the lines of a text component they are functions of the values read at the
  position (`C12enc_cell_refs`, `C12enc_lines_refs`);
* every value read from an attribute that `collect_document_colors` looks at was collected (`C12enc_collected`), in
  particular everything a DATA cell reads through the page attributes: all six references of every data cell the encoder
  renders are right (`C12enc_data_cell`);
* the same for the other table components, whose border colours are collected since the repo fix (formerly the
  FINDING `C12enc_finding_uncollected_border_color`: a header with `border_color_left="red"` got `\brdrcf0` and no colour
  table): all references of every column-header cell (`C12enc_header_cell`) and of a table footnote / source
  (`C12enc_foot_table_cell`) are right; title / subline / page header / footer lines (`C12enc_text_component`), spanning
  headings (`C12enc_heading_cell`);
* fonts: `\f{font-1}` names the entry of the emitted font table that carries the requested font's name
  (`C12enc_fonts`).
-/
namespace Props.C12enc
open Model.Rtf Model.Emit Model.Encode Model.Broadcast Model.Layout Model.Color Generated
open Proofs.Color Proofs.ColorTable Proofs.EncodeLift Proofs.EncodeAttrs Proofs.EncodeColor

/-- index `i`, printed where the colour name `c` was requested, is right for the document's colour table `rows`:
it is the context's index, within the table, `0` for a default colour or a colour that was not collected, and the
position of `c`'s own row (whose printed code reads back as `c`'s RGB) when `c` was collected -/
structure RefOk (d : Model.Encode.Doc) (rows : List ColorRow) (c : String) (i : Int) : Prop where
  eq : i = (mkColorCtx d).index c
  nat : i = ((utilsColorIndex colorTable (some (usedColors d)) c none : Nat) : Int)
  le : i.toNat ≤ rows.length
  default : significant c = false → i = 0
  uncollected : c ∉ usedColors d → i = 0
  resolves : significant c = true → c ∈ usedColors d → Resolves colorTable rows c i.toNat

/-! ## the table -/

/-- The colour table in the head of an accepted document is the text `generate_rtf_color_table` returns for the colours
collected from the whole document: its rows are the non-default collected colours, each once, in strictly ascending
master-index order, every row the dictionaries' own row of its name; there is a table iff a non-default colour was
collected; and the bytes printed for it are exactly that text. -/
theorem C12enc_table (measure : Measure) (d : Model.Encode.Doc) (g : DocG) (h : encode measure d = .ok g) :
    ∃ rows fontTbl hdr ftr ps,
      tableRows colorTable (usedColors d) = .ok rows ∧
      generateColorTable colorTable (some (mkColorCtx d).used) = .ok (tableText rows) ∧
      fontTableText fontTable = .ok fontTbl ∧
      g.head = [cw0 "ansi", Node.nl, cwi "deff" 0, cwi "deflang" 1033, Node.nl] ++ textNodes fontTbl.toList ++
        [Node.nl] ++ textNodes (tableText rows).toList ++ [Node.nl, Node.nl, Node.nl] ++ hdr ++ [Node.nl] ++ ftr ++
        [Node.nl] ++ ps ++ [Node.nl] ∧
      printNodes (textNodes (tableText rows).toList) = (tableText rows).toList ∧
      (rows.map (·.name)).Perm ((usedColors d).filter significant) ∧
      rows.Pairwise (fun a b => a.idx < b.idx) ∧
      (∀ row ∈ rows, lookupRow colorTable row.name = some row) ∧
      (rows ≠ [] ↔ ∃ c ∈ usedColors d, significant c = true) := by
  obtain ⟨fontTbl, colorTbl, hdr, ftr, ps, hfont, hcolor, _, _, _, hhead⟩ := encode_head h
  obtain ⟨rows, hrows, rfl⟩ := generateColorTable_ok hcolor
  obtain ⟨h1, _, h3, h4⟩ := Props.C12.C12_table_spec (usedColors d) rows hrows
  refine ⟨rows, fontTbl, hdr, ftr, ps, hrows, hcolor, hfont, hhead, Proofs.LexPrint.print_lexNodes _, h1,
    h4 (usedColors_nodup d), h3, ?_⟩
  constructor
  · intro hne
    cases hr : rows with
    | nil => exact absurd hr hne
    | cons r rs =>
      have : r.name ∈ (usedColors d).filter significant := h1.mem_iff.mp (by rw [hr]; simp)
      obtain ⟨hm, hs⟩ := List.mem_filter.mp this
      exact ⟨r.name, hm, hs⟩
  · rintro ⟨c, hc, hs⟩ h0
    have : c ∈ rows.map (·.name) := h1.mem_iff.mpr (List.mem_filter.mpr ⟨hc, hs⟩)
    rw [h0] at this
    cases this

/-! ## one reference -/

/-- the index the encoder prints is `Utils._get_color_index(color)` while the context holds the collected colours -/
theorem C12enc_index_eq (d : Model.Encode.Doc) (c : String) :
    (mkColorCtx d).index c = (utilsColorIndex colorTable (some (usedColors d)) c none : Nat) :=
  index_eq_utils d c

/-- whatever colour name is asked for, the index the encoder prints is right for the table it prints -/
theorem C12enc_index (d : Model.Encode.Doc) (rows : List ColorRow) (h : tableRows colorTable (usedColors d) = .ok rows)
    (c : String) : RefOk d rows c ((mkColorCtx d).index c) := by
  have he := index_eq_utils d c
  obtain ⟨hle, hnot⟩ := Props.C12.C12_index_in_range (usedColors d) rows h c
  refine ⟨rfl, he, ?_, ?_, ?_, ?_⟩
  · rw [he]; simpa using hle
  · intro hs
    rw [he, utilsColorIndex_default _ _ _ _ hs]; rfl
  · intro hc
    rw [he, hnot hc]; rfl
  · intro hs hc
    obtain ⟨i, _, _, h3, h4⟩ := Props.C12.C12_index_resolves (usedColors d) rows h c hc hs
    rw [he, h3]
    simpa using h4

/-- **One numbering.**  The colour table an accepted document prints and the index function every emitter of the
encoder uses are built from the SAME list, the colours collected from the whole document: there is ONE `rows` such that
the head carries the text of the dense table `rows` and, for every colour name, the index the encoder prints is right
for `rows` (`RefOk`; for the references of every rendered cell and line: `Ref d rows …` in the theorems below, with
this `rows`).  No page option enters: `Model.Encode.Page` has no field that selects another table — the real
`RTFPage(use_color=…)` is accepted by the constructor and read by nobody, and the correspondence (C12's documents with
every constructor option drawn, the whole-encoder class with the options outside the model's input drawn) checks that
it stays so.  Why the two must agree: `Props.C12.C12_mixed_numbering_wrong`. -/
theorem C12enc_same_numbering (measure : Measure) (d : Model.Encode.Doc) (g : DocG) (h : encode measure d = .ok g) :
    ∃ rows, tableRows colorTable (usedColors d) = .ok rows ∧
      generateColorTable colorTable (some (mkColorCtx d).used) = .ok (tableText rows) ∧
      (∃ pre post, g.head = pre ++ textNodes (tableText rows).toList ++ post) ∧
      (rows.map (·.name)).Perm ((usedColors d).filter significant) ∧
      ∀ c, RefOk d rows c ((mkColorCtx d).index c) := by
  obtain ⟨rows, fontTbl, hdr, ftr, ps, hrows, hgen, _, hhead, _, hperm, _⟩ := C12enc_table measure d g h
  refine ⟨rows, hrows, hgen,
    ⟨[cw0 "ansi", Node.nl, cwi "deff" 0, cwi "deflang" 1033, Node.nl] ++ textNodes fontTbl.toList ++ [Node.nl],
     [Node.nl, Node.nl, Node.nl] ++ hdr ++ [Node.nl] ++ ftr ++ [Node.nl] ++ ps ++ [Node.nl], ?_⟩,
    hperm, fun c => C12enc_index d rows hrows c⟩
  rw [hhead]
  simp only [List.append_assoc]

/-- a collected non-default colour gets the 1-based position of its own row in the printed table -/
theorem C12enc_index_resolves (d : Model.Encode.Doc) (rows : List ColorRow)
    (h : tableRows colorTable (usedColors d) = .ok rows) (c : String) (hc : c ∈ usedColors d)
    (hs : significant c = true) :
    ∃ i : Nat, (mkColorCtx d).index c = i ∧ i = indexIn rows c ∧ Resolves colorTable rows c i := by
  have he := index_eq_utils d c
  have := resolves_of_mem idxInj Proofs.ColorTable.seenRgb_eq (List.Perm.refl (usedColors d)) h hc hs
  exact ⟨indexIn rows c, by rw [he, this.1], rfl, this.2⟩

/-- no reference points past the end of the printed table; a colour that was not collected is printed as 0 -/
theorem C12enc_index_in_range (d : Model.Encode.Doc) (rows : List ColorRow)
    (h : tableRows colorTable (usedColors d) = .ok rows) (c : String) :
    0 ≤ (mkColorCtx d).index c ∧ ((mkColorCtx d).index c).toNat ≤ rows.length ∧
    (c ∉ usedColors d → (mkColorCtx d).index c = 0) := by
  have r := C12enc_index d rows h c
  refine ⟨by rw [r.nat]; exact Int.natCast_nonneg _, r.le, r.uncollected⟩

/-- `""` and `"black"` are index 0, and `"black"` is RGB (0,0,0) -/
theorem C12enc_default_zero (d : Model.Encode.Doc) (c : String) (h : c = "" ∨ c = "black") :
    (mkColorCtx d).index c = 0 ∧ requestedRgb colorTable "black" = some (0, 0, 0) := by
  have := Props.C12.C12_default_zero (some (usedColors d)) none c h
  rw [index_eq_utils, this.2.1]
  exact ⟨rfl, this.2.2⟩

/-- Two documents that mention the same colours — in whatever components, order and multiplicity — print the same
index for every colour name and (valid names) the same colour table. -/
theorem C12enc_order_independent (d₁ d₂ : Model.Encode.Doc)
    (hsame : ∀ c, c ∈ (colorDoc d₁).allColors ↔ c ∈ (colorDoc d₂).allColors) :
    (usedColors d₁).Perm (usedColors d₂) ∧
    (∀ c, (mkColorCtx d₁).index c = (mkColorCtx d₂).index c) ∧
    ((∀ c ∈ usedColors d₁, significant c = true → validColor colorTable c = true) →
      generateColorTable colorTable (some (mkColorCtx d₁).used) =
        generateColorTable colorTable (some (mkColorCtx d₂).used)) := by
  have hp : (usedColors d₁).Perm (usedColors d₂) := by
    rw [List.perm_ext_iff_of_nodup (usedColors_nodup d₁) (usedColors_nodup d₂)]
    intro c
    unfold usedColors collect
    rw [mem_dedup, mem_dedup]
    exact hsame c
  obtain ⟨_, h2, h3⟩ := Props.C12.C12_order_independent _ _ hp
  refine ⟨hp, ?_, h3⟩
  intro c
  rw [index_eq_utils, index_eq_utils, h2 c]

/-! ## where the references come from -/

/-- `TextContent._get_text_formatting`: `\f{font-1}`; `\cf` and `\chcbpat` / `\cb` are printed iff the value read is a
non-empty string, with the context's index of that string -/
theorem C12enc_text_refs (k : ColorCtx) (v : TextVals) (tf : TextFmt) (conv : Bool)
    (h : resolveText k v = .ok (tf, conv)) :
    ∃ font, v.font.toInt = .ok font ∧ tf.fontIdx = font - 1 ∧
      tf.color = (requested v.color).map k.index ∧ tf.bg = (requested v.bg).map k.index := by
  obtain ⟨font, h1, h2, h3, h4, _⟩ := resolveText_refs h
  exact ⟨font, h1, h2, by rw [h3, colorRefV_eq], by rw [h4, colorRefV_eq]⟩

/-- `Border._as_rtf`: `\brdrcf` is printed iff the colour value is a non-empty string, with the context's index -/
theorem C12enc_border_refs (k : ColorCtx) (st w c : Val) (b : BorderFmt) (h : resolveBorder k st w c = .ok b) :
    b.color = (requested c).map k.index := by
  rw [resolveBorder_ref h, colorRefV_eq]

/-- one table cell (`encodeCell` at attribute position `(r, j)` — data rows, column headers, table footnote / source):
its font, text colour, background and border colour references are those of the values `BroadcastValue.iloc` reads
at `(r, j)` from `text_font`, `text_color`, `text_background_color`, `border_color_left/top/bottom` (and `_right` for
the last cell of the row) -/
theorem C12enc_cell_refs (k : ColorCtx) (A : TblAttrsOf MatV) (r j : Nat) (isLast : Bool) (text : Model.Encode.Str)
    (width : Option Rat) (c : CellFmt) (h : encodeCell k A r j isLast text width = .ok c) :
    ∃ vfont font vcolor vbg vl vt vb bl bt bb,
      ilocV A.font r j = .ok vfont ∧ vfont.toInt = .ok font ∧ c.text.fontIdx = font - 1 ∧
      ilocV A.color r j = .ok vcolor ∧ c.text.color = (requested vcolor).map k.index ∧
      ilocV A.bg r j = .ok vbg ∧ c.text.bg = (requested vbg).map k.index ∧
      ilocV A.bcLeft r j = .ok vl ∧ c.left = some bl ∧ bl.color = (requested vl).map k.index ∧
      ilocV A.bcTop r j = .ok vt ∧ c.top = some bt ∧ bt.color = (requested vt).map k.index ∧
      ilocV A.bcBottom r j = .ok vb ∧ c.bottom = some bb ∧ bb.color = (requested vb).map k.index ∧
      (if isLast then ∃ vr br, ilocV A.bcRight r j = .ok vr ∧ c.right = some br ∧
          br.color = (requested vr).map k.index
       else c.right = none) := by
  rw [encodeCell_eq_cellOf] at h
  obtain ⟨vfont, font, vcolor, vbg, vl, vt, vb, bl, bt, bb, h1, h2, h3, h4, h5, h6, h7, h8, h9, h10, h11, h12, h13,
    h14, h15, h16, h17⟩ := cellOf_refs h
  simp only [colorRefV_eq] at h5 h7 h10 h13 h16 h17
  refine ⟨vfont, font, vcolor, vbg, vl, vt, vb, bl, bt, bb, h1, h2, h3, h4, h5, h6, h7, h8, h9, h10, h11, h12,
    h13, h14, h15, h16, ?_⟩
  cases isLast with
  | false =>
    simp only [Bool.false_eq_true, if_false] at h17 ⊢
    exact h17
  | true =>
    simp only [if_true] at h17 ⊢
    exact h17

/-- the lines of a title / subline / page header / page footer / paragraph footnote or source: line `i` prints the
references of the values read at `(i, 0)` -/
theorem C12enc_lines_refs (k : ColorCtx) (a : TextAttrsOf MatV) (text : List Model.Encode.Str)
    (ls : List (TextFmt × List Node)) (h : resolveLines k a text = .ok ls) :
    ls.length = text.length ∧ ∀ i t, text[i]? = some t → ∃ tf conv vfont font vcolor vbg,
      ls[i]? = some (tf, textNodes (convText conv t)) ∧
      ilocV a.font i 0 = .ok vfont ∧ vfont.toInt = .ok font ∧ tf.fontIdx = font - 1 ∧
      ilocV a.color i 0 = .ok vcolor ∧ tf.color = (requested vcolor).map k.index ∧
      ilocV a.bg i 0 = .ok vbg ∧ tf.bg = (requested vbg).map k.index := by
  obtain ⟨hl, hi⟩ := resolveLines_refs h
  refine ⟨hl, ?_⟩
  intro i t ht
  obtain ⟨tf, conv, vfont, font, vcolor, vbg, h1, h2, h3, h4, h5, h6, h7, h8, _⟩ := hi i t ht
  exact ⟨tf, conv, vfont, font, vcolor, vbg, h1, h2, h3, h4, h5, by rw [h6, colorRefV_eq], h7,
    by rw [h8, colorRefV_eq]⟩

/-! ## what was collected -/

/-- Every colour name an emitter can read (`BroadcastValue.iloc` at ANY position) from an attribute that
`collect_document_colors` looks at — the text / background / six border colours of the body, of footnote and source and
of every column header; the text and background colours of title, subline, page header and page footer — was
collected, so the reference printed for it is right and, for a non-default colour, resolves to its own row. -/
theorem C12enc_collected (d : Model.Encode.Doc) (rows : List ColorRow)
    (hrows : tableRows colorTable (usedColors d) = .ok rows) (a : Model.Encode.Attr) (ha : a ∈ collectedAttrs d)
    (M : MatV) (hM : a.toNested = .ok M) (r c : Nat) (v : Val) (hv : ilocV M r c = .ok v) (s : String)
    (hs : requested v = some s) :
    s ∈ usedColors d ∧ RefOk d rows s ((mkColorCtx d).index s) ∧
    (significant s = true → Resolves colorTable rows s ((mkColorCtx d).index s).toNat) := by
  obtain ⟨rfl, hne⟩ := requested_some hs
  have hmem := collected_read ha hM (ilocV_str_memV hv) hne
  have hr := C12enc_index d rows hrows s
  exact ⟨hmem, hr, fun hsig => hr.resolves hsig hmem⟩

/-- the attributes `collect_document_colors` looks at (`collectedAttrs`), spelled out: ALL eight colour attributes
(text, background, six border colours) of every table component — body, footnote, source, every column header (repo
fix: the border colours were formerly collected from the body only) — and text / background colour of title, subline,
page header, page footer (which have no borders) -/
theorem C12enc_collected_attrs (d : Model.Encode.Doc) :
    (∀ f : Field, Proofs.EncodeColor.Field.isBodyColor f = true → f.get d.body.attrs ∈ collectedAttrs d) ∧
    (∀ ft, (d.footnote = some ft ∨ d.source = some ft) →
      ∀ f : Field, Proofs.EncodeColor.Field.isBodyColor f = true → f.get ft.attrs ∈ collectedAttrs d) ∧
    (∀ h, some h ∈ d.headers →
      ∀ f : Field, Proofs.EncodeColor.Field.isBodyColor f = true → f.get h.attrs ∈ collectedAttrs d) ∧
    (∀ t, (d.title = some t ∨ d.subline = some t ∨ d.pageHeader = some t ∨ d.pageFooter = some t) →
      t.attrs.color ∈ collectedAttrs d ∧ t.attrs.bg ∈ collectedAttrs d) := by
  refine ⟨bodyColor_collected d, footColor_collected d, headerColor_collected d, ?_⟩
  intro t ht
  unfold collectedAttrs
  simp only [List.mem_append, List.mem_flatMap, List.mem_filterMap, List.mem_cons, List.not_mem_nil, or_false, id]
  rcases ht with h | h | h | h
  · exact ⟨Or.inl (Or.inl (Or.inl (Or.inr ⟨t, ⟨_, Or.inl rfl, h⟩, Or.inl rfl⟩))),
      Or.inl (Or.inl (Or.inl (Or.inr ⟨t, ⟨_, Or.inl rfl, h⟩, Or.inr rfl⟩)))⟩
  · exact ⟨Or.inl (Or.inl (Or.inl (Or.inr ⟨t, ⟨_, Or.inr rfl, h⟩, Or.inl rfl⟩))),
      Or.inl (Or.inl (Or.inl (Or.inr ⟨t, ⟨_, Or.inr rfl, h⟩, Or.inr rfl⟩)))⟩
  · exact ⟨Or.inl (Or.inr ⟨t, ⟨_, Or.inl rfl, h⟩, Or.inl rfl⟩), Or.inl (Or.inr ⟨t, ⟨_, Or.inl rfl, h⟩, Or.inr rfl⟩)⟩
  · exact ⟨Or.inl (Or.inr ⟨t, ⟨_, Or.inr rfl, h⟩, Or.inl rfl⟩), Or.inl (Or.inr ⟨t, ⟨_, Or.inr rfl, h⟩, Or.inr rfl⟩)⟩

/-! ## every reference of every data cell is right -/

/-- the reference `o` printed where the page attributes hold `read` at the cell's position: printed iff a non-empty
colour name `c` was read, and then `c` was collected and the index is right for the printed table -/
def Ref (d : Model.Encode.Doc) (rows : List ColorRow) (read : Except String Val) (o : Option Int) : Prop :=
  ∃ v, read = .ok v ∧ o = (requested v).map (mkColorCtx d).index ∧
    ∀ c, requested v = some c → c ∈ usedColors d ∧ RefOk d rows c ((mkColorCtx d).index c) ∧
      (significant c = true → Resolves colorTable rows c ((mkColorCtx d).index c).toNat)

/-- the colour reference of one border side (`none`: the side or its `\brdrcf` is not printed) -/
def sideColor (o : Option BorderFmt) : Option Int := o.bind (·.color)

/-- **C12 for the data cells of the encoder.**  For every accepted document, every `.data i` block of the trace and
every cell `j` of the row it was rendered to: the `\cf`, `\chcbpat`/`\cb` and the four `\brdrcf` references are
printed exactly when the body's attribute — sliced to the page, read at the cell's page-relative position — holds a
non-empty colour name; that name was collected from the document, the index is the context's, and for a non-default
colour it is the position of the colour's own row in the colour table the document prints. -/
theorem C12enc_data_cell (measure : Measure) (d : Model.Encode.Doc) (pl : Plan) (R : Trace) (rows : List ColorRow)
    (hp : plan measure d = .ok pl) (hR : Renders (mkColorCtx d) d pl R)
    (hrows : tableRows colorTable (usedColors d) = .ok rows)
    (x : PageCtx × List (Block × List Elem)) (hx : x ∈ R) (y : Block × List Elem) (hy : y ∈ x.2)
    (i : Nat) (hb : y.1 = Block.data i) :
    ∃ cells fmt, pl.rows[i]? = some cells ∧ y.2 = [rowElem fmt] ∧ fmt.cells.length = cells.length ∧
      ∀ j cf, fmt.cells[j]? = some cf →
        let A := (pageAttrs d pl.bodyA pl.p x.1).attrs
        let r := i - x.1.dataStart
        Ref d rows (ilocV A.color r j) cf.text.color ∧ Ref d rows (ilocV A.bg r j) cf.text.bg ∧
        Ref d rows (ilocV A.bcLeft r j) (sideColor cf.left) ∧ Ref d rows (ilocV A.bcTop r j) (sideColor cf.top) ∧
        Ref d rows (ilocV A.bcBottom r j) (sideColor cf.bottom) ∧
        (if j + 1 = cells.length then Ref d rows (ilocV A.bcRight r j) (sideColor cf.right) else cf.right = none) := by
  have h := hR.each x hx y hy
  rw [hb] at h
  simp only [renderBlock] at h
  split at h
  · next cells hcells =>
    obtain ⟨e, he, h⟩ := Proofs.Encode.bind_ok h
    have hy2 := (Proofs.Encode.pure_ok h).symm
    obtain ⟨_, fmt, rfl, hlen, hcell⟩ := encodeRow_cells he
    refine ⟨cells, fmt, hcells, hy2, hlen, ?_⟩
    intro j cf hcf A r
    have hj : j < cells.length := by rw [← hlen]; exact (List.getElem?_eq_some_iff.mp hcf).1
    obtain ⟨cf', hcf', henc⟩ := hcell j cells[j] (List.getElem?_eq_getElem hj)
    rw [hcf] at hcf'
    cases hcf'
    obtain ⟨vfont, font, vcolor, vbg, vl, vt, vb, bl, bt, bb, _, _, _, g4, g5, g6, g7, g8, g9, g10, g11, g12, g13,
      g14, g15, g16, g17⟩ := C12enc_cell_refs _ _ _ _ _ _ _ _ henc
    have mk : ∀ (f : Field), Proofs.EncodeColor.Field.isBodyColor f = true → ∀ v, ilocV (f.get A) r j = .ok v →
        Ref d rows (ilocV (f.get A) r j) ((requested v).map (mkColorCtx d).index) := by
      intro f hf v hread
      refine ⟨v, hread, rfl, ?_⟩
      intro c hc
      obtain ⟨rfl, hne⟩ := requested_some hc
      have hmem := page_read_collected hp x.1 f hf hread hne
      have hr := C12enc_index d rows hrows c
      exact ⟨hmem, hr, fun hsig => hr.resolves hsig hmem⟩
    refine ⟨?_, ?_, ?_, ?_, ?_, ?_⟩
    · rw [g5]; exact mk .color rfl _ g4
    · rw [g7]; exact mk .bg rfl _ g6
    · rw [g9]; show Ref d rows _ bl.color; rw [g10]; exact mk .bcLeft rfl _ g8
    · rw [g12]; show Ref d rows _ bt.color; rw [g13]; exact mk .bcTop rfl _ g11
    · rw [g15]; show Ref d rows _ bb.color; rw [g16]; exact mk .bcBottom rfl _ g14
    · by_cases hl : j + 1 = cells.length
      · rw [if_pos hl]
        have hb' : (j + 1 == cells.length) = true := by simpa using hl
        rw [hb'] at g17
        simp only [if_true] at g17
        obtain ⟨vr, br, q1, q2, q3⟩ := g17
        rw [q2]; show Ref d rows _ br.color; rw [q3]; exact mk .bcRight rfl _ q1
      · rw [if_neg hl]
        have hb' : (j + 1 == cells.length) = false := by simpa using hl
        rw [hb'] at g17
        simpa using g17
  · cases h

/-! ## the other positions: column headers, footnote / source, title / subline / page header / footer -/

/-- a reference read from an attribute `collect_document_colors` looks at is right -/
theorem ref_collected (d : Model.Encode.Doc) (rows : List ColorRow)
    (hrows : tableRows colorTable (usedColors d) = .ok rows) {a : Model.Encode.Attr} (ha : a ∈ collectedAttrs d)
    {M : MatV} (hM : a.toNested = .ok M) {r c : Nat} {v : Val} (hread : ilocV M r c = .ok v) :
    Ref d rows (ilocV M r c) ((requested v).map (mkColorCtx d).index) :=
  ⟨v, hread, rfl, fun s hs => C12enc_collected d rows hrows a ha M hM r c v hread s hs⟩

/-- ALL colour references of the cells of one table row of a component whose eight colour attributes are collected -/
theorem row_refs (d : Model.Encode.Doc) (rows : List ColorRow)
    (hrows : tableRows colorTable (usedColors d) = .ok rows) {attrs : TblAttrsOf Model.Encode.Attr}
    (hcoll : ∀ f : Field, Proofs.EncodeColor.Field.isBodyColor f = true → f.get attrs ∈ collectedAttrs d)
    {A A' : TblAttrsOf MatV} (hA : attrs.mapM Attr.toNested = .ok A) (hsame : SameColors A A')
    {cw : List Rat} {cells : List (Option Model.Encode.Str)} {e : Elem}
    (he : encodeRow (mkColorCtx d) A' cw 0 cells = .ok e) :
    ∃ fmt, e = rowElem fmt ∧ fmt.cells.length = cells.length ∧ ∀ j cf, fmt.cells[j]? = some cf →
      Ref d rows (ilocV A.color 0 j) cf.text.color ∧ Ref d rows (ilocV A.bg 0 j) cf.text.bg ∧
      Ref d rows (ilocV A.bcLeft 0 j) (sideColor cf.left) ∧ Ref d rows (ilocV A.bcTop 0 j) (sideColor cf.top) ∧
      Ref d rows (ilocV A.bcBottom 0 j) (sideColor cf.bottom) ∧
      (if j + 1 = cells.length then Ref d rows (ilocV A.bcRight 0 j) (sideColor cf.right) else cf.right = none) := by
  obtain ⟨_, fmt, rfl, hlen, hcell⟩ := encodeRow_cells he
  refine ⟨fmt, rfl, hlen, ?_⟩
  intro j cf hcf
  have hj : j < cells.length := by rw [← hlen]; exact (List.getElem?_eq_some_iff.mp hcf).1
  obtain ⟨cf', hcf', henc⟩ := hcell j cells[j] (List.getElem?_eq_getElem hj)
  rw [hcf] at hcf'
  cases hcf'
  obtain ⟨vfont, font, vcolor, vbg, vl, vt, vb, bl, bt, bb, _, _, _, g4, g5, g6, g7, g8, g9, g10, g11, g12, g13,
    g14, g15, g16, g17⟩ := C12enc_cell_refs _ _ _ _ _ _ _ _ henc
  obtain ⟨s1, s2, s3, s4, s5⟩ := hsame
  have e1 : A'.color = A.color := congrArg TextAttrsOf.color s1
  have e2 : A'.bg = A.bg := congrArg TextAttrsOf.bg s1
  rw [e1] at g4
  rw [e2] at g6
  rw [s2] at g8
  rw [s4] at g11
  rw [s5] at g14
  rw [s3] at g17
  have mk : ∀ (f : Field), Proofs.EncodeColor.Field.isBodyColor f = true → ∀ v, ilocV (f.get A) 0 j = .ok v →
      Ref d rows (ilocV (f.get A) 0 j) ((requested v).map (mkColorCtx d).index) :=
    fun f hf v hread => ref_collected d rows hrows (hcoll f hf) (get_mapM hA f) hread
  refine ⟨?_, ?_, ?_, ?_, ?_, ?_⟩
  · rw [g5]; exact mk .color rfl _ g4
  · rw [g7]; exact mk .bg rfl _ g6
  · rw [g9]; show Ref d rows _ bl.color; rw [g10]; exact mk .bcLeft rfl _ g8
  · rw [g12]; show Ref d rows _ bt.color; rw [g13]; exact mk .bcTop rfl _ g11
  · rw [g15]; show Ref d rows _ bb.color; rw [g16]; exact mk .bcBottom rfl _ g14
  · by_cases hl : j + 1 = cells.length
    · rw [if_pos hl]
      have hb' : (j + 1 == cells.length) = true := by simpa using hl
      rw [hb'] at g17
      simp only [if_true] at g17
      obtain ⟨vr, br, q1, q2, q3⟩ := g17
      rw [q2]; show Ref d rows _ br.color; rw [q3]; exact mk .bcRight rfl _ q1
    · rw [if_neg hl]
      have hb' : (j + 1 == cells.length) = false := by simpa using hl
      rw [hb'] at g17
      simpa using g17

/-- **column headers.**  Every cell of a rendered column header prints its `\cf`, `\chcbpat` and its three / four
`\brdrcf` exactly when the header's `text_color` / `text_background_color` / `border_color_left, _top, _bottom` (and
`_right` for the last cell) hold a non-empty name at `(0, j)`; the name was collected (the border colours since the repo
fix) and the index is right for the printed table: for a non-default colour, the position of the colour's own row. -/
theorem C12enc_header_cell (d : Model.Encode.Doc) (pl : Plan) (R : Trace) (rows : List ColorRow)
    (hR : Renders (mkColorCtx d) d pl R) (hrows : tableRows colorTable (usedColors d) = .ok rows)
    (x : PageCtx × List (Block × List Elem)) (hx : x ∈ R) (y : Block × List Elem) (hy : y ∈ x.2)
    (i : Nat) (hb : y.1 = Block.colHeader i) (hdr : Header) (hh : (d.headers[i]?).join = some hdr) :
    (headerText d pl.p hdr = none ∧ y.2 = []) ∨
    ∃ text A fmt, headerText d pl.p hdr = some text ∧ hdr.attrs.mapM Attr.toNested = .ok A ∧
      y.2 = [rowElem fmt] ∧ fmt.cells.length = text.length ∧ ∀ j cf, fmt.cells[j]? = some cf →
        Ref d rows (ilocV A.color 0 j) cf.text.color ∧ Ref d rows (ilocV A.bg 0 j) cf.text.bg ∧
        Ref d rows (ilocV A.bcLeft 0 j) (sideColor cf.left) ∧ Ref d rows (ilocV A.bcTop 0 j) (sideColor cf.top) ∧
        Ref d rows (ilocV A.bcBottom 0 j) (sideColor cf.bottom) ∧
        (if j + 1 = text.length then Ref d rows (ilocV A.bcRight 0 j) (sideColor cf.right) else cf.right = none) := by
  have h := hR.each x hx y hy
  rw [hb] at h
  simp only [renderBlock, hh] at h
  have hmem : some hdr ∈ d.headers := by
    cases hg : d.headers[i]? with
    | none => rw [hg] at hh; cases hh
    | some o =>
      rw [hg] at hh
      simp only [Option.join_some] at hh
      rw [← hh]; exact List.mem_of_getElem? hg
  rcases renderHeader_text h with h0 | ⟨text, ht, hin⟩
  · exact Or.inl h0
  · obtain ⟨A, A', cw, e, hA, hsame, hes, he⟩ := headerInner_row hin
    obtain ⟨fmt, rfl, hlen, hcells⟩ := row_refs d rows hrows (headerColor_collected d hdr hmem) hA hsame he
    rw [List.length_map] at hlen hcells
    exact Or.inr ⟨text, A, fmt, ht, hA, hes, hlen, hcells⟩

/-- **column headers without text of their own.**  A header object whose `text` is `None` is not "not rendered": with
`as_colheader = True` (the default) it is filled with the displayed column names and rendered with ITS formatting — one
cell per displayed column — and every `\cf`, `\chcbpat`, `\brdrcf` of that row is printed exactly when the header's own
attribute holds a non-empty name at `(0, j)`, the name was collected from the document (so it is in the printed table)
and the index is right.  (`collect_document_colors` must therefore look at headers with and without text alike:
`C12enc_collected_attrs` ranges over every `some h ∈ d.headers`.) -/
theorem C12enc_auto_header_cell (d : Model.Encode.Doc) (pl : Plan) (R : Trace) (rows : List ColorRow)
    (hR : Renders (mkColorCtx d) d pl R) (hrows : tableRows colorTable (usedColors d) = .ok rows)
    (x : PageCtx × List (Block × List Elem)) (hx : x ∈ R) (y : Block × List Elem) (hy : y ∈ x.2)
    (i : Nat) (hb : y.1 = Block.colHeader i) (hdr : Header) (hh : (d.headers[i]?).join = some hdr)
    (hnt : hdr.text = none) (hac : d.body.asColheader = true) :
    ∃ A fmt, hdr.attrs.mapM Attr.toNested = .ok A ∧
      y.2 = [rowElem fmt] ∧ fmt.cells.length = pl.p.dispCols.length ∧ ∀ j cf, fmt.cells[j]? = some cf →
        Ref d rows (ilocV A.color 0 j) cf.text.color ∧ Ref d rows (ilocV A.bg 0 j) cf.text.bg ∧
        Ref d rows (ilocV A.bcLeft 0 j) (sideColor cf.left) ∧ Ref d rows (ilocV A.bcTop 0 j) (sideColor cf.top) ∧
        Ref d rows (ilocV A.bcBottom 0 j) (sideColor cf.bottom) ∧
        (if j + 1 = pl.p.dispCols.length then Ref d rows (ilocV A.bcRight 0 j) (sideColor cf.right)
         else cf.right = none) := by
  have ht : headerText d pl.p hdr = some pl.p.dispCols := by
    unfold headerText
    rw [hnt]
    simp [hac]
  rcases C12enc_header_cell d pl R rows hR hrows x hx y hy i hb hdr hh with ⟨h0, _⟩ | ⟨text, A, fmt, h1, hA, hy2, hlen, hcells⟩
  · rw [ht] at h0; cases h0
  · rw [ht] at h1
    cases h1
    exact ⟨A, fmt, hA, hy2, hlen, hcells⟩

/-- **footnote / source as table**: the single cell's `\cf`, `\chcbpat` and all four `\brdrcf` references are right -/
theorem C12enc_foot_table_cell (d : Model.Encode.Doc) (rows : List ColorRow)
    (hrows : tableRows colorTable (usedColors d) = .ok rows) (f : Foot) (hf : d.footnote = some f ∨ d.source = some f)
    (o : Option String) (es : List Elem) (h : renderFoot (mkColorCtx d) d f o = .ok es) (hat : f.asTable = true) :
    ∃ A fmt cf, f.attrs.mapM Attr.toNested = .ok A ∧ es = [rowElem fmt] ∧ fmt.cells = [cf] ∧
      Ref d rows (ilocV A.color 0 0) cf.text.color ∧ Ref d rows (ilocV A.bg 0 0) cf.text.bg ∧
      Ref d rows (ilocV A.bcLeft 0 0) (sideColor cf.left) ∧ Ref d rows (ilocV A.bcTop 0 0) (sideColor cf.top) ∧
      Ref d rows (ilocV A.bcBottom 0 0) (sideColor cf.bottom) ∧ Ref d rows (ilocV A.bcRight 0 0) (sideColor cf.right) := by
  obtain ⟨A, A', cw, e, hA, hsame, hes, he⟩ := renderFoot_row h hat
  obtain ⟨fmt, rfl, hlen, hcells⟩ := row_refs d rows hrows (footColor_collected d f hf) hA hsame he
  simp only [List.length_cons, List.length_nil, Nat.zero_add] at hlen hcells
  cases hc : fmt.cells with
  | nil => rw [hc] at hlen; simp at hlen
  | cons cf rest =>
    rw [hc] at hlen
    have hr : rest = [] := List.eq_nil_of_length_eq_zero (by simpa using hlen)
    subst hr
    obtain ⟨h1, h2, h3, h4, h5, h6⟩ := hcells 0 cf (by rw [hc]; rfl)
    exact ⟨A, fmt, cf, hA, hes, hc, h1, h2, h3, h4, h5, by simpa using h6⟩

/-- **the lines of a text component** whose colours are collected (title, subline, page header, page footer; a
paragraph footnote / source through its text attributes): the `\cf` / `\chcbpat` of line `i` are right -/
theorem C12enc_lines (d : Model.Encode.Doc) (rows : List ColorRow)
    (hrows : tableRows colorTable (usedColors d) = .ok rows) (color bg : Model.Encode.Attr)
    (hc : color ∈ collectedAttrs d) (hb : bg ∈ collectedAttrs d) (a : TextAttrsOf MatV)
    (hca : color.toNested = .ok a.color) (hba : bg.toNested = .ok a.bg)
    (text : List Model.Encode.Str) (ls : List (TextFmt × List Node))
    (h : resolveLines (mkColorCtx d) a text = .ok ls) :
    ls.length = text.length ∧ ∀ i x, ls[i]? = some x →
      Ref d rows (ilocV a.color i 0) x.1.color ∧ Ref d rows (ilocV a.bg i 0) x.1.bg := by
  obtain ⟨hl, hi⟩ := C12enc_lines_refs _ a text ls h
  refine ⟨hl, ?_⟩
  intro i x hx
  have hit : i < text.length := by rw [← hl]; exact (List.getElem?_eq_some_iff.mp hx).1
  obtain ⟨tf, conv, vfont, font, vcolor, vbg, h1, _, _, _, h5, h6, h7, h8⟩ := hi i text[i] (List.getElem?_eq_getElem hit)
  rw [hx] at h1
  cases h1
  exact ⟨by rw [h6]; exact ref_collected d rows hrows hc hca h5, by rw [h8]; exact ref_collected d rows hrows hb hba h7⟩

/-- title, subline, page header, page footer -/
theorem C12enc_text_component (d : Model.Encode.Doc) (rows : List ColorRow)
    (hrows : tableRows colorTable (usedColors d) = .ok rows) (c : TextComp)
    (hc : d.title = some c ∨ d.subline = some c ∨ d.pageHeader = some c ∨ d.pageFooter = some c)
    (a : TextAttrsOf MatV) (ha : c.attrs.mapM Attr.toNested = .ok a) (text : List Model.Encode.Str)
    (ls : List (TextFmt × List Node)) (h : resolveLines (mkColorCtx d) a text = .ok ls) :
    ls.length = text.length ∧ ∀ i x, ls[i]? = some x →
      Ref d rows (ilocV a.color i 0) x.1.color ∧ Ref d rows (ilocV a.bg i 0) x.1.bg := by
  obtain ⟨h1, h2⟩ := (C12enc_collected_attrs d).2.2.2 c hc
  obtain ⟨_, g2, g3⟩ := textAttrs_mapM_fields ha
  exact C12enc_lines d rows hrows _ _ h1 h2 a g2 g3 text ls h

/-- **spanning group headings**: the single cell's `\cf` / `\chcbpat` are the references of the body's `text_color` /
`text_background_color` at row 0 of the page_by column (nothing when the body holds none) — collected, hence right; its
borders carry no `\brdrcf` -/
theorem C12enc_heading_cell (measure : Measure) (d : Model.Encode.Doc) (pl : Plan) (R : Trace) (rows : List ColorRow)
    (hp : plan measure d = .ok pl) (hR : Renders (mkColorCtx d) d pl R)
    (hrows : tableRows colorTable (usedColors d) = .ok rows)
    (x : PageCtx × List (Block × List Elem)) (hx : x ∈ R) (y : Block × List Elem) (hy : y ∈ x.2)
    (lvl : Nat) (t : String) (hb : y.1 = Block.heading lvl t) :
    ∃ fmt cf, y.2 = [rowElem fmt] ∧ fmt.cells = [cf] ∧
      Ref d rows (spanRead d lvl pl.bodyA.color (.str "")) cf.text.color ∧
      Ref d rows (spanRead d lvl pl.bodyA.bg (.str "")) cf.text.bg ∧
      sideColor cf.left = none ∧ sideColor cf.top = none ∧ sideColor cf.right = none ∧ sideColor cf.bottom = none := by
  have h := hR.each x hx y hy
  rw [hb] at h
  simp only [renderBlock] at h
  obtain ⟨e, he, h⟩ := Proofs.Encode.bind_ok h
  have hy2 := (Proofs.Encode.pure_ok h).symm
  obtain ⟨fmt, cf, vcolor, vbg, rfl, h2, h3, h4, h5, h6, h7⟩ := spanningRow_refs he
  obtain ⟨_, hA, _, _⟩ := plan_ok hp
  have mk : ∀ (f : Field), Proofs.EncodeColor.Field.isBodyColor f = true → ∀ v,
      spanRead d lvl (f.get pl.bodyA) (.str "") = .ok v →
      Ref d rows (spanRead d lvl (f.get pl.bodyA) (.str "")) ((requested v).map (mkColorCtx d).index) := by
    intro f hf v hread
    cases hfa : f.get pl.bodyA with
    | none =>
      rw [hfa] at hread
      simp only [spanRead, Except.ok.injEq] at hread
      subst hread
      exact ⟨_, rfl, rfl, fun c hc => by simp [requested] at hc⟩
    | some m =>
      rw [hfa] at hread
      simp only [spanRead] at hread ⊢
      have := ref_collected d rows hrows (bodyColor_collected d f hf) (get_mapM hA f) (by rw [hfa]; exact hread)
      rw [hfa] at this
      exact this
  have sc : ∀ o ∈ [cf.left, cf.top, cf.right, cf.bottom], sideColor o = none := by
    intro o ho
    cases o with
    | none => rfl
    | some b => exact h7 _ ho b rfl
  refine ⟨fmt, cf, hy2, h2, ?_, ?_, sc _ (by simp), sc _ (by simp), sc _ (by simp), sc _ (by simp)⟩
  · rw [h4, colorRefV_eq]; exact mk .color rfl _ h3
  · rw [h6, colorRefV_eq]; exact mk .bg rfl _ h5

/-! ## fonts -/

/-- `\f{font-1}` names the entry of the emitted font table that carries the name the library associates with the
requested font number (1..10); the emitted table has exactly the entries `\f0 … \f9` -/
theorem C12enc_fonts (k : ColorCtx) (v : TextVals) (tf : TextFmt) (conv : Bool)
    (h : resolveText k v = .ok (tf, conv)) (n : Nat) (hv : v.font = .int n) (h1 : 1 ≤ n) (h10 : n ≤ 10) :
    tf.fontIdx = ((n - 1 : Nat) : Int) ∧
    ∃ es name, fontEntries fontTable = .ok es ∧ es.map (·.num) = List.range 10 ∧
      fontEntryName es (n - 1) = some name ∧ fontNumberToName.lookup n = some name := by
  obtain ⟨font, f1, f2, _, _⟩ := C12enc_text_refs k v tf conv h
  rw [hv] at f1
  simp only [Val.toInt, Except.ok.injEq] at f1
  obtain ⟨es, name, g1, _, g3, g4⟩ := Props.C12.C12_fonts n h1 h10
  obtain ⟨es', g1', g5⟩ := Props.C12.C12_font_table_entries
  rw [g1] at g1'
  cases g1'
  refine ⟨by rw [f2, ← f1]; omega, es, name, g1, g5, g3, g4⟩

/-- the font table in the head of an accepted document is the text `generate_font_table` returns, printed as it is -/
theorem C12enc_font_table (measure : Measure) (d : Model.Encode.Doc) (g : DocG) (h : encode measure d = .ok g) :
    ∃ fontTbl pre post, fontTableText fontTable = .ok fontTbl ∧
      g.head = pre ++ textNodes fontTbl.toList ++ post ∧
      printNodes (textNodes fontTbl.toList) = fontTbl.toList := by
  obtain ⟨fontTbl, colorTbl, hdr, ftr, ps, hfont, _, _, _, _, hhead⟩ := encode_head h
  refine ⟨fontTbl, [cw0 "ansi", Node.nl, cwi "deff" 0, cwi "deflang" 1033, Node.nl],
    [Node.nl] ++ textNodes colorTbl.toList ++ [Node.nl, Node.nl, Node.nl] ++ hdr ++ [Node.nl] ++ ftr ++ [Node.nl] ++
      ps ++ [Node.nl], hfont, ?_, Proofs.LexPrint.print_lexNodes _⟩
  rw [hhead]
  simp only [List.append_assoc]

/-! ## the repaired defect: border colours of column headers, footnote and source -/

open Props.C01enc in
/-- the example document with `border_color_left = "red"` on the column header and no other colour anywhere -/
def redLeftHeader : Header :=
  { text := none, colRelWidth := none, attrs := { exTbl with bcLeft := sc (.str "red") } }

open Props.C01enc in
def exHeaderBorder : Model.Encode.Doc := { exDoc [1, 2] with headers := [some redLeftHeader] }

set_option maxRecDepth 100000

open Props.C01enc in
/-- Formerly a FINDING (`C12enc_finding_uncollected_border_color`: `collect_document_colors` read the `border_color_*`
attributes of the body only, so this document printed `\brdrcf0` and no colour table; reproduced on the real
`rtf_encode()` and repaired in rtflite).  Now: `"red"` is collected from the header's `border_color_left`, its index is
1, and the string the encoder returns contains `\brdrcf1`, no `\brdrcf0`, and the one-row colour table — as
`C12enc_header_cell` says for every document. -/
example :
    significant "red" = true ∧ usedColors exHeaderBorder = ["red"] ∧
    (mkColorCtx exHeaderBorder).index "red" = 1 ∧
    (match encodeText exMeasure exHeaderBorder with
     | .ok s => Proofs.EncodeText.hasInfix "\\brdrcf1".toList s && !Proofs.EncodeText.hasInfix "\\brdrcf0".toList s &&
         Proofs.EncodeText.hasInfix "{\\colortbl;\n\\red255\\green0\\blue0;\n}".toList s
     | .error _ => false) = true ∧
    useOk colorTable [none, some (255, 0, 0)] { idx := 1, requested := "red" } = true := by
  refine ⟨by decide, by decide +kernel, by decide +kernel, by decide +kernel, by decide +kernel⟩

open Props.C01enc in
/-- a column header WITHOUT text (filled from the column names) that carries the only colours of the document: a text
colour, a background and a bottom border colour -/
def colouredAutoHeader : Header :=
  { text := none, colRelWidth := none,
    attrs := { exTbl with color := sc (.str "red"), bg := sc (.str "gold"), bcBottom := sc (.str "blue") } }

open Props.C01enc in
def exAutoHeader : Model.Encode.Doc := { exDoc [1, 2] with headers := [some colouredAutoHeader] }

open Props.C01enc in
/-- The colours of a text-less (auto-populated) column header are collected although the object has no text: the table
blue(26) < gold(142) < red(552) is printed and the header row refers to it — `\cf3`, `\chcbpat2`, `\brdrcf1` — never to
index 0 (`C12enc_auto_header_cell` on a concrete document; a collector that skips components without text would print
no colour table and `\cf0 \chcbpat0 \brdrcf0` here). -/
example :
    colouredAutoHeader.text = none ∧ exAutoHeader.body.asColheader = true ∧
    (usedColors exAutoHeader).Perm ["red", "gold", "blue"] ∧
    (match encodeText exMeasure exAutoHeader with
     | .ok s => Proofs.EncodeText.hasInfix "\\cf3".toList s && Proofs.EncodeText.hasInfix "\\chcbpat2".toList s &&
         Proofs.EncodeText.hasInfix "\\brdrcf1".toList s && !Proofs.EncodeText.hasInfix "\\cf0".toList s &&
         !Proofs.EncodeText.hasInfix "\\chcbpat0".toList s && !Proofs.EncodeText.hasInfix "\\brdrcf0".toList s &&
         Proofs.EncodeText.hasInfix "{\\colortbl;\n\\red0\\green0\\blue255;\n\\red255\\green215\\blue0;\n\\red255\\green0\\blue0;\n}".toList s
     | .error _ => false) = true := by
  refine ⟨rfl, rfl, by decide +kernel, by decide +kernel⟩

/-! ## non-vacuity -/

open Props.C01enc in
/-- coloured cells (`text_color` per column, a background), coloured body borders, a coloured title -/
def exColoured : Model.Encode.Doc :=
  { exDoc [1, 2] with
    title := some { text := some ["Title".toList], attrs := { exText with color := .tuple [.str "blue"] } },
    body := { (exDoc [1, 2]).body with
      attrs := { exTbl with color := .nested [[.str "red", .str "black"]], bg := sc (.str "gold"),
                            bcLeft := sc (.str "blue"), bcTop := sc (.str "") } } }

open Props.C01enc in
/-- The encoder accepts the coloured example; the collected colours are red, gold, blue (black is collected too and is a
default); the printed table is blue(26) < gold(142) < red(552) — so red is `\cf3`, gold `\chcbpat2`, blue `\brdrcf1` and
`\cf1` in the title, black no table entry and index 0 — and all of these occur in the output. -/
example :
    (match encodeText exMeasure exColoured with
     | .ok s => Proofs.EncodeText.hasInfix "\\cf3".toList s && Proofs.EncodeText.hasInfix "\\chcbpat2".toList s &&
         Proofs.EncodeText.hasInfix "\\brdrcf1".toList s && Proofs.EncodeText.hasInfix "\\cf0".toList s &&
         Proofs.EncodeText.hasInfix "{\\colortbl;\n\\red0\\green0\\blue255;\n\\red255\\green215\\blue0;\n\\red255\\green0\\blue0;\n}".toList s
     | .error _ => false) = true ∧
    (usedColors exColoured).Perm ["red", "black", "gold", "blue"] ∧
    ((tableRows colorTable (usedColors exColoured)).toOption.map (·.map (·.idx))) = some [26, 142, 552] ∧
    (mkColorCtx exColoured).index "red" = 3 ∧ (mkColorCtx exColoured).index "gold" = 2 ∧
    (mkColorCtx exColoured).index "blue" = 1 ∧ (mkColorCtx exColoured).index "black" = 0 := by
  refine ⟨by decide +kernel, by decide +kernel, by decide +kernel, by decide +kernel, by decide +kernel,
    by decide +kernel, by decide +kernel⟩

end Props.C12enc
