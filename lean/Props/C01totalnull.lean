import Model.Rtf
import Model.Encode
import Model.EncodeDomain
import Model.EncodeAccepted
import Model.GroupBySpec
import Proofs.EncodeTotalDoc
import Props.C01total
/-!
# C01, first clause, on columns WITHOUT VALUES

C01 quantifies over "all DataFrames (… nulls)".  A column may hold nothing but nulls: in polars it then has the dtype
`Null` (`pl.DataFrame({"c": [None] * n})`) or a concrete dtype without a value (`pl.Series([None] * n, dtype=pl.Int64)`).
The encoder model works on display cells (`rows : List (List (Option Str))`), so both are a column of `none` — the
model has no dtype to trip over, and the harness shows on every run (data-shape class, `harness/datashapes.py`) that
the real encoder agrees with it byte for byte on such columns in every role, on every page.

What the property says about them is proved here: **group_by over columns that hold nothing but nulls is never
refused** — the hierarchical key of every level is one constant, hence contiguous, whatever the number of levels, rows
and pages; with `C01_encode_total` the encoder returns a document.
-/
namespace Props.C01totalnull
open Model.Rtf Model.Encode Model.EncodeDomain Model.EncodeAccepted Proofs.EncodeTotal Model.GroupBy

/-- a key sequence that never changes is contiguous -/
theorem C01_constant_keys_contiguous {α} [DecidableEq α] (k : α) :
    ∀ ks : List α, (∀ x ∈ ks, x = k) → contigB ks = true
  | [], _ => rfl
  | v :: vs, h => by
    have hv : v = k := h v (List.mem_cons_self ..)
    have hvs : ∀ x ∈ vs, x = k := fun x hx => h x (List.mem_cons_of_mem _ hx)
    simp only [contigB, Bool.and_eq_true, decide_eq_true_eq]
    refine ⟨?_, C01_constant_keys_contiguous k vs hvs⟩
    intro _
    cases vs with
    | nil => contradiction
    | cons w ws =>
      have hw : w = k := hvs w (List.mem_cons_self ..)
      simp [hw, hv]

/-- key columns whose first `n` cells are all null: the keys of every prefix level are contiguous (the decidable
refusal test of `validate_data_sorting` passes) -/
theorem C01_null_keys_contiguous (gcols : List Col) (n : Nat)
    (h : ∀ c ∈ gcols, ∀ i, i < n → cellAt c i = none) : allLevelsContiguousB gcols n = true := by
  simp only [allLevelsContiguousB, List.all_eq_true, List.mem_range]
  intro l _
  apply C01_constant_keys_contiguous ((gcols.take (l + 1)).map fun _ => (none : Cell))
  intro x hx
  obtain ⟨i, hi, rfl⟩ := List.mem_map.mp hx
  have hi' : i < n := List.mem_range.mp hi
  unfold hkey
  apply List.map_congr_left
  intro c hc
  exact h c (List.mem_of_mem_take hc) i hi'

/-- decidable: every cell of every group_by column of the frame handed to the grouping service is null (whatever the
column's polars dtype: untyped `Null`, or a concrete dtype without a value) -/
def groupKeysAllNull (d : Doc) : Bool :=
  match prepare d with
  | .error _ => true
  | .ok p => d.body.groupByL.all fun name =>
      (getCol (toFrame p.dispCols p.dispRows) name).all fun cell => cell.isNone

/-- a column of nulls reads null at every row -/
theorem C01_cellAt_null_column (c : Col) (h : ∀ cell ∈ c, cell.isNone = true) (i : Nat) : cellAt c i = none := by
  unfold cellAt
  cases hci : c[i]? with
  | none => rfl
  | some x =>
    have hx : x ∈ c := List.mem_of_getElem? hci
    have := h x hx
    cases x with
    | none => rfl
    | some v => simp at this

/-- … so a document whose group_by columns hold nothing but nulls has contiguous keys -/
theorem C01_null_group_keys (d : Doc) (hnull : groupKeysAllNull d = true) : GroupKeysContiguous d := by
  apply (Props.C01total.C01_groupKeysContiguous_decidable d).mp
  unfold groupKeysContiguous
  unfold groupKeysAllNull at hnull
  cases hp : prepare d with
  | error e => rfl
  | ok p =>
    rw [hp] at hnull
    simp only [List.all_eq_true] at hnull
    simp only
    apply C01_null_keys_contiguous
    intro c hc i _
    obtain ⟨name, hname, rfl⟩ := List.mem_map.mp hc
    exact C01_cellAt_null_column _ (hnull name (List.mem_eraseDups.mp hname)) i

/-- **C01, totality, group_by over columns without values**: an accepted configuration inside the quantifier whose
group_by columns hold nothing but nulls encodes — the one refusal C01 allows cannot occur -/
theorem C01_encode_total_null_keys (measure : Measure) (d : Doc) (ha : Accepted d) (hs : ShapesInQuantifier d)
    (hm : MeasureOk measure d) (hnull : groupKeysAllNull d = true) : ∃ g, encode measure d = .ok g :=
  Props.C01total.C01_encode_total_contiguous measure d ha hs hm (C01_null_group_keys d hnull)

/-- … and what it returns prints to well-formed RTF -/
theorem C01_encode_total_null_keys_wellformed (measure : Measure) (d : Doc) (ha : Accepted d)
    (hs : ShapesInQuantifier d) (hm : MeasureOk measure d) (hdom : InDomain d)
    (hnull : groupKeysAllNull d = true) : ∃ g, encode measure d = .ok g ∧ wellFormed (printDoc g) = true :=
  Props.C01total.C01_encode_total_wellformed measure d ha hs hm hdom (C01_null_group_keys d hnull)

/-! ## non-vacuity: the example of `Props/C01total.lean` with group_by columns that hold no value, on several pages -/

open Props.C01total in
/-- `exDoc` (page_by `g`, five rows, `nrow = 5`: several pages) with group_by over `a` and `b`, every cell of both null -/
def exNullKeys : Doc :=
  { exDoc with
    rows := [[some "A".toList, none, none],
             [some "A".toList, none, none],
             [some "B".toList, none, none],
             [some "B".toList, none, none],
             [some "B".toList, none, none]],
    body := { exDoc.body with groupBy := some ["a".toList, "b".toList] } }

open Props.C01total in
/-- the same with one value in `b`, at the end of its parent group: null except one value, still contiguous -/
def exOneValue : Doc :=
  { exNullKeys with
    rows := [[some "A".toList, none, none],
             [some "A".toList, none, none],
             [some "B".toList, none, none],
             [some "B".toList, none, none],
             [some "B".toList, none, some "5".toList]] }

set_option maxRecDepth 100000

open Props.C01total in
/-- the hypotheses of `C01_encode_total_null_keys_wellformed` hold of the first -/
example : Accepted exNullKeys ∧ ShapesInQuantifier exNullKeys ∧ MeasureOk exMeasure exNullKeys ∧
    InDomain exNullKeys ∧ groupKeysAllNull exNullKeys = true := by decide +kernel

open Props.C01total in
/-- the theorem applied: it encodes, and the result is well-formed -/
example : ∃ g, encode exMeasure exNullKeys = .ok g ∧ wellFormed (printDoc g) = true :=
  C01_encode_total_null_keys_wellformed exMeasure exNullKeys (by decide +kernel) (by decide +kernel)
    (by decide +kernel) (by decide +kernel) (by decide +kernel)

open Props.C01total in
/-- the second is covered by the general theorem through the decidable contiguity test -/
example : ∃ g, encode exMeasure exOneValue = .ok g ∧ wellFormed (printDoc g) = true :=
  C01_encode_total_wellformed exMeasure exOneValue (by decide +kernel) (by decide +kernel) (by decide +kernel)
    (by decide +kernel) ((C01_groupKeysContiguous_decidable exOneValue).mp (by decide +kernel))

end Props.C01totalnull
