import Generated.PyCellAsRtf
import Props.C01py
/-!
# C01 — translator tie for the cell-definition emitter

`Generated.Py.CellAsRtf.run` is regenerated on every run from the source of `Cell._as_rtf` (`row.py`); it calls the
translated `Border._as_rtf`.  Proved here: the string it builds is the printed form of the model's cell definition,
`Model.Emit.cellDefn` (without the newline the caller's `"\n".join` puts in front) followed by `\cellxN` — the
`defn` / `cellx` of the row grammar that C01's well-formedness theorems are about.
-/
set_option linter.unusedSimpArgs false
namespace Props.C01pyc
open Model.Rtf Model.Emit Generated.Py Generated.Py.CellAsRtf Props.C01py

/-- a border of the Python cell against a border of the model cell: both absent, or the style has the code of the
model's control word and the colour resolves to the model's index -/
def BorderRel (bc : List Nat → Option (List Nat)) (gci : List Nat → Except Exc Int) :
    Option Border → Option BorderFmt → Prop
  | none, none => True
  | some b, some m => bc b.style = some (codeText m.style) ∧ m.width = b.width ∧
      (match b.color with
        | none => m.color = none
        | some c => ∃ k, gci c = .ok k ∧ m.color = some k)
  | _, _ => False

/-- one optional border: the statement `if self.border_x is not None: rtf.append("\\clbrdrx" + …)` appends exactly the
printed `optBorder` (or nothing) -/
theorem border_step (bc gci) (side : String) (pb : Option Border) (mb : Option BorderFmt)
    (h : BorderRel bc gci pb mb) :
    (match pb with
      | none => (pure [] : Except Exc (List (List Nat)))
      | some b => do
        let t ← BorderAsRtf.run bc gci b.style b.width b.color
        pure [cps ('\\' :: side.toList) ++ t]) =
    .ok (match mb with
      | none => []
      | some _ => [cps (printNodes (optBorder side mb))]) := by
  rcases pb with _ | b <;> rcases mb with _ | m <;> simp only [BorderRel] at h
  · rfl
  · obtain ⟨h1, h2, h3⟩ := h
    rcases m with ⟨ms, mw, mc⟩
    simp only at h1 h2 h3
    subst h2
    have := C01py_border_translated bc gci side b.style b.width b.color ms mc h1 h3
    cases hr : BorderAsRtf.run bc gci b.style b.width b.color with
    | error e => rw [hr] at this; simp [Except.map] at this
    | ok r =>
      rw [hr] at this
      simp only [Except.map, Except.ok.injEq] at this
      simp only [hr, bind, Except.bind, pure, Except.pure, optBorder, this]

/-- the same, as a case distinction that a proof about the generated state-passing code can consume -/
theorem border_cases (bc gci) (side : String) (pb : Option Border) (mb : Option BorderFmt)
    (h : BorderRel bc gci pb mb) :
    (pb = none ∧ mb = none) ∨
    (∃ b m r, pb = some b ∧ mb = some m ∧ BorderAsRtf.run bc gci b.style b.width b.color = .ok r ∧
      cps ('\\' :: side.toList) ++ r = cps (printNodes (borderNodes side m))) := by
  rcases pb with _ | b <;> rcases mb with _ | m <;> simp only [BorderRel] at h
  · exact .inl ⟨rfl, rfl⟩
  · obtain ⟨h1, h2, h3⟩ := h
    rcases m with ⟨ms, mw, mc⟩
    simp only at h1 h2 h3
    subst h2
    have := C01py_border_translated bc gci side b.style b.width b.color ms mc h1 h3
    cases hr : BorderAsRtf.run bc gci b.style b.width b.color with
    | error e => rw [hr] at this; simp [Except.map] at this
    | ok r =>
      rw [hr] at this
      simp only [Except.map, Except.ok.injEq] at this
      exact .inr ⟨b, _, r, rfl, rfl, hr, this⟩

/-- the vertical-alignment control words, printed -/
theorem print_valign (ws : List (List Char)) :
    cps (printNodes (ws.map fun w => Node.cw w none false)) = ws.flatMap fun w => cps ('\\' :: w) := by
  induction ws with
  | nil => rfl
  | cons w ws ih =>
    simp only [List.map_cons, printNodes, printNode, List.flatMap_cons, cps_append, ih]
    simp [cps]

/-- **the translated `Cell._as_rtf` prints the model's cell definition and `\cellxN`** -/
theorem C01py_cell_translated (bc gci vac) (i2t : Rat → Int) (bl bt br bb : Option Border)
    (vj : Option (List Nat)) (width : Rat) (c : CellFmt)
    (hl : BorderRel bc gci bl c.left) (ht : BorderRel bc gci bt c.top)
    (hr : BorderRel bc gci br c.right) (hb : BorderRel bc gci bb c.bottom)
    (hv : match vj with
      | none => c.valign = []
      | some v => vac v = some (c.valign.flatMap fun w => cps ('\\' :: w)))
    (hx : i2t width = c.cellx) :
    run bc gci vac i2t bl bt br bb vj width =
      .ok (cps (printNodes ((cellDefn c).tail ++ [cwi "cellx" c.cellx]))) := by
  have el : ([92, 99, 108, 98, 114, 100, 114, 108] : List Nat) = cps ('\\' :: "clbrdrl".toList) := by decide
  have et : ([92, 99, 108, 98, 114, 100, 114, 116] : List Nat) = cps ('\\' :: "clbrdrt".toList) := by decide
  have er : ([92, 99, 108, 98, 114, 100, 114, 114] : List Nat) = cps ('\\' :: "clbrdrr".toList) := by decide
  have eb : ([92, 99, 108, 98, 114, 100, 114, 98] : List Nat) = cps ('\\' :: "clbrdrb".toList) := by decide
  have ex : ([92, 99, 101, 108, 108, 120] : List Nat) = cps ('\\' :: "cellx".toList) := by decide
  have hcx : cps (printNodes [cwi "cellx" c.cellx]) = cps ('\\' :: "cellx".toList) ++ strOfInt c.cellx := by
    simp [printNodes, printNode, cwi, cps, strOfInt_digits]
  rcases c with ⟨cl, ct, cr, cb, cv, cx, ctext, cbody⟩
  simp only at hl ht hr hb hv hx hcx
  have h1 := trivial; have h2 := trivial; have h3 := trivial; have h4 := trivial
  have p1 := trivial; have p2 := trivial; have p3 := trivial; have p4 := trivial
  rcases border_cases bc gci "clbrdrl" bl cl hl with ⟨rfl, rfl⟩ | ⟨b1, m1, r1, rfl, rfl, h1, p1⟩ <;>
  rcases border_cases bc gci "clbrdrt" bt ct ht with ⟨rfl, rfl⟩ | ⟨b2, m2, r2, rfl, rfl, h2, p2⟩ <;>
  rcases border_cases bc gci "clbrdrr" br cr hr with ⟨rfl, rfl⟩ | ⟨b3, m3, r3, rfl, rfl, h3, p3⟩ <;>
  rcases border_cases bc gci "clbrdrb" bb cb hb with ⟨rfl, rfl⟩ | ⟨b4, m4, r4, rfl, rfl, h4, p4⟩ <;>
  rcases vj with _ | v <;>
  simp only [CellAsRtf.run, h1, h2, h3, h4, hv, pyDictGet, bind, Except.bind, pure, Except.pure, el, et, er, eb, ex, hx,
    pyJoin_nil, List.nil_append, List.append_assoc] <;>
  simp only [cellDefn, optBorder, List.singleton_append, List.cons_append, List.tail_cons, List.map_nil,
    Proofs.Emit.printNodes_append, cps_append, List.append_assoc, List.nil_append, List.append_nil] <;>
  (try simp only [← p1]) <;> (try simp only [← p2]) <;> (try simp only [← p3]) <;> (try simp only [← p4]) <;>
  simp only [hcx, print_valign] <;>
  simp [hv, cps, printNodes]

end Props.C01pyc
