import Model.Validate
import Model.ValidateSpec
import Proofs.Validate
/-!
# C19 — invalid configuration is rejected up front with `ValueError`

Model: `Model.Validate` (validator rule table of `attributes.py`, `input.py`, `encode.py`; the repaired
tree: fixes `d20-validator-field-name`, `d25-cell-justification-row-codes`, `figure-size-positive`).
Specification: `Model.ValidateSpec` (documented value sets as literals, the statement's domain of shapes).

Statement clause → theorem
* "an unknown border style, colour, font number, format letter, justification, vertical alignment …
  a non-positive … col_rel_width, border_width, cell_height or font size … wherever in a scalar, vector or
  matrix attribute the bad value sits" → `C19_bad_element_rejected`, `C19_illegal_value_rejected`,
  `C19_validate_ok_iff` (the loops visit every element), `C19_component_illegal_rejected`
* "orientation or placement keyword, non-positive width, height, nrow, col_width, a margin list not of
  length 6" → `C19_page_*`
* "new_page without page_by" → `C19_new_page_needs_page_by`
* "FileNotFoundError for a missing figure file", figure keywords and sizes → `C19_figure_*`
* "grouping columns missing from the data, a DataFrame together with a figure (or neither), mismatched
  multi-section list lengths" → `C19_document_*`; over real frames (column names + number of rows), a bad
  name at any position of any grouping list, in any section, with any number of rows →
  `C19_missing_name_any_position`, `C19_document_rows_irrelevant`, `C19_document_missing_column_any_rows`,
  `C19_document_missing_column_any_section`, `C19_document_data_rejects` / `_accepts`
* "No document object and no RTF string is produced" → `C19_no_output`
* the value sets the code uses are the documented ones → `C19_tables_documented`
-/
namespace Props.C19
open Model.Validate Model.ValidateSpec Proofs.Validate

/-! ## the code tables are the documented value sets (re-opened by any edit of a table in the source) -/

theorem C19_tables_documented :
    borderKeys = docBorderStyles ∧ formatKeys = docFormatCodes ∧ textJustKeys = docTextJust ∧
    rowJustKeys = docRowJust ∧ vertAlignKeys = docVertAlign ∧ fontNumbers = docFontNumbers ∧
    colorNames.length = docColorCount :=
  ⟨borderKeys_doc, formatKeys_doc, textJustKeys_doc, rowJustKeys_doc, vertAlignKeys_doc, fontNumbers_doc,
   colorNames_length⟩

/-- font numbers are exactly 1..10 -/
theorem C19_font_numbers (i : Int) : fontNumbers.contains i = true ↔ 1 ≤ i ∧ i ≤ 10 := by
  rw [fontNumbers_doc]
  simp [docFontNumbers]
  omega

/-! ## one attribute: every element is visited -/

/-- A bad element (fails the type check or the validator's test) that is not `None`, at **any** position of
**any** shape — scalar, list, tuple, nested list, ragged or not — of **any** validated field, on a table
component or a text component, makes the field validation fail with pydantic's `ValidationError`
(a `ValueError`) — never `AttributeError`, `IndexError`, `TypeError`. -/
theorem C19_bad_element_rejected (table : Bool) (f : Field) (x : Raw)
    (h : ∃ v ∈ x.elems, v ≠ .null ∧ elemOk f v = false) :
    ∃ e, validateField table f x = .error e ∧ e.isValueError = true := by
  obtain ⟨v, hv, hnn, hbad⟩ := h
  exact ⟨.validationError, validateField_bad table f x v hv hnn hbad, rfl⟩

/-- The same in the statement's words: a well-typed element outside the *documented* legal set. -/
theorem C19_illegal_value_rejected (table : Bool) (f : Field) (x : Raw) (v : Val)
    (hv : v ∈ x.elems) (hwt : wellTyped f v = true) (hill : legal f v = false) :
    validateField table f x = .error .validationError := by
  apply validateField_bad table f x v hv (wellTyped_ne_null hwt)
  rw [← legal_eq_elemOk f v hwt]; exact hill

/-- The validator loops visit every element: inside the statement's domain of shapes a value is accepted
**iff** every element is good. -/
theorem C19_validate_ok_iff (table : Bool) (f : Field) (x : Raw)
    (hshape : shapeOk f x = true) (hnn : ∀ v ∈ x.elems, v ≠ .null) :
    validateField table f x = .ok () ↔ ∀ v ∈ x.elems, elemOk f v = true := by
  constructor
  · intro hok v hv
    cases hb : elemOk f v with
    | true => rfl
    | false =>
      rw [validateField_bad table f x v hv (hnn v hv) hb] at hok
      cases hok
  · exact validateField_good table f x hshape

/-- … and the only other outcome there is `ValidationError`. -/
theorem C19_validate_outcomes (table : Bool) (f : Field) (x : Raw) (h : inDomain f x = true) :
    validateField table f x = .ok () ∨ validateField table f x = .error .validationError := by
  rw [validateField_domain table f x h]
  by_cases hall : x.elems.all (elemOk f) = true <;> simp [hall]

/-! ## component constructors (RTFBody, RTFColumnHeader, RTFFootnote, RTFSource, RTFTitle, RTFSubline,
RTFPageHeader, RTFPageFooter) -/

/-- the specification verdict `reject` is met: construction raises a ValueError-class exception -/
theorem C19_component_rejects (c : Comp) (kw : Field → Option Raw) (ex : Extra)
    (h : specComp c kw ex = .reject) :
    ∃ e, constructComp c kw ex = .error e ∧ e.isValueError = true :=
  specComp_reject c kw ex h

/-- the specification verdict `accept` is met: a legal configuration is constructed -/
theorem C19_component_accepts (c : Comp) (kw : Field → Option Raw) (ex : Extra)
    (h : specComp c kw ex = .accept) : constructComp c kw ex = .ok () :=
  specComp_accept c kw ex h

/-- Spelled out: if every supplied attribute lies in the statement's domain (non-empty scalar / vector /
matrix of well-typed values) and **one** element of **one** of them is outside the documented legal set,
the constructor raises pydantic's `ValidationError`, whatever else was supplied. -/
theorem C19_component_illegal_rejected (c : Comp) (kw : Field → Option Raw) (ex : Extra)
    (hd : ∀ f ∈ fieldsOf c, ∀ x, kw f = some x → inDomain f x = true) (he : extraInDomain c ex = true)
    (f : Field) (hf : f ∈ fieldsOf c) (x : Raw) (hk : kw f = some x)
    (v : Val) (hv : v ∈ x.elems) (hill : legal f v = false) :
    constructComp c kw ex = .error .validationError := by
  rw [constructComp_of_domain c kw ex hd he]
  have hdom := hd f hf x hk
  have hwt : wellTyped f v = true := by
    simp only [inDomain, Bool.and_eq_true] at hdom
    exact List.all_eq_true.mp hdom.2 v hv
  have hbad : elemOk f v = false := by rw [← legal_eq_elemOk f v hwt]; exact hill
  have : (fieldsOf c).any (suppliedBad kw) = true := by
    apply List.any_eq_true.mpr
    refine ⟨f, hf, ?_⟩
    simp [suppliedBad, hk, all_false_of_mem hv hbad]
  simp [this]

/-- `new_page=True` without `page_by` never yields an RTFBody, whatever the other arguments. -/
theorem C19_new_page_needs_page_by (kw : Field → Option Raw) (ex : Extra)
    (hnp : ex.newPage = true) (hpb : ex.pageBy = false) :
    constructComp .body kw ex ≠ .ok () := by
  simp only [constructComp]
  cases runFields Comp.body.isTable kw (fieldsOf .body) false with
  | error e => simp
  | ok soft =>
    by_cases h : (soft || extraSoft .body ex) = true
    · simp [h]
    · simp [h, hnp, hpb]

/-- … and inside the domain the exception is a plain `ValueError` (raised after pydantic returned). -/
theorem C19_new_page_value_error (kw : Field → Option Raw) (ex : Extra)
    (hd : ∀ f ∈ fieldsOf .body, ∀ x, kw f = some x → inDomain f x = true)
    (he : extraInDomain .body ex = true) (hnp : ex.newPage = true) (hpb : ex.pageBy = false) :
    ∃ e, constructComp .body kw ex = .error e ∧ e.isValueError = true := by
  rw [constructComp_of_domain .body kw ex hd he]
  by_cases h : ((fieldsOf .body).any (suppliedBad kw) || extraIllegal ex) = true
  · exact ⟨.validationError, by simp [h], rfl⟩
  · exact ⟨.valueError, by simp [h, hnp, hpb], rfl⟩

/-! ## RTFPage -/

/-- RTFPage never raises anything but `ValidationError`, and raises it as soon as one supplied field
fails its rule (unknown orientation / border style / placement keyword, non-positive width, height,
nrow, col_width, margin not of length 6), whatever else was supplied. -/
theorem C19_page_any_bad_field (kw : PageField → Option Raw) (f : PageField) (x : Raw)
    (hk : kw f = some x) (hbad : validatePageField f x = false) :
    constructPage kw = .error .validationError := by
  have hf : f ∈ pageFields := by cases f <;> simp [pageFields]
  have : pageFields.all (pageSuppliedOk kw) = false := by
    apply Bool.eq_false_iff.mpr
    intro h
    have := List.all_eq_true.mp h f hf
    simp [pageSuppliedOk, hk, hbad] at this
  simp [constructPage, this]

/-- an illegal page configuration — a supplied field outside its rule, or a table width that resolves to a
non-positive value — is refused with a `ValueError` (`ValidationError` for the field rules, a plain `ValueError`
for the resolved width) -/
theorem C19_page_rejects (kw : PageField → Option Raw) (h : specPage kw = .reject) :
    ∃ e, constructPage kw = .error e ∧ e.isValueError = true := by
  rcases specPage_cases kw with h1 | ⟨_, h2⟩ | ⟨h3, _⟩
  · rw [h1] at h; cases h
  · rw [h2] at h; cases h
  · exact h3

/-- "a non-positive … col_width" also when the width is DERIVED: a page whose fields all pass their rules but
whose table width (`col_width`, or page width − 2.25 / 2.5 when none is given) is not positive is refused with a
plain `ValueError`; no RTFPage object exists for it. -/
theorem C19_page_resolved_col_width (kw : PageField → Option Raw)
    (hf : pageFields.all (pageSuppliedOk kw) = true) (hw : ¬ 0 < resolvedColWidth kw) :
    constructPage kw = .error .valueError := by
  simp [constructPage, hf, hw]

/-- in particular a portrait page of width `w ≤ 2.25` (landscape: `w ≤ 2.5`) without an explicit `col_width` -/
theorem C19_page_too_narrow (kw : PageField → Option Raw) (w : Rat)
    (hf : pageFields.all (pageSuppliedOk kw) = true)
    (hcw : kw .colWidth = none) (hwd : kw .width = some (.scalar (.rat w)))
    (hnarrow : w ≤ (if pageLandscape kw then 5 / 2 else 9 / 4)) :
    constructPage kw = .error .valueError := by
  apply C19_page_resolved_col_width kw hf
  simp only [resolvedColWidth, pageNum, hcw, hwd, coerce, Option.getD]
  intro h
  have : (if pageLandscape kw then (5 : Rat) / 2 else 9 / 4) < w := by
    have := h; grind
  exact absurd hnarrow (by grind)

theorem C19_page_accepts (kw : PageField → Option Raw) (h : specPage kw = .accept) :
    constructPage kw = .ok () := by
  rcases specPage_cases kw with h1 | ⟨h2, _⟩ | ⟨_, h3⟩
  · rw [h1] at h; cases h
  · exact h2
  · rw [h3] at h; cases h

/-- a margin list whose length is not 6 is refused (list or tuple, any values) -/
theorem C19_page_margin_length (kw : PageField → Option Raw) (vs : List Val) (hlen : vs.length ≠ 6)
    (hk : kw .margin = some (.flat vs) ∨ kw .margin = some (.tuple vs)) :
    constructPage kw = .error .validationError := by
  rcases hk with hk | hk
  · exact C19_page_any_bad_field kw .margin _ hk (by simp [validatePageField, hlen])
  · exact C19_page_any_bad_field kw .margin _ hk (by simp [validatePageField, hlen])

/-! ## RTFFigure -/

/-- an illegal alignment / position keyword or a non-positive size → ValidationError; otherwise a missing
file → FileNotFoundError; otherwise constructed -/
theorem C19_figure_outcome (a : FigArgs) (h : figInDomain a = true) :
    constructFigure a =
      if figIllegal a then .error .validationError
      else if figMissing a then .error .fileNotFound else .ok () :=
  constructFigure_of_domain a h

theorem C19_figure_meets_spec (a : FigArgs) :
    (specFigure a = .reject → constructFigure a = .error .validationError) ∧
    (specFigure a = .notFound → constructFigure a = .error .fileNotFound) ∧
    (specFigure a = .rejectAny →
      constructFigure a = .error .validationError ∨ constructFigure a = .error .fileNotFound) ∧
    (specFigure a = .accept → constructFigure a = .ok ()) := by
  by_cases hd : figInDomain a = true
  · rw [constructFigure_of_domain a hd]
    simp only [specFigure, hd]
    by_cases hi : figIllegal a = true <;> by_cases hm : figMissing a = true <;> simp [hi, hm]
  · simp [specFigure, hd]

/-- a missing figure file never yields an RTFFigure -/
theorem C19_figure_missing_never_constructed (a : FigArgs) (hm : figMissing a = true) :
    constructFigure a ≠ .ok () := by
  simp only [constructFigure]
  by_cases h : figFieldsOk a = true <;> simp [h, hm]

/-! ## RTFDocument -/

/-- df xor figure: neither, or both, is refused -/
theorem C19_document_df_xor_figure (a : DocArgs)
    (h : (a.df = .none ∧ a.figure = false) ∨ (a.df ≠ .none ∧ a.figure = true)) :
    validateDoc a = .error .validationError := by
  obtain ⟨df, body, header, figure, fn, src⟩ := a
  rcases h with ⟨h1, h2⟩ | ⟨h1, h2⟩
  · simp only at h1 h2; subst h1; subst h2; simp [validateDoc]
  · simp only at h1 h2; subst h2
    cases df with
    | none => exact absurd rfl h1
    | single c => simp [validateDoc]
    | multi s => simp [validateDoc]

/-- mismatched multi-section list lengths (bodies, or the nested header form) are refused -/
theorem C19_document_list_lengths (a : DocArgs) (secs : List (List String)) (bs : List BodySpec)
    (hdf : a.df = .multi secs) (hfig : a.figure = false) (hb : a.body = .multi bs)
    (h : secs.length ≠ bs.length ∨ headerMismatch a.header secs.length = true) :
    validateDoc a = .error .validationError := by
  obtain ⟨df, body, header, figure, fn, src⟩ := a
  simp only at hdf hfig hb h; subst hdf; subst hfig; subst hb
  by_cases hl : secs.length = bs.length
  · rcases h with h | h
    · exact absurd hl h
    · have h' : headerMismatch header bs.length = true := hl ▸ h
      simp [validateDoc, hl, h']
  · simp [validateDoc, hl]

/-- a grouping column (group_by / page_by / subline_by) that is not a column of the frame is refused -/
theorem C19_document_missing_column (a : DocArgs) (cols : List String) (b : BodySpec)
    (hdf : a.df = .single cols) (hfig : a.figure = false) (hb : a.body = .single b)
    (h : sectionLegal cols b = false) : validateDoc a = .error .validationError := by
  obtain ⟨df, body, header, figure, fn, src⟩ := a
  simp only at hdf hfig hb; subst hdf; subst hfig; subst hb
  rw [sectionLegal_eq] at h
  simp [validateDoc, h]

theorem C19_document_rejects (a : DocArgs) (h : specDoc a = .reject) :
    validateDoc a = .error .validationError := by
  rcases specDoc_cases a with h1 | ⟨h2, _⟩ | ⟨_, h3⟩
  · rw [h1] at h; cases h
  · rw [h2] at h; cases h
  · exact h3

theorem C19_document_accepts (a : DocArgs) (h : specDoc a = .accept) : validateDoc a = .ok () := by
  rcases specDoc_cases a with h1 | ⟨_, h2⟩ | ⟨h3, _⟩
  · rw [h1] at h; cases h
  · exact h2
  · rw [h3] at h; cases h

/-! ## the document rules over real frames: columns decide, the number of rows does not -/

/-- A grouping name that is not a column — at **any position** of **any** of `group_by`, `page_by`,
`subline_by` — makes the section illegal (statement side) and makes `_validate_section_columns` refuse it. -/
theorem C19_missing_name_any_position (cols : List String) (b : BodySpec) (name : String)
    (h : missingName cols b name = true) : sectionLegal cols b = false ∧ sectionOk cols b = false := by
  have := sectionOk_false_of_missing cols b name h
  exact ⟨(sectionLegal_eq cols b).trans this, this⟩

/-- The outcome of `RTFDocument(...)` and the statement's verdict do not depend on the heights of the
frames: replacing the number of rows of any frame (single, or any section of a list) by any other number —
0 for a "no observations" table, 1, many — changes neither. -/
theorem C19_document_rows_irrelevant (d : DfData) (hs : List Nat) (a : DocArgs) :
    validateDocData (d.withRows hs) a = validateDocData d a ∧
    specDocData (d.withRows hs) a = specDocData d a := by
  simp only [validateDocData, specDocData, withRows_toArg, and_self]

/-- A missing grouping column is refused whatever the number of rows of the frame (0 included). -/
theorem C19_document_missing_column_any_rows (a : DocArgs) (cols : List String) (b : BodySpec) (name : String)
    (hfig : a.figure = false) (hb : a.body = .single b) (h : missingName cols b name = true) (n : Nat) :
    validateDocData (.single { cols := cols, nrows := n }) a = .error .validationError := by
  obtain ⟨df, body, header, figure, fn, src⟩ := a
  simp only at hfig hb; subst hfig; subst hb
  simp [validateDocData, DfData.toArg, validateDoc, sectionOk_false_of_missing cols b name h]

/-- Multi-section documents: a missing grouping column in **any one** section `i` — the others may be
anything, any frame may have any number of rows, the list lengths may or may not match — is refused. -/
theorem C19_document_missing_column_any_section (a : DocArgs) (fs : List Frame) (bs : List BodySpec)
    (i : Nat) (name : String) (hfig : a.figure = false) (hb : a.body = .multi bs)
    (h1 : i < fs.length) (h2 : i < bs.length) (h : missingName fs[i].cols bs[i] name = true) :
    validateDocData (.multi fs) a = .error .validationError := by
  obtain ⟨df, body, header, figure, fn, src⟩ := a
  simp only at hfig hb; subst hfig; subst hb
  have h1' : i < (fs.map (·.cols)).length := by simpa using h1
  have hsec : sectionsOk (fs.map (·.cols)) bs = false := by
    apply sectionsOk_false_of_index _ _ i h1' h2
    simpa using sectionOk_false_of_missing _ _ name h
  simp only [validateDocData, DfData.toArg, validateDoc]
  split
  · rfl
  · split
    · rfl
    · simp [hsec]

/-- the specification verdict on real frames is met by the validator -/
theorem C19_document_data_rejects (d : DfData) (a : DocArgs) (h : specDocData d a = .reject) :
    validateDocData d a = .error .validationError :=
  C19_document_rejects _ h

theorem C19_document_data_accepts (d : DfData) (a : DocArgs) (h : specDocData d a = .accept) :
    validateDocData d a = .ok () :=
  C19_document_accepts _ h

/-! ## nothing is produced -/

/-- If construction raises, the call `RTFDocument(...).rtf_encode()` raises the same exception: there is
no document object to encode and no string (by typing: `encode` is only ever applied to a constructed
document). -/
theorem C19_no_output {Doc Out : Type} (construct : Except Err Doc) (encode : Doc → Except Err Out) (e : Err)
    (h : construct = .error e) : constructThenEncode construct encode = .error e := by
  subst h; rfl

/-! ## non-vacuity -/

/-- `RTFBody(border_top=[["single"], ["", "zigzag"]])`: ragged matrix, bad value last -/
example : validateField true .borderTop (.nested [[.str "single"], [.str "", .str "zigzag"]])
    = .error .validationError := by decide +kernel

/-- `RTFTitle(text_font_size=(12, 0))` and `RTFBody(col_rel_width=[1, 2, -1.5])` -/
example : validateField false .textFontSize (.tuple [.int 12, .int 0]) = .error .validationError := by
  decide +kernel
example : validateField true .colRelWidth (.flat [.int 1, .int 2, .rat (-3/2)]) = .error .validationError := by
  decide +kernel

/-- all-legal values in the four shapes are accepted -/
example : validateField true .borderTop (.scalar (.str "dotted")) = .ok () ∧
    validateField true .cellJustification (.flat [.str "l", .str "c", .str ""]) = .ok () ∧
    validateField true .textFont (.tuple [.int 1, .int 10]) = .ok () ∧
    validateField false .textColor (.nested [[.str "red"], [.str "", .str "gray50"]]) = .ok () := by
  decide +kernel

/-- the hypotheses of `C19_component_rejects` / `_accepts` are satisfiable by non-trivial calls:
`RTFBody(border_width=[[15, 15], [15, 0]], text_justification="l", pageby_row="column")` and its legal twin -/
example : specComp .body (fun f => match f with
      | .borderWidth => some (.nested [[.int 15, .int 15], [.int 15, .int 0]])
      | .textJustification => some (.scalar (.str "l"))
      | _ => none) { pagebyRow := some (.str "column") } = .reject := by decide +kernel
example : specComp .body (fun f => match f with
      | .borderWidth => some (.nested [[.int 15, .int 15], [.int 15, .int 30]])
      | .textJustification => some (.scalar (.str "l"))
      | _ => none) { pagebyRow := some (.str "column") } = .accept := by decide +kernel

/-- `RTFBody(cell_justification="j")` (D25) is illegal: "j" is a text, not a row justification -/
example : legal .cellJustification (.str "j") = false ∧ legal .textJustification (.str "j") = true := by
  decide +kernel

/-- document rules fire on concrete calls -/
example : specDoc { df := .single ["a", "b"], body := .single { groupBy := some ["a", "z"] } } = .reject ∧
    specDoc { df := .multi [["a"], ["b"]], body := .multi [{}] } = .reject ∧
    specDoc { df := .multi [["a"], ["b"]], body := .multi [{}, { pageBy := some ["b"] }],
              header := .nested 2 } = .accept := by decide +kernel

/-- a `group_by` column that `subline_by` (always), or `page_by` shown as spanning rows (i.e. unless
`new_page=True` keeps it as a column), takes out of the displayed table is refused when the document is built
(since the repair of D43: before, `rtf_encode()` raised for it) — whatever the frame and the other options. -/
theorem C19_group_by_removed_column (cols : List String) (b : BodySpec) (name : String)
    (hg : name ∈ b.groupBy.getD [])
    (hr : name ∈ b.sublineBy.getD [] ∨
          (¬ (b.newPage = true ∧ b.pagebyColumn = true) ∧ name ∈ b.pageBy.getD [])) :
    sectionLegal cols b = false ∧ sectionOk cols b = false := by
  have hk : groupKept b = false := by
    simp only [groupKept, BodySpec.removed]
    apply Bool.eq_false_iff.mpr
    intro h
    have := List.all_eq_true.mp h name hg
    rcases hr with hr | ⟨hn, hr⟩
    · simp [hr] at this
    · cases h1 : b.newPage <;> cases h2 : b.pagebyColumn <;> simp_all
  have : sectionOk cols b = false := by simp [sectionOk, hk]
  exact ⟨(sectionLegal_eq cols b).trans this, this⟩

/-- `RTFBody(group_by=["a"], page_by=["a"])` is refused, the same with `new_page=True` (column kept) is accepted -/
example : validateDoc { df := .single ["a", "b"], body := .single { groupBy := some ["a"], pageBy := some ["a"] } }
      = .error .validationError ∧
    validateDoc { df := .single ["a", "b"],
                  body := .single { groupBy := some ["a"], pageBy := some ["a"], newPage := true } } = .ok () := by
  decide +kernel

/-- the same on real frames: a zero-row frame with a missing `page_by` column (bad name last), a zero-column
frame, the empty second section of a list — refused; a zero-row frame with existing columns — accepted -/
example : specDocData (.single { cols := ["a", "b"], nrows := 0 }) { body := .single { pageBy := some ["a", "z"] } }
      = .reject ∧
    specDocData (.single { cols := [], nrows := 0 }) { body := .single { groupBy := some ["a"] } } = .reject ∧
    specDocData (.multi [{ cols := ["a"], nrows := 3 }, { cols := ["b"], nrows := 0 }])
      { body := .multi [{}, { sublineBy := some ["z"] }] } = .reject ∧
    missingName ["b"] { sublineBy := some ["z"] } "z" = true ∧
    specDocData (.single { cols := ["a", "b"], nrows := 0 }) { body := .single { pageBy := some ["a"] } }
      = .accept := by decide +kernel

/-- `RTFPage(width=2.25)`: every field passes its rule, the derived table width is 0 → refused; `width=2.3` accepted -/
example : constructPage (fun f => match f with
      | .width => some (.scalar (.rat (9 / 4)))
      | _ => none) = .error .valueError ∧
    constructPage (fun f => match f with
      | .width => some (.scalar (.rat (23 / 10)))
      | _ => none) = .ok () := by decide +kernel

/-- page and figure rules fire on concrete calls -/
example : specPage (fun f => match f with
      | .margin => some (.flat [.int 1, .int 1, .int 1, .int 1, .int 1])
      | _ => none) = .reject ∧
    specFigure { figWidth := some (.flat [.int 5, .int 0]), figures := some [true, true] } = .reject ∧
    specFigure { figures := some [true, false] } = .notFound := by decide +kernel

end Props.C19
