import Model.Export
import Model.ExportSpec
import Proofs.Export
import Props.C18
/-!
# C18 — converters that run an external process: a failed run is a failed conversion

`Props/C18.lean` is universal over *confined* converters (functions on the file system that may fail before or
after writing).  The converter rtflite ships, `LibreOfficeConverter`, is such a function **built from a process
run**: `Model.Export.procConverter pr fmt`, where the outcome of one run of the process `pr` is data
(`ProcRun`: exit status + the entries written into the output directory) and the verdict on it is
`procVerdict` (= `LibreOfficeConverter._convert_single_file`).

Statements here, for **every** process `pr` (whatever it writes, under whatever names, however much of it):

* `C18proc_confined` — a process converter is confined, hence every theorem of `Props/C18.lean` applies to it;
* `C18proc_nonzero_is_failure` — a run with a non-zero exit status makes `convert` raise, *whatever the run wrote*
  (a complete, truncated or empty `<stem>.<fmt>` included);
* `C18proc_missing_output_is_failure` — exit status 0 without the expected file makes `convert` raise;
* `C18proc_ok_iff` — `convert` returns exactly when the input exists, the exit status is 0 and the expected file
  exists, and then it returns that file's path;
* `C18proc_failed_run_raises` — an export through a process converter whose every run fails **raises** and leaves
  the target as it was and no debris, at every fault point (all-or-nothing: the "raise" clause of C18 for the real
  converter class);
* `C18proc_success_run` — if such an export returns, the run it made exited with status 0 and produced
  `<stem>.<fmt>`, and the target holds exactly that file's bytes.
-/
namespace Props.C18proc
open Model.Export Proofs.Export

/-- **A process converter is confined**, for every process and format: it writes only below its output directory
(it replays the run's entries there) and a returned path is `<out>/<stem>.<fmt>`. -/
theorem C18proc_confined (pr : Proc) (fmt : List Char) : Confined (procConverter pr fmt) := by
  constructor
  · intro fs inp out q hq
    unfold procConverter
    split
    · rfl
    · simp only
      split <;> exact fget_writeRel out _ fs q hq
  · intro fs inp out p h
    unfold procConverter at h
    split at h
    · cases h
    · simp only at h
      split at h
      · cases h
      · rename_i p' hv
        cases h
        unfold procVerdict at hv
        split at hv
        · cases hv
        · split at hv
          · cases hv
          · cases hv
            exact ⟨under_append _ _, by simp⟩

/-- **Non-zero exit status ⇒ the conversion failed, whatever the process wrote.**  For every process, file
system, input and output directory: if the run's exit status is not 0, `convert` raises — there is no set of
written entries (a complete, truncated or empty expected output file included) for which it returns. -/
theorem C18proc_nonzero_is_failure (pr : Proc) (fmt : List Char) (fs : Fs) (inp out : Path)
    (h : (pr fs inp out).exit ≠ 0) :
    ∃ e, (procConverter pr fmt fs inp out).1 = .error e := by
  unfold procConverter
  split
  · exact ⟨_, rfl⟩
  · simp only [procVerdict, h, ne_eq, not_false_eq_true, ↓reduceIte]
    exact ⟨_, rfl⟩

/-- exit status 0 but no `<stem>.<fmt>` in the output directory ("Output file not created") ⇒ `convert` raises -/
theorem C18proc_missing_output_is_failure (pr : Proc) (fmt : List Char) (fs : Fs) (inp out : Path)
    (h : fget (writeRel out (pr fs inp out).files fs) (out ++ [convName fmt inp]) = none) :
    ∃ e, (procConverter pr fmt fs inp out).1 = .error e := by
  unfold procConverter
  split
  · exact ⟨_, rfl⟩
  · simp only [procVerdict, h, ↓reduceIte, ite_self]
    exact ⟨_, rfl⟩

/-- **`convert` returns iff the run succeeded**: the input exists, the exit status is 0 and the expected file
exists after the run; the answer is then that file's path (never a list, never another path). -/
theorem C18proc_ok_iff (pr : Proc) (fmt : List Char) (fs : Fs) (inp out : Path) (r : ConvRet) :
    (procConverter pr fmt fs inp out).1 = .ok r ↔
      fget fs inp ≠ none ∧ (pr fs inp out).exit = 0
      ∧ fget (writeRel out (pr fs inp out).files fs) (out ++ [convName fmt inp]) ≠ none
      ∧ r = .path (out ++ [convName fmt inp]) := by
  unfold procConverter
  split
  · rename_i hin
    simp [hin]
  · rename_i n hin
    simp only [procVerdict]
    by_cases hx : (pr fs inp out).exit = 0
    · by_cases ho : fget (writeRel out (pr fs inp out).files fs) (out ++ [convName fmt inp]) = none
      · simp [hx, ho]
      · simp only [hx, ne_eq, not_true_eq_false, ↓reduceIte, ho, hin, reduceCtorEq, not_false_eq_true, true_and]
        constructor
        · intro h; cases h; rfl
        · intro h; rw [h]
    · simp [hx]

/-- every run of `pr` fails: non-zero exit status, or no expected output -/
def AlwaysFails (pr : Proc) (fmt : List Char) : Prop :=
  ∀ fs inp out, (pr fs inp out).exit ≠ 0
    ∨ fget (writeRel out (pr fs inp out).files fs) (out ++ [convName fmt inp]) = none

/-- **An export through a process converter whose runs fail raises and is all-or-nothing.**  `write_docx` /
`write_pdf` / `write_html` with a `LibreOfficeConverter` whose process exits with a non-zero status (or leaves no
`<stem>.<fmt>`) — **whatever it wrote before** — at every fault point: the call raises, the target is exactly what
it was (byte-identical, or still absent: no partial target), every temporary directory is gone, and every other
path is unchanged or a created ancestor directory of the target. -/
theorem C18proc_failed_run_raises (k : Nat) (P : Params) (fs : Fs) (pr : Proc) (fmt : List Char)
    (hconv : P.conv = .ok (procConverter pr fmt)) (hfail : AlwaysFails pr fmt) (hN : NoClash P) :
    (∃ e, (writeConv k P fs).1 = .error e)
    ∧ fget (writeConv k P fs).2.fs P.target = fget fs P.target
    ∧ (∀ t ∈ (writeConv k P fs).2.temps, fget fs t = none ∧ ∀ q, under t q = true → fget (writeConv k P fs).2.fs q = none)
    ∧ ∀ q, (∀ t ∈ (writeConv k P fs).2.temps, under t q = false) → Same fs P.dir (writeConv k P fs).2.fs q := by
  have hconf : ∀ c, P.conv = .ok c → Confined c := by
    intro c hc; rw [hconv] at hc; cases hc; exact C18proc_confined pr fmt
  have hraise : ∃ e, (writeConv k P fs).1 = .error e := by
    cases hr : (writeConv k P fs).1 with
    | error e => exact ⟨e, rfl⟩
    | ok u =>
      exfalso
      obtain ⟨c, b, p, fsIn, fsc, hC, _⟩ := Props.C18.C18_conv_success k P fs hconf hN hr
      have hc : c = procConverter pr fmt := by
        have := hC.conv; rw [hconv] at this; cases this; rfl
      subst hc
      have hok : (procConverter pr fmt fsIn (P.tmpRoot ++ [P.tA] ++ [P.rtfName]) (P.tmpRoot ++ [P.tB])).1 = .ok (.path p) := by
        rw [hC.run]
      obtain ⟨_, hx, ho, _⟩ := (C18proc_ok_iff pr fmt fsIn _ _ _).mp hok
      rcases hfail fsIn (P.tmpRoot ++ [P.tA] ++ [P.rtfName]) (P.tmpRoot ++ [P.tB]) with h | h
      · exact h hx
      · exact ho h
  obtain ⟨e, he⟩ := hraise
  obtain ⟨h1, h2⟩ := Props.C18.C18_conv_failure k P fs hconf hN e he
  refine ⟨⟨e, he⟩, h1, fun t ht => ?_, h2⟩
  obtain ⟨_, ha, hb⟩ := Props.C18.C18_conv_temps_gone k P fs hconf hN t ht
  exact ⟨ha, hb⟩

/-- **If an export through a process converter returns, the run it made succeeded**: there is a run of `pr`, on an
input holding exactly the encoder's string, with exit status 0 that left `<stem>.<fmt>`; if that is a regular file
with bytes `doc`, the target holds exactly `doc` (target not a directory; HTML: resource folder not the target's
own name). -/
theorem C18proc_success_run (k : Nat) (P : Params) (fs : Fs) (pr : Proc) (fmt : List Char)
    (hconv : P.conv = .ok (procConverter pr fmt)) (hN : NoClash P)
    (h : (writeConv k P fs).1 = .ok ()) :
    ∃ b fsIn, P.enc = .ok b
      ∧ fget fsIn (P.tmpRoot ++ [P.tA] ++ [P.rtfName]) = some (.file b)
      ∧ (pr fsIn (P.tmpRoot ++ [P.tA] ++ [P.rtfName]) (P.tmpRoot ++ [P.tB])).exit = 0
      ∧ ∀ doc, fget (writeRel (P.tmpRoot ++ [P.tB]) (pr fsIn (P.tmpRoot ++ [P.tA] ++ [P.rtfName]) (P.tmpRoot ++ [P.tB])).files fsIn)
                 (P.tmpRoot ++ [P.tB] ++ [convName fmt (P.tmpRoot ++ [P.tA] ++ [P.rtfName])]) = some (.file doc) →
          fget fs P.target ≠ some .dir →
          (P.html = true → resDst P.dir (P.tmpRoot ++ [P.tB] ++ [convName fmt (P.tmpRoot ++ [P.tA] ++ [P.rtfName])]) ≠ P.target) →
          fget (writeConv k P fs).2.fs P.target = some (.file doc) := by
  have hconf : ∀ c, P.conv = .ok c → Confined c := by
    intro c hc; rw [hconv] at hc; cases hc; exact C18proc_confined pr fmt
  obtain ⟨c, b, p, fsIn, fsc, hC, hT, _⟩ := Props.C18.C18_conv_success k P fs hconf hN h
  have hc : c = procConverter pr fmt := by
    have := hC.conv; rw [hconv] at this; cases this; rfl
  subst hc
  have hrun := hC.run
  have hok : (procConverter pr fmt fsIn (P.tmpRoot ++ [P.tA] ++ [P.rtfName]) (P.tmpRoot ++ [P.tB])).1 = .ok (.path p) := by
    rw [hrun]
  obtain ⟨_, hx, _, hp⟩ := (C18proc_ok_iff pr fmt fsIn _ _ _).mp hok
  have hp' : p = P.tmpRoot ++ [P.tB] ++ [convName fmt (P.tmpRoot ++ [P.tA] ++ [P.rtfName])] := by cases hp; rfl
  -- the file system after the converter is the run's writes replayed
  have hfsc : fsc = writeRel (P.tmpRoot ++ [P.tB])
      (pr fsIn (P.tmpRoot ++ [P.tA] ++ [P.rtfName]) (P.tmpRoot ++ [P.tB])).files fsIn := by
    have h2 : (procConverter pr fmt fsIn (P.tmpRoot ++ [P.tA] ++ [P.rtfName]) (P.tmpRoot ++ [P.tB])).2 = fsc := by
      rw [hrun]
    rw [← h2]
    unfold procConverter
    split
    · rename_i hin; rw [hC.input] at hin; cases hin
    · simp only
      split <;> rfl
  refine ⟨b, fsIn, hC.enc, hC.input, hx, fun doc hdoc hnd hname => ?_⟩
  subst hp'
  exact hT doc (by rw [hfsc]; exact hdoc) hnd hname

/-! ## non-vacuity: the harness's fake `soffice` -/

section Examples
open Props.C18

def pProc (sp : FakeSpec) (html : Bool) : Params where
  dir := [w]
  tname := o
  tmpRoot := [t]
  tA := ['a']
  tB := ['b']
  rtfName := ['r']
  enc := .ok ['R']
  explicitConv := true
  conv := .ok (procConverter (fakeProc sp ['h']) ['h'])
  html := html

/-- the process dies (status 1, killed = 137) **after** writing a truncated / complete / empty output, with and
without a resource folder and stray files: at every fault point the export raises, the old target survives and
both temporary directories are gone -/
example : ∀ sp ∈ [({ exit := 1, out := .trunc 2, res := false, extra := false } : FakeSpec),
                   { exit := 137, out := .full, res := true, extra := true },
                   { exit := 3, out := .empty, res := false, extra := true },
                   { exit := 0, out := .part, res := false, extra := false },
                   { exit := 0, out := .none, res := true, extra := false }],
    ∀ k < 12, isOk (writeConv k (pProc sp true) fsSecond).1 = false
      ∧ fget (writeConv k (pProc sp true) fsSecond).2.fs [w, o] = some (.file ['O'])
      ∧ fget (writeConv k (pProc sp true) fsSecond).2.fs [w, o ++ filesSuffix, ['s']] = some (.file ['x'])
      ∧ fget (writeConv k (pProc sp true) fsSecond).2.fs [t, ['a']] = none
      ∧ fget (writeConv k (pProc sp true) fsSecond).2.fs [t, ['b']] = none := by decide

/-- a run with exit status 0 is a conversion, also of a truncated document (the library cannot know): the target
holds what the process left, stray files of the output directory go nowhere -/
example :
    isOk (writeConv 100 (pProc { exit := 0, out := .trunc 2, res := false, extra := true } false) fsSecond).1 = true
    ∧ fget (writeConv 100 (pProc { exit := 0, out := .trunc 2, res := false, extra := true } false) fsSecond).2.fs [w, ['r', '.', 'h']]
        = none
    ∧ fget (writeConv 100 (pProc { exit := 0, out := .trunc 2, res := false, extra := true } false) fsSecond).2.fs [w, o]
        = some (.file ['h', '<'])
    ∧ fget (writeConv 100 (pProc { exit := 0, out := .trunc 2, res := false, extra := true } false) fsSecond).2.fs
        [w, ['l', 'u', '_', 'c', 'a', 'c', 'h', 'e']] = none
    ∧ fget (writeConv 100 (pProc { exit := 0, out := .trunc 2, res := false, extra := true } false) fsSecond).2.fs [t, ['b']] = none := by
  decide

/-- the fake processes that exit non-zero always fail, so `C18proc_failed_run_raises` applies to them -/
example (sp : FakeSpec) (fmt : List Char) (h : sp.exit ≠ 0) : AlwaysFails (fakeProc sp fmt) fmt := by
  intro fs inp out
  left
  unfold fakeProc
  split
  · exact h
  · simp
end Examples

end Props.C18proc
