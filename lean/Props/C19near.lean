import Model.Validate
import Model.ValidateSpec
import Proofs.Validate
import Props.C19
/-!
# C19 — near-valid strings: a code word with a stray character is not the code word

The statement's "unknown format letter / border style / justification / … keyword" is *exact* membership in the
documented sets. The check (`harness/props/c19.py`, near-valid stream) draws documented values with a line feed,
carriage return, tab, blank, NUL, VT, FF, FS, US, NEL, NBSP, LS, PS, wide / zero-width space or BOM after, before or
inside them; these theorems say what the specification and the validator model make of them:

* `C19near_format_foreign_char` — a format string holding **one** character that is not a format letter, at any place
  of the string, is illegal, and (`C19near_format_foreign_char_rejected`) the field validation of any shape holding it
  at any position raises `ValidationError`;
* `C19near_stray_not_format_letter` — none of the 18 stray characters is a format letter;
* `C19near_keyword_suffix_illegal` / `_prefix_illegal` — for every keyword set of the statement (border styles, the
  three justification sets, orientation, placement, pageby_row, figure alignment and position) no documented word
  followed or preceded by a stray character is a documented word (kernel-decided over the literal sets).
-/
namespace Props.C19near
open Model.Validate Model.ValidateSpec Proofs.Validate

/-- the characters the near-valid stream puts around a code word -/
def strayChars : List Char :=
  ['\n', '\r', '\t', ' ', Char.ofNat 0, Char.ofNat 0x0b, Char.ofNat 0x0c, Char.ofNat 0x1c, Char.ofNat 0x1f,
   Char.ofNat 0x85, Char.ofNat 0xa0, Char.ofNat 0x2028, Char.ofNat 0x2029, Char.ofNat 0x2003, Char.ofNat 0x3000,
   Char.ofNat 0x200b, Char.ofNat 0xfeff]

/-- the keyword sets of the statement (exact-membership classes) -/
def keywordSets : List (List String) :=
  [docBorderStyles, docTextJust, docRowJust, docVertAlign, docOrientation, docPlacement, docPagebyRow,
   docFigAlign, docFigPos]

/-- A format string with one foreign character anywhere in it is not a legal format. -/
theorem C19near_format_foreign_char (s : String) (c : Char) (hc : c ∈ s.toList)
    (hf : docFormatCodes.contains (String.singleton c) = false) :
    legal .textFormat (.str s) = false := by
  simp only [legal, classOf, legalC]
  apply List.all_eq_false.mpr
  exact ⟨c, hc, by simpa using hf⟩

/-- … and the validation of a `text_format` value of any shape that holds it at any position fails with pydantic's
`ValidationError`, on table and text components alike. -/
theorem C19near_format_foreign_char_rejected (table : Bool) (x : Raw) (s : String) (c : Char)
    (hx : Val.str s ∈ x.elems) (hc : c ∈ s.toList)
    (hf : docFormatCodes.contains (String.singleton c) = false) :
    validateField table .textFormat x = .error .validationError :=
  Props.C19.C19_illegal_value_rejected table .textFormat x (.str s) hx (by simp [wellTyped, classOf, wellTypedC])
    (C19near_format_foreign_char s c hc hf)

/-- None of the stray characters is a format letter. -/
theorem C19near_stray_not_format_letter :
    strayChars.all (fun c => !docFormatCodes.contains (String.singleton c)) = true := by decide +kernel

/-- the trailing line feed of the round-12 change, as a corollary: `"b\n"`, `"\n"`, `"^_\n"`, … any format string
ending in a line feed -/
theorem C19near_format_trailing_line_feed (table : Bool) (x : Raw) (g : String)
    (hx : Val.str (g ++ "\n") ∈ x.elems) :
    validateField table .textFormat x = .error .validationError := by
  apply C19near_format_foreign_char_rejected table x (g ++ "\n") '\n' hx
  · simp [String.toList_append]
  · decide +kernel

/-- No documented keyword followed by a stray character (once or twice) is a documented keyword. -/
theorem C19near_keyword_suffix_illegal :
    keywordSets.all (fun ks => ks.all fun g => strayChars.all fun c =>
      !ks.contains (g ++ String.singleton c) && !ks.contains (g ++ String.singleton c ++ String.singleton c)) = true := by
  decide +kernel

/-- No documented keyword preceded by a stray character is a documented keyword. -/
theorem C19near_keyword_prefix_illegal :
    keywordSets.all (fun ks => ks.all fun g => strayChars.all fun c =>
      !ks.contains (String.singleton c ++ g)) = true := by
  decide +kernel

/-- the hypotheses are satisfiable: concrete near-valid values and their verdicts -/
example : specComp .title (fun f => match f with
      | .textFormat => some (.flat [.str "b", .str "i\n"])
      | _ => none) {} = .reject ∧
    constructComp .body (fun f => match f with
      | .borderTop => some (.nested [[.str "single", .str "double\r\n"]])
      | _ => none) {} = .error .validationError ∧
    specComp .title (fun f => match f with
      | .textFormat => some (.scalar (.str "bb"))
      | _ => none) {} = .accept := by decide +kernel

end Props.C19near
