import Model.Encode
import Proofs.EncodeLift
import Proofs.EncodePages
import Proofs.EncodeOwnWidth
import Props.C04enc
/-!
# C04, null cells: a null is a displayed column of its row like any other cell

`calculate_row_metadata` measures `str(value)` of every displayed cell, so a null cell is measured as the text `"None"`
(it is rendered as an empty cell).  `Props/C04enc.lean: C04enc_own_width` holds for every cell, `none` included: the cell at
displayed position `j` is measured against `cum[j] − cum[j−1]` whatever stands left of it.  This file adds what the null
class of the documents of `harness/props/c04.py` relies on:

* `linesOf_one`            a text narrower than its column (`0 ≤ w / cw < 1`) counts one line;
* `C04null_as_text`        a null cell counts exactly the lines the text `"None"` counts in its place;
* `C04null_cell_one_line`  a cell whose `str()` is narrower than its own column at every font and size counts one line
                           (the harness holds nulls only where `"None"` is ≤ 0.8 of the cell's column);
* `C04null_row`            in an accepted document, if the cell at displayed position `j0` of frame row `i` is such a cell
                           (a null for instance), the data lines of the row are 1 or exactly the line count of ANOTHER
                           displayed cell `j ≠ j0`, measured at ITS OWN width `cum[j] − cum[j−1]`, font and size: the null
                           neither adds lines nor moves the cells right of it to another column.
-/
namespace Props.C04null
open Model.Encode Model.Broadcast Model.Layout Model.Paginate
open Proofs.EncodeLift
open Proofs.EncodePages (rowIns)
open Proofs.EncodeOwnWidth (CellLines ownWidth)

/-- a text narrower than its column needs one line: `max(1, int(w / cw) + 1) = 1` for `0 ≤ w / cw < 1` -/
theorem linesOf_one (w cw : Rat) (h0 : 0 ≤ w / cw) (h1 : w / cw < 1) : (linesOf w cw).1 = 1 := by
  have hf : (w / cw).floor = 0 := by
    have a := Rat.floor_le (w / cw)
    have b := Rat.lt_floor_add_one (w / cw)
    have c1 : (((w / cw).floor : Int) : Rat) < ((1 : Int) : Rat) := by
      have : (((w / cw).floor : Int) : Rat) < 1 := by grind
      simpa using this
    have c2 : ((0 : Int) : Rat) < (((w / cw).floor + 1 : Int) : Rat) := by
      have : (0 : Rat) < (((w / cw).floor + 1 : Int) : Rat) := by grind
      simpa using this
    have d1 := Rat.intCast_lt_intCast.mp c1
    have d2 := Rat.intCast_lt_intCast.mp c2
    omega
  simp [linesOf, pyInt, h0, hf]

/-- **a null cell is measured as the text "None"**: it counts the lines that text counts at the same place -/
theorem C04null_as_text (measure : Measure) (A : TblAttrsOf MatV) (r k : Nat) (cw : Rat) (l : Nat) :
    CellLines measure A r k none cw l ↔ CellLines measure A r k (some "None".toList) cw l := Iff.rfl

/-- a cell whose `str()` is narrower than its own column, at whatever font and size it is measured, counts one line -/
theorem C04null_cell_one_line (measure : Measure) (A : TblAttrsOf MatV) (r k : Nat) (cell : Option Str) (cw : Rat)
    (l : Nat) (hfit : ∀ font size w, measure (strOfCell cell) font size = some w → 0 ≤ w / cw ∧ w / cw < 1)
    (h : CellLines measure A r k cell cw l) : l = 1 := by
  obtain ⟨_, _, size, font, w, _, _, _, _, _, _, hm, _, hl⟩ := h
  obtain ⟨h0, h1⟩ := hfit font size w hm
  rw [hl]; exact linesOf_one w cw h0 h1

/-- **a fitting null neither adds lines to its row nor moves its neighbours**: the data lines of frame row `i` are 1 or
the line count of a displayed cell OTHER than the fitting one, in that cell's own column -/
theorem C04null_row (measure : Measure) (d : Doc) (pl : Plan) (hp : plan measure d = .ok pl) (i : Nat)
    (ri : RowIn (List String)) (hri : (rowIns pl.ld)[i]? = some ri) (j0 : Nat)
    (hfit : ∀ cells cell c, pl.p.dispRows[i]? = some cells → cells[j0]? = some cell → pl.p.cum[j0]? = some c →
      ∀ font size w, measure (strOfCell cell) font size = some w →
        0 ≤ w / ownWidth pl.p.cum 0 j0 c ∧ w / ownWidth pl.p.cum 0 j0 c < 1) :
    ri.dataRows = 1 ∨ ∃ cells, pl.p.dispRows[i]? = some cells ∧
      ∃ (j : Nat) (cell : Option Str) (c : Rat), j ≠ j0 ∧ cells[j]? = some cell ∧ pl.p.cum[j]? = some c ∧
        CellLines measure pl.p.attrs i j cell (ownWidth pl.p.cum 0 j c) ri.dataRows := by
  obtain ⟨cells, hc, _, hatt⟩ := Props.C04enc.C04enc_own_width measure d pl hp i ri hri
  rcases hatt with h1 | ⟨j, cell, c, hj, hw, hcl⟩
  · exact Or.inl h1
  · by_cases hjj : j = j0
    · subst hjj
      exact Or.inl (C04null_cell_one_line measure _ i j cell _ _ (hfit cells cell c hc hj hw) hcl)
    · exact Or.inr ⟨cells, hc, j, cell, c, hjj, hj, hw, hcl⟩

/-- the hypotheses are satisfiable: "None" 0.3 in wide in a 1 in column counts one line -/
example : (linesOf (3 / 10) 1).1 = 1 := linesOf_one _ _ (by grind) (by grind)

end Props.C04null
