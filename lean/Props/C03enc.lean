import Model.Encode
import Model.Layout
import Proofs.EncodeLift
import Proofs.EncodeLiftRows
import Props.C03
import Props.C01enc
/-!
# C03 for the whole-encoder model: no page exceeds the `nrow` row budget

`Props/C03.lean` proves the budget for `Layout.renderPage ld pg` of EVERY role-level document satisfying `LinesPos`.
Here the statement is about the pages the ENCODER renders (`Plan.pageBlocks` of `Proofs/EncodeLift.lean`: `encodePages`
renders exactly these block lists, `encodePages_eq` / `encodePages_trace`), with `nrow = d.page.nrow` and the deviations
D3 / D4 expressed on the document:

* `C03enc_lines_pos`   the `LDoc` of the encoder always satisfies `LinesPos` (`dataLines` starts from 1 and takes maxima),
                       so the hypothesis of C03 disappears;
* `C03enc_lines`       the line estimate of row `i` in `tableRows` is the encoder's own `dataLines` of the displayed cells
                       of row `i` against the body's cumulative widths;
* `C03enc_load`, `C03enc_budget`, `C03enc_partial`   the lifted theorems;
* `C03enc`             from `encode measure d = .ok g`;
* `C03enc_physical_rows`   on every page of the trace, the number of table rows actually written (`\trowd … \row`
                       elements, `Proofs.EncodeLiftRows.rowElems`) is at most `tableRows` of the page's blocks, hence
                       within the same budget.
-/
namespace Props.C03enc
open Model.Rtf Model.Emit Model.Encode Model.Broadcast Model.Layout Model.Paginate Proofs.EncodeLift
open Proofs.EncodeLiftRows (isRowElem rowElems weight rowElems_page)
open Props.C03 (tableRows dataIdx headingCount headingExcess autoHeaderExcess reservedHeadingRows LinesPos)

/-- D3 on the document: header objects without text, rendered from the column names, for which no row is reserved -/
def autoHeaderExcessDoc (d : Doc) : Nat :=
  if d.body.asColheader then (d.headers.filter (fun h => !headerHasText h)).length else 0

/-- `calculate_additional_rows_per_page` on the document: the subline_by heading, one row per header object with text,
footnote, source -/
def additionalDoc (d : Doc) : Nat :=
  (if !d.body.sublineByL.isEmpty then 1 else 0) + (d.headers.filter headerHasText).length +
  (if footComp d.footnote != .absent then 1 else 0) + (if footComp d.source != .absent then 1 else 0)

/-- every line estimate of the encoder is at least 1: C03's hypothesis always holds -/
theorem C03enc_lines_pos (measure : Measure) (d : Doc) (pl : Plan) (hp : plan measure d = .ok pl) :
    LinesPos pl.ld := by
  intro r hr
  obtain ⟨i, hi⟩ := List.getElem?_of_mem hr
  obtain ⟨_, _, _, _, _, _, _, _, h⟩ := (plan_facts hp).row i r hi
  exact h

/-- what `tableRows` counts for a data row is the encoder's own estimate: `dataLines` of the displayed cells of row `i`
with the processed attributes at row `i` against the cumulative widths, started from `(1, false)` -/
theorem C03enc_lines (measure : Measure) (d : Doc) (pl : Plan) (hp : plan measure d = .ok pl) (i : Nat)
    (hi : i < d.rows.length) :
    ∃ cells nr, pl.p.dispRows[i]? = some cells ∧
      dataLines measure pl.p.attrs i cells pl.p.cum 0 0 (1, false) = .ok (Props.C03.linesOf pl.ld i, nr) ∧
      1 ≤ Props.C03.linesOf pl.ld i := by
  have hf := plan_facts hp
  have hi' : i < pl.ld.rows.length := by rw [hf.length]; exact hi
  have hr : pl.ld.rows[i]? = some pl.ld.rows[i] := List.getElem?_eq_getElem hi'
  obtain ⟨_, cells, nr, _, h2, h3, _, _, h6⟩ := hf.row i _ hr
  refine ⟨cells, nr, h2, ?_, ?_⟩ <;> simp only [Props.C03.linesOf, hr, Option.map_some, Option.getD_some]
  · exact h3
  · exact h6

theorem C03enc_autoHeaderExcess (measure : Measure) (d : Doc) (pl : Plan) (hp : plan measure d = .ok pl) :
    autoHeaderExcess pl.ld = autoHeaderExcessDoc d := by
  have hf := plan_facts hp
  unfold autoHeaderExcess autoHeaderExcessDoc
  rw [hf.asColheader, hf.headers, List.filter_map, List.length_map]
  rfl

theorem C03enc_additional (measure : Measure) (d : Doc) (pl : Plan) (hp : plan measure d = .ok pl) :
    pl.ld.additional = additionalDoc d := by
  have hf := plan_facts hp
  unfold LDoc.additional additionalDoc
  rw [hf.hasSubline, hf.headers, hf.footnote, hf.source, List.filter_map, List.length_map]
  rfl

/-- greedy fill: the rows reserved for the data rows of a page the encoder renders fit the available rows
(`nrow` minus the per-page components), unless the page holds a single data row -/
theorem C03enc_load (measure : Measure) (d : Doc) (pl : Plan) (hp : plan measure d = .ok pl)
    (x : PageCtx × List Block) (hx : x ∈ pl.pageBlocks) :
    (((dataIdx x.2).map fun i => (pl.ld.meta[i]?.map (·.total)).getD 0).sum ≤
        availRows d.page.nrow (additionalDoc d)) ∨ (dataIdx x.2).length ≤ 1 := by
  obtain ⟨hpg, hbs⟩ := pageBlocks_mem hx
  have := Props.C03.C03_load pl.ld (C03enc_lines_pos measure d pl hp) x.1 hpg
  rw [hbs, ← C03enc_additional measure d pl hp, ← (plan_facts hp).nrow]
  exact this

/-- **the budget with the explained deviations**, for every page the encoder renders: the table rows of the page
(headers, headings, data rows with their line estimate, footnote / source as table) are at most `nrow` plus the D3 excess
(auto-populated headers) plus the D4 excess (heading rows beyond those reserved), unless the page holds one data row -/
theorem C03enc_budget (measure : Measure) (d : Doc) (pl : Plan) (hp : plan measure d = .ok pl)
    (x : PageCtx × List Block) (hx : x ∈ pl.pageBlocks) :
    tableRows pl.ld x.2 ≤ d.page.nrow + autoHeaderExcessDoc d + headingExcess pl.ld x.2 ∨
      (dataIdx x.2).length ≤ 1 := by
  obtain ⟨hpg, hbs⟩ := pageBlocks_mem hx
  have := Props.C03.C03_budget pl.ld (C03enc_lines_pos measure d pl hp) x.1 hpg
  rw [hbs, ← C03enc_autoHeaderExcess measure d pl hp, ← (plan_facts hp).nrow]
  exact this

/-- with explicit header texts (or no auto-population) and no spanning rows the full budget holds -/
theorem C03enc_partial (measure : Measure) (d : Doc) (pl : Plan) (hp : plan measure d = .ok pl)
    (hh : autoHeaderExcessDoc d = 0) (hsp : spanningDoc d = false)
    (x : PageCtx × List Block) (hx : x ∈ pl.pageBlocks) :
    tableRows pl.ld x.2 ≤ d.page.nrow ∨ (dataIdx x.2).length ≤ 1 := by
  obtain ⟨hpg, hbs⟩ := pageBlocks_mem hx
  have hf := plan_facts hp
  have := Props.C03.C03_partial pl.ld (C03enc_lines_pos measure d pl hp)
    (by rw [C03enc_autoHeaderExcess measure d pl hp]; exact hh) (by rw [spanning_eq hf]; exact hsp) x.1 hpg
  rw [hbs, ← hf.nrow]
  exact this

/-- sufficient conditions on the document for `C03enc_partial` -/
theorem C03enc_partial_hyps (d : Doc)
    (hh : d.body.asColheader = false ∨ ∀ h ∈ d.headers, headerHasText h = true)
    (hsp : d.body.pageByL = [] ∨ (d.body.newPage = true ∧ d.body.pagebyColumn = true)) :
    autoHeaderExcessDoc d = 0 ∧ spanningDoc d = false := by
  constructor
  · unfold autoHeaderExcessDoc
    rcases hh with h | h
    · simp [h]
    · split
      · rw [List.length_eq_zero_iff, List.filter_eq_nil_iff]
        intro a ha
        simp [h a ha]
      · rfl
  · unfold spanningDoc Body.pageByRemoved
    rcases hsp with h | ⟨h1, h2⟩
    · simp [h]
    · simp [h1, h2]

/-! ## the rows actually written -/

/-- `tableRows` is the sum of the blocks' weights (`Proofs.EncodeLiftRows.weight`) -/
theorem tableRows_eq (ld : LDoc) (bs : List Block) : tableRows ld bs = (bs.map (weight ld)).sum := by
  unfold tableRows
  congr 1

/-- **the rows actually written**: on every page of the trace, the number of table-row elements (`\trowd … \row`) is at
most `tableRows` of the page's blocks — every estimate counts at least the rows that are written -/
theorem C03enc_physical_rows (measure : Measure) (k : ColorCtx) (d : Doc) (pl : Plan) (R : Trace)
    (hp : plan measure d = .ok pl) (hR : Renders k d pl R) (x : PageCtx × List (Block × List Elem)) (hx : x ∈ R) :
    rowElems (pageElems x.2) ≤ tableRows pl.ld (x.2.map Prod.fst) := by
  rw [tableRows_eq]
  exact rowElems_page hp hR x hx

/-! ## from `encode measure d = .ok g` -/

/-- **C03 for the encoder model.**  For every accepted document there are a plan and a trace (the output is the
trace's elements joined by newlines) such that on every page of the trace the table rows written are at most
`tableRows` of the page's blocks, and `tableRows` is within `nrow` plus the two explained excess terms (D3, D4) unless
the page holds a single data row. -/
theorem C03enc (measure : Measure) (d : Doc) (g : DocG) (h : encode measure d = .ok g) :
    ∃ pl R, plan measure d = .ok pl ∧ Renders (mkColorCtx d) d pl R ∧
      g.blocks = joinElems R.elems ++ [BlockG.plain [Node.nl, Node.nl, Node.nl, Node.nl]] ∧
      ∀ x ∈ R,
        rowElems (pageElems x.2) ≤ tableRows pl.ld (x.2.map Prod.fst) ∧
        (tableRows pl.ld (x.2.map Prod.fst) ≤
            d.page.nrow + autoHeaderExcessDoc d + headingExcess pl.ld (x.2.map Prod.fst) ∨
          (dataIdx (x.2.map Prod.fst)).length ≤ 1) := by
  obtain ⟨pl, R, hp, hR, hg⟩ := encode_trace h
  refine ⟨pl, R, hp, hR, hg, ?_⟩
  intro x hx
  have hpb : (x.1, x.2.map Prod.fst) ∈ pl.pageBlocks := by
    rw [← hR.blocks, Trace.blocks]
    exact List.mem_map.mpr ⟨x, hx, rfl⟩
  exact ⟨C03enc_physical_rows measure _ d pl R hp hR x hx, C03enc_budget measure d pl hp _ hpb⟩

/-- the same without excess terms when every header has its text and there are no spanning rows: at most `nrow` table
rows are written on every page that holds more than one data row -/
theorem C03enc_full_of_partial (measure : Measure) (d : Doc) (g : DocG) (h : encode measure d = .ok g)
    (hh : autoHeaderExcessDoc d = 0) (hsp : spanningDoc d = false) :
    ∃ pl R, plan measure d = .ok pl ∧ Renders (mkColorCtx d) d pl R ∧
      g.blocks = joinElems R.elems ++ [BlockG.plain [Node.nl, Node.nl, Node.nl, Node.nl]] ∧
      ∀ x ∈ R, rowElems (pageElems x.2) ≤ d.page.nrow ∨ (dataIdx (x.2.map Prod.fst)).length ≤ 1 := by
  obtain ⟨pl, R, hp, hR, hg⟩ := encode_trace h
  refine ⟨pl, R, hp, hR, hg, ?_⟩
  intro x hx
  have hpb : (x.1, x.2.map Prod.fst) ∈ pl.pageBlocks := by
    rw [← hR.blocks, Trace.blocks]
    exact List.mem_map.mpr ⟨x, hx, rfl⟩
  rcases C03enc_partial measure d pl hp hh hsp _ hpb with h1 | h1
  · exact Or.inl (Nat.le_trans (C03enc_physical_rows measure _ d pl R hp hR x hx) h1)
  · exact Or.inr h1

/-! ## non-vacuity, and the known deviation D3 on the encoder -/

/-- the table-row elements the encoder writes on every page (the same calls as `encodePages`, `encodePages_eq`) -/
def pageRowCounts (measure : Measure) (d : Doc) : Except String (List Nat) := do
  let pl ← plan measure d
  pl.pageBlocks.mapM fun x => rowElems <$> Model.Encode.renderPage (mkColorCtx d) d pl.bodyA pl.p pl.rows x.1 x.2

open Props.C01enc in
/-- header with text, no page_by: the hypotheses of `C03enc_full_of_partial` hold; 7 rows, `nrow = 5` -/
def exDocFull : Doc :=
  { exDoc [1, 2] with
    rows := (List.range 7).map fun i => [some "x".toList, some (toString i).toList],
    headers := [some { text := some ["A".toList, "B".toList], colRelWidth := none, attrs := exTbl }],
    page := { exPage with nrow := 5, pageFootnote := .all, pageSource := .all },
    source := some { text := some "src".toList, asTable := true, colRelWidth := some [1], attrs := exTbl } }

open Props.C01enc in
/-- the same with the header auto-populated from the column names (D3: rendered but not reserved) -/
def exDocAuto : Doc :=
  { exDocFull with headers := [some { text := none, colRelWidth := none, attrs := exTbl }] }

set_option maxRecDepth 100000

open Props.C01enc in
/-- the encoder accepts `exDocFull`, its hypotheses hold, and every page is within `nrow = 5`:
header + 2 data rows + footnote + source -/
example :
    (match encode exMeasure exDocFull with | .ok _ => true | .error _ => false) = true ∧
    autoHeaderExcessDoc exDocFull = 0 ∧ spanningDoc exDocFull = false ∧
    (match pageRowCounts exMeasure exDocFull with | .ok l => l == [5, 5, 5, 4] | .error _ => false) = true := by
  refine ⟨by decide +kernel, by decide, by decide, by decide +kernel⟩

open Props.C01enc in
/-- D3 on the encoder (known finding, cf. `Props.C03.witnessAutoHeader_overflow`): with the header auto-populated
from the column names no row is reserved for it, three data rows are placed per page and the encoder WRITES six table
rows on a page with `nrow = 5` (header + 3 data rows + footnote + source); the excess term of `C03enc_budget` is 1 -/
theorem C03enc_witness_auto_header :
    (match encode exMeasure exDocAuto with | .ok _ => true | .error _ => false) = true ∧
    autoHeaderExcessDoc exDocAuto = 1 ∧ exDocAuto.page.nrow = 5 ∧
    (match pageRowCounts exMeasure exDocAuto with | .ok l => l == [6, 6, 4] | .error _ => false) = true := by
  refine ⟨by decide +kernel, by decide, rfl, by decide +kernel⟩

end Props.C03enc
