import Model.StrWidth
import Proofs.StrWidth
/-!
# C20 — string width measurement is consistent

Statement (properties.jsonl): *get_string_width returns 0 for the empty string and a non-negative value
otherwise; results in 'in', 'mm' and 'px' are exact unit conversions of one another, a font given by
number or by name gives identical results, appending characters never decreases the width, width scales
with font size to within one percent, and for the monospaced font it equals character count times the
single-character advance. Unsupported fonts or units raise ValueError.*

Model: `Model.StrWidth.getStringWidth` with the Pillow call as parameter `measure`, refined in two layers
(see the model file): **L1** additive advances + pair adjustments inside script runs (all fonts; the tables
are parameters), **L2** the tables themselves computed from the font file with FreeType/HarfBuzz
fixed-point rounding (the three Liberation faces = 7 of the 10 RTF fonts).

What is proved here, for **all** strings (induction), all sizes, all dpi > 0:

* under L1, for all tables: empty ↦ 0; non-negativity and append-monotonicity from the two table
  hypotheses `TableOK` — also in the relativised form `C20_nonneg_append_on`: hypotheses checked on a finite
  alphabet (what the harness does exhaustively on the implementation, with the Lean-defined
  `tableViolations`) carry to all strings over that alphabet; exact unit conversions; number ≡ name;
  monospace = count × advance; error cases;
* under L2: `TableOK` holds for **every** size, derived from font-unit facts that are discharged by
  `decide +kernel` on the tables regenerated from the TTF files on every run; the size-scaling error bound
  `|px64 − n·units/upem| ≤ 1.05·|t|` (in 1/64 px) and from it the 1 % relation under an explicit lower bound
  on the mean advance (3.3125 px).

What is **not** a theorem (level "proof, partial"): that Pillow/libraqm/HarfBuzz/FreeType *are* L1/L2 — this
is the correspondence check of `harness/props/c20.py` (sampled, every run); for Carlito / Gelasio / Caladea
only L1 is claimed, and only for strings over the characters that no default-on substitution / contextual
lookup of the font touches (`FontData.ctx`, derived from the font file by the translator).

Two clauses of the statement are false of the unchanged code as literally written; both are font-data /
fixed-point effects, not repairable by a small patch, so they appear as `_partial` + witness:

* monospace: Liberation Mono gives U+0374, U+0375, U+037A (printable Greek) advance 0
  (`C20_mono_partial`, `C20_mono_witness`);
* scaling: 26.6 rounding makes narrow glyphs deviate by more than 1 % at small sizes
  (`C20_scaling_partial`, `C20_scaling_witness`: `'|'` in Arial at sizes 4 and 7).
-/
namespace Props.C20
open Model.StrWidth Proofs.StrWidth Generated

/-- L1 measure: per-(file, size) tables `tab` and a layout environment `e` -/
def measureOf (tab : String → Rat → Metrics) (e : Env) : String → Rat → List Char → Rat :=
  fun p s t => measureL1 (tab p s) e t

/-- the model of `get_string_width` under L1 -/
def W (tab : String → Rat → Metrics) (e : Env) (text : List Char) (font : FontArg) (size : Rat)
    (unit : String) (dpi : Rat) : Except Err Rat :=
  getStringWidth (measureOf tab e) text font size unit dpi

def ValidUnit (u : String) : Prop := u = "px" ∨ u = "in" ∨ u = "mm"

/-! ## (1) the empty string has width 0 -/

theorem C20_empty (tab : String → Rat → Metrics) (e : Env) (font : FontArg) (p : String) (size dpi : Rat)
    (unit : String) (hp : fontPath font = .ok p) (hs : 0 < size) (hu : ValidUnit unit) (hd : dpi ≠ 0) :
    W tab e [] font size unit dpi = .ok 0 := by
  unfold W
  rw [gsw_of_path hp hs]
  have : measureOf tab e p size [] = 0 := by
    simp [measureOf, measureL1, px64_nil, Rat.div_def, Rat.zero_mul]
  rw [this]
  exact convert_zero hd hu

/-! ## (2) non-negative, (3) appending never decreases — from the two table hypotheses -/

theorem C20_nonneg (tab : String → Rat → Metrics) (e : Env) (htab : ∀ p s, TableOK (tab p s))
    (t : List Char) (font : FontArg) (size dpi w : Rat) (unit : String) (hd : 0 < dpi)
    (h : W tab e t font size unit dpi = .ok w) : 0 ≤ w := by
  obtain ⟨p, _, _, hc⟩ := gsw_ok h
  exact convert_nonneg hd (rat_div64_nonneg _ (px64_nonneg (htab p size) e t)) hc

theorem C20_append (tab : String → Rat → Metrics) (e : Env) (htab : ∀ p s, TableOK (tab p s))
    (t u : List Char) (font : FontArg) (size dpi w w' : Rat) (unit : String) (hd : 0 < dpi)
    (h : W tab e t font size unit dpi = .ok w) (h' : W tab e (t ++ u) font size unit dpi = .ok w') :
    w ≤ w' := by
  obtain ⟨p, hp, _, hc⟩ := gsw_ok h
  obtain ⟨p', hp', _, hc'⟩ := gsw_ok h'
  have : p' = p := by rw [hp] at hp'; injection hp' with h; exact h.symm
  subst this
  exact convert_mono hd (rat_div64_le _ _ (px64_append_le (htab p' size) e t u)) hc hc'

/-- the same two clauses from hypotheses on a **finite alphabet** only: if the Lean-defined check
`tableViolations` (evaluated by the driver on the tables measured from the implementation, exhaustively
over the alphabet) finds nothing for the tables of every (file, size) in use, then for every string over
that alphabet the width is non-negative and never decreases when characters of the alphabet are appended -/
theorem C20_nonneg_append_on (tab : String → Rat → Metrics) (e : Env) (alpha : List Char)
    (hchk : ∀ p s, tableViolations (tab p s) alpha = [])
    (t u : List Char) (htu : ∀ c ∈ t ++ u, c ∈ alpha)
    (font : FontArg) (size dpi w w' : Rat) (unit : String) (hd : 0 < dpi)
    (h : W tab e t font size unit dpi = .ok w) (h' : W tab e (t ++ u) font size unit dpi = .ok w') :
    0 ≤ w ∧ w ≤ w' := by
  obtain ⟨p, hp, _, hc⟩ := gsw_ok h
  obtain ⟨p', hp', _, hc'⟩ := gsw_ok h'
  have : p' = p := by rw [hp] at hp'; injection hp' with h; exact h.symm
  subst this
  have hon := tableOKOn_of_no_violations (tab p' size) alpha (hchk p' size)
  have hS : ∀ c ∈ t ++ u, (fun c => alpha.contains c) c = true := by
    intro c hc; simpa using htu c hc
  have h0 := px64_nonneg_on hon e t (fun c hc => hS c (List.mem_append_left _ hc))
  have h1 := px64_append_le_on hon e t u hS
  exact ⟨convert_nonneg hd (rat_div64_nonneg _ h0) hc, convert_mono hd (rat_div64_le _ _ h1) hc hc'⟩

/-- whether a call fails, and how, does not depend on the text -/
theorem C20_error_text_independent (measure : String → Rat → List Char → Rat) (t u : List Char)
    (font : FontArg) (size dpi : Rat) (unit : String) (er : Err)
    (h : getStringWidth measure t font size unit dpi = .error er) :
    getStringWidth measure u font size unit dpi = .error er := by
  unfold getStringWidth at *
  cases hp : fontPath font with
  | error e => simpa [hp, bind, Except.bind] using h
  | ok p =>
    simp only [hp, bind, Except.bind] at h ⊢
    split
    · rename_i hs; simpa [hs] using h
    · rename_i hs
      simp only [hs, if_false] at h
      unfold convert at *
      repeat' split at h
      all_goals simp_all

/-! ## (4) exact unit conversions (any measure) -/

theorem C20_units (measure : String → Rat → List Char → Rat) (t : List Char) (font : FontArg)
    (size dpi win : Rat) (h : getStringWidth measure t font size "in" dpi = .ok win) :
    getStringWidth measure t font size "mm" dpi = .ok (127 / 5 * win) ∧
    getStringWidth measure t font size "px" dpi = .ok (dpi * win) := by
  obtain ⟨p, hp, hs, hc⟩ := gsw_ok h
  rw [gsw_of_path hp hs, gsw_of_path hp hs]
  unfold convert at *
  by_cases hd : dpi = 0
  · simp [hd] at hc
  · simp [hd] at hc ⊢
    subst hc
    constructor
    · exact Rat.mul_comm _ _
    · grind

/-- the spec predicate the oracle evaluates holds with tolerance 0 -/
theorem C20_units_pred (measure : String → Rat → List Char → Rat) (t : List Char) (font : FontArg)
    (size dpi win wmm wpx : Rat)
    (h1 : getStringWidth measure t font size "in" dpi = .ok win)
    (h2 : getStringWidth measure t font size "mm" dpi = .ok wmm)
    (h3 : getStringWidth measure t font size "px" dpi = .ok wpx) :
    unitsOK 0 dpi wpx win wmm = true := by
  have := C20_units measure t font size dpi win h1
  rw [h2, h3] at this
  obtain ⟨a, b⟩ := this
  injection a with a; injection b with b
  subst a; subst b
  simp [unitsOK, relClose, Rat.sub_self, rabs, Rat.zero_mul]

/-! ## (5) a font given by number or by name gives identical results -/

/-- table lemma: the number → name map is the (number, name) projection of the RTF font table, the
name → number map is its inverse, every name has a font file and every file has generated tables -/
theorem font_tables_consistent :
    fontTable.map (fun r => (r.1, r.2.1)) = fontNumberToName ∧
    fontNameToNumber.map (fun r => (r.2, r.1)) = fontNumberToName ∧
    (fontNumberToName.all fun r => (fontPaths.lookup r.2).isSome) = true ∧
    (fontPaths.all fun r => (fontByFile r.2).isSome) = true := by
  decide +kernel

theorem C20_number_name (measure : String → Rat → List Char → Rat) (t : List Char)
    (n : Nat) (name style code charset : String) (size dpi : Rat) (unit : String)
    (hrow : (n, name, style, code, charset) ∈ fontTable) :
    getStringWidth measure t (.num n) size unit dpi = getStringWidth measure t (.name name) size unit dpi ∧
    ∃ p, fontPath (.num n) = .ok p := by
  have hl : fontNumberToName.lookup n = some name ∧ (fontPaths.lookup name).isSome = true := by
    revert hrow
    have : ∀ r ∈ fontTable, fontNumberToName.lookup r.1 = some r.2.1 ∧
        (fontPaths.lookup r.2.1).isSome = true := by decide +kernel
    intro hrow
    exact this _ hrow
  have hn : fontName (.num (n : Int)) = .ok name := by
    simp [fontName, hl.1]
  have hpath : fontPath (.num (n : Int)) = fontPath (.name name) := by
    unfold fontPath
    rw [hn]
    simp [fontName, bind, Except.bind]
  constructor
  · unfold getStringWidth; rw [hpath]
  · cases h : fontPaths.lookup name with
    | none => simp [h] at hl
    | some p =>
      refine ⟨p, ?_⟩
      unfold fontPath
      rw [hn]
      simp [bind, Except.bind, h]

/-! ## (7) monospace -/

theorem C20_monospace (m : Metrics) (e : Env) (a : Int) (hk : ∀ x y, m.kern x y = 0) (t : List Char)
    (ha : ∀ c ∈ t, m.adv c = a) : measureL1 m e t = ((t.length : Int) : Rat) * ((a : Rat) / 64) := by
  unfold measureL1
  rw [px64_mono m e a hk t ha]
  simp [Rat.div_def, Rat.mul_assoc, Rat.intCast_mul]

/-- the monospaced face: Liberation Mono. Table facts by kernel evaluation. -/
theorem mono_table_facts :
    font_LiberationMono_Regular.kern = [] ∧ font_LiberationMono_Regular.notdef = 1229 ∧
    (font_LiberationMono_Regular.glyphs.all fun g =>
      g.2.2 == 1229 || g.1 == 0x374 || g.1 == 0x375 || g.1 == 0x37A) = true ∧
    fontPaths.lookup "Courier New" = some font_LiberationMono_Regular.file := by
  decide +kernel

def monoExcluded (c : Char) : Bool := c.toNat == 0x374 || c.toNat == 0x375 || c.toNat == 0x37A

private theorem mono_unitsAdv (c : Char) (hc : monoExcluded c = false) :
    unitsAdv font_LiberationMono_Regular c = 1229 := by
  unfold unitsAdv
  split
  · rename_i g a h
    have hm := lookup_mem _ _ _ h
    have := List.all_eq_true.mp mono_table_facts.2.2.1 _ hm
    simp only [monoExcluded, Bool.or_eq_false_iff, beq_eq_false_iff_ne] at hc
    simp only [Bool.or_eq_true, beq_iff_eq] at this
    rcases this with ((h1 | h2) | h3) | h4
    · exact h1
    · exact absurd h2 hc.1.1
    · exact absurd h3 hc.1.2
    · exact absurd h4 hc.2
  · exact mono_table_facts.2.1

/-- what the statement says for the monospaced font, literally -/
def C20_mono_full : Prop :=
  ∀ (n : Nat) (t : List Char) (c : Char), c ∈ t → (∀ x ∈ t, (alphabet.lookup x.toNat).isSome) →
    px64 (libMetrics font_LiberationMono_Regular n) raqmEnv t =
      t.length * px64 (libMetrics font_LiberationMono_Regular n) raqmEnv [c]

/-- … holds for every size and every string that avoids the three zero-advance characters
(also for characters outside the alphabet or the cmap: `.notdef` has the common advance) -/
theorem C20_mono_partial (n : Nat) (t : List Char) (ht : ∀ c ∈ t, monoExcluded c = false) :
    px64 (libMetrics font_LiberationMono_Regular n) raqmEnv t =
      t.length * hbAdvance 1229 (xScale n 2048) := by
  apply px64_mono
  · intro x y
    simp only [libMetrics, hbEmMult]
    have : unitsKern font_LiberationMono_Regular x y = 0 := by
      unfold unitsKern
      split
      · simp [kernLookup, mono_table_facts.1]
      · rfl
    rw [this]; simp [asr]
  · intro c hc
    simp only [libMetrics]
    rw [mono_unitsAdv c (ht c hc)]
    rfl

theorem C20_mono_witness : ¬ C20_mono_full := by
  intro h
  have := h 768 ['a', 'ͺ'] 'a' (by simp) (by decide +kernel)
  revert this
  decide +kernel

/-! ## (8) unsupported fonts or units are a `ValueError`

Here for the typed model (`FontArg` = an int or a string, `unit : String`).  The same clause for **every Python value
class** of every argument (`None`, bool, float, bytes, tuple, numpy scalars, … — the refused value need not be a
string) is stated and proved over `Model.StrWidth.Val` in `Props/C20val.lean` (`C20_val_expected`,
`C20_val_unsupported_font`, `C20_val_unsupported_unit`; `C20_val_refines` ties that model to this one). -/

theorem C20_unknown_font_number (measure : String → Rat → List Char → Rat) (t : List Char) (n : Int)
    (size dpi : Rat) (unit : String) (hn : n < 1 ∨ 10 < n) :
    getStringWidth measure t (.num n) size unit dpi = .error .valueError := by
  have hname : fontName (.num n) = .error .valueError := by
    unfold fontName
    by_cases h0 : n < 0
    · simp [h0]
    · simp only [h0, if_false]
      have : fontNumberToName.lookup n.toNat = none := by
        have key : ∀ k : Nat, k < 1 ∨ 10 < k → fontNumberToName.lookup k = none := by
          intro k hk
          have h10 : fontNumberToName.map (·.1) = [1, 2, 3, 4, 5, 6, 7, 8, 9, 10] := by decide +kernel
          cases hl : fontNumberToName.lookup k with
          | none => rfl
          | some v =>
            have hm := lookup_mem _ _ _ hl
            have : k ∈ fontNumberToName.map (·.1) := List.mem_map.mpr ⟨(k, v), hm, rfl⟩
            rw [h10] at this
            simp at this
            omega
        apply key
        omega
      simp [this]
  simp [getStringWidth, fontPath, hname, bind, Except.bind]

theorem C20_unknown_font_name (measure : String → Rat → List Char → Rat) (t : List Char) (name : String)
    (size dpi : Rat) (unit : String) (hn : fontPaths.lookup name = none) :
    getStringWidth measure t (.name name) size unit dpi = .error .valueError := by
  simp [getStringWidth, fontPath, fontName, hn, bind, Except.bind]

/-- an unsupported unit is a `ValueError` whatever the other arguments are (every earlier failure is a
`ValueError` too, and the division by `dpi` is never reached) -/
theorem C20_unknown_unit (measure : String → Rat → List Char → Rat) (t : List Char) (font : FontArg)
    (size dpi : Rat) (unit : String) (hu : ¬ ValidUnit unit) :
    getStringWidth measure t font size unit dpi = .error .valueError := by
  have hu' : unit ≠ "px" ∧ unit ≠ "in" ∧ unit ≠ "mm" := by
    unfold ValidUnit at hu
    refine ⟨fun h => hu (Or.inl h), fun h => hu (Or.inr (Or.inl h)), fun h => hu (Or.inr (Or.inr h))⟩
  unfold getStringWidth
  cases hp : fontPath font with
  | error e =>
    have : e = .valueError := by
      unfold fontPath at hp
      cases hn : fontName font with
      | error e' =>
        simp only [hn, bind, Except.bind] at hp
        have : e' = .valueError := by
          unfold fontName at hn
          repeat' split at hn
          all_goals simp_all
        simp_all
      | ok nm =>
        simp only [hn, bind, Except.bind] at hp
        split at hp <;> simp_all
    simp [this, bind, Except.bind]
  | ok p =>
    simp only [bind, Except.bind]
    split
    · rfl
    · exact convert_bad_unit _ _ hu'

/-! ## L2: the table hypotheses hold at every size; size scaling -/

/-- font-unit facts of every generated font table (kernel evaluation; re-checked whenever a TTF changes):
`0 ≤ hmtx b + kern a b` for every legacy kern pair, `64 ≤ upem < 65536`, advances ≤ 4096, |kern| ≤ 1024 -/
theorem font_unit_facts : (fonts.all fun f => kernFact f && unitBounds f) = true := by
  decide +kernel

private theorem font_facts (f : FontData) (hf : f ∈ fonts) :
    kernFact f = true ∧ unitBounds f = true ∧ 64 ≤ f.upem ∧ f.upem < 65536 := by
  have := List.all_eq_true.mp font_unit_facts f hf
  simp only [Bool.and_eq_true] at this
  refine ⟨this.1, this.2, ?_, ?_⟩
  · have h := this.2
    simp only [unitBounds, Bool.and_eq_true, decide_eq_true_eq] at h
    exact h.1.1.1.1
  · have h := this.2
    simp only [unitBounds, Bool.and_eq_true, decide_eq_true_eq] at h
    exact h.1.1.1.2

/-- both table hypotheses, for every generated font and **every** 26.6 size -/
theorem C20_L2_tables (f : FontData) (hf : f ∈ fonts) (n : Nat) : TableOK (libMetrics f n) := by
  obtain ⟨h1, _, h3, h4⟩ := font_facts f hf
  exact lib_tableOK f h1 (by omega) h4 n

/-- hence: with this installation's model measure, `get_string_width` is non-negative and monotone under
appending for all ten fonts (the three non-L2 files measure 0 in `measureModel`), all sizes, units, dpi -/
theorem C20_L2_nonneg_append (t u : List Char) (font : FontArg) (size dpi w w' : Rat) (unit : String)
    (hd : 0 < dpi)
    (h : getStringWidth measureModel t font size unit dpi = .ok w)
    (h' : getStringWidth measureModel (t ++ u) font size unit dpi = .ok w') :
    0 ≤ w ∧ w ≤ w' := by
  obtain ⟨p, hp, _, hc⟩ := gsw_ok h
  obtain ⟨p', hp', _, hc'⟩ := gsw_ok h'
  have : p' = p := by rw [hp] at hp'; injection hp' with h; exact h.symm
  subst this
  have key : 0 ≤ measureModel p' size t ∧ measureModel p' size t ≤ measureModel p' size (t ++ u) := by
    unfold measureModel
    cases hf : fontByFile p' with
    | none => simp
    | some f =>
      simp only
      split
      · have hmem : f ∈ fonts := List.mem_of_find?_eq_some hf
        have tab := C20_L2_tables f hmem (size26_6 size)
        exact ⟨rat_div64_nonneg _ (px64_nonneg tab _ t), rat_div64_le _ _ (px64_append_le tab _ t u)⟩
      · simp
  exact ⟨convert_nonneg hd key.1 hc, convert_mono hd key.2 hc hc'⟩

/-- size scaling, exact form: at 26.6 size `n` the width differs from exact linear scaling of the
font-unit width by at most 68640/65536 ≈ 1.05 sixty-fourths of a pixel per character -/
theorem C20_L2_scaling_bound (f : FontData) (hf : f ∈ fonts) (e : Env) (n : Nat) (t : List Char) :
    -(68640 * (f.upem : Int) * t.length) ≤
        65536 * (f.upem : Int) * px64 (libMetrics f n) e t - 65536 * (n : Int) * unitsRun f e t ∧
      65536 * (f.upem : Int) * px64 (libMetrics f n) e t - 65536 * (n : Int) * unitsRun f e t ≤
        68640 * (f.upem : Int) * t.length :=
  lib_scaling_bound f (font_facts f hf).2.1 e n t

/-- what the statement says about scaling, literally (sizes 4..48 are 26.6 values 256..3072) -/
def C20_scaling_full : Prop :=
  ∀ (f : FontData), f ∈ fonts → isL2 f = true → ∀ (t : List Char) (n1 n2 : Nat), t ≠ [] →
    256 ≤ n1 → n1 ≤ 3072 → 256 ≤ n2 → n2 ≤ 3072 →
    scaleOK64 n1 (px64 (libMetrics f n1) raqmEnv t) n2 (px64 (libMetrics f n2) raqmEnv t) = true

/-- … holds whenever the mean advance is at least 212/64 = 3.3125 px at both sizes
(`212·upem·|t| ≤ n·units`): all strings, all sizes, every generated font -/
theorem C20_scaling_partial (f : FontData) (hf : f ∈ fonts) (e : Env) (t : List Char) (n1 n2 : Nat)
    (h1 : 212 * (f.upem : Int) * t.length ≤ n1 * unitsRun f e t)
    (h2 : 212 * (f.upem : Int) * t.length ≤ n2 * unitsRun f e t) :
    scaleOK64 n1 (px64 (libMetrics f n1) e t) n2 (px64 (libMetrics f n2) e t) = true := by
  have hU := (font_facts f hf).2.2.1
  exact one_percent f.upem t.length n1 n2 _ _ (unitsRun f e t) (by omega)
    (C20_L2_scaling_bound f hf e n1 t) (C20_L2_scaling_bound f hf e n2 t) h1 h2

/-- `'|'` in Liberation Sans (Arial) at sizes 4 and 7: 67/64 px and 116/64 px — 0.2617 vs 0.2589 px per
point, 1.07 % apart -/
theorem C20_scaling_witness : ¬ C20_scaling_full := by
  intro h
  have := h font_LiberationSans_Regular (by simp [fonts]) (by decide +kernel) ['|'] 256 448
    (by simp) (by omega) (by omega) (by omega) (by omega)
  revert this
  decide +kernel

/-! ## non-vacuity -/

/-- the hypotheses of the scaling theorem are satisfiable: "Mean" in Liberation Serif at 12 and 9.5 pt -/
example :
    let f := font_LiberationSerif_Regular
    let t := "Mean".toList
    (212 * (f.upem : Int) * t.length ≤ 768 * unitsRun f raqmEnv t ∧
     212 * (f.upem : Int) * t.length ≤ 608 * unitsRun f raqmEnv t) ∧
    px64 (libMetrics f 768) raqmEnv t = 1749 ∧ px64 (libMetrics f 608) raqmEnv t = 1385 := by
  decide +kernel

/-- kerning and script runs at work: "AV" is kerned, and the space in "ϻ A" belongs to the Greek run,
so the pair (space, A) is *not* kerned although it is when measured alone -/
example :
    let m := libMetrics font_LiberationSerif_Regular 768
    px64 m raqmEnv "AV".toList = 1011 ∧ m.adv 'A' + m.adv 'V' = 1110 ∧
    px64 m raqmEnv " A".toList = m.adv ' ' + m.adv 'A' + m.kern ' ' 'A' ∧ m.kern ' ' 'A' < 0 ∧
    px64 m raqmEnv "ϻ A".toList = m.adv 'ϻ' + m.adv ' ' + m.adv 'A' := by
  decide +kernel

/-- observation of a result: `some w` for a width, `none` for an error -/
def okVal : Except Err Rat → Option Rat
  | .ok w => some w
  | .error _ => none

example : okVal (getStringWidth measureModel "Hello, World".toList (.num 4) 12 "mm" 72) = some (529463 / 23040) ∧
    okVal (getStringWidth measureModel "x".toList (.num 11) 12 "in" 72) = none ∧
    okVal (getStringWidth measureModel "x".toList (.name "Arial") 12 "cm" 72) = none := by
  decide +kernel

end Props.C20
