import Model.EncodeMulti
import Proofs.EncodeMultiLift
import Props.C07enc
import Props.C02encm
/-!
# C07 for section lists: which section carries `rtf_page.border_first` / `border_last`

`UnifiedRTFEncoder._encode_multi_section` (model: `Model.EncodeMulti.sectionDocs`) encodes every section of
`df = [f₀, …, fₙ₋₁]` on a copy of the document whose page has `border_first` removed for every section after the first
and `border_last` removed for every section before the last — **by the section's position in the list**.  Here, for a
list of ANY length n ≥ 1 (the one-element list `df=[f]`, `rtf_body=[b]` included):

* `C07encm_page_borders`   section document `i` has `border_first = (i = 0 ? page.border_first : "")` and
                           `border_last = (i + 1 = n ? page.border_last : "")`;
* `C07encm_first_only`     the first section document keeps `page.border_first`, every other one has `""`;
* `C07encm_last_only`      the last section document keeps `page.border_last`, every other one has `""`;
* `C07encm_one_section`    a one-element list: the only section document has the document's page, unchanged — it is the
                           first AND the last section;
* `C07encm_one_section_closed`   … so on its rendering both closing statements of `Props/C07enc.lean` hold with the
                           document's own page borders: the first data row of page 1 (no header row) is emitted with the
                           control word of `page.border_first` on top, the last data row of the last page (no
                           table-rendered footnote / source) with the control word of `page.border_last` at the bottom;
* `C07encm_section_closed` the same two statements for the first / last section of a list of any length
                           (`Props.C02encm.C02encm_first_row_border`, `…_last_row_border` at `i = 0`, `i = n − 1`).

**Finding (known finding `C07-empty-edge-section`).**  "By position" is not "where the table's first / last row is":
a section without data rows renders no data row, and its 0-row page leaves `_apply_pagination_borders` before any border
is applied.  `C07encm_full` states what C07 needs of the section rule on a document whose only table rows are data rows
(`Bare`: no header objects, no footnote, no source) — the last section that HAS a data row keeps `page.border_last`, the
first one that has a data row keeps `page.border_first`; `C07encm_partial` proves it whenever the first and the last
section of the list have a data row; `C07encm_witness` refutes it with the list `[2 rows, 0 rows]`.
-/
namespace Props.C07encm
open Model.Rtf Model.Emit Model.Encode Model.EncodeMulti Model.Broadcast Model.Layout Model.Borders
open Proofs.EncodeLift Proofs.EncodeMultiLift Generated
open Proofs.EncodeAttrs (Run borderIn edgeStr frameRect)

/-! ## the page borders of the section documents, for every list length -/

/-- **section document `i` of a list of `n` sections**: `page.border_first` iff `i = 0`, `page.border_last` iff
`i + 1 = n` (else the empty style: "no page border") -/
theorem C07encm_page_borders (d : MDoc) (i : Nat) (sd : Doc) (h : (sectionDocs d)[i]? = some sd) :
    sd.page.borderFirst = (if i = 0 then d.page.borderFirst else "") ∧
    sd.page.borderLast = (if i + 1 = d.sections.length then d.page.borderLast else "") := by
  rw [sectionDocs_getElem?] at h
  cases hs : d.sections[i]? with
  | none => rw [hs] at h; cases h
  | some s =>
    rw [hs] at h
    simp only [Option.map_some, Option.some.injEq] at h
    subst h
    have hi : i < d.sections.length := (List.getElem?_eq_some_iff.mp hs).1
    obtain ⟨_, _, _, h4, h5, _⟩ := Props.C02encm.C02encm_sectionDoc d d.sections.length i s
    refine ⟨?_, ?_⟩
    · rw [h4]
      by_cases h0 : i = 0
      · subst h0; simp
      · have : 0 < i := Nat.pos_of_ne_zero h0
        simp [h0, this]
    · rw [h5]
      by_cases h1 : i + 1 = d.sections.length
      · have : ¬ i + 1 < d.sections.length := by omega
        simp [h1]
      · have : i + 1 < d.sections.length := by omega
        simp [h1, this]

/-- **`page.border_first` goes to the first section only** — for every non-empty list, the one-element list included -/
theorem C07encm_first_only (d : MDoc) (hne : d.sections ≠ []) :
    ∃ sd rest, sectionDocs d = sd :: rest ∧ sd.page.borderFirst = d.page.borderFirst ∧
      ∀ x ∈ rest, x.page.borderFirst = "" := by
  have hlen : (sectionDocs d).length = d.sections.length := sectionDocs_length d
  cases hsd : sectionDocs d with
  | nil =>
    rw [hsd] at hlen
    exact absurd (List.length_eq_zero_iff.mp hlen.symm) hne
  | cons sd rest =>
    refine ⟨sd, rest, rfl, ?_, ?_⟩
    · have := (C07encm_page_borders d 0 sd (by rw [hsd]; rfl)).1
      simpa using this
    · intro x hx
      obtain ⟨j, hj, hjx⟩ := List.getElem_of_mem hx
      have h2 : (sectionDocs d)[j + 1]? = some x := by
        rw [hsd, List.getElem?_cons_succ, List.getElem?_eq_getElem hj, hjx]
      have := (C07encm_page_borders d (j + 1) x h2).1
      simpa using this

/-- **`page.border_last` goes to the last section only** — for every non-empty list, the one-element list included -/
theorem C07encm_last_only (d : MDoc) (hne : d.sections ≠ []) :
    ∃ init sd, sectionDocs d = init ++ [sd] ∧ sd.page.borderLast = d.page.borderLast ∧
      ∀ x ∈ init, x.page.borderLast = "" := by
  have hlen : (sectionDocs d).length = d.sections.length := sectionDocs_length d
  have hne' : sectionDocs d ≠ [] := by
    intro h0
    rw [h0] at hlen
    exact hne (List.length_eq_zero_iff.mp hlen.symm)
  refine ⟨(sectionDocs d).dropLast, (sectionDocs d).getLast hne', (List.dropLast_concat_getLast hne').symm, ?_, ?_⟩
  · have hpos : 0 < (sectionDocs d).length := List.length_pos_iff.mpr hne'
    have h2 : (sectionDocs d)[(sectionDocs d).length - 1]? = some ((sectionDocs d).getLast hne') := by
      rw [List.getLast_eq_getElem, List.getElem?_eq_getElem]
    have := (C07encm_page_borders d _ _ h2).2
    rw [this, if_pos (by omega)]
  · intro x hx
    obtain ⟨j, hj, hjx⟩ := List.getElem_of_mem hx
    rw [List.length_dropLast] at hj
    have h2 : (sectionDocs d)[j]? = some x := by
      rw [List.getElem?_eq_getElem (by omega)]
      rw [List.getElem_dropLast] at hjx
      rw [hjx]
    have := (C07encm_page_borders d j x h2).2
    rw [this, if_neg (by omega)]

/-- **a one-element list** (`df=[f]`, `rtf_body=[b]`): there is one section document, and its page is the document's
page, unchanged — the only section is the first and the last, it keeps `border_first` AND `border_last` -/
theorem C07encm_one_section (d : MDoc) (s : Section) (h : d.sections = [s]) :
    sectionDocs d = [sectionDoc d 1 0 s] ∧ (sectionDoc d 1 0 s).page = d.page ∧
    (sectionDoc d 1 0 s).page.borderFirst = d.page.borderFirst ∧
    (sectionDoc d 1 0 s).page.borderLast = d.page.borderLast := by
  refine ⟨?_, ?_, ?_, ?_⟩
  · simp [sectionDocs, h, List.zipIdx]
  · simp [sectionDoc]
  · simp [sectionDoc]
  · simp [sectionDoc]

/-! ## … on the emitted rows -/

/-- **the first section opens the table, the last section closes it** (list of any length `n`; for `n = 1` both
statements speak about the same section): on page 1 of section 0, without a header row, every cell of the first data
row is emitted with the control word of `d.page.borderFirst` as its top border; on the last page of section `n − 1`,
without a table-rendered footnote / source there, every cell of the last data row is emitted with the control word of
`d.page.borderLast` as its bottom border -/
theorem C07encm_section_closed (measure : Measure) (d : MDoc) (n i : Nat) (hi : i + 1 = n) (s0 s : Section)
    (R0 : Run measure (ctxM d) (sectionDoc d n 0 s0)) (R : Run measure (ctxM d) (sectionDoc d n i s))
    (hrect0 : frameRect (sectionDoc d n 0 s0) = true) (hcols0 : 0 < R0.p.ncolsDisp)
    (ht0 : Props.C07enc.edgeShapeOk s0.body.attrs.bTop = true)
    (hb0 : Props.C07enc.edgeShapeOk s0.body.attrs.bBottom = true)
    (hrect : frameRect (sectionDoc d n i s) = true) (hcols : 0 < R.p.ncolsDisp)
    (ht : Props.C07enc.edgeShapeOk s.body.attrs.bTop = true) (hb : Props.C07enc.edgeShapeOk s.body.attrs.bBottom = true)
    {pg0 pg : PageCtx} {blocks0 blocks : List Block}
    (hr0 : R0.Renders pg0 blocks0) (hh0 : 0 < pg0.height) (h1 : pg0.number = 1)
    (h2 : hasHeaderRow (sectionDoc d n 0 s0) = false) (h3 : d.page.borderFirst ≠ "")
    (hr : R.Renders pg blocks) (hh : 0 < pg.height) (hlast : pg.number = pg.total) (h4 : d.page.borderLast ≠ "")
    (hf : footTableHere (sectionDoc d n i s).footnote d.page.pageFootnote (pg.number == 1) (pg.number == pg.total)
      = false)
    (hsrc : footTableHere (sectionDoc d n i s).source d.page.pageSource (pg.number == 1) (pg.number == pg.total)
      = false) :
    (∃ code cells e cs gaph just, borderCodes.lookup d.page.borderFirst = some code ∧
      R0.rows[pg0.start]? = some cells ∧ e ∈ R0.ess.flatten ∧
      e = rowElem { gaph := gaph, just := just, cells := cs } ∧ cs.length = cells.length ∧
      ∀ c ∈ cs, ∃ b, c.top = some b ∧ b.style = codeWord code) ∧
    (∃ code cells e cs gaph just, borderCodes.lookup d.page.borderLast = some code ∧
      R.rows[pg.start + pg.height - 1]? = some cells ∧ e ∈ R.ess.flatten ∧
      e = rowElem { gaph := gaph, just := just, cells := cs } ∧ cs.length = cells.length ∧
      ∀ c ∈ cs, ∃ b, c.bottom = some b ∧ b.style = codeWord code) :=
  ⟨Props.C02encm.C02encm_first_row_border measure d n s0 R0 hrect0 hcols0 ht0 hb0 hr0 hh0 h1 h2 h3,
   Props.C02encm.C02encm_last_row_border measure d n i (by omega) s R hrect hcols ht hb hr hh hlast h4 hf hsrc⟩

/-- **the one-element list is closed at both ends by its only section**: with `d.sections = [s]`, on the rendering of
the only section document the first data row of page 1 (no header row) carries `page.border_first` on top and the last
data row of the last page (no table-rendered footnote / source there) carries `page.border_last` at the bottom -/
theorem C07encm_one_section_closed (measure : Measure) (d : MDoc) (s : Section)
    (R : Run measure (ctxM d) (sectionDoc d 1 0 s))
    (hrect : frameRect (sectionDoc d 1 0 s) = true) (hcols : 0 < R.p.ncolsDisp)
    (ht : Props.C07enc.edgeShapeOk s.body.attrs.bTop = true) (hb : Props.C07enc.edgeShapeOk s.body.attrs.bBottom = true)
    {pg0 pg : PageCtx} {blocks0 blocks : List Block}
    (hr0 : R.Renders pg0 blocks0) (hh0 : 0 < pg0.height) (h1 : pg0.number = 1)
    (h2 : hasHeaderRow (sectionDoc d 1 0 s) = false) (h3 : d.page.borderFirst ≠ "")
    (hr : R.Renders pg blocks) (hh : 0 < pg.height) (hlast : pg.number = pg.total) (h4 : d.page.borderLast ≠ "")
    (hf : footTableHere (sectionDoc d 1 0 s).footnote d.page.pageFootnote (pg.number == 1) (pg.number == pg.total)
      = false)
    (hsrc : footTableHere (sectionDoc d 1 0 s).source d.page.pageSource (pg.number == 1) (pg.number == pg.total)
      = false) :
    (∃ code cells e cs gaph just, borderCodes.lookup d.page.borderFirst = some code ∧
      R.rows[pg0.start]? = some cells ∧ e ∈ R.ess.flatten ∧
      e = rowElem { gaph := gaph, just := just, cells := cs } ∧ cs.length = cells.length ∧
      ∀ c ∈ cs, ∃ b, c.top = some b ∧ b.style = codeWord code) ∧
    (∃ code cells e cs gaph just, borderCodes.lookup d.page.borderLast = some code ∧
      R.rows[pg.start + pg.height - 1]? = some cells ∧ e ∈ R.ess.flatten ∧
      e = rowElem { gaph := gaph, just := just, cells := cs } ∧ cs.length = cells.length ∧
      ∀ c ∈ cs, ∃ b, c.bottom = some b ∧ b.style = codeWord code) :=
  C07encm_section_closed measure d 1 0 rfl s s R R hrect hcols ht hb hrect hcols ht hb hr0 hh0 h1 h2 h3 hr hh hlast h4
    hf hsrc

/-! ## finding: an edge section without data rows -/

/-- a document whose only table rows are data rows: no header object, no footnote, no source -/
structure Bare (d : MDoc) : Prop where
  nested : d.nested = false
  flat : d.flatHeaders = []
  fn : d.footnote = none
  src : d.source = none

/-- the closing border reaches the table's last row: the last section that HAS a data row keeps `page.border_last` -/
def ClosingReaches (d : MDoc) : Prop :=
  ∀ i s, d.sections[i]? = some s → s.rows ≠ [] →
    (∀ j s', i < j → d.sections[j]? = some s' → s'.rows = []) →
    (sectionDoc d d.sections.length i s).page.borderLast = d.page.borderLast

/-- the opening border reaches the table's first row: the first section that HAS a data row keeps `page.border_first` -/
def OpeningReaches (d : MDoc) : Prop :=
  ∀ i s, d.sections[i]? = some s → s.rows ≠ [] →
    (∀ j s', j < i → d.sections[j]? = some s' → s'.rows = []) →
    (sectionDoc d d.sections.length i s).page.borderFirst = d.page.borderFirst

/-- what C07 needs of the section rule, on documents whose only table rows are data rows -/
def C07encm_full : Prop := ∀ d : MDoc, Bare d → ClosingReaches d ∧ OpeningReaches d

/-- **partial**: when the first and the last section of the list have a data row, the page borders reach the first and
the last data row of the document (no `Bare` needed: the section rule is by position, and the positions agree) -/
theorem C07encm_partial (d : MDoc)
    (hfirst : ∀ s, d.sections[0]? = some s → s.rows ≠ [])
    (hlast : ∀ s, d.sections[d.sections.length - 1]? = some s → s.rows ≠ []) :
    ClosingReaches d ∧ OpeningReaches d := by
  refine ⟨?_, ?_⟩
  · intro i s hs hrows hafter
    have hi : i < d.sections.length := (List.getElem?_eq_some_iff.mp hs).1
    have hl : i + 1 = d.sections.length := by
      by_cases h : i + 1 = d.sections.length
      · exact h
      · exfalso
        have hlt : d.sections.length - 1 < d.sections.length := by omega
        have h2 : d.sections[d.sections.length - 1]? = some d.sections[d.sections.length - 1] :=
          List.getElem?_eq_getElem hlt
        exact hlast _ h2 (hafter _ _ (by omega) h2)
    rw [(Props.C02encm.C02encm_sectionDoc d d.sections.length i s).2.2.2.2.1, if_neg (by omega)]
  · intro i s hs hrows hbefore
    have hi : i < d.sections.length := (List.getElem?_eq_some_iff.mp hs).1
    have h0 : i = 0 := by
      by_cases h : i = 0
      · exact h
      · exfalso
        have h2 : d.sections[0]? = some d.sections[0] := List.getElem?_eq_getElem (by omega)
        exact hfirst _ h2 (hbefore _ _ (by omega) h2)
    rw [(Props.C02encm.C02encm_sectionDoc d d.sections.length i s).2.2.2.1, if_neg (by omega)]

open Props.C01enc Props.C01encmore in
/-- the witness: two sections under no header, no footnote, no source — 2 rows, then 0 rows; `nrow` and the page borders
of `exPage` (`border_first = border_last = "double"`) -/
def exEmptyLast : MDoc :=
  { exMulti with
    sections := [{ cols := ["a".toList, "b".toList],
                   rows := [[some "x".toList, some "1".toList], [some "y".toList, some "2".toList]],
                   body := exBody, headers := [] },
                 { cols := ["a".toList, "b".toList], rows := [], body := exBody, headers := [] }],
    flatHeaders := [], footnote := none, source := none }

/-- **witness**: in `[2 rows, 0 rows]` the last section that has a data row is section 0, and its section document has
lost `page.border_last` (the section is not the last of the list): the document's last table row is not closed -/
theorem C07encm_witness : ¬ C07encm_full := by
  intro h
  have hb : Bare exEmptyLast := ⟨rfl, rfl, rfl, rfl⟩
  have hc := (h exEmptyLast hb).1 0 _ rfl (by decide) (by
    intro j s' hj hs'
    match j, hj, hs' with
    | 1, _, hs' =>
      simp only [exEmptyLast] at hs'
      cases hs'
      rfl
    | j + 2, _, hs' =>
      simp [exEmptyLast] at hs')
  revert hc
  decide

set_option maxRecDepth 100000

open Props.C01enc Props.C02 in
/-- by evaluation: the encoder accepts the witness; its only data rows (0, 1) are rendered by section document 0, whose
page has `border_last = ""`; section document 1, which keeps `"double"`, renders no data row -/
example :
    (match encodeWithM exMeasure exEmptyLast with | .ok _ => true | .error _ => false) = true ∧
    ((sectionDocs exEmptyLast).map fun sd =>
      match encoderBlocks exMeasure sd with
      | .ok pbs => pbs.map (fun x => dataIdx x.2)
      | .error _ => []) = [[[0, 1]], [[]]] ∧
    (sectionDocs exEmptyLast).map (fun sd => (sd.page.borderFirst, sd.page.borderLast)) =
      [("double", ""), ("", "double")] := by
  refine ⟨by decide +kernel, by decide +kernel, by decide +kernel⟩

open Props.C01enc Props.C01encmore in
/-- the hypotheses of `C07encm_partial` are satisfiable by a non-trivial list (three sections, `exMulti3`), and those of
`C07encm_one_section` by a one-element list -/
example : ClosingReaches Props.C02encm.exMulti3 ∧ OpeningReaches Props.C02encm.exMulti3 :=
  C07encm_partial _ (by intro s hs; cases hs; decide) (by intro s hs; cases hs; decide)

open Props.C01enc Props.C01encmore in
example : ∃ s, ({ exMulti with sections := exMulti.sections.take 1 } : MDoc).sections = [s] := ⟨_, rfl⟩

end Props.C07encm
