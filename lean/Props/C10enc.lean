import Model.Encode
import Model.Escape
import Model.Convert
import Model.ConvertSpec
import Proofs.EncodeLift
import Proofs.EncodeAttrs
import Proofs.EncodeColor
import Proofs.EncodeText
import Props.C10
import Props.C11
import Props.C02enc
import Props.C01enc
/-!
# C10 for the whole-encoder model: every character reaches the reader intact

`Props/C10.lean` proves the property about the escaper (`Model.Escape.escape`) and the reader
(`Model.Escape.decode`) for every Unicode text.  Here it is stated about the ENCODER model `Model.Encode.encode`
(byte-exact against `rtf_encode()`), in the vocabulary of `Proofs/EncodeLift.lean` (`plan`, `Renders`, traces).

1. **Where text goes.**  Every text-bearing position the encoder renders writes the text hole
   `textNodes (convText conv t)` — the user's text `t` of that position, converted under the position's `text_convert`
   flag `conv` and escaped — and nothing else of the user's text:
   data cells (`C10enc_data_cell_hole`), column header cells (`C10enc_header_cell_hole`), spanning group headings
   (`C10enc_heading_hole`), the subline_by heading (`C10enc_sublineHeading_hole`: the escaper alone), title and subline
   (`C10enc_title_hole`, `C10enc_subline_hole`), page header / footer (`C10enc_page_header_footer_hole`), footnote and
   source (`C10enc_footnote_hole`, `C10enc_source_hole`).  `FlagAt M r c conv` says where the flag is read.
2. **What the bytes are.**  `holeBytes` of such a hole is the escaper's output on the converted text
   (`C10enc_hole_bytes`): 7-bit, its own UTF-8 encoding.
3. **What the reader sees.**  `C10enc_hole_intact`: under `HoleReadable conv t` the reader (`decode`) shows exactly
   `displayText conv t` — the text itself with conversion off (`C10enc_roundtrip_off`) or without conversion-triggering
   characters (`C10enc_roundtrip_inert`); with conversion on, the characters of the one-pass reading `spec t`
   (`C10enc_roundtrip_converted`) — meets nothing malformed, closes every group, and every `\u` it meets has a signed
   16-bit argument, is governed by `\uc1` and followed by exactly one fallback character (`C10enc_u_escapes`).
4. **End to end** for data cells: `C10enc_data_cell_end_to_end`.
-/
namespace Props.C10enc
open Model.Rtf Model.Emit Model.Encode Model.Broadcast Model.Layout
open Proofs.EncodeLift Proofs.EncodeAttrs Proofs.EncodeColor Proofs.EncodeText

/-! ## 1. where text goes -/

/-- **data cells.**  Every `.data i` block of the trace is one table row with one cell per value of row `i` of the
final frame; the hole of cell `j` is the converted display text of value `j` (`""` for null), under the flag read from
the page's attributes at the cell's page-relative position. -/
theorem C10enc_data_cell_hole (k : ColorCtx) (d : Doc) (pl : Plan) (R : Trace) (hR : Renders k d pl R)
    (x : PageCtx × List (Block × List Elem)) (hx : x ∈ R) (y : Block × List Elem) (hy : y ∈ x.2)
    (i : Nat) (hb : y.1 = Block.data i) :
    ∃ cells fmt, pl.rows[i]? = some cells ∧ y.2 = [rowElem fmt] ∧ fmt.cells.length = cells.length ∧
      ∀ j c, cells[j]? = some c → ∃ cf conv, fmt.cells[j]? = some cf ∧
        FlagAt (pageAttrs d pl.bodyA pl.p x.1).attrs.convert (i - x.1.dataStart) j conv ∧
        cf.body = textNodes (convText conv (c.getD [])) := by
  have h := hR.each x hx y hy
  rw [hb] at h
  simp only [renderBlock] at h
  split at h
  · next cells hcells =>
    obtain ⟨e, he, h⟩ := Proofs.Encode.bind_ok h
    have hy2 := (Proofs.Encode.pure_ok h).symm
    obtain ⟨fmt, rfl, hlen, hcell⟩ := encodeRow_holes he
    exact ⟨cells, fmt, hcells, hy2, hlen, hcell⟩
  · cases h

/-- **column header cells.**  A `.colHeader i` block renders header object `i`: nothing when it has no text (and
`as_colheader` is off), otherwise one row with one cell per header text (its own `text`, or the displayed column names);
the hole of cell `j` is the converted header text `j`, under the flag at `(0, j)` of the header's `text_convert`. -/
theorem C10enc_header_cell_hole (k : ColorCtx) (d : Doc) (pl : Plan) (R : Trace) (hR : Renders k d pl R)
    (x : PageCtx × List (Block × List Elem)) (hx : x ∈ R) (y : Block × List Elem) (hy : y ∈ x.2)
    (i : Nat) (hb : y.1 = Block.colHeader i) (hdr : Header) (hh : (d.headers[i]?).join = some hdr) :
    (headerText d pl.p hdr = none ∧ y.2 = []) ∨
    ∃ text A fmt, headerText d pl.p hdr = some text ∧ hdr.attrs.mapM Attr.toNested = .ok A ∧
      y.2 = [rowElem fmt] ∧ fmt.cells.length = text.length ∧
      ∀ j t, text[j]? = some t → ∃ cf conv, fmt.cells[j]? = some cf ∧ FlagAt A.convert 0 j conv ∧
        cf.body = textNodes (convText conv t) := by
  have h := hR.each x hx y hy
  rw [hb] at h
  simp only [renderBlock, hh] at h
  rcases renderHeader_text h with h0 | ⟨text, ht, hin⟩
  · exact Or.inl h0
  · obtain ⟨A, fmt, hA, hes, hlen, hcell⟩ := headerInner_holes hin
    exact Or.inr ⟨text, A, fmt, ht, hA, hes, hlen, hcell⟩

/-- **spanning group headings.**  A `.heading lvl t` block is one row of one cell whose hole is the converted heading
text `t`; the flag is the body's `text_convert` at row 0 of the page_by column, and `False` — the default of
`encode_spanning_row` — when the body holds no `text_convert`. -/
theorem C10enc_heading_hole (k : ColorCtx) (d : Doc) (pl : Plan) (R : Trace) (hR : Renders k d pl R)
    (x : PageCtx × List (Block × List Elem)) (hx : x ∈ R) (y : Block × List Elem) (hy : y ∈ x.2)
    (lvl : Nat) (t : String) (hb : y.1 = Block.heading lvl t) :
    ∃ fmt cf conv, y.2 = [rowElem fmt] ∧ fmt.cells = [cf] ∧ cf.body = textNodes (convText conv t.toList) ∧
      ((pl.bodyA.convert = none ∧ conv = false) ∨
       (pl.bodyA.convert ≠ none ∧ FlagAt pl.bodyA.convert 0 (spanCol d lvl) conv)) := by
  have h := hR.each x hx y hy
  rw [hb] at h
  simp only [renderBlock] at h
  obtain ⟨e, he, h⟩ := Proofs.Encode.bind_ok h
  have hy2 := (Proofs.Encode.pure_ok h).symm
  obtain ⟨fmt, cf, conv, rfl, h2, h3, h4⟩ := spanningRow_hole he
  exact ⟨fmt, cf, conv, hy2, h2, h3, h4⟩

/-- **the subline_by heading**: a fixed paragraph around the hole `textNodes (convText false t)` — the escaper alone,
never the conversion (empty heading text: nothing) -/
theorem C10enc_sublineHeading_hole (k : ColorCtx) (d : Doc) (pl : Plan) (R : Trace) (hR : Renders k d pl R)
    (x : PageCtx × List (Block × List Elem)) (hx : x ∈ R) (y : Block × List Elem) (hy : y ∈ x.2)
    (t : String) (hb : y.1 = Block.sublineHeading t) :
    y.2 = (if t.isEmpty then [] else
      [[BlockG.plain [Node.grp [cw0 "pard", cw0 "hyphpar", cwi "fi" 0, cwi "li" 0, cwi "ri" 0, cw0 "ql", cwi "fs" 18,
        Node.grp (Node.cw "f".toList (some 0) true :: textNodes (convText false t.toList)), cw0 "par"]]]]) := by
  have h := hR.each x hx y hy
  rw [hb] at h
  simp only [renderBlock] at h
  split at h
  · next he => rw [if_pos he]; exact (Except.ok.inj h).symm
  · next he => rw [if_neg he, ← sublineHeading_hole]; exact (Except.ok.inj h).symm

/-- the lines of a text component (title, subline, page header, page footer): line `i` of the paragraph is the hole of
the component's `i`-th text line, under the flag at `(i, 0)` of the component's `text_convert` -/
def LinesOf (c : TextComp) (text : List Model.Encode.Str) (ls : List (TextFmt × List Node)) : Prop :=
  ∃ a, c.attrs.mapM Attr.toNested = .ok a ∧ c.text = some text ∧ text ≠ [] ∧ ls.length = text.length ∧
    ∀ i t, text[i]? = some t → ∃ tf conv, ls[i]? = some (tf, textNodes (convText conv t)) ∧ FlagAt a.convert i 0 conv

theorem linesOf_of_resolve {k : ColorCtx} {c : TextComp} {text : List Model.Encode.Str} {a : TextAttrsOf MatV}
    {ls : List (TextFmt × List Node)} (ha : c.attrs.mapM Attr.toNested = .ok a) (ht : c.text = some text)
    (hne : text ≠ []) (h : resolveLines k a text = .ok ls) : LinesOf c text ls := by
  obtain ⟨h1, h2⟩ := resolveLines_holes h
  exact ⟨a, ha, ht, hne, h1, h2⟩

/-- **title**: nothing of the title when it has no text; otherwise ONE paragraph of its lines (joined by `\line`),
followed by the separating newline -/
theorem C10enc_title_hole (k : ColorCtx) (d : Doc) (pl : Plan) (R : Trace) (hR : Renders k d pl R)
    (x : PageCtx × List (Block × List Elem)) (hx : x ∈ R) (y : Block × List Elem) (hy : y ∈ x.2)
    (hb : y.1 = Block.title) :
    (hasText d.title = false ∧ y.2 = [[BlockG.plain [Node.nl]]]) ∨
    ∃ c text ls last body, d.title = some c ∧ LinesOf c text ls ∧ ls.getLast? = some (last, body) ∧
      y.2 = [[BlockG.plain [linesParagraph last ls]], [BlockG.plain [Node.nl]]] := by
  have h := hR.each x hx y hy
  rw [hb] at h
  simp only [renderBlock] at h
  obtain ⟨es, he, h⟩ := Proofs.Encode.bind_ok h
  have hy2 := (Proofs.Encode.pure_ok h).symm
  rcases textElem_inv he with ⟨rfl, h0⟩ | ⟨c, text, a, ls, last, body, hc, ht, hne, ha, hl, hlast, rfl⟩
  · exact Or.inl ⟨h0, hy2⟩
  · exact Or.inr ⟨c, text, ls, last, body, hc, linesOf_of_resolve ha ht hne hl, hlast, hy2⟩

/-- **subline** (the document's subline component, not the subline_by heading) -/
theorem C10enc_subline_hole (k : ColorCtx) (d : Doc) (pl : Plan) (R : Trace) (hR : Renders k d pl R)
    (x : PageCtx × List (Block × List Elem)) (hx : x ∈ R) (y : Block × List Elem) (hy : y ∈ x.2)
    (hb : y.1 = Block.subline) :
    (hasText d.subline = false ∧ y.2 = []) ∨
    ∃ c text ls last body, d.subline = some c ∧ LinesOf c text ls ∧ ls.getLast? = some (last, body) ∧
      y.2 = [[BlockG.plain [linesParagraph last ls]]] := by
  have h := hR.each x hx y hy
  rw [hb] at h
  simp only [renderBlock] at h
  rcases textElem_inv h with ⟨he0, h0⟩ | ⟨c, text, a, ls, last, body, hc, ht, hne, ha, hl, hlast, hes⟩
  · exact Or.inl ⟨h0, he0⟩
  · exact Or.inr ⟨c, text, ls, last, body, hc, linesOf_of_resolve ha ht hne hl, hlast, hes⟩

/-- what `{\header …}` / `{\footer …}` of the head holds for a page header / footer component -/
def HFOf (word : String) (c : Option TextComp) (ns : List Node) : Prop :=
  (hasText c = false ∧ ns = []) ∨
  ∃ c' text ls last body, c = some c' ∧ LinesOf c' text ls ∧ ls.getLast? = some (last, body) ∧
    ns = [Node.grp [cw0 word, linesParagraph last ls]]

/-- **page header / footer**: the two groups in the head of the document hold one paragraph of the component's lines -/
theorem C10enc_page_header_footer_hole (measure : Measure) (d : Doc) (g : DocG) (h : encode measure d = .ok g) :
    ∃ fontTbl colorTbl hdr ftr ps,
      g.head = [cw0 "ansi", Node.nl, cwi "deff" 0, cwi "deflang" 1033, Node.nl] ++ textNodes fontTbl ++
        [Node.nl] ++ textNodes colorTbl ++ [Node.nl, Node.nl, Node.nl] ++ hdr ++ [Node.nl] ++ ftr ++
        [Node.nl] ++ ps ++ [Node.nl] ∧
      HFOf "header" d.pageHeader hdr ∧ HFOf "footer" d.pageFooter ftr := by
  obtain ⟨fontTbl, colorTbl, hdr, ftr, ps, _, _, hh, hf, _, hhead⟩ := encode_head h
  refine ⟨fontTbl.toList, colorTbl.toList, hdr, ftr, ps, hhead, ?_, ?_⟩
  · rcases pageHF_inv hh with ⟨rfl, h0⟩ | ⟨c, text, a, ls, last, body, hc, ht, hne, ha, hl, hlast, rfl⟩
    · exact Or.inl ⟨h0, rfl⟩
    · exact Or.inr ⟨c, text, ls, last, body, hc, linesOf_of_resolve ha ht hne hl, hlast, rfl⟩
  · rcases pageHF_inv hf with ⟨rfl, h0⟩ | ⟨c, text, a, ls, last, body, hc, ht, hne, ha, hl, hlast, rfl⟩
    · exact Or.inl ⟨h0, rfl⟩
    · exact Or.inr ⟨c, text, ls, last, body, hc, linesOf_of_resolve ha ht hne hl, hlast, rfl⟩

/-- what is rendered for a footnote / source component: as paragraph, one paragraph holding its text (nothing for an
empty text); as table, one row of one cell; in both the hole is the converted text under the flag at `(0, 0)` -/
def FootOf (f : Foot) (es : List Elem) : Prop :=
  ∃ A, f.attrs.mapM Attr.toNested = .ok A ∧
    (f.asTable = false →
      (f.text.getD [] = [] ∧ es = []) ∨
      (f.text.getD [] ≠ [] ∧ ∃ tf conv, FlagAt A.convert 0 0 conv ∧
        es = [[BlockG.plain [paragraph tf (textNodes (convText conv (f.text.getD [])))]]])) ∧
    (f.asTable = true → ∃ fmt cf conv, es = [rowElem fmt] ∧ fmt.cells = [cf] ∧ FlagAt A.convert 0 0 conv ∧
      cf.body = textNodes (convText conv (f.text.getD [])))

/-- **footnote** -/
theorem C10enc_footnote_hole (k : ColorCtx) (d : Doc) (pl : Plan) (R : Trace) (hR : Renders k d pl R)
    (x : PageCtx × List (Block × List Elem)) (hx : x ∈ R) (y : Block × List Elem) (hy : y ∈ x.2)
    (b : Bool) (hb : y.1 = Block.footnote b) (f : Foot) (hf : d.footnote = some f) : FootOf f y.2 := by
  have h := hR.each x hx y hy
  rw [hb] at h
  simp only [renderBlock, hf] at h
  exact renderFoot_holes h

/-- **source** -/
theorem C10enc_source_hole (k : ColorCtx) (d : Doc) (pl : Plan) (R : Trace) (hR : Renders k d pl R)
    (x : PageCtx × List (Block × List Elem)) (hx : x ∈ R) (y : Block × List Elem) (hy : y ∈ x.2)
    (b : Bool) (hb : y.1 = Block.source b) (f : Foot) (hf : d.source = some f) : FootOf f y.2 := by
  have h := hR.each x hx y hy
  rw [hb] at h
  simp only [renderBlock, hf] at h
  exact renderFoot_holes h

/-- the remaining block kind carries no text of the user: a page break is fixed material -/
theorem C10enc_break_no_text (k : ColorCtx) (d : Doc) (pl : Plan) (R : Trace) (hR : Renders k d pl R)
    (x : PageCtx × List (Block × List Elem)) (hx : x ∈ R) (y : Block × List Elem) (hy : y ∈ x.2)
    (hb : y.1 = Block.brk) : ∃ ns, pageBreak d.page = .ok ns ∧ y.2 = [[BlockG.plain ns]] := by
  have h := hR.each x hx y hy
  rw [hb] at h
  simp only [renderBlock] at h
  obtain ⟨ns, hns, h⟩ := Proofs.Encode.bind_ok h
  exact ⟨ns, hns, (Proofs.Encode.pure_ok h).symm⟩

/-! ## 2. the bytes of a text hole -/

open Model.Escape Model.Convert

/-- The bytes printed for the hole of text `t` under flag `conv` are the escaper's output on the converted text (the
text itself when `conv` is off); they are 7-bit, hence their own UTF-8 encoding: what `write_rtf` puts on disk does not
depend on the reader's code page. -/
theorem C10enc_hole_bytes (conv : Bool) (t : List Char) :
    printNodes (textNodes (convText conv t)) = convText conv t ∧
    holeBytes (textNodes (convText conv t)) = escape (cps (convertCore conv t)) ∧
    (∀ b ∈ holeBytes (textNodes (convText conv t)), b < 128) ∧
    utf8 (holeBytes (textNodes (convText conv t))) = some (holeBytes (textNodes (convText conv t))) := by
  rw [holeBytes_eq]
  exact ⟨print_hole conv t, rfl, Proofs.Escape.escape_ascii _, Proofs.Escape.utf8_escape _⟩

/-! ## 3. what the reader sees -/

/-- the characters the reader is to show for text `t` under flag `conv`: the text itself, or — conversion on — the
characters of its one-pass reading (`Model.Convert.spec`): plain and mapped characters, `≥` / `≤` followed by the blank
rtflite leaves (D15); switches, line breaks and page fields show no character -/
def displayText (conv : Bool) (t : List Char) : List Nat :=
  if conv then (spec t).flatMap shown else cps t

/-- the number of formatting control words the reader is to meet -/
def displayWords (conv : Bool) (t : List Char) : Nat :=
  if conv then ((spec t).map evWords).sum else 0

/-- the texts the reader theorem covers.  Conversion off: no raw `\ { }`, CR, LF (every other Unicode scalar value is
allowed, C0/C1 controls included).  Conversion on: a `regular` text (C11) whose reading consists of such characters and
the five one-word switches `^ _ newline \pagenumber \totalpage` — no unknown command, no `\pagefield`. -/
def HoleReadable (conv : Bool) (t : List Char) : Prop :=
  if conv then regular t = true ∧ ∀ e ∈ spec t, simpleEv e = true else ∀ c ∈ t, readable c.toNat = true

/-- C10's domain (`Props.C10.Plain`: no control character, no raw `\ { }`) is inside `HoleReadable false` -/
theorem C10enc_plain_readable (t : List Char) (h : ∀ c ∈ t, Props.C10.Plain c) : HoleReadable false t := by
  intro c hc
  exact Proofs.Escape.inDomain_readable _ (h c hc)

theorem shown_plain (t : List Char) : (t.map Event.plain).flatMap shown = cps t := by
  induction t with
  | nil => rfl
  | cons c t ih =>
    rw [List.map_cons, List.flatMap_cons, ih]
    rfl

theorem words_plain (t : List Char) : ((t.map Event.plain).map evWords).sum = 0 := by
  induction t with
  | nil => rfl
  | cons c t ih =>
    rw [List.map_cons, List.map_cons, List.sum_cons, ih]
    rfl

/-- … and a text of such characters without `^ _ > < newline` is inside `HoleReadable true`, with itself as display
text: conversion leaves it alone -/
theorem C10enc_inert_readable (t : List Char) (h : ∀ c ∈ t, Props.C10.Plain c) (hi : t.all inertC = true) :
    HoleReadable true t ∧ displayText true t = cps t ∧ displayWords true t = 0 ∧ convertCore true t = t := by
  have hspec : spec t = t.map Event.plain := specGo_inert latexTable t hi
  have hreg : regular t = true := regularGo_inert t hi
  refine ⟨⟨hreg, ?_⟩, ?_, ?_, ?_⟩
  · intro e he
    rw [hspec] at he
    obtain ⟨c, hc, rfl⟩ := List.mem_map.mp he
    exact Proofs.Escape.inDomain_readable _ (h c hc)
  · simp only [displayText, if_true, hspec]
    exact shown_plain t
  · simp only [displayWords, if_true, hspec]
    exact words_plain t
  · rw [Props.C11.C11_conversion_upto_D15 t hreg, hspec, renderD15_plain]

/-- **the reader on a text hole.**  For every text in the covered class the reader shows exactly the display text,
meets nothing malformed, closes every group, counts one formatting word per switch, and the `\u` escapes it meets are
those of the display text. -/
theorem C10enc_hole_decoded (conv : Bool) (t : List Char) (h : HoleReadable conv t) :
    decode (holeBytes (textNodes (convText conv t))) =
      { text := displayText conv t, us := uTrace (displayText conv t), words := displayWords conv t, errs := [],
        depth := 0 } := by
  rw [holeBytes_eq]
  cases conv with
  | false =>
    simp only [HoleReadable, Bool.false_eq_true, if_false] at h
    simp only [displayText, displayWords, Bool.false_eq_true, if_false]
    show decode (escape (cps t)) = _
    apply Proofs.Escape.decode_escape
    intro n hn
    obtain ⟨c, hc, rfl⟩ := List.mem_map.mp hn
    exact h c hc
  | true =>
    simp only [HoleReadable, if_true] at h
    simp only [displayText, displayWords, if_true]
    rw [Props.C11.C11_conversion_upto_D15 t h.1]
    exact decode_render (spec t) h.2

/-- the decidable oracle used on the implementation's output holds of the encoder model's holes -/
theorem C10enc_hole_intact (conv : Bool) (t : List Char) (h : HoleReadable conv t) :
    intact (displayText conv t) (decode (holeBytes (textNodes (convText conv t)))) = true := by
  rw [holeBytes_eq]
  cases conv with
  | false =>
    simp only [HoleReadable, Bool.false_eq_true, if_false] at h
    simp only [displayText, Bool.false_eq_true, if_false]
    apply Proofs.Escape.intact_escape
    intro n hn
    obtain ⟨c, hc, rfl⟩ := List.mem_map.mp hn
    exact h c hc
  | true =>
    simp only [HoleReadable, if_true] at h
    simp only [displayText, if_true]
    rw [Props.C11.C11_conversion_upto_D15 t h.1]
    exact intact_render (spec t) h.2

/-- conversion off: the reader shows the user's text, character for character -/
theorem C10enc_roundtrip_off (t : List Char) (h : ∀ c ∈ t, Props.C10.Plain c) :
    (utf8 (holeBytes (textNodes (convText false t)))).map decode =
      some { text := cps t, us := uTrace (cps t), words := 0, errs := [], depth := 0 } := by
  rw [(C10enc_hole_bytes false t).2.2.2, Option.map_some, C10enc_hole_decoded false t (C10enc_plain_readable t h)]
  rfl

/-- conversion on, no conversion-triggering character: the same -/
theorem C10enc_roundtrip_inert (t : List Char) (h : ∀ c ∈ t, Props.C10.Plain c) (hi : t.all inertC = true) :
    (utf8 (holeBytes (textNodes (convText true t)))).map decode =
      some { text := cps t, us := uTrace (cps t), words := 0, errs := [], depth := 0 } := by
  obtain ⟨h1, h2, h3, _⟩ := C10enc_inert_readable t h hi
  rw [(C10enc_hole_bytes true t).2.2.2, Option.map_some, C10enc_hole_decoded true t h1, h2, h3]

/-- conversion on: the reader shows the characters of the one-pass reading of the text — exactly the documented tokens
are translated (C11), every other character reaches the reader as it is -/
theorem C10enc_roundtrip_converted (t : List Char) (hreg : regular t = true)
    (hev : ∀ e ∈ spec t, simpleEv e = true) :
    (utf8 (holeBytes (textNodes (convText true t)))).map decode =
      some { text := (spec t).flatMap shown, us := uTrace ((spec t).flatMap shown),
             words := ((spec t).map evWords).sum, errs := [], depth := 0 } := by
  rw [(C10enc_hole_bytes true t).2.2.2, Option.map_some, C10enc_hole_decoded true t ⟨hreg, hev⟩]
  rfl

/-- every `\uN` the reader meets in a text hole has `N` in the signed 16-bit range, is governed by `\uc1`, and is
followed by exactly that one fallback character -/
theorem C10enc_u_escapes (conv : Bool) (t : List Char) (h : HoleReadable conv t) :
    ∀ e ∈ (decode (holeBytes (textNodes (convText conv t)))).us,
      -32768 ≤ e.arg ∧ e.arg ≤ 32767 ∧ e.uc = 1 ∧ e.skipped = e.uc := by
  rw [C10enc_hole_decoded conv t h]
  intro e he
  have hread : ∀ n ∈ displayText conv t, readable n = true := by
    cases conv with
    | false =>
      simp only [HoleReadable, Bool.false_eq_true, if_false] at h
      simp only [displayText, Bool.false_eq_true, if_false]
      intro n hn
      obtain ⟨c, hc, rfl⟩ := List.mem_map.mp hn
      exact h c hc
    | true =>
      simp only [HoleReadable, if_true] at h
      simp only [displayText, if_true]
      exact shown_readable (spec t) h.2
  have := Proofs.Escape.uTrace_ok (displayText conv t) (fun n hn => Proofs.Escape.readable_lt n (hread n hn)) e he
  simp only [Model.Escape.uOk, Bool.and_eq_true, decide_eq_true_eq, beq_iff_eq] at this
  exact ⟨this.1.1.1, this.1.1.2, this.2, this.1.2⟩

/-! ## 4. end to end: a frame cell reaches the reader -/

/-- **End to end for data cells.**  For every accepted document (no group_by, unique column names), every frame row `i`
and every displayed column `j` (named `c`, original column `kk`): the trace has the `.data i` block, rendered as one
table row; the hole of its `j`-th cell is the converted display text of the frame's value `v` at `(i, kk)` under the
flag `conv` read at the cell's position; and whenever that text is in the covered class, the bytes printed for the cell's
content decode to its display text — intact, nothing malformed, all `\u` in range with one fallback. -/
theorem C10enc_data_cell_end_to_end (measure : Measure) (d : Doc) (g : DocG) (h : encode measure d = .ok g)
    (hgb : d.body.groupByL = []) (hnd : d.cols.Nodup) (i : Nat) (row : List (Option Model.Encode.Str))
    (hrow : d.rows[i]? = some row) (hlen : row.length = d.cols.length) :
    ∃ pl R x y fmt, plan measure d = .ok pl ∧ Renders (mkColorCtx d) d pl R ∧
      g.blocks = joinElems R.elems ++ [BlockG.plain [Node.nl, Node.nl, Node.nl, Node.nl]] ∧
      x ∈ R ∧ y ∈ x.2 ∧ y.1 = Block.data i ∧ y.2 = [rowElem fmt] ∧
      ∀ j c, pl.p.dispCols[j]? = some c → ∃ (kk : Nat) (v : Option Model.Encode.Str) (cf : CellFmt) (conv : Bool),
        d.cols[kk]? = some c ∧ row[kk]? = some v ∧ fmt.cells[j]? = some cf ∧
        FlagAt (pageAttrs d pl.bodyA pl.p x.1).attrs.convert (i - x.1.dataStart) j conv ∧
        cf.body = textNodes (convText conv (v.getD [])) ∧
        (HoleReadable conv (v.getD []) →
          decode (holeBytes cf.body) =
            { text := displayText conv (v.getD []), us := uTrace (displayText conv (v.getD [])),
              words := displayWords conv (v.getD []), errs := [], depth := 0 } ∧
          intact (displayText conv (v.getD [])) (decode (holeBytes cf.body)) = true) := by
  obtain ⟨pl, R, hp, hR, hg⟩ := encode_trace h
  have hi : i < d.rows.length := (List.getElem?_eq_some_iff.mp hrow).1
  have hmem : i ∈ R.flatMap (fun x => Props.C02.dataIdx (x.2.map Prod.fst)) := by
    rw [Props.C02enc.C02enc_trace_rows_once measure _ d pl R hp hR]
    exact List.mem_range.mpr hi
  obtain ⟨x, hx, hix⟩ := List.mem_flatMap.mp hmem
  simp only [Props.C02.dataIdx, List.mem_filterMap, List.mem_map] at hix
  obtain ⟨b, ⟨y, hy, rfl⟩, hbi⟩ := hix
  have hb : y.1 = Block.data i := by
    cases hy1 : y.1 <;> rw [hy1] at hbi <;> simp at hbi
    rw [hbi]
  obtain ⟨cells, fmt, hcells, hy2, hflen, hcell⟩ := C10enc_data_cell_hole _ d pl R hR x hx y hy i hb
  refine ⟨pl, R, x, y, fmt, hp, hR, hg, hx, hy, hb, hy2, ?_⟩
  intro j c hj
  obtain ⟨kk, v, hk, hv, hres⟩ := Props.C02enc.C02enc_row_cells measure d pl hp hgb hnd i row cells hrow hlen hcells j c hj
  cases hcj : cells[j]? with
  | none => rw [hcj] at hres; simp at hres
  | some cv =>
    rw [hcj] at hres
    simp only [Option.map_some, Option.some.injEq] at hres
    have hcv : cv.getD [] = v.getD [] := ofList_inj hres
    obtain ⟨cf, conv, h1, h2, h3⟩ := hcell j cv hcj
    rw [hcv] at h3
    refine ⟨kk, v, cf, conv, hk, hv, h1, h2, h3, ?_⟩
    intro hread
    rw [h3]
    exact ⟨C10enc_hole_decoded conv _ hread, C10enc_hole_intact conv _ hread⟩

/-! ## non-vacuity -/

set_option maxRecDepth 100000

/-- the hypotheses are satisfiable and the conclusions are not trivial: a text with a Latin-1 letter, Greek, a BMP
character above U+7FFF (negative `\u`) and an astral character is readable with conversion off and (no trigger
character) on; a text with `^`, `>=`, a LaTeX command and a non-ASCII letter is readable with conversion on and shows
`x²`-style switches as words, `≥ ` and `α` as characters -/
example :
    let t := ['c', 'a', 'f', 'é', ' ', 'α', '€', '�', '😀', '!']
    (∀ c ∈ t, Props.C10.Plain c) ∧ t.all inertC = true ∧
    displayText true "n>=3 m^2 \\alpha é".toList = [110, 8805, 32, 51, 32, 109, 50, 32, 945, 32, 233] ∧
    displayWords true "n>=3 m^2 \\alpha é".toList = 1 ∧
    regular "n>=3 m^2 \\alpha é".toList = true ∧
    (spec "n>=3 m^2 \\alpha é".toList).all simpleEv = true ∧
    (decode (holeBytes (textNodes (convText true "n>=3 m^2 \\alpha é".toList)))).text =
      [110, 8805, 32, 51, 32, 109, 50, 32, 945, 32, 233] := by
  decide +kernel

open Props.C01enc in
/-- the end-to-end theorem applies to the example document of `Props/C01enc.lean` (converted `>=`, `^`, non-ASCII `é`,
conversion on in the body): the encoder accepts it, it has no group_by and unique column names, and its cell texts are
in the covered class -/
example :
    (match encode exMeasure (exDoc [1, 2]) with | .ok _ => true | .error _ => false) = true ∧
    (exDoc [1, 2]).body.groupByL = [] ∧ (exDoc [1, 2]).cols.Nodup ∧
    (regular "n>=3 m^2".toList = true ∧ (spec "n>=3 m^2".toList).all simpleEv = true) ∧
    (regular "é".toList = true ∧ (spec "é".toList).all simpleEv = true) := by
  refine ⟨by decide +kernel, rfl, by decide, by decide +kernel, by decide +kernel⟩

end Props.C10enc
