import Model.Encode
import Model.Widths
import Proofs.EncodeAttrs
import Props.C08
import Props.C09enc
/-!
# C08 for the whole-encoder model: all rows of a table share one right edge and proportional columns

`Props/C08.lean` proves the property for `Model.Widths` (`colWidths`, `twip`, `bodyCum`, `dataRow`, `headerRow`,
`spanRow`, `footRow`).  Here it is stated for the `\cellx` values `Model.Encode.encode` EMITS.

`elemCellx e` reads the `\cellx` vectors off the OUTPUT GRAMMAR (`BlockG.row _ cells _ ↦ cells.map (·.cellx)`), i.e.
off what is printed — not off an intermediate value of the encoder.

* data rows: `elemCellx e = [(p.cum.take cells.length).map twip]` for every row `encodeRow` emits (no hypothesis), and
  `= [p.cum.map twip] = Widths.dataRow …` for every data row of an accepted run on a rectangular frame with a
  well-shaped width vector (`WidthsOk`); `p.cum = colWidths (dispWidths …) col_width`, where `dispWidths` is the user's
  `col_rel_width` restricted to the displayed columns (`slice`) or `[1, …, 1]`; hence (C08) one right edge
  `twip col_width`, non-decreasing boundaries, proportional to within half a twip;
* spanning heading rows (`spanningRow`), table-rendered footnote / source rows (`renderFoot`), column header rows
  (`renderHeader`): their `\cellx` vectors are `Widths.spanRow`, `Widths.footRow`, `Widths.headerRow` of the document's
  values, with the C08 consequences (`C08_spanning_row`, `C08_footnote_row`, `headerRowQ_inherited`);
* former finding, repaired in rtflite: a footnote rendered as table with a `col_rel_width` of two entries stopped at
  half the table width (first boundary); the cell now ends at the last boundary (`C08_footnote_row_any`).
-/
namespace Props.C08enc
open Model.Encode Model.Broadcast Model.Layout Model.Emit Model.Widths Proofs.EncodeAttrs Proofs.Encode Proofs.Widths

/-! ## the data rows -/

/-- every row `_encode` emits: one `\cellx` per frame cell, the first `cells.length` cumulative widths in twips
(`IndexError` otherwise) -/
theorem C08enc_row_cellx {k : ColorCtx} {A : TblAttrsOf MatV} {cum : List Rat} {r : Nat}
    {cells : List (Option Str)} {e : Elem} (h : encodeRow k A cum r cells = .ok e) :
    cells.length ≤ cum.length ∧ elemCellx e = [(cum.take cells.length).map Model.Encode.twip] :=
  encodeRow_cellx h

/-- the relative widths of the displayed columns as `_encode_body_section` chooses them -/
def dispWidths (d : Doc) (keep : List Bool) : List Rat :=
  if (bodyProcessed (d.body.colRelWidth.getD []) keep).isEmpty then List.replicate (nDisplayed keep) 1
  else bodyProcessed (d.body.colRelWidth.getD []) keep

/-- the body's cumulative widths (`col_widths`) are `_col_widths` of `dispWidths` over the page's `col_width` -/
theorem C08enc_cum {measure : Measure} {k : ColorCtx} {d : Doc} (R : Run measure k d) :
    R.p.keep = keepMask d.cols.length R.removed ∧
    R.p.ncolsDisp = nDisplayed R.p.keep ∧
    R.p.cum = colWidths (dispWidths d R.p.keep) d.page.colWidth := by
  rw [R.p_eq]
  refine ⟨rfl, rfl, ?_⟩
  simp only [bodyCum, dispWidths]
  split <;> rfl

theorem slice_keep_all (l : List Rat) (keep : List Bool) (h : anyRemoved keep = false)
    (hl : l.length = keep.length) : slice l keep = l := by
  induction l generalizing keep with
  | nil => cases keep <;> rfl
  | cons x xs ih =>
    cases keep with
    | nil => simp at hl
    | cons b ks =>
      simp only [anyRemoved, List.any_cons, Bool.or_eq_false_iff, Bool.not_eq_false'] at h
      obtain ⟨hb, hks⟩ := h
      subst hb
      simp only [slice, if_true]
      rw [ih ks (by simpa [anyRemoved] using hks) (by simpa using hl)]

/-- with one relative width per column (what `RTFDocument.__init__` leaves in the body) `dispWidths` is the user's
vector restricted to the displayed columns; with none it is `[1, …, 1]` -/
theorem C08enc_dispWidths (d : Doc) (keep : List Bool) (hd : 0 < nDisplayed keep) :
    ((d.body.colRelWidth.getD []).length = keep.length →
      dispWidths d keep = slice (d.body.colRelWidth.getD []) keep) ∧
    (d.body.colRelWidth.getD [] = [] → dispWidths d keep = List.replicate (nDisplayed keep) 1) := by
  refine ⟨?_, ?_⟩
  · intro hl
    have hlen : (slice (d.body.colRelWidth.getD []) keep).length = nDisplayed keep := slice_length _ _ hl
    have hpw : bodyProcessed (d.body.colRelWidth.getD []) keep = slice (d.body.colRelWidth.getD []) keep := by
      unfold bodyProcessed
      by_cases hr : anyRemoved keep = true
      · simp [hr, hl]
      · have hr' : anyRemoved keep = false := by simpa using hr
        simp only [hr', Bool.false_and, Bool.false_eq_true, if_false]
        exact (slice_keep_all _ _ hr' hl).symm
    unfold dispWidths
    rw [hpw]
    have hne : (slice (d.body.colRelWidth.getD []) keep).isEmpty = false := by
      cases hs : slice (d.body.colRelWidth.getD []) keep with
      | nil => rw [hs] at hlen; simp at hlen; omega
      | cons _ _ => rfl
    simp [hne]
  · intro h0
    unfold dispWidths bodyProcessed
    rw [h0]
    have : slice [] keep = [] := by cases keep <;> rfl
    split <;> simp [this]

/-- a well-shaped width configuration: positive relative widths (validated by the constructors), none / one per
column / one per displayed column, and a column is displayed -/
structure WidthsOk (d : Doc) (keep : List Bool) : Prop where
  pos : AllPos (d.body.colRelWidth.getD [])
  len : d.body.colRelWidth.getD [] = [] ∨ (d.body.colRelWidth.getD []).length = keep.length ∨
    (d.body.colRelWidth.getD []).length = nDisplayed keep
  disp : 0 < nDisplayed keep

theorem dispWidths_wf {d : Doc} {keep : List Bool} (h : WidthsOk d keep) :
    AllPos (dispWidths d keep) ∧ (dispWidths d keep).length = nDisplayed keep ∧ dispWidths d keep ≠ [] := by
  have key : AllPos (dispWidths d keep) ∧ (dispWidths d keep).length = nDisplayed keep := by
    rcases h.len with h0 | hl
    · rw [(C08enc_dispWidths d keep h.disp).2 h0]
      exact ⟨allPos_replicate _ _ (by decide), by simp⟩
    · obtain ⟨hp, hlen⟩ := bodyProcessed_wf _ keep ⟨h.pos, hl⟩
      have hne : (bodyProcessed (d.body.colRelWidth.getD []) keep).isEmpty = false := by
        cases hb : bodyProcessed (d.body.colRelWidth.getD []) keep with
        | nil => rw [hb] at hlen; simp at hlen; have := h.disp; omega
        | cons _ _ => rfl
      unfold dispWidths
      simp only [hne, Bool.false_eq_true, if_false]
      exact ⟨hp, hlen⟩
  refine ⟨key.1, key.2, ?_⟩
  intro e
  have := key.2
  rw [e] at this
  simp at this
  have := h.disp
  omega

/-- **every data row the encoder emits.**  In an accepted run on a rectangular frame with a well-shaped width vector,
every data row of every page is emitted with the SAME `\cellx` vector `p.cum.map twip` (one boundary per displayed
column), which is `Widths.dataRow` of the document's values -/
theorem C08enc_data_rows {measure : Measure} {k : ColorCtx} {d : Doc} (R : Run measure k d)
    (hrect : frameRect d = true) (hw : WidthsOk d R.p.keep)
    {pg : PageCtx} {blocks : List Block} (hr : R.Renders pg blocks) {i : Nat} (hb : Block.data i ∈ blocks) :
    ∃ cells e, R.rows[i]? = some cells ∧ e ∈ R.ess.flatten ∧
      encodeRow k (pageAttrs d R.A R.p pg).attrs R.p.cum (i - pg.start) cells = .ok e ∧
      elemCellx e = [R.p.cum.map Model.Encode.twip] ∧ R.p.cum.length = R.p.ncolsDisp ∧
      dataRow (d.body.colRelWidth.getD []) R.p.keep d.page.colWidth = .ok (R.p.cum.map Model.Encode.twip) := by
  obtain ⟨cells, e, hc, he, hmem⟩ := R.data_rendered hr hb
  obtain ⟨hk, hn, hcum⟩ := C08enc_cum R
  obtain ⟨_, hlen, _⟩ := dispWidths_wf hw
  have hcl : R.p.cum.length = R.p.ncolsDisp := by rw [hcum, colWidths_length, hlen, hn]
  have hcells := R.rows_width hrect cells (List.mem_of_getElem? hc)
  obtain ⟨_, hx⟩ := encodeRow_cellx he
  rw [hcells, ← hcl, List.take_length] at hx
  refine ⟨cells, e, hc, hmem, he, hx, hcl, ?_⟩
  have hb' : bodyCum (d.body.colRelWidth.getD []) R.p.keep d.page.colWidth = R.p.cum := by
    rw [R.p_eq]
  unfold dataRow dataRowQ
  rw [hb', rowQ_full _ _ (by rw [hcl, hn])]
  rfl

/-- **one right edge.**  The last `\cellx` of every data row is `twip col_width` -/
theorem C08enc_right_edge {measure : Measure} {k : ColorCtx} {d : Doc} (R : Run measure k d)
    (hw : WidthsOk d R.p.keep) : (R.p.cum.map Model.Encode.twip).getLast? = some (Model.Encode.twip d.page.colWidth) := by
  obtain ⟨hp, _, hne⟩ := dispWidths_wf hw
  rw [(C08enc_cum R).2.2]
  exact Props.C08.C08_right_edge _ _ hne hp

/-- boundaries in inches are strictly positive and strictly increasing; the `\cellx` values are never negative and
never decrease -/
theorem C08enc_monotone {measure : Measure} {k : ColorCtx} {d : Doc} (R : Run measure k d)
    (hw : WidthsOk d R.p.keep) (hW : 0 < d.page.colWidth) :
    (∀ c ∈ R.p.cum, 0 < c) ∧ List.Pairwise (· < ·) R.p.cum ∧
    (∀ t ∈ R.p.cum.map Model.Encode.twip, 0 ≤ t) ∧ List.Pairwise (· ≤ ·) (R.p.cum.map Model.Encode.twip) := by
  rw [(C08enc_cum R).2.2]
  exact Props.C08.C08_monotone _ _ hW (dispWidths_wf hw).1

/-- **proportional columns.**  Boundary `j` of every data row sits exactly at `W · (Σ_{i ≤ j} w_i) / Σ w` inches for
`w = dispWidths` (the user's relative widths of the displayed columns), and its `\cellx` is at most half a twip away
from `1440` times that -/
theorem C08enc_proportional {measure : Measure} {k : ColorCtx} {d : Doc} (R : Run measure k d) (j : Nat) (c : Rat)
    (h : R.p.cum[j]? = some c) :
    c = sumQ ((dispWidths d R.p.keep).take (j + 1)) * d.page.colWidth / sumQ (dispWidths d R.p.keep) ∧
    ((Model.Encode.twip c : Int) : Rat) -
      1440 * d.page.colWidth * sumQ ((dispWidths d R.p.keep).take (j + 1)) / sumQ (dispWidths d R.p.keep) ≤ 1 / 2 ∧
    1440 * d.page.colWidth * sumQ ((dispWidths d R.p.keep).take (j + 1)) / sumQ (dispWidths d R.p.keep) -
      ((Model.Encode.twip c : Int) : Rat) ≤ 1 / 2 := by
  rw [(C08enc_cum R).2.2] at h
  exact Props.C08.C08_boundary_proportional _ _ j c h

/-! ## spanning heading rows -/

/-- every spanning heading row the encoder emits is one cell whose `\cellx` is `Widths.spanRow col_width`, i.e. the
right edge `twip col_width` of the data rows for every positive `col_width` -/
theorem C08enc_spanning_row {k : ColorCtx} {d : Doc} {bodyA : TblAttrsOf MatV} {level : Nat} {text : String}
    {e : Elem} (h : spanningRow k d bodyA level text = .ok e) :
    elemCellx e = [spanRow d.page.colWidth] ∧
    (0 < d.page.colWidth → elemCellx e = [[Model.Encode.twip d.page.colWidth]]) := by
  have h1 := spanningRow_cellx h
  refine ⟨h1, fun hW => ?_⟩
  rw [h1, Props.C08.C08_spanning_row _ hW]
  rfl

/-- the heading blocks of a rendered page are emitted by `spanningRow` -/
theorem C08enc_heading_rendered {measure : Measure} {k : ColorCtx} {d : Doc} (R : Run measure k d)
    {pg : PageCtx} {blocks : List Block} (hr : R.Renders pg blocks) {lvl : Nat} {t : String}
    (hb : Block.heading lvl t ∈ blocks) :
    ∃ e, spanningRow k d R.A lvl t = .ok e ∧ e ∈ R.ess.flatten := by
  obtain ⟨es, hes, hmem⟩ := R.block_rendered hr hb
  simp only [renderBlock] at hes
  peel hes as e he
  cases pure_ok hes
  exact ⟨e, he, hmem e (by simp)⟩

/-! ## footnote / source rendered as table -/

/-- a table-rendered footnote / source is one row of one cell whose `\cellx` vector is `Widths.footRow` of its own
width vector; with ANY non-empty vector of positive widths it is the right edge `twip col_width` (the cell ends at the
LAST boundary of the vector — repo fix; it used to end at the first one, so `col_rel_width = [1, 1]` gave a footnote
row ending at half the table width) -/
theorem C08enc_foot_row {k : ColorCtx} {d : Doc} {f : Foot} {o : Option String} {es : List Elem}
    (h : renderFoot k d f o = .ok es) (ht : f.asTable = true) :
    ∃ w e cx, f.colRelWidth = some w ∧ es = [e] ∧ footRow w d.page.colWidth = .ok cx ∧ elemCellx e = [cx] ∧
      (w ≠ [] → AllPos w → cx = [Model.Encode.twip d.page.colWidth]) := by
  obtain ⟨w, e, hw, rfl, hx, hlen⟩ := renderFoot_cellx h ht
  have hf : footRow w d.page.colWidth =
      .ok ((colWidths w d.page.colWidth).getLast?.toList.map Model.Encode.twip) := by
    unfold footRow footRowQ rowQ
    cases hl : (colWidths w d.page.colWidth).getLast? with
    | none =>
      have : colWidths w d.page.colWidth = [] := by simpa using hl
      rw [this] at hlen; simp at hlen
    | some c => simp [toTwips, Model.Encode.twip]
  refine ⟨w, e, _, hw, rfl, hf, hx, ?_⟩
  intro hne hpos
  have := Props.C08.C08_footnote_row_any w d.page.colWidth hne hpos
  rw [hf] at this
  exact Except.ok.inj this

/-- the former finding, repaired: a footnote rendered as table with `col_rel_width = [1, 1]` now ends at the table's
right edge `\cellx9000` like the data rows (it ended at `\cellx4500`) -/
example :
    let d : Doc := { Props.C01enc.exDoc [1, 2] with
      footnote := some { text := some "note".toList, asTable := true, colRelWidth := some [1, 1],
                         attrs := Props.C01enc.exTbl } }
    Model.EncodeDomain.inDomain d = true ∧
    (match encode Props.C01enc.exMeasure d with
     | .ok g => g.blocks.filterMap blockCellx
     | .error _ => []) = [[4500, 9000], [3000, 9000], [3000, 9000], [9000]] := by
  decide +kernel

/-! ## column header rows -/

/-- the width vector `encode_column_header` uses is the one of `Widths.headerRow` -/
theorem headerV_eq (hw : Option (List Rat)) (keep : List Bool) (n : Nat) :
    headerV (hw.map fun w => headerDisplayed w keep n) n =
      if (headerDisplayed (hw.getD []) keep n).isEmpty then List.replicate n 1
      else headerDisplayed (hw.getD []) keep n := by
  cases hw with
  | none =>
    have : headerDisplayed [] keep n = [] := by
      unfold headerDisplayed
      split
      · cases keep <;> rfl
      · rfl
    simp [headerV, this]
  | some w =>
    simp only [Option.map_some, Option.getD_some]
    cases headerDisplayed w keep n <;> simp [headerV]

/-- every rendered column header row: its `\cellx` vector is `Widths.headerRow` of the header's own relative widths,
the removal mask, its number of text cells and `col_width` -/
theorem C08enc_header_row {k : ColorCtx} {d : Doc} {p : Prep} {isFirst : Bool} {idx : Nat} {h : Model.Encode.Header}
    {es : List Elem} (hr : renderHeader k d p isFirst idx h = .ok es) (text : List Str)
    (ht : headerText d p h = some text) :
    ∃ e cx, es = [e] ∧ headerRow (h.colRelWidth.getD []) p.keep text.length d.page.colWidth = .ok cx ∧
      elemCellx e = [cx] := by
  rcases renderHeader_text hr with ⟨h0, _⟩ | ⟨text', ht', hr⟩
  · rw [ht] at h0; cases h0
  rw [ht] at ht'
  cases ht'
  obtain ⟨e, rfl, hlen, hx⟩ := headerInner_cellx hr
  rw [headerV_eq] at hlen hx
  refine ⟨e, _, rfl, ?_, hx⟩
  unfold headerRow headerRowQ headerRowQWith rowQ
  simp only
  rw [if_pos hlen]
  rfl

/-- a header that carries the body's relative widths (what `_inherit_header_widths` gives a header without own widths)
and one text cell per displayed column lines up with the data rows: same `\cellx` vector, for every body vector,
every removal mask, every width (`headerRowQ_inherited`, the lemma behind `C08_header_inherited_aligns`) -/
theorem C08enc_header_aligns {measure : Measure} {k : ColorCtx} {d : Doc} (R : Run measure k d)
    (hrect : frameRect d = true) (hw : WidthsOk d R.p.keep) {isFirst : Bool} {idx : Nat} {h : Model.Encode.Header}
    {es : List Elem} (hr : renderHeader k d R.p isFirst idx h = .ok es) (text : List Str)
    (ht : headerText d R.p h = some text)
    (hinh : h.colRelWidth.getD [] = d.body.colRelWidth.getD []) (hn : text.length = R.p.ncolsDisp)
    {pg : PageCtx} {blocks : List Block} (hp : R.Renders pg blocks) {i : Nat} (hb : Block.data i ∈ blocks) :
    ∃ e e', es = [e] ∧ e' ∈ R.ess.flatten ∧ elemCellx e = elemCellx e' ∧
      elemCellx e = [R.p.cum.map Model.Encode.twip] := by
  obtain ⟨e, cx, rfl, hcx, hx⟩ := C08enc_header_row hr text ht
  obtain ⟨cells, e', _, hmem, _, hx', _, hdr⟩ := C08enc_data_rows R hrect hw hp hb
  have key : headerRow (h.colRelWidth.getD []) R.p.keep text.length d.page.colWidth =
      dataRow (d.body.colRelWidth.getD []) R.p.keep d.page.colWidth := by
    rw [hinh, hn, (C08enc_cum R).2.1]
    unfold headerRow dataRow
    rw [← headerRowQ_inherited]
    rfl
  rw [key, hdr] at hcx
  cases hcx
  exact ⟨e, e', rfl, hmem, by rw [hx, hx'], hx⟩

/-- a header with its OWN relative widths, one per text cell, all positive: the row ends at the same right edge -/
theorem C08enc_header_own {k : ColorCtx} {d : Doc} {p : Prep} {isFirst : Bool} {idx : Nat} {h : Model.Encode.Header}
    {es : List Elem} (hr : renderHeader k d p isFirst idx h = .ok es) (text : List Str)
    (ht : headerText d p h = some text)
    (w : List Rat) (hw : h.colRelWidth = some w) (hl : w.length = text.length) (hpos : AllPos w) :
    ∃ e, es = [e] ∧ elemCellx e = [(colWidths w d.page.colWidth).map Model.Encode.twip] ∧
      ((colWidths w d.page.colWidth).map Model.Encode.twip).getLast? = some (Model.Encode.twip d.page.colWidth) := by
  obtain ⟨e, cx, rfl, hcx, hx⟩ := C08enc_header_row hr text ht
  have hn : 0 < text.length := by
    rcases renderHeader_text hr with ⟨h0, _⟩ | ⟨text', ht', hr⟩
    · rw [ht] at h0; cases h0
    rw [ht] at ht'
    cases ht'
    unfold headerInner at hr
    dsimp only at hr
    split at hr
    · simp only [throw_bind'] at hr; cases hr
    · omega
  have hne : w ≠ [] := by intro e0; rw [e0] at hl; simp at hl; omega
  rw [hw] at hcx
  unfold headerRow at hcx
  simp only [Option.getD_some] at hcx
  rw [headerRowQ_own w p.keep text.length d.page.colWidth hl hn] at hcx
  cases hcx
  exact ⟨e, rfl, hx, Props.C08.C08_right_edge w d.page.colWidth hne hpos⟩

/-- the column-header blocks of a rendered page are emitted by `renderHeader` -/
theorem C08enc_header_rendered {measure : Measure} {k : ColorCtx} {d : Doc} (R : Run measure k d)
    {pg : PageCtx} {blocks : List Block} (hr : R.Renders pg blocks) {idx : Nat} {h : Model.Encode.Header}
    (hb : Block.colHeader idx ∈ blocks) (hh : d.headers[idx]? = some (some h)) :
    ∃ es, renderHeader k d R.p (pg.number == 1) idx h = .ok es ∧ ∀ e ∈ es, e ∈ R.ess.flatten := by
  obtain ⟨es, hes, hmem⟩ := R.block_rendered hr hb
  simp only [renderBlock, hh, Option.join] at hes
  exact ⟨es, hes, hmem⟩


/-! ## non-vacuity (`Props.C09enc.exPB`: `col_rel_width = [1, 2, 3]`, the first column removed by page_by, two pages,
spanning rows, column header, footnote as table) -/

open Props.C09enc Props.C01enc

set_option maxRecDepth 100000

/-- the hypotheses of the run-level theorems hold for every run of the example (it has one: `Props/C09enc.lean`), and
the displayed relative widths are the user's `[2, 3]` -/
example (R : Run exMeasure (mkColorCtx exPB) exPB) :
    frameRect exPB = true ∧ WidthsOk exPB R.p.keep ∧ dispWidths exPB R.p.keep = [2, 3] ∧
    0 < exPB.page.colWidth ∧
    (∀ h, some h ∈ exPB.headers → h.colRelWidth.getD [] = exPB.body.colRelWidth.getD []) := by
  have h : removedIdx exPB = .ok [0] := by decide +kernel
  have hr : R.removed = [0] := by
    have := R.hrem; rw [h] at this; exact (Except.ok.inj this).symm
  have hk : R.p.keep = [false, true, true] := by
    rw [(C08enc_cum R).1, hr]; decide +kernel
  rw [hk]
  refine ⟨by decide +kernel, ⟨allPos_of_posW (by decide +kernel), Or.inr (Or.inl (by decide +kernel)),
    by decide +kernel⟩, by decide +kernel, by decide +kernel, ?_⟩
  intro h hh
  have : exPB.headers = [some { text := none, colRelWidth := some [1, 2, 3], attrs := exTbl }] := rfl
  rw [this] at hh
  simp only [List.mem_cons, List.not_mem_nil, or_false, Option.some.injEq] at hh
  subst hh
  rfl

/-- direct evaluation, independently of the theorems: the `\cellx` vectors of all rows of the printed document, in
order — header, spanning row, two data rows on page 1; header, spanning row, two data rows, footnote row on page 2 —
every one ends at `twip 6.25 = 9000`; data rows and the header (inherited widths, sliced like the body's) have their
inner boundary at `9000 · 2/5 = 3600` -/
example : (match encode exMeasure exPB with
    | .ok g => g.blocks.filterMap blockCellx
    | .error _ => []) =
    [[3600, 9000], [9000], [3600, 9000], [3600, 9000], [3600, 9000], [9000], [3600, 9000], [3600, 9000], [9000]] ∧
    Model.Encode.twip exPB.page.colWidth = 9000 := by
  decide +kernel

end Props.C08enc
