import Model.Broadcast
import Model.CellAttr
import Proofs.BroadcastAttr
/-!
# C09 — cell formatting follows the data cell

`cellAttr` is the model of how a body attribute matrix reaches a rendered data cell: column removal
(`expandSlice`, only when page_by/subline_by remove columns), the page's rows (`pageRows`), and the
page-relative `iloc(i + row_offset, j)` of `_encode`.  `specAttr` is the binding the property states:
the attribute at the cell's ORIGINAL (row, column) position, with broadcasting `A[r % R][c % C]`.
-/
namespace Props.C09
open Model.Broadcast Model.CellAttr Proofs.BroadcastAttr

/-- the original position of the cell rendered at page row `i`, displayed column `j` -/
theorem C09_binding {α} (A : Mat α) (rows cols : Nat) (removed : List Nat) (start height i j : Nat)
    (hne : A ≠ []) (hrect : A.Rect) (hc : 0 < A.ncols)
    (hpage : start + height ≤ rows) (hi : i < height)
    (hj : j < (keptIdx cols removed).length) :
    cellAttr A rows cols removed start height i j = specAttr A cols removed start i j :=
  cellAttr_eq_spec A rows cols removed start height i j hne hrect hc hpage hi hj

/-- the binding does not depend on where page breaks fall: the same table row gets the same value from any
page that contains it -/
theorem C09_page_independent {α} (A : Mat α) (rows cols : Nat) (removed : List Nat)
    (start height i start' height' i' j : Nat)
    (hne : A ≠ []) (hrect : A.Rect) (hc : 0 < A.ncols)
    (hpage : start + height ≤ rows) (hi : i < height)
    (hpage' : start' + height' ≤ rows) (hi' : i' < height')
    (hj : j < (keptIdx cols removed).length) (hsame : start + i = start' + i') :
    cellAttr A rows cols removed start height i j = cellAttr A rows cols removed start' height' i' j := by
  rw [cellAttr_eq_spec A rows cols removed start height i j hne hrect hc hpage hi hj,
    cellAttr_eq_spec A rows cols removed start' height' i' j hne hrect hc hpage' hi' hj]
  unfold specAttr
  rw [hsame]

/-- a scalar applies to every cell, a per-column vector to its column, a full matrix cell by cell -/
theorem C09_shapes {α} (A : Mat α) (cols r c : Nat) (hne : A ≠ []) (hrect : A.Rect) (hc : 0 < A.ncols) :
    (∀ v, A = [[v]] → A.iloc r c = some v) ∧
    (∀ row, A = [row] → row.length = cols → c < cols → A.iloc r c = row[c]?) ∧
    (r < A.length → A.ncols = cols → c < cols → A.iloc r c = (A[r]?).bind (·[c]?)) := by
  refine ⟨?_, ?_, ?_⟩
  · intro v hA
    subst hA
    simp [Mat.iloc, Mat.ncols, Nat.mod_one]
  · intro row hA hlen hlt
    subst hA
    simp [Mat.iloc, Mat.ncols, Nat.mod_one, hlen, Nat.mod_eq_of_lt hlt]
    omega
  · intro hr hnc hlt
    have hl : A.length ≠ 0 := by omega
    have h0 : cols ≠ 0 := by omega
    unfold Mat.iloc
    simp only [hl, if_false, Nat.mod_eq_of_lt hr, hnc, h0, Nat.mod_eq_of_lt hlt]
    cases A[r]? <;> rfl

/-- `keptIdx` lists, in order, exactly the original indices of the displayed columns -/
theorem C09_kept_idx (cols : Nat) (removed : List Nat) :
    (keptIdx cols removed).Pairwise (· < ·) ∧
    ∀ c, c ∈ keptIdx cols removed ↔ (c < cols ∧ c ∉ removed) :=
  ⟨keptIdx_pairwise cols removed, mem_keptIdx cols removed⟩

/-- non-vacuity: 6×1 matrix ["b","","","i","",""], page 2 of a table cut after 4 rows -/
example :
    cellAttr [["b"], [""], [""], ["i"], [""], [""]] 6 1 [] 4 2 0 0 = some "" ∧
    cellAttr [["b"], [""], [""], ["i"], [""], [""]] 6 1 [] 0 4 3 0 = some "i" := by decide

end Props.C09
