import Model.Encode
import Model.Layout
import Model.PaginateSpec
import Proofs.EncodeLift
import Proofs.EncodePages
import Proofs.EncodeOwnWidth
import Props.C02enc
import Props.C03enc
import Props.C04
import Props.C01enc
/-!
# C04 for the whole-encoder model: page breaks occur only when required, and always when required

`Props/C04.lean` proves the property about `Model.Paginate.assignPages` fed by `mkMeta` for EVERY list of row inputs.
Here it is stated about the ENCODER model (`Model.Encode.encodePages`, byte-exact against `rtf_encode()`): for every
accepted document (`plan measure d = .ok pl`, `Proofs/EncodeLift.lean`)

* `C04enc_pageNums`     the page number of every frame row in the encoder's layout (`pl.ld.pageNums`) is
                        `assignPages d.page.nrow (additionalDoc d) (newPageDoc d) (metaDoc d pl)`: the rows per page of the
                        document, the rows reserved per page (`Props.C03enc.additionalDoc`: subline_by heading, column
                        headers with text, footnote, source), the effective new-page flag (body `new_page` with page_by,
                        forced by subline_by), and `mkMeta` of the row inputs `rowIns pl.ld`;
* `C04enc_rowIn`        what the row inputs are, on the document: the data lines are the encoder's `dataLines` of the
                        displayed cells of the row, the keys are the `str()` of the page_by / subline_by cells, and for a
                        row that starts a group the heading rows are `Model.Encode.headingRows` of the group's values;
* `C04enc_own_width`    the data lines of a frame row, cell by cell: the displayed cell at position `j` counts
                        `max(1, int(width / (cum[j] − cum[j−1])) + 1)` lines, its `str()` measured at the font and size the
                        processed attributes hold at (row, `j`) — every displayed column against ITS OWN width, font and size,
                        whichever columns left the table — and the row's data lines are the largest of these (and 1);
* `C04enc_cell_lines_unique`  that count is a function of the cell alone (its text, the font and size at its own row and
                        column, its own width): the same text in one column at two rows with different sizes has two
                        heights (`exDocRowSizes`: per-row sizes as tuple / n×1 matrix / short cyclic tuple);
* `C04enc_columns_out`  which columns leave the table: the subline_by columns always, the page_by columns unless
                        `new_page` with `pageby_row = "column"` (then they stay and are measured like any other column);
* `C04enc_meta`         the three fields `_assign_pages` reads for row `i`: group start = `str()` key differs from the
                        previous row's (`keyChange`), total = data lines + heading rows of the groups it starts;
* `C04enc_rendered_on`  `.data i` is rendered on page `pageNums[i]` and on no other page (with `C02enc`);
* `C04enc_a_*`          one page number per frame row, the first is 1, never decreasing, never skipping; the number of
                        pages the encoder renders is the last page number;
* `C04enc_bc`, `C04enc_break_iff`   a break before row `i` exactly when the row does not fit into what is left of
                        `max(1, nrow − reserved)` or a grouping rule demands it (rows of the encoder are at least one
                        line high, so (c) has no side condition);
* `C04enc_d_no_mixing`, `C04enc_d_rendered`   rows of two subline_by groups, or of two page_by groups under the effective
                        new-page flag, never share a page;
* `C04enc_e_prefix`     the pagination of the document cut after `m` frame rows is the first `m` page numbers of the
                        document's pagination;
* `C04enc`              the core of it from `encode measure d = .ok g`.
-/
namespace Props.C04enc
open Model.Rtf Model.Emit Model.Encode Model.Broadcast Model.Layout Model.Paginate
open Proofs.EncodeLift Proofs.Paginate
open Proofs.EncodePages (strKey keyChange rowIn rowIns RowInFacts takeRows)
open Proofs.PaginateGroups (mkRow)
open Proofs.EncodeOwnWidth (CellLines ownWidth)
open Props.C02 (dataIdx)
open Props.C03enc (additionalDoc)

/-! ## the pagination input on the document -/

/-- the effective new-page flag of `_assign_pages`: `new_page` with page_by; subline_by always forces it -/
def newPageDoc (d : Doc) : Bool :=
  if !d.body.sublineByL.isEmpty then true else (!d.body.pageByL.isEmpty && d.body.newPage)

/-- row `i` starts a page_by group -/
def pageStart (d : Doc) (i : Nat) : Bool := !d.body.pageByL.isEmpty && keyChange d d.body.pageByL i

/-- row `i` starts a subline_by group -/
def sublineStart (d : Doc) (i : Nat) : Bool := !d.body.sublineByL.isEmpty && keyChange d d.body.sublineByL i

/-- the `RowMeta` list the encoder paginates: `mkMeta` of the row inputs -/
def metaDoc (d : Doc) (pl : Plan) : List RowMeta :=
  mkMeta (!d.body.pageByL.isEmpty) (!d.body.sublineByL.isEmpty) (rowIns pl.ld)

/-- the rows' metadata paired with their page numbers (`Props.C04.paged` for the encoder) -/
def pagedDoc (d : Doc) (pl : Plan) : List (RowMeta × Nat) := (metaDoc d pl).zip pl.ld.pageNums

/-- keys are equal exactly when the `str()` of every named cell is equal -/
theorem strKey_eq_iff (d : Doc) (names : List Str) (a b : List (Option Str)) :
    strKey d names a = strKey d names b ↔
      (pick d.cols a names).map strOfCell = (pick d.cols b names).map strOfCell := by
  rw [Proofs.EncodePages.strKey_eq, Proofs.EncodePages.strKey_eq]
  exact ⟨Proofs.EncodePages.map_ofList_inj _ _, fun h => by rw [h]⟩

theorem meta_eq_metaDoc (measure : Measure) (d : Doc) (pl : Plan) (hp : plan measure d = .ok pl) :
    pl.ld.meta = metaDoc d pl := by
  have hf := plan_facts hp
  rw [Proofs.EncodePages.meta_eq, hf.hasPageBy, hf.hasSubline]
  rfl

/-- **the encoder paginates with `_assign_pages`** on `nrow`, the reserved rows, the effective new-page flag and the
row metadata of the document -/
theorem C04enc_pageNums (measure : Measure) (d : Doc) (pl : Plan) (hp : plan measure d = .ok pl) :
    pl.ld.pageNums =
      assignPages d.page.nrow (additionalDoc d) (newPageDoc d) (metaDoc d pl) := by
  have hf := plan_facts hp
  unfold LDoc.pageNums
  rw [meta_eq_metaDoc measure d pl hp, Props.C03enc.C03enc_additional measure d pl hp, hf.nrow]
  unfold LDoc.forceNewPage newPageDoc
  rw [hf.hasSubline, hf.hasPageBy, hf.newPage]

theorem C04enc_paged (measure : Measure) (d : Doc) (pl : Plan) (hp : plan measure d = .ok pl) :
    pagedDoc d pl = Props.C04.paged d.page.nrow (additionalDoc d) (newPageDoc d) (metaDoc d pl) := by
  unfold pagedDoc Props.C04.paged
  rw [C04enc_pageNums measure d pl hp]

/-- one row input per frame row -/
theorem C04enc_rowIns_length (measure : Measure) (d : Doc) (pl : Plan) (hp : plan measure d = .ok pl) :
    (rowIns pl.ld).length = d.rows.length := by
  rw [Proofs.EncodePages.rowIns_length, (plan_rows_length hp).2]

/-- **the row input of frame row `i`** (`RowInFacts`): data lines = the encoder's `dataLines` of the displayed cells of
row `i` (≥ 1), keys = the `str()` of the page_by / subline_by cells, and for a row that starts a page_by (subline_by)
group the heading rows are `headingRows` of the group's values against the table width -/
theorem C04enc_rowIn (measure : Measure) (d : Doc) (pl : Plan) (hp : plan measure d = .ok pl) (i : Nat)
    (ri : RowIn (List String)) (hri : (rowIns pl.ld)[i]? = some ri) : RowInFacts measure d pl.p i ri := by
  obtain ⟨_, _, hld, _⟩ := plan_ok hp
  exact Proofs.EncodePages.rowIns_facts hld i ri hri

/-- the keys of the row inputs are the `str()` keys of the frame rows -/
theorem C04enc_keys (measure : Measure) (d : Doc) (pl : Plan) (hp : plan measure d = .ok pl) :
    (rowIns pl.ld).map (·.pkey) = d.rows.map (strKey d d.body.pageByL) ∧
    (rowIns pl.ld).map (·.skey) = d.rows.map (strKey d d.body.sublineByL) := by
  obtain ⟨hprep, _, hld, _⟩ := plan_ok hp
  exact Proofs.EncodePages.rowIns_pkeys (prepare_dispRows_length hprep) hld

/-- **every displayed column is measured against its own width, font and size**: with `cells` the displayed cells of
frame row `i` (the row without the removed columns) and `cum` the cumulative widths of the displayed columns, the cell at
displayed position `j` counts `linesOf w (cum[j] − cum[j−1])` lines (`CellLines`: `w` the width of its `str()` at the font
and size of processed attribute column `j`); the data lines of the row are at least that for every displayed cell, and they
are 1 or exactly the count of one displayed cell — so they are the maximum, and no other column's width enters -/
theorem C04enc_own_width (measure : Measure) (d : Doc) (pl : Plan) (hp : plan measure d = .ok pl) (i : Nat)
    (ri : RowIn (List String)) (hri : (rowIns pl.ld)[i]? = some ri) :
    ∃ cells, pl.p.dispRows[i]? = some cells ∧
      (∀ (j : Nat) (cell : Option Str) (c : Rat), cells[j]? = some cell → pl.p.cum[j]? = some c →
        ∃ l, CellLines measure pl.p.attrs i j cell (ownWidth pl.p.cum 0 j c) l ∧ l ≤ ri.dataRows) ∧
      (ri.dataRows = 1 ∨ ∃ (j : Nat) (cell : Option Str) (c : Rat), cells[j]? = some cell ∧ pl.p.cum[j]? = some c ∧
        CellLines measure pl.p.attrs i j cell (ownWidth pl.p.cum 0 j c) ri.dataRows) := by
  obtain ⟨_, cells, nr, _, hc, hdl, _⟩ := (C04enc_rowIn measure d pl hp i ri hri).lines
  refine ⟨cells, hc, ?_, ?_⟩
  · intro j cell c hj hw
    have h := Proofs.EncodeOwnWidth.dataLines_own_width cells pl.p.cum 0 0 (1, false) _ hdl j cell c hj hw
    simpa only [Nat.zero_add] using h
  · have h := Proofs.EncodeOwnWidth.dataLines_attained cells pl.p.cum 0 0 (1, false) _ hdl
    simpa only [Nat.zero_add] using h

/-- **the line count of a cell is a function of the cell alone**: of its text, of the font and size the processed
attributes hold at ITS OWN (row, displayed column) and of its own column width (`CellLines` has one solution wherever the
font attribute is a font number or absent — anything else the encoder refuses with `ValueError`).  With `C04enc_own_width`:
the same text in the same column at two rows counts the lines of each row's own font and size, whatever was counted for
another row — so `text_font_size` / `text_font` that vary BY ROW (tuple, column matrix, full matrix, a short value repeated
cyclically: all of them are `ilocV` at (row, column)) give one text several heights in one column. -/
theorem C04enc_cell_lines_unique (measure : Measure) (A : TblAttrsOf MatV) (r k : Nat) (cell : Option Str) (cw : Rat)
    (l l' : Nat) (hf : ∀ fv, ilocV A.font r k = .ok fv → fv = .null ∨ ∃ i, fv = .int i)
    (h : CellLines measure A r k cell cw l) (h' : CellLines measure A r k cell cw l') : l = l' := by
  obtain ⟨sv, fv, size, font, w, hsv, hfv, hs0, hs1, hf0, hf1, hm, _, hl⟩ := h
  obtain ⟨sv', fv', size', font', w', hsv', hfv', hs0', hs1', hf0', hf1', hm', _, hl'⟩ := h'
  have e1 : sv' = sv := by rw [hsv] at hsv'; cases hsv'; rfl
  have e2 : fv' = fv := by rw [hfv] at hfv'; cases hfv'; rfl
  subst e1 e2
  have es : size' = size := by
    by_cases hn : sv' = .null
    · rw [hs0 hn, hs0' hn]
    · have a := hs1 hn; have b := hs1' hn; rw [a] at b; cases b; rfl
  have ef : font' = font := by
    rcases hf fv' hfv with hn | ⟨i, hi⟩
    · rw [hf0 hn, hf0' hn]
    · rw [hf1 i hi, hf1' i hi]
  subst es ef
  rw [hm] at hm'; cases hm'
  rw [hl, hl']

/-- **which columns leave the table**: the subline_by columns always; the page_by columns unless `new_page` is set and
`pageby_row` is `"column"` — then they stay in the table and `C04enc_own_width` measures them like every other column -/
theorem C04enc_columns_out (b : Body) :
    removedNames b =
      b.sublineByL ++ (if b.newPage = true ∧ b.pagebyColumn = true then [] else b.pageByL) := by
  unfold removedNames Body.pageByRemoved Body.pageByL
  cases b.pageBy <;> cases b.newPage <;> cases b.pagebyColumn <;> simp

theorem C04enc_meta_length (measure : Measure) (d : Doc) (pl : Plan) (hp : plan measure d = .ok pl) :
    (metaDoc d pl).length = d.rows.length := by
  rw [← meta_eq_metaDoc measure d pl hp, Proofs.Layout.meta_length, (plan_rows_length hp).2]

/-- **the metadata of frame row `i`**: it starts a page_by / subline_by group exactly when it is the first row or its
`str()` key differs from the previous row's, and its total is its data lines plus the heading rows of the groups it
starts -/
theorem C04enc_meta (measure : Measure) (d : Doc) (pl : Plan) (hp : plan measure d = .ok pl) (i : Nat)
    (hi : i < d.rows.length) :
    ∃ ri, (rowIns pl.ld)[i]? = some ri ∧
      (metaDoc d pl)[i]? = some
        { total := ri.dataRows + (if pageStart d i then ri.pagebyRows else 0) +
                   (if sublineStart d i then ri.sublineRows else 0),
          grp := pageStart d i, sub := sublineStart d i } := by
  have hlen := C04enc_rowIns_length measure d pl hp
  have hri : (rowIns pl.ld)[i]? = some (rowIns pl.ld)[i] := List.getElem?_eq_getElem (by rw [hlen]; exact hi)
  refine ⟨_, hri, ?_⟩
  obtain ⟨hk1, hk2⟩ := C04enc_keys measure d pl hp
  unfold metaDoc
  rw [Proofs.EncodePages.mkMeta_getElem?]
  refine ⟨_, keyChange d d.body.pageByL i, keyChange d d.body.sublineByL i, hri, ?_, ?_, rfl⟩
  · rw [hk1]; exact Proofs.EncodePages.changes_strKey_getElem? d _ i hi
  · rw [hk2]; exact Proofs.EncodePages.changes_strKey_getElem? d _ i hi

/-- a grouping rule demands a break before row `i`: it starts a subline_by group, or a page_by group under the effective
new-page flag -/
theorem C04enc_demands (measure : Measure) (d : Doc) (pl : Plan) (hp : plan measure d = .ok pl) (i : Nat)
    (r : RowMeta) (hr : (metaDoc d pl)[i]? = some r) :
    demands (newPageDoc d) r = (sublineStart d i || (newPageDoc d && pageStart d i)) := by
  have hi : i < d.rows.length := by
    rw [← C04enc_meta_length measure d pl hp]
    exact (List.getElem?_eq_some_iff.mp hr).1
  obtain ⟨ri, _, hm⟩ := C04enc_meta measure d pl hp i hi
  rw [hr] at hm
  cases hm
  rfl

/-- every row of the encoder is at least one line high -/
theorem C04enc_meta_pos (measure : Measure) (d : Doc) (pl : Plan) (hp : plan measure d = .ok pl) :
    ∀ r ∈ metaDoc d pl, 1 ≤ r.total := by
  rw [← meta_eq_metaDoc measure d pl hp]
  exact Proofs.Layout.meta_pos pl.ld (Props.C03enc.C03enc_lines_pos measure d pl hp)

/-! ## the page on which a row is rendered -/

/-- **frame row `i` is rendered on page `pageNums[i]`** (pages numbered from 1) and on no other page -/
theorem C04enc_rendered_on (measure : Measure) (d : Doc) (pl : Plan) (hp : plan measure d = .ok pl) (i : Nat)
    (hi : i < d.rows.length) :
    ∃ n x, pl.ld.pageNums[i]? = some (n + 1) ∧ pl.pageBlocks[n]? = some x ∧ x.1.number = n + 1 ∧ i ∈ dataIdx x.2 ∧
      ∀ n' x', pl.pageBlocks[n']? = some x' → i ∈ dataIdx x'.2 → n' = n := by
  have hmem : i ∈ pl.pageBlocks.flatMap (fun x => dataIdx x.2) := by
    rw [Props.C02enc.C02enc_rows_once_in_order measure d pl hp]
    exact List.mem_range.mpr hi
  obtain ⟨x, hx, hix⟩ := List.mem_flatMap.mp hmem
  obtain ⟨n, hn⟩ := List.getElem?_of_mem hx
  obtain ⟨h1, h2, _⟩ := Props.C02enc.C02enc_row_on_its_page measure d pl hp n i x hn hix
  refine ⟨n, x, h1, hn, h2, hix, ?_⟩
  intro n' x' hn' hix'
  obtain ⟨h1', _⟩ := Props.C02enc.C02enc_row_on_its_page measure d pl hp n' i x' hn' hix'
  rw [h1] at h1'
  cases h1'
  rfl

/-! ## (a) pages are numbered 1, 2, … without gaps -/

theorem C04enc_a_length (measure : Measure) (d : Doc) (pl : Plan) (hp : plan measure d = .ok pl) :
    pl.ld.pageNums.length = d.rows.length := by
  rw [Proofs.Layout.pageNums_length, (plan_rows_length hp).2]

theorem C04enc_a_first (measure : Measure) (d : Doc) (pl : Plan) (hp : plan measure d = .ok pl)
    (hne : d.rows ≠ []) : pl.ld.pageNums[0]? = some 1 := by
  have hlen := C04enc_meta_length measure d pl hp
  rw [C04enc_pageNums measure d pl hp]
  cases hm : metaDoc d pl with
  | nil =>
    rw [hm] at hlen
    exact absurd (List.eq_nil_of_length_eq_zero hlen.symm) hne
  | cons r rs =>
    have := Props.C04.C04_a_first d.page.nrow (additionalDoc d) (newPageDoc d) r rs
    rw [List.head?_eq_getElem?] at this
    exact this

/-- page numbers never decrease and never skip -/
theorem C04enc_a_steps (measure : Measure) (d : Doc) (pl : Plan) (_hp : plan measure d = .ok pl) :
    Steps 1 pl.ld.pageNums :=
  Proofs.Layout.pageNums_steps pl.ld

theorem steps_consecutive : ∀ (s : Nat) (l : List Nat) (i p q : Nat), Steps s l → l[i]? = some p →
    l[i + 1]? = some q → q = p ∨ q = p + 1
  | _, [], _, _, _, _, h, _ => by simp at h
  | _, [_], 0, _, _, _, _, h => by simp at h
  | s, a :: b :: l, 0, p, q, hs, hp, hq => by
    simp only [Steps] at hs
    simp only [List.getElem?_cons_zero, List.getElem?_cons_succ, Option.some.injEq] at hp hq
    omega
  | s, a :: l, i + 1, p, q, hs, hp, hq => by
    simp only [Steps] at hs
    simp only [List.getElem?_cons_succ] at hp hq
    exact steps_consecutive a l i p q hs.2 hp hq

/-- consecutive rows are on the same page or on consecutive pages -/
theorem C04enc_a_consecutive (measure : Measure) (d : Doc) (pl : Plan) (hp : plan measure d = .ok pl) (i p q : Nat)
    (hpi : pl.ld.pageNums[i]? = some p) (hqi : pl.ld.pageNums[i + 1]? = some q) : q = p ∨ q = p + 1 :=
  steps_consecutive 1 _ i p q (C04enc_a_steps measure d pl hp) hpi hqi

/-- the number of pages the encoder renders is the page number of the last frame row -/
theorem C04enc_a_page_count (measure : Measure) (d : Doc) (pl : Plan) (hp : plan measure d = .ok pl)
    (hne : d.rows ≠ []) : pl.ld.pageNums.getLast? = some pl.pageBlocks.length := by
  have hlen := C04enc_a_length measure d pl hp
  have hpos : 0 < d.rows.length := List.length_pos_iff.mpr hne
  have hi : d.rows.length - 1 < d.rows.length := by omega
  obtain ⟨n, x, h1, h2, _, h4, _⟩ := C04enc_rendered_on measure d pl hp (d.rows.length - 1) hi
  rw [List.getLast?_eq_getElem?, hlen, h1]
  -- no later page: a later page would hold a row with a larger index
  have hn : n < pl.pageBlocks.length := (List.getElem?_eq_some_iff.mp h2).1
  by_cases hlast : n + 1 = pl.pageBlocks.length
  · rw [hlast]
  · exfalso
    have hn' : n + 1 < pl.pageBlocks.length := by omega
    have hx' : pl.pageBlocks[n + 1]? = some pl.pageBlocks[n + 1] := List.getElem?_eq_getElem hn'
    have hldne : pl.ld.rows ≠ [] := by
      intro h0
      have := (plan_rows_length hp).2
      rw [h0] at this
      simp only [List.length_nil] at this
      omega
    obtain ⟨hpg, _⟩ := pageBlocks_getElem? hx'
    obtain ⟨_, hall, _⟩ := Props.C02.C02_pages_structure pl.ld hldne
    obtain ⟨_, _, hh, hb, hiff⟩ := hall _ (List.mem_of_getElem? hpg)
    have hnum := (pages_numbering pl.ld (n + 1) _ hpg).1
    generalize hj0 : pl.pageBlocks[n + 1].1.start = j at hb hiff
    have g1 := (hiff j).mp ⟨Nat.le_refl _, by omega⟩
    rw [hnum] at g1
    rw [(plan_rows_length hp).2] at hb
    -- j ≤ last row, but its page number is larger than the last row's: contradicts monotonicity
    have hsorted := Proofs.Layout.pageNums_sorted pl.ld
    have hjle : j ≤ d.rows.length - 1 := by omega
    rcases Nat.lt_or_eq_of_le hjle with hlt | heq
    · have h1' := List.getElem?_eq_some_iff.mp h1
      have g1' := List.getElem?_eq_some_iff.mp g1
      obtain ⟨a1, a2⟩ := h1'
      obtain ⟨b1, b2⟩ := g1'
      have := List.pairwise_iff_getElem.mp hsorted j (d.rows.length - 1) b1 a1 hlt
      omega
    · rw [heq, h1] at g1
      cases g1

/-! ## (b), (c) a break exactly when the next row does not fit or a grouping rule demands it -/

/-- **only when required and always when required**, for every position after the first row of the encoder's paginated
frame (`done` = the rows before it with their pages): the row goes to the next page exactly when a grouping rule
demands it or it does not fit into what is left of `max(1, nrow − reserved)` on the current page; otherwise it stays.
No side condition for "always": every row of the encoder is at least one line high, so the current page is never
empty. -/
theorem C04enc_bc (measure : Measure) (d : Doc) (pl : Plan) (hp : plan measure d = .ok pl)
    (done : List (RowMeta × Nat)) (r : RowMeta) (q : Nat) (rest : List (RowMeta × Nat))
    (hsplit : pagedDoc d pl = done ++ (r, q) :: rest) (hne : done ≠ []) :
    let p := lastPage done
    let over := decide (loadOn p done + r.total > availRows d.page.nrow (additionalDoc d))
    (q = p + 1 ↔ (demands (newPageDoc d) r = true ∨ over = true)) ∧ (q = p ∨ q = p + 1) := by
  rw [C04enc_paged measure d pl hp] at hsplit
  obtain ⟨h1, h2, h3⟩ := Props.C04.C04_bc d.page.nrow (additionalDoc d) (newPageDoc d) (metaDoc d pl) done r q rest
    hsplit hne
  have hpos : loadOn (lastPage done) done > 0 := by
    apply Props.C04.loadOn_pos_of_last done hne
    intro x hx
    have hmem : x ∈ Props.C04.paged d.page.nrow (additionalDoc d) (newPageDoc d) (metaDoc d pl) := by
      rw [hsplit]; simp [hx]
    exact C04enc_meta_pos measure d pl hp _ (List.of_mem_zip hmem).1
  refine ⟨⟨fun hq => h1 (by omega), fun hreq => h2 hreq hpos⟩, h3⟩

theorem getLast?_take_succ {α : Type} (l : List α) (i : Nat) (hi : i < l.length) :
    (l.take (i + 1)).getLast? = l[i]? := by
  rw [List.getLast?_eq_getElem?, List.length_take, Nat.min_eq_left (by omega), Nat.add_sub_cancel,
    List.getElem?_take, if_pos (by omega)]

/-- the same by row index: for consecutive frame rows `i`, `i + 1` on pages `p`, `q`, with `load` = the rows the
frame rows `≤ i` occupy on page `p`: row `i + 1` opens page `p + 1` exactly when it starts a subline_by group, or a
page_by group under the effective new-page flag, or `load + total > max(1, nrow − reserved)`; otherwise `q = p`. -/
theorem C04enc_break_iff (measure : Measure) (d : Doc) (pl : Plan) (hp : plan measure d = .ok pl) (i : Nat)
    (r : RowMeta) (p q : Nat) (hr : (metaDoc d pl)[i + 1]? = some r) (hpi : pl.ld.pageNums[i]? = some p)
    (hqi : pl.ld.pageNums[i + 1]? = some q) :
    let load := loadOn p ((pagedDoc d pl).take (i + 1))
    (q = p + 1 ↔ ((sublineStart d (i + 1) || (newPageDoc d && pageStart d (i + 1))) = true ∨
        load + r.total > availRows d.page.nrow (additionalDoc d))) ∧ (q = p ∨ q = p + 1) := by
  have hz : (pagedDoc d pl)[i + 1]? = some (r, q) := List.getElem?_zip_eq_some.mpr ⟨hr, hqi⟩
  have hlt : i + 1 < (pagedDoc d pl).length := (List.getElem?_eq_some_iff.mp hz).1
  have hget : (pagedDoc d pl)[i + 1] = (r, q) := (List.getElem?_eq_some_iff.mp hz).2
  have hsplit : pagedDoc d pl = (pagedDoc d pl).take (i + 1) ++ (r, q) :: (pagedDoc d pl).drop (i + 1 + 1) := by
    rw [← hget, ← List.drop_eq_getElem_cons hlt, List.take_append_drop]
  have hne : (pagedDoc d pl).take (i + 1) ≠ [] := by
    intro h0
    have := congrArg List.length h0
    rw [List.length_take] at this
    simp only [List.length_nil] at this
    omega
  have hlast : lastPage ((pagedDoc d pl).take (i + 1)) = p := by
    unfold lastPage
    rw [getLast?_take_succ _ i (by omega)]
    have hmlt : i < (metaDoc d pl).length := by
      have := (List.getElem?_eq_some_iff.mp hr).1; omega
    have : (pagedDoc d pl)[i]? = some ((metaDoc d pl)[i], p) :=
      List.getElem?_zip_eq_some.mpr ⟨List.getElem?_eq_getElem hmlt, hpi⟩
    rw [this]
    rfl
  have h := C04enc_bc measure d pl hp _ r q _ hsplit hne
  dsimp only at h
  rw [hlast, C04enc_demands measure d pl hp (i + 1) r hr] at h
  simpa using h

/-! ## (d) no page mixes rows of two subline_by groups, nor of two page_by groups under new_page -/

theorem isEmpty_not_of_ne {α : Type} {l : List α} (h : l ≠ []) : (!l.isEmpty) = true := by
  cases l with
  | nil => exact absurd rfl h
  | cons _ _ => rfl

/-- frame rows `i < j` with the same page number carry the same subline_by key, and the same page_by key when the
effective new-page flag is set (`new_page`, or any subline_by) -/
theorem C04enc_d_no_mixing (measure : Measure) (d : Doc) (pl : Plan) (hp : plan measure d = .ok pl)
    (i j : Nat) (hij : i < j) (ri rj : List (Option Str)) (p : Nat)
    (hri : d.rows[i]? = some ri) (hrj : d.rows[j]? = some rj)
    (hpi : pl.ld.pageNums[i]? = some p) (hpj : pl.ld.pageNums[j]? = some p) :
    (d.body.sublineByL ≠ [] → strKey d d.body.sublineByL ri = strKey d d.body.sublineByL rj) ∧
    (d.body.pageByL ≠ [] → newPageDoc d = true → strKey d d.body.pageByL ri = strKey d d.body.pageByL rj) := by
  have hlen := C04enc_rowIns_length measure d pl hp
  have hi : i < (rowIns pl.ld).length := by rw [hlen]; exact (List.getElem?_eq_some_iff.mp hri).1
  have hj : j < (rowIns pl.ld).length := by rw [hlen]; exact (List.getElem?_eq_some_iff.mp hrj).1
  have hxi := List.getElem?_eq_getElem hi
  have hxj := List.getElem?_eq_getElem hj
  obtain ⟨rowi, _, _, a1, _, _, _, a4, a5, _⟩ := (C04enc_rowIn measure d pl hp i _ hxi).lines
  obtain ⟨rowj, _, _, b1, _, _, _, b4, b5, _⟩ := (C04enc_rowIn measure d pl hp j _ hxj).lines
  rw [hri] at a1
  rw [hrj] at b1
  cases a1
  cases b1
  have hpos : ∀ r ∈ rowIns pl.ld, 1 ≤ r.dataRows := by
    intro r hr
    obtain ⟨k, hk⟩ := List.getElem?_of_mem hr
    obtain ⟨_, _, _, _, _, _, h, _⟩ := (C04enc_rowIn measure d pl hp k r hk).lines
    exact h
  rw [C04enc_pageNums measure d pl hp] at hpi hpj
  obtain ⟨h1, h2⟩ := Props.C04.C04_d_no_mixing d.page.nrow (additionalDoc d) (!d.body.pageByL.isEmpty)
    (!d.body.sublineByL.isEmpty) (newPageDoc d) (rowIns pl.ld) hpos i j hij _ _ p hxi hxj hpi hpj
  refine ⟨fun hs => ?_, fun hpb hnp => ?_⟩
  · rw [← a5, ← b5]; exact h1 (isEmpty_not_of_ne hs)
  · rw [← a4, ← b4]; exact h2 (isEmpty_not_of_ne hpb) hnp

/-- the same on the rendered pages: two data rows the encoder renders on one page carry the same subline_by key, and
the same page_by key under the effective new-page flag -/
theorem C04enc_d_rendered (measure : Measure) (d : Doc) (pl : Plan) (hp : plan measure d = .ok pl)
    (x : PageCtx × List Block) (hx : x ∈ pl.pageBlocks) (i j : Nat) (hi : i ∈ dataIdx x.2) (hj : j ∈ dataIdx x.2)
    (ri rj : List (Option Str)) (hri : d.rows[i]? = some ri) (hrj : d.rows[j]? = some rj) :
    (d.body.sublineByL ≠ [] → strKey d d.body.sublineByL ri = strKey d d.body.sublineByL rj) ∧
    (d.body.pageByL ≠ [] → newPageDoc d = true → strKey d d.body.pageByL ri = strKey d d.body.pageByL rj) := by
  obtain ⟨n, hn⟩ := List.getElem?_of_mem hx
  obtain ⟨h1, _⟩ := Props.C02enc.C02enc_row_on_its_page measure d pl hp n i x hn hi
  obtain ⟨h2, _⟩ := Props.C02enc.C02enc_row_on_its_page measure d pl hp n j x hn hj
  rcases Nat.lt_trichotomy i j with hlt | heq | hgt
  · exact C04enc_d_no_mixing measure d pl hp i j hlt ri rj (n + 1) hri hrj h1 h2
  · subst heq
    rw [hri] at hrj
    cases hrj
    exact ⟨fun _ => rfl, fun _ _ => rfl⟩
  · obtain ⟨g1, g2⟩ := C04enc_d_no_mixing measure d pl hp j i hgt rj ri (n + 1) hrj hri h2 h1
    exact ⟨fun h => (g1 h).symm, fun h h' => (g2 h h').symm⟩

/-! ## (e) later rows never change how the earlier rows were paginated -/

/-- the reserved rows, the rows per page and the new-page flag do not depend on the frame rows -/
theorem takeRows_params (d : Doc) (m : Nat) :
    (takeRows d m).page.nrow = d.page.nrow ∧ additionalDoc (takeRows d m) = additionalDoc d ∧
      newPageDoc (takeRows d m) = newPageDoc d ∧ (takeRows d m).rows = d.rows.take m :=
  ⟨rfl, rfl, rfl, rfl⟩

/-- **prefix stability**: for the document cut after `m` frame rows (every other component unchanged), the encoder's
pagination is the first `m` page numbers of the document's pagination — line estimates, keys, heading rows and the
reservation of a row do not depend on later rows -/
theorem C04enc_e_prefix (measure : Measure) (d : Doc) (m : Nat) (pl pl' : Plan) (hp : plan measure d = .ok pl)
    (hp' : plan measure (takeRows d m) = .ok pl') : pl'.ld.pageNums = pl.ld.pageNums.take m := by
  obtain ⟨hprep, _, hld, _⟩ := plan_ok hp
  obtain ⟨hprep', _, hld', _⟩ := plan_ok hp'
  have hrows := Proofs.EncodePages.ldRows_take hprep hprep' hld hld'
  rw [C04enc_pageNums measure d pl hp, C04enc_pageNums measure _ pl' hp']
  obtain ⟨e1, e2, e3, _⟩ := takeRows_params d m
  rw [e1, e2, e3, ← Proofs.EncodePages.assignPages_take]
  unfold metaDoc
  have : rowIns pl'.ld = (rowIns pl.ld).take m := by
    unfold rowIns
    rw [hrows, List.map_take]
  rw [this, Proofs.EncodePages.mkMeta_take]
  rfl

/-! ## from `encode measure d = .ok g` -/

/-- **C04 for the encoder model.**  For every document the encoder accepts there are a plan and a trace (the output is
the trace's elements joined by newlines) such that the page numbers of the frame rows are `_assign_pages` of the
document's parameters and row metadata, every data row is rendered on the page with its number (the `n`-th page of
the trace is page `n + 1`), and the trace has as many pages as the last row's page number. -/
theorem C04enc (measure : Measure) (d : Doc) (g : DocG) (h : encode measure d = .ok g) :
    ∃ pl R, plan measure d = .ok pl ∧ Renders (mkColorCtx d) d pl R ∧
      g.blocks = joinElems R.elems ++ [BlockG.plain [Node.nl, Node.nl, Node.nl, Node.nl]] ∧
      pl.ld.pageNums = assignPages d.page.nrow (additionalDoc d) (newPageDoc d) (metaDoc d pl) ∧
      (∀ n x, R[n]? = some x → ∀ i ∈ dataIdx (x.2.map Prod.fst), pl.ld.pageNums[i]? = some (n + 1)) ∧
      (d.rows ≠ [] → pl.ld.pageNums.getLast? = some R.length) := by
  obtain ⟨pl, R, hp, hR, hg⟩ := encode_trace h
  refine ⟨pl, R, hp, hR, hg, C04enc_pageNums measure d pl hp, ?_, ?_⟩
  · intro n x hn i hi
    have hpb : pl.pageBlocks[n]? = some (x.1, x.2.map Prod.fst) := by
      rw [← hR.blocks, Trace.blocks, List.getElem?_map, hn]; rfl
    exact (Props.C02enc.C02enc_row_on_its_page measure d pl hp n i _ hpb hi).1
  · intro hne
    rw [C04enc_a_page_count measure d pl hp hne, ← hR.blocks, Trace.blocks, List.length_map]

/-! ## non-vacuity -/

open Props.C01enc in
/-- four columns, page_by `g` with `new_page`, seven rows, `nrow = 8` (header, footnote, source reserve three rows, so
five are available): group `A` (four rows of one line, the first with its heading row) fills page 1 and continues on
page 2; group `B` starts page 3 because `new_page` demands it -/
def exDocNP : Doc :=
  { exDoc [1, 1, 2] with
    cols := ["g".toList, "a".toList, "b".toList],
    rows := [[some "A".toList, some "x".toList, some "1".toList],
             [some "A".toList, some "y".toList, some "2".toList],
             [some "A".toList, some "z".toList, none],
             [some "A".toList, some "u".toList, some "4".toList],
             [some "A".toList, some "v".toList, some "5".toList],
             [some "B".toList, some "n>=3".toList, some "é".toList],
             [some "B".toList, some "w".toList, some "7".toList]],
    page := { exPage with nrow := 8 },
    headers := [some { text := some ["A".toList, "B".toList], colRelWidth := none, attrs := exTbl }],
    body := { (exDoc [1, 1, 2]).body with pageBy := some ["g".toList], newPage := true, pagebyColumn := false } }

set_option maxRecDepth 100000

open Props.C01enc in
/-- the encoder accepts the example and renders it on three pages; the page numbers are those of `_assign_pages`; the
break before row 4 is a capacity break (`1 + 1 + 1 + 1 + 1` rows are on page 1 and `5 + 1 > 5`), the break before row 5 is
demanded by `new_page` (page 2 holds one row) -/
example :
    (match encode exMeasure exDocNP with | .ok _ => true | .error _ => false) = true ∧
    (match plan exMeasure exDocNP with
     | .ok pl => pl.ld.pageNums == [1, 1, 1, 1, 2, 3, 3] &&
         (metaDoc exDocNP pl).map (fun r => (r.total, r.grp, r.sub)) ==
           [(2, true, false), (1, false, false), (1, false, false), (1, false, false), (1, false, false),
            (2, true, false), (1, false, false)] &&
         pl.pageBlocks.map (fun x => dataIdx x.2) == [[0, 1, 2, 3], [4], [5, 6]]
     | .error _ => false) = true ∧
    additionalDoc exDocNP = 3 ∧ newPageDoc exDocNP = true ∧
    availRows exDocNP.page.nrow (additionalDoc exDocNP) = 5 := by
  refine ⟨by decide +kernel, by decide +kernel, by decide, by decide, by decide⟩

open Props.C01enc in
/-- the hypotheses of (d) and (e) are satisfiable: the theorems applied to the example -/
example : ∀ pl, plan exMeasure exDocNP = .ok pl → ∀ pl', plan exMeasure (takeRows exDocNP 5) = .ok pl' →
    pl'.ld.pageNums = pl.ld.pageNums.take 5 :=
  fun pl hp pl' hp' => C04enc_e_prefix exMeasure exDocNP 5 pl pl' hp hp'

open Props.C01enc in
/-- the cut document is accepted as well, and paginated as the theorem says -/
example :
    (match plan exMeasure (takeRows exDocNP 5) with
     | .ok pl => pl.ld.pageNums == [1, 1, 1, 1, 2]
     | .error _ => false) = true := by decide +kernel

open Props.C01enc in
/-- two columns `g` (page_by, `new_page`, `pageby_row = "column"`: it STAYS in the table) and `t`, relative widths
`wg : wt` of a table 6.25 in wide, ten rows of one group whose `t` texts are 3 in wide and whose `g` texts 0.1 in;
`nrow = 12`, one column-header row reserved -/
def exDocKept (wg wt : Rat) : Doc :=
  { exDoc [wg, wt] with
    cols := ["g".toList, "t".toList],
    rows := List.replicate 10 [some "A".toList, some "T".toList],
    page := { exPage with nrow := 12 }, title := none, footnote := none, source := none,
    headers := [some { text := some ["G".toList, "T".toList], colRelWidth := none, attrs := exTbl }],
    body := { (exDoc [wg, wt]).body with pageBy := some ["g".toList], newPage := true, pagebyColumn := true } }

/-- `T` is 3 in wide, everything else 0.1 in -/
def exMeasureKept : Measure := fun s _ _ => if s == "T".toList then some 3 else some (1 / 10)

open Props.C01enc in
/-- the kept page_by column does not shift the widths: with `g : t = 1 : 4` the `t` column is 5 in wide and a 3 in text is
ONE line (against the 1.25 in of its left neighbour it would be three) — all ten rows and the heading row of the group
(11 lines) fit the 11 available lines, one page; with `g : t = 2 : 1` the `t` column is 2.08 in wide and the same text
is TWO lines (against its neighbour's 4.17 in it would be one) — the heading row and five such rows fill the 11 lines of
page 1, the other five rows stand on page 2 -/
example :
    (match plan exMeasureKept (exDocKept 1 4) with
     | .ok pl => pl.p.removed == [] && pl.p.cum == [5 / 4, 25 / 4] &&
         (rowIns pl.ld).map (·.dataRows) == List.replicate 10 1 && pl.ld.pageNums == List.replicate 10 1
     | .error _ => false) = true ∧
    (match plan exMeasureKept (exDocKept 2 1) with
     | .ok pl => pl.p.removed == [] && pl.p.cum == [25 / 6, 25 / 4] &&
         (rowIns pl.ld).map (·.dataRows) == List.replicate 10 2 &&
         pl.ld.pageNums == [1, 1, 1, 1, 1, 2, 2, 2, 2, 2]
     | .error _ => false) = true := by
  refine ⟨by decide +kernel, by decide +kernel⟩

open Props.C01enc in
/-- two columns `i`, `t` (relative widths 1 : 3 of 6.25 in: `t` is 4.6875 in wide), twelve rows that ALL show the same text
`T` in column `t`, `text_font_size = sizes` (one value per ROW when it is a tuple / an n×1 matrix); `nrow = 11`, one
column-header row reserved -/
def exDocRowSizes (sizes : Attr) : Doc :=
  { exDoc [1, 3] with
    cols := ["i".toList, "t".toList],
    rows := (List.range 12).map fun _ => [some "R".toList, some "T".toList],
    page := { exPage with nrow := 11 }, title := none, footnote := none, source := none,
    headers := [some { text := some ["I".toList, "T".toList], colRelWidth := none, attrs := exTbl }],
    body := { (exDoc [1, 3]).body with attrs := { exTbl with size := sizes } } }

/-- `T` is 0.3 in wide per point of font size (2.7 in at 9pt, 5.4 in at 18pt), everything else 0.1 in -/
def exMeasureSized : Measure := fun s _ z => if s == "T".toList then some (z * 3 / 10) else some (1 / 10)

open Props.C01enc in
/-- the same text in one column has the height of ITS OWN ROW's font size: four rows at 9pt (one line each) and eight at
18pt (two lines each) — page 1 holds `4·1 + 3·2 = 10` lines, the other five rows (10 lines) stand on page 2; the same sizes
spelled as an n×1 matrix paginate alike; a two-element tuple is repeated cyclically down the rows (`1 + 2 + 1 + 2 + …`:
six rows are 9 lines, the seventh — one line — still fits); and with one size for the whole table all twelve rows are one
line high, ten on page 1 -/
example :
    (match plan exMeasureSized (exDocRowSizes (.tuple (List.replicate 4 (.int 9) ++ List.replicate 8 (.int 18)))) with
     | .ok pl => (rowIns pl.ld).map (·.dataRows) == [1, 1, 1, 1, 2, 2, 2, 2, 2, 2, 2, 2] &&
         pl.ld.pageNums == [1, 1, 1, 1, 1, 1, 1, 2, 2, 2, 2, 2]
     | .error _ => false) = true ∧
    (match plan exMeasureSized
        (exDocRowSizes (.nested (List.replicate 4 [.int 9] ++ List.replicate 8 [.int 18]))) with
     | .ok pl => pl.ld.pageNums == [1, 1, 1, 1, 1, 1, 1, 2, 2, 2, 2, 2]
     | .error _ => false) = true ∧
    (match plan exMeasureSized (exDocRowSizes (.tuple [.int 9, .int 18])) with
     | .ok pl => (rowIns pl.ld).map (·.dataRows) == [1, 2, 1, 2, 1, 2, 1, 2, 1, 2, 1, 2] &&
         pl.ld.pageNums == [1, 1, 1, 1, 1, 1, 1, 2, 2, 2, 2, 2]
     | .error _ => false) = true ∧
    (match plan exMeasureSized (exDocRowSizes (.scalar (.int 9))) with
     | .ok pl => pl.ld.pageNums == [1, 1, 1, 1, 1, 1, 1, 1, 1, 1, 2, 2]
     | .error _ => false) = true := by
  refine ⟨by decide +kernel, by decide +kernel, by decide +kernel, by decide +kernel⟩

end Props.C04enc
