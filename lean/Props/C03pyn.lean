import Generated.PyAdditionalRowsNested
import Model.Layout
/-!
# C03 / C04 — translator tie for the rows reserved on every page, nested header list

The second copy of `calculate_additional_rows_per_page` (see `Props/C03py.lean`): `rtf_column_header` is a list of
Python lists, the branch `isinstance(document.rtf_column_header[0], list)`.
-/
namespace Props.C03pyn
open Model.Layout (LDoc)

/-- `bool(t)` for `t : Sequence[str] | None` -/
def seqTruthy (t : Option (List (List Nat))) : Bool :=
  match t with
  | some l => !l.isEmpty
  | none => false

/-! ## nested header list (one list per section; also reachable on the single-section path by assignment) -/
open Generated.Py.AdditionalRowsNested

def compTruthy (c : Option Comp) : Bool :=
  match c with
  | some c => seqTruthy c.text
  | none => false

def headerFlag (h : Option Comp) : Bool :=
  match h with
  | some c => c.text.isSome
  | none => false

/-! `s.v0` is the function's first (and only) local variable, the running count; the translator names locals by order of
first binding, so renaming it in the Python source changes nothing. -/

theorem loop2_step (sb hs fn src sec) (s : St) (h : Option Comp) :
    (loop2 sb hs fn src sec s h).v0 = s.v0 + (if headerFlag h then 1 else 0) := by
  cases h with
  | none => simp [loop2, headerFlag]
  | some c => cases ht : c.text <;> simp [loop2, headerFlag, ht]

theorem loop2_all (sb hs fn src sec) (l : List (Option Comp)) (s : St) :
    (l.foldl (loop2 sb hs fn src sec) s).v0 =
      s.v0 + Int.ofNat ((l.map headerFlag).filter id).length := by
  induction l generalizing s with
  | nil => simp
  | cons h t ih =>
    rw [List.foldl_cons, ih, loop2_step]
    cases hf : headerFlag h <;> simp [hf] <;> omega

/-- one section: `if section_headers:` only skips a loop that would not run anyway -/
theorem loop1_step (sb hs fn src) (s : St) (sec : List (Option Comp)) :
    (loop1 sb hs fn src s sec).v0 =
      s.v0 + Int.ofNat ((sec.map headerFlag).filter id).length := by
  rcases sec with _ | ⟨a, t⟩ <;> simp [-List.foldl_cons, loop1, loop2_all]

theorem loop1_all (sb hs fn src) (l : List (List (Option Comp))) (s : St) :
    (l.foldl (loop1 sb hs fn src) s).v0 =
      s.v0 + Int.ofNat ((l.flatten.map headerFlag).filter id).length := by
  induction l generalizing s with
  | nil => simp
  | cons h t ih =>
    rw [List.foldl_cons, ih, loop1_step]
    simp only [List.flatten_cons, List.map_append, List.filter_append, List.length_append]
    simp only [Int.ofNat_eq_natCast, Int.natCast_add]; omega

/-- **the translated `calculate_additional_rows_per_page` is the model's reservation** (nested header list): the
nested list is read as its concatenation (`Model.EncodeMulti.encodeWithNested1`: `headers := hs.flatten`; a multi-section document hands every
section its own flat list, `Props.C03py.C03py_additional_flat`) -/
theorem C03pyn_additional_nested (d : LDoc) (sb : Option (List (List Nat))) (secs : List (List (Option Comp)))
    (fn src : Option Comp)
    (h1 : d.hasSubline = seqTruthy sb) (h2 : d.headers = secs.flatten.map headerFlag)
    (h3 : (d.footnote != .absent) = compTruthy fn) (h4 : (d.source != .absent) = compTruthy src) :
    run sb secs fn src = Int.ofNat d.additional := by
  unfold LDoc.additional
  rw [h1, h2, h3, h4]
  rcases sb with _ | _ | ⟨_, _⟩ <;> rcases fn with _ | ⟨_ | _ | ⟨_, _⟩⟩ <;> rcases src with _ | ⟨_ | _ | ⟨_, _⟩⟩ <;>
    rcases secs with _ | ⟨a, t⟩ <;>
    simp [-List.foldl_cons, -List.flatten_cons, run, seqTruthy, compTruthy, loop1_all] <;> omega



end Props.C03pyn
