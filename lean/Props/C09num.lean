import Model.Encode
import Proofs.Widths
/-!
# C09: the numbers the encoder model emits for numeric body attributes

`Props/C09enc.lean` (`C09enc_binding`) says WHICH attribute value every page cell is built from (the one at the
cell's original position); the emitted NUMBER is then `gaphOf` of the row height (`\trgaphN`), `pyInt (size * 2)` of
the font size (`\fsN`), the value itself for indents / spacing / border width.  Here: what these two conversions are
on every non-negative input — the row height is converted to the NEAREST twip (ties to even) and then HALVED WITH
TRUNCATION (an odd number of twips `2k + 1` gives `k`, in both residues mod 4: never `k + 1`); the font size is doubled
and truncated.  The harness (`props/c09.py: model_numbers`, driver op `emit_num`) compares these numbers with the ones
read off the real output for fine-grained heights (every parity / residue of the twip count, exact ties `m / 64`) and
sizes (half, quarter, tenth points).
-/
namespace Props.C09num
open Model.Encode

/-- `k ≤ n / 2` on exact rationals is `2 k ≤ n` -/
private theorem le_half_iff (n k : Int) : (k : Rat) ≤ (n : Rat) / 2 ↔ k * 2 ≤ n := by
  have h2 : (0 : Rat) < 2 := by decide
  rw [← Rat.not_lt, Rat.div_lt_iff h2, Rat.not_lt]
  rw [show ((k:Rat) * 2) = ((k * 2 : Int) : Rat) by simp [Rat.intCast_mul]]
  exact Rat.intCast_le_intCast

private theorem pyInt_half (n : Int) (h : 0 ≤ n) : pyInt ((n : Rat) / 2) = n / 2 := by
  have h0 : (0 : Rat) ≤ (n : Rat) / 2 := by
    have := (le_half_iff n 0).mpr (by omega)
    simpa using this
  simp only [pyInt, h0, if_true]
  apply Int.le_antisymm
  · have := (le_half_iff n ((n : Rat) / 2).floor).mp (Rat.le_floor_iff.mp (Int.le_refl _))
    omega
  · exact Rat.le_floor_iff.mpr ((le_half_iff n (n / 2)).mpr (by omega))

private theorem twip_nonneg {h : Rat} (hh : 0 ≤ h) : 0 ≤ twip h := by
  have := Proofs.Widths.twip_mono hh
  have z : Model.Widths.twip 0 = 0 := by decide +kernel
  rw [z] at this
  exact this

/-- the height in twips is the nearest integer to `1440 · h` -/
theorem C09num_twip_nearest (h : Rat) :
    (twip h : Rat) - h * 1440 ≤ 1 / 2 ∧ h * 1440 - (twip h : Rat) ≤ 1 / 2 :=
  ⟨Proofs.Widths.round_sub_le _, Proofs.Widths.sub_round_le _⟩

/-- `\trgaphN`: `N` is the floor of half the height in twips -/
theorem C09num_row_height (h : Rat) (hh : 0 ≤ h) : gaphOf h = twip h / 2 :=
  pyInt_half (twip h) (twip_nonneg hh)

/-- halving truncates: an even number of twips `2k` and the odd number `2k + 1` both give `k` -/
theorem C09num_row_height_trunc (h : Rat) (hh : 0 ≤ h) :
    twip h = 2 * gaphOf h ∨ twip h = 2 * gaphOf h + 1 := by
  rw [C09num_row_height h hh]; omega

/-- an odd height `2k + 1` twips (whatever the parity of `k`, i.e. `≡ 1` and `≡ 3 mod 4` alike) is emitted as `k`,
never as `k + 1` -/
theorem C09num_row_height_odd (h : Rat) (hh : 0 ≤ h) (k : Int) (hk : twip h = 2 * k + 1) : gaphOf h = k := by
  rw [C09num_row_height h hh, hk]; omega

/-- `\fsN`: `N` is twice the size, truncated -/
theorem C09num_half_points (s : Rat) (hs : 0 ≤ s) :
    (pyInt (s * 2) : Rat) ≤ s * 2 ∧ s * 2 < (pyInt (s * 2) : Rat) + 1 := by
  have h0 : (0 : Rat) ≤ s * 2 := Rat.mul_nonneg hs (by decide)
  simp only [pyInt, h0, if_true]
  exact ⟨Proofs.Widths.floor_le' _, Proofs.Widths.lt_floor_add_one' _⟩

/-- the hypotheses are satisfiable by the inputs the class is about: 0.18 in = 259 twips (≡ 3 mod 4) → 129,
0.17 in = 245 twips (≡ 1 mod 4) → 122, the exact tie 11/64 in = 247.5 → 248 twips → 124; 9.75 pt → `\fs19` -/
example : gaphOf (18 / 100) = 129 ∧ gaphOf (17 / 100) = 122 ∧ twip (11 / 64) = 248 ∧ gaphOf (11 / 64) = 124 ∧
    pyInt ((39 / 4 : Rat) * 2) = 19 := by decide +kernel

end Props.C09num
