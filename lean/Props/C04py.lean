import Generated.PyAssignPages
import Model.Paginate
/-!
# C04 — translator tie for the page-assignment loop

`Generated.Py.AssignPages.run` is regenerated on every run from the source of
`PageBreakCalculator._assign_pages` (harness/pytranslate.py; the record `Row` from the fields of `RowMetadata`).
This file proves that it computes, for every input, exactly what the hand-written model
`Model.Paginate.assignPages` computes — the function all C03/C04 theorems are about.  So those theorems are
theorems about the loop as it reads now; a change of the loop that is not an equivalent rewrite breaks
`C04py_assign_pages_translated`.
-/
set_option linter.unusedSimpArgs false
namespace Props.C04py
open Model.Paginate Generated.Py.AssignPages

/-- what the model reads of one `RowMetadata` (only the three fields `_assign_pages` may depend on) -/
def ofPy (r : Row) : RowMeta :=
  { total := r.total_rows.toNat, grp := r.is_group_start, sub := r.is_subline_start }

/-- one iteration of the translated loop against one unfolding of the model's recursion -/
theorem loop1_step (nrow addl : Int) (np : Bool) (rows : List Row) (s : St) (r : Row) (hr : 0 ≤ r.total_rows)
    (k avail page cur : Nat)
    (ha : s.v0 = Int.ofNat avail) (hp : s.v1 = Int.ofNat page)
    (hc : s.v2 = Int.ofNat cur) :
    let brk := breaksBefore avail np cur (decide (k > 0)) (ofPy r)
    let page' := if brk then page + 1 else page
    let cur' := if brk then 0 else cur
    let s' := loop1 nrow addl np rows s (r, k)
    s'.v0 = Int.ofNat avail ∧ s'.v1 = Int.ofNat page' ∧
      s'.v2 = Int.ofNat (cur' + (ofPy r).total) ∧ s'.out_page = s.out_page ++ [Int.ofNat page'] := by
  have ht : r.total_rows = Int.ofNat r.total_rows.toNat := by simp; omega
  generalize r.total_rows.toNat = t at ht
  have e1 : decide ((avail : Int) < (cur : Int) + (t : Int)) = decide (avail < cur + t) := by
    simp only [decide_eq_decide]; omega
  have e2 : decide ((0 : Int) < (cur : Int)) = decide (0 < cur) := by simp only [decide_eq_decide]; omega
  have e3 : decide ((0 : Int) < (k : Int)) = decide (0 < k) := by simp only [decide_eq_decide]; omega
  cases np <;> cases hg : r.is_group_start <;> cases hs : r.is_subline_start <;>
    by_cases hk : 0 < k <;> by_cases h1 : avail < cur + t <;> by_cases h2 : 0 < cur <;>
    simp [loop1, ofPy, breaksBefore, forceBreak, ha, hp, hc, ht, hg, hs, e1, e2, e3, hk, h1, h2] <;> omega

theorem loop_all (nrow addl : Int) (np : Bool) (rows : List Row) (avail : Nat) :
    ∀ (rs : List Row) (k page cur : Nat) (s : St), (∀ r ∈ rs, 0 ≤ r.total_rows) →
      s.v0 = Int.ofNat avail → s.v1 = Int.ofNat page → s.v2 = Int.ofNat cur →
      ((rs.zipIdx k).foldl (loop1 nrow addl np rows) s).out_page =
        s.out_page ++ (assignAux avail np page cur (decide (k > 0)) (rs.map ofPy)).map Int.ofNat := by
  intro rs
  induction rs with
  | nil => intro k page cur s _ _ _ _; simp [assignAux]
  | cons r rs ih =>
    intro k page cur s hr ha hp hc
    have h := loop1_step nrow addl np rows s r (hr r (by simp)) k avail page cur ha hp hc
    simp only [List.map_cons, List.zipIdx_cons, List.foldl_cons, assignAux]
    obtain ⟨h1, h2, h3, h4⟩ := h
    rw [ih (k + 1) _ _ _ (fun x hx => hr x (by simp [hx])) h1 h2 h3, h4]
    simp

/-- **the translated `_assign_pages` is the model**, for every nrow, reservation, flag and list of row metadata
(row heights are counts: non-negative) -/
theorem C04py_assign_pages_translated (nrow addl : Nat) (np : Bool) (rows : List Row)
    (h : ∀ r ∈ rows, 0 ≤ r.total_rows) :
    run (Int.ofNat nrow) (Int.ofNat addl) np rows = (assignPages nrow addl np (rows.map ofPy)).map Int.ofNat := by
  unfold run assignPages
  by_cases he : rows = []
  · subst he; simp [assignAux]
  · have hl : ¬ (Int.ofNat rows.length = 0) := by
      cases rows with
      | nil => exact absurd rfl he
      | cons a as => simp; omega
    simp only [hl, decide_false, Bool.false_eq_true, ↓reduceIte]
    have := loop_all (Int.ofNat nrow) (Int.ofNat addl) np rows (availRows nrow addl) rows 0 1 0
      { ({} : St) with v0 := max 1 (Int.ofNat nrow - Int.ofNat addl), v1 := 1, v2 := 0 }
      h (by simp [availRows]; omega) (by simp) (by simp)
    simpa using this

/-- every row list of the model is reached: the tie is not vacuous -/
theorem C04py_onto (rs : List RowMeta) : ∃ rows : List Row, (∀ r ∈ rows, 0 ≤ r.total_rows) ∧ rows.map ofPy = rs := by
  refine ⟨rs.map fun r => { (default : Row) with total_rows := Int.ofNat r.total, is_group_start := r.grp,
                                                  is_subline_start := r.sub }, ?_, ?_⟩
  · intro r hr; simp only [List.mem_map] at hr; obtain ⟨a, _, rfl⟩ := hr; simp
  · simp only [List.map_map]
    conv => rhs; rw [← List.map_id rs]
    apply List.map_congr_left
    intro a _; simp [ofPy]

end Props.C04py
