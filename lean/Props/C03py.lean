import Generated.PyAdditionalRowsFlat
import Model.Layout
import Model.Encode
/-!
# C03 / C04 — translator tie for the rows reserved on every page

`Generated.Py.AdditionalRowsFlat.run` and `Generated.Py.AdditionalRowsNested.run` (tied in `Props/C03pyn.lean`) are regenerated on every run from the
source of `RTFDocumentService.calculate_additional_rows_per_page` (harness/pytranslate.py), once for a document whose
`rtf_column_header` is a flat list `[header | None, …]` and once for a nested list `[[header | None, …], …]` (the
function tells the two apart with `isinstance(document.rtf_column_header[0], list)`).  The typed inputs are the four
document facts the function reads; Python truthiness is spelled out by type (`None` / empty sequence → false, a component
object → true).

This file proves that both compute, for every input, the reservation `Model.Layout.LDoc.additional` that
`LDoc.pageNums = assignPages nrow additional …` (and with it every C03 / C04 theorem, and the whole-encoder model
through `Model.Encode.mkLDoc`) uses — for every role-level document `d` whose four fields say what the Python values
say.  A change of the count (a component counted twice, a forgotten `text is not None`, a reservation for the title, …)
breaks `C03py_additional_flat` / `C03pyn_additional_nested`.
-/
namespace Props.C03py
open Model.Layout (LDoc)

/-- `bool(t)` for `t : Sequence[str] | None` -/
def seqTruthy (t : Option (List (List Nat))) : Bool :=
  match t with
  | some l => !l.isEmpty
  | none => false

/-! ## flat header list -/
open Generated.Py.AdditionalRowsFlat

/-- `bool(c and c.text)` for a footnote / source component -/
def compTruthy (c : Option Comp) : Bool :=
  match c with
  | some c => seqTruthy c.text
  | none => false

/-- what `LDoc.headers` records of one entry of `rtf_column_header`: an object whose `text is not None` -/
def headerFlag (h : Option Comp) : Bool :=
  match h with
  | some c => c.text.isSome
  | none => false

/-! `s.v0` is the function's first (and only) local variable, the running count; the translator names locals by order of
first binding, so renaming it in the Python source changes nothing. -/

theorem loop1_step (sb hs fn src) (s : St) (h : Option Comp) :
    (loop1 sb hs fn src s h).v0 = s.v0 + (if headerFlag h then 1 else 0) := by
  cases h with
  | none => simp [loop1, headerFlag]
  | some c => cases ht : c.text <;> simp [loop1, headerFlag, ht]

theorem loop1_all (sb hs fn src) (l : List (Option Comp)) (s : St) :
    (l.foldl (loop1 sb hs fn src) s).v0 =
      s.v0 + Int.ofNat ((l.map headerFlag).filter id).length := by
  induction l generalizing s with
  | nil => simp
  | cons h t ih =>
    rw [List.foldl_cons, ih, loop1_step]
    cases hf : headerFlag h <;> simp [hf] <;> omega

/-- **the translated `calculate_additional_rows_per_page` is the model's reservation** (flat header list), for every
role-level document whose `hasSubline`, `headers`, `footnote`, `source` record the truthiness of the Python values -/
theorem C03py_additional_flat (d : LDoc) (sb : Option (List (List Nat))) (hs : List (Option Comp))
    (fn src : Option Comp)
    (h1 : d.hasSubline = seqTruthy sb) (h2 : d.headers = hs.map headerFlag)
    (h3 : (d.footnote != .absent) = compTruthy fn) (h4 : (d.source != .absent) = compTruthy src) :
    run sb hs fn src = Int.ofNat d.additional := by
  unfold LDoc.additional
  rw [h1, h2, h3, h4]
  rcases sb with _ | _ | ⟨_, _⟩ <;> rcases fn with _ | ⟨_ | _ | ⟨_, _⟩⟩ <;> rcases src with _ | ⟨_ | _ | ⟨_, _⟩⟩ <;>
    rcases hs with _ | ⟨a, t⟩ <;>
    simp [-List.foldl_cons, run, seqTruthy, compTruthy, loop1_all] <;> omega

/-- every role-level document is reached: the hypotheses of the tie are satisfiable for each `d` -/
theorem C03py_onto (d : LDoc) : ∃ (sb : Option (List (List Nat))) (hs : List (Option Comp)) (fn src : Option Comp),
    d.hasSubline = seqTruthy sb ∧ d.headers = hs.map headerFlag ∧
    (d.footnote != .absent) = compTruthy fn ∧ (d.source != .absent) = compTruthy src := by
  refine ⟨if d.hasSubline then some [[]] else none,
          d.headers.map (fun b => if b then some ⟨some []⟩ else none),
          if d.footnote != .absent then some ⟨some [[]]⟩ else none,
          if d.source != .absent then some ⟨some [[]]⟩ else none, ?_, ?_, ?_, ?_⟩
  · cases d.hasSubline <;> simp [seqTruthy]
  · rw [List.map_map]
    conv => lhs; rw [← List.map_id d.headers]
    apply List.map_congr_left
    intro b _; cases b <;> simp [headerFlag]
  · cases (d.footnote != .absent) <;> simp [compTruthy, seqTruthy]
  · cases (d.source != .absent) <;> simp [compTruthy, seqTruthy]

/-! ### the whole-encoder model: what `Model.Encode.mkLDoc` hands to the pagination is what the code computes -/

def codes (s : List Char) : List Nat := s.map Char.toNat

/-- `document.rtf_body.subline_by` of an encoder-model document -/
def pySubline (d : Model.Encode.Doc) : Option (List (List Nat)) := d.body.sublineBy.map (·.map codes)

/-- `document.rtf_column_header` (flat) -/
def pyHeaders (d : Model.Encode.Doc) : List (Option Comp) :=
  d.headers.map (Option.map fun h => ⟨h.text.map (·.map codes)⟩)

/-- a footnote / source: its text is one `str` after construction, i.e. the sequence of its characters -/
def pyFoot (f : Option Model.Encode.Foot) : Option Comp :=
  f.map fun f => ⟨f.text.map (·.map fun c => [c.toNat])⟩

theorem C03py_additional_encoder (measure : Model.Encode.Measure) (d : Model.Encode.Doc) (p : Model.Encode.Prep)
    (ld : LDoc) (near : Nat) (h : Model.Encode.mkLDoc measure d p = .ok (ld, near)) :
    run (pySubline d) (pyHeaders d) (pyFoot d.footnote) (pyFoot d.source) = Int.ofNat ld.additional := by
  unfold Model.Encode.mkLDoc at h
  simp only [bind, Except.bind, pure, Except.pure] at h
  split at h
  · exact absurd h (by simp)
  · rename_i rows _
    simp only [Except.ok.injEq, Prod.mk.injEq] at h
    obtain ⟨rfl, _⟩ := h
    apply C03py_additional_flat
    · simp only [pySubline, Model.Encode.Body.sublineByL]
      cases d.body.sublineBy with
      | none => simp [seqTruthy]
      | some l => cases l <;> simp [seqTruthy]
    · simp only [pyHeaders, List.map_map]
      apply List.map_congr_left
      intro a _
      cases a with
      | none => simp [headerFlag]
      | some hd => cases ht : hd.text <;> simp [headerFlag, ht]
    · simp only [pyFoot, Model.Encode.footComp]
      cases d.footnote with
      | none => simp [compTruthy]
      | some f =>
        cases ht : f.text with
        | none => simp [compTruthy, seqTruthy, Model.Encode.placementOf, ht]
        | some t => cases t <;> cases ha : f.asTable <;> simp [compTruthy, seqTruthy, Model.Encode.placementOf, ht, ha]
    · simp only [pyFoot, Model.Encode.footComp]
      cases d.source with
      | none => simp [compTruthy]
      | some f =>
        cases ht : f.text with
        | none => simp [compTruthy, seqTruthy, Model.Encode.placementOf, ht]
        | some t => cases t <;> cases ha : f.asTable <;> simp [compTruthy, seqTruthy, Model.Encode.placementOf, ht, ha]

example : run (some [[97]]) [some ⟨some []⟩, none, some ⟨none⟩, some ⟨some [[98]]⟩] (some ⟨some [[99]]⟩) (some ⟨some []⟩) = 4 := by
  decide

end Props.C03py
