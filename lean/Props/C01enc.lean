import Model.Rtf
import Model.RtfDoc
import Model.TextNodes
import Model.Encode
import Model.EncodeDomain
import Proofs.LexNodes
import Proofs.LexPrint
import Proofs.ConvNodes
import Proofs.Encode
import Proofs.EncodeTables
import Proofs.EncodeDoc
import Props.C01
/-!
# C01 at full strength for the whole-encoder model

`Model.Encode.encode measure d` is the executable model of `RTFDocument.rtf_encode()` for single-section table
documents (`printDoc` of its result is, byte for byte, the string the real encoder returns — checked on generated
documents on every run).  The theorem of this file:

  EVERY document of the domain that the model encoder accepts prints to well-formed RTF,

for every number of pages, rows, columns, every attribute value the constructors accept and every admissible text.
`InDomain d` (`Model/EncodeDomain.lean`) is the decidable domain: admissible texts (no raw `\ { }` CR apart from what
the conversion / rtflite's own fragments account for), positive relative widths, and a first column at least half a
twip wide in every row shape.  The last clause is a FINDING (`C01enc_finding_cellx0`): without it the encoder writes
`\cellx0`.

The proof goes through the grammar (`Props/C01.lean`): `docOk (encode …)` is derived from the structure of `encode`
(`Proofs/Encode*.lean`), text holes through `lexNodes ∘ printNodes = norm` (`Proofs/LexNodes.lean`) and C11.
-/
namespace Props.C01enc
open Model.Rtf Model.Emit Model.Encode Model.EncodeDomain Model.TextNodes

/-! ## the text-hole reader `lexNodes` -/

/-- the reader inverts the printer for EVERY string (the claim of `Model/TextNodes.lean`) -/
theorem C01enc_lex_print (s : List Char) : printNodes (lexNodes s) = s :=
  Proofs.LexPrint.print_lexNodes s

/-- on the printed form of an adjacency-closed node list the reader returns the list itself up to merging adjacent
text runs (`norm`), which keeps the printed string, the tokens, plainness and adjacency -/
theorem C01enc_lex_of_print (ns : List Node) (h : nodesOk ns none = true) :
    lexNodes (printNodes ns) = Proofs.LexNodes.norm ns ∧
    printNodes (Proofs.LexNodes.norm ns) = printNodes ns ∧ toksNodes (Proofs.LexNodes.norm ns) = toksNodes ns ∧
    plainNodes (Proofs.LexNodes.norm ns) = plainNodes ns :=
  ⟨Proofs.LexNodes.lexNodes_printNodes ns h, Proofs.LexNodes.printNodes_norm ns, Proofs.LexNodes.toksNodes_norm ns,
   Proofs.LexNodes.plainNodes_norm ns⟩

/-- every admissible text, converted (or not) and escaped, is a valid text hole of the emitters: plain, adjacency
closed before the closing brace, and neutral for the `\u` discipline — conversion ON and OFF -/
theorem C01enc_text_hole (conv : Bool) (t : List Char) (h : txtOk conv t = true) :
    plainNodes (textNodes (convText conv t)) = true ∧ nodesOk (textNodes (convText conv t)) (some '}') = true ∧
    ∀ (st : List Nat) (ts : List Tok),
      uOk 1 st 0 (toksNodes (textNodes (convText conv t)) ++ ts) = uOk 1 st 0 ts :=
  Proofs.ConvNodes.hole_txtOk conv t h

/-- C01's quantifier is inside the domain: a text without raw `\`, `{`, `}`, CR is admissible whatever the flag is -/
theorem C01enc_plain_text_admissible (conv : Bool) (t : List Char) (h : t.all plainC = true) : txtOk conv t = true :=
  Proofs.ConvNodes.txtOk_of_plain conv t h

/-! ## the whole encoder -/

/-- the grammar's side condition holds for every accepted document of the domain -/
theorem C01enc_docOk (measure : Measure) (d : Doc) (g : DocG) (h : encode measure d = .ok g) (hdom : InDomain d) :
    docOk g = true :=
  Proofs.EncodeDoc.encode_docOk h hdom

theorem C01enc_docOkFast (measure : Measure) (d : Doc) (g : DocG) (h : encode measure d = .ok g) (hdom : InDomain d) :
    docOkFast g = true := by
  rw [Proofs.Rtf.docOkFast_eq]; exact C01enc_docOk measure d g h hdom

/-- **C01 for the model encoder**: every document the encoder accepts prints to well-formed RTF -/
theorem C01_encode_wellformed (measure : Measure) (d : Doc) (g : DocG)
    (h : encode measure d = .ok g) (hdom : InDomain d) : wellFormed (printDoc g) = true :=
  Props.C01.C01_grammar_wellformed g (C01enc_docOk measure d g h hdom)

/-- the same on the string `rtf_encode()` returns -/
theorem C01_encodeText_wellformed (measure : Measure) (d : Doc) (s : List Char)
    (h : encodeText measure d = .ok s) (hdom : InDomain d) : wellFormed s = true := by
  unfold encodeText at h
  obtain ⟨g, hg, rfl⟩ := Proofs.Encode.map_ok h
  exact C01_encode_wellformed measure d g hg hdom

/-! ## non-vacuity and the finding -/

def sc (v : Val) : Attr := .nested [[v]]

def exText : TextAttrsOf Attr :=
  { font := sc (.int 1), format := sc (.str ""), size := sc (.float 9), color := .null, bg := .null,
    just := sc (.str "c"), indFirst := sc (.int 0), indLeft := sc (.int 0), indRight := sc (.int 0),
    space := sc (.float 1), spBefore := sc (.float 15), spAfter := sc (.float 15), hyph := sc (.bool true),
    convert := sc (.bool true) }

def exTbl : TblAttrsOf Attr :=
  { toTextAttrsOf := exText, bLeft := sc (.str "single"), bRight := sc (.str "single"), bTop := sc (.str ""),
    bBottom := sc (.str ""), bFirst := sc (.str "single"), bLast := sc (.str "single"), bcLeft := .null,
    bcRight := .null, bcTop := .null, bcBottom := .null, bcFirst := .null, bcLast := .null, bWidth := sc (.int 15),
    cellHeight := sc (.float (3 / 20)), cellJust := sc (.str "c"), cellVJust := sc (.str "top"),
    cellNrow := sc (.int 1) }

def exPage : Page :=
  { width := 17 / 2, height := 11, margin := [5 / 4, 1, 7 / 4, 5 / 4, 7 / 4, 1], nrow := 40, landscape := false,
    borderFirst := "double", borderLast := "double", colWidth := 25 / 4, pageTitle := .all, pageFootnote := .last,
    pageSource := .last }

/-- two columns, two rows (the second with a converted `>=`, a superscript and a non-ASCII letter), a column header
row from the column names, a title, a two-line footnote as table and a source paragraph -/
def exDoc (w : List Rat) : Doc :=
  { cols := ["a".toList, "b".toList],
    rows := [[some "x".toList, some "1".toList], [some "n>=3 m^2".toList, some "é".toList]],
    page := exPage, pageHeader := none, pageFooter := none,
    title := some { text := some ["Title".toList], attrs := exText }, subline := none,
    headers := [some { text := none, colRelWidth := none, attrs := exTbl }],
    body := { attrs := exTbl, colRelWidth := some w, asColheader := true, groupBy := none, pageBy := none,
              sublineBy := none, newPage := false, pagebyHeader := true, pagebyColumn := true },
    footnote := some { text := some "note 1\\line note 2".toList, asTable := true, colRelWidth := some [1], attrs := exTbl },
    source := some { text := some "src".toList, asTable := false, colRelWidth := some [1], attrs := exTbl } }

def exMeasure : Measure := fun _ _ _ => some 1

/-- the same frame without title, header, footnote, source -/
def exTiny (w : List Rat) : Doc :=
  { exDoc w with rows := [[some "x".toList, some "1".toList]], title := none, footnote := none, source := none,
                 headers := [] }

set_option maxRecDepth 100000

/-- the rich example is in the domain (conversion ON for every text: `>=`, `^`, `é`, the `\line ` of the footnote) -/
example : InDomain (exDoc [1, 2]) := by decide +kernel

/-- … the encoder accepts it, and (by direct evaluation, independently of the theorem) the result satisfies the
side condition and is well-formed -/
example : (match encode exMeasure (exDoc [1, 2]) with
    | .ok g => docOk g && wellFormed (printDoc g)
    | .error _ => false) = true := by decide +kernel

/-- the hypotheses of the main theorem are satisfiable: the theorem applied to the example -/
example : ∀ g, encode exMeasure (exDoc [1, 2]) = .ok g → wellFormed (printDoc g) = true :=
  fun g h => C01_encode_wellformed exMeasure (exDoc [1, 2]) g h (by decide +kernel)

/-- FINDING (`\cellx0`).  Positive relative widths are not enough: with `col_rel_width = [1, 100000]` and the default
`col_width = 6.25in` the first boundary is `round(1440 · 6.25 / 100001) = 0` twips; the encoder accepts the document
and writes `\cellx0`, which C01 (boundaries positive) rejects.  The document satisfies every clause of `InDomain`
except `firstOk` of the body row shape (`bodyWidthOk`): that clause cannot be dropped, and the constructors of rtflite
do not enforce it (they check `col_rel_width > 0` only). -/
theorem C01enc_finding_cellx0 :
    posW [1, 100000] = true ∧ cellsOk (exTiny [1, 100000]) = true ∧ bodyWidthOk (exTiny [1, 100000]) = false ∧
    inDomain (exTiny [1, 100000]) = false ∧
    (match encode exMeasure (exTiny [1, 100000]) with
     | .ok g => !docOk g && !wellFormed (printDoc g)
     | .error _ => false) = true := by decide +kernel

/-- the default page header text of rtflite (raw RTF, conversion OFF) and a multi-line footnote are admissible -/
example : rawOk "Page \\chpgn of {\\field{\\*\\fldinst NUMPAGES }}".toList = true ∧
    txtOk true "note 1\\line note 2".toList = true ∧ txtOk true "Page \\pagenumber of \\pagefield".toList = true ∧
    txtOk false "a{b".toList = false ∧ txtOk true "\\foo".toList = false := by decide +kernel

end Props.C01enc
