import Generated.PyEscapeNonAscii
import Model.Escape
/-!
# C10 — translator tie for the non-ASCII escaper

`Generated.Py.EscapeNonAscii.run` is regenerated on every run from `TextContent._escape_non_ascii`.
It equals `Model.Escape.escape`, the function C10's round-trip theorems are about, on every list of code points
(Python strings hold code points `< 0x110000`; the equality needs no bound).
-/
set_option linter.unusedSimpArgs false
namespace Props.C10py
open Model.Escape
open Generated.Py.EscapeNonAscii (loop1 loop2)
abbrev PSt := Generated.Py.EscapeNonAscii.St
abbrev pyRun := Generated.Py.EscapeNonAscii.run

theorem signed_eq (u : Nat) :
    ((u : Int) - if decide ((u : Int) < 32768) = true then (0 : Int) else 65536) = signed16 u := by
  unfold signed16
  by_cases h : u < 32768
  · have h' : ((u : Int) < 32768) := by omega
    rw [if_pos h, if_pos (by simpa using h')]; omega
  · have h' : ¬ ((u : Int) < 32768) := by omega
    rw [if_neg h, if_neg (by simpa using h')]

/-- the inner loop appends one `\uc1\uN*` per UTF-16 unit and touches nothing else that is read later -/
theorem loop2_units (text : List Nat) (x1 : Nat) :
    ∀ (us : List Nat) (s : PSt),
      ((us.map Int.ofNat).foldl (loop2 text x1) s).v0 = s.v0 ++ us.flatMap escUnit := by
  intro us
  induction us with
  | nil => intro s; simp
  | cons u us ih =>
    intro s
    simp only [List.map_cons, List.foldl_cons, List.flatMap_cons]
    rw [ih]
    have := signed_eq u
    simp only [loop2, Int.ofNat_eq_natCast, this, escUnit, Generated.Py.strOfInt, List.append_assoc]

/-- one iteration of the outer loop appends `escapeCp` of the character -/
theorem loop1_cp (text : List Nat) (s : PSt) (c : Nat) :
    (loop1 text s c).v0 = s.v0 ++ escapeCp c := by
  unfold loop1 escapeCp
  simp only [Int.ofNat_eq_natCast]
  by_cases h : c < 128
  · have h' : ((c : Int) < 128) := by omega
    rw [if_pos (by simpa using h'), if_pos h]
  · have h' : ¬ ((c : Int) < 128) := by omega
    rw [if_neg (by simpa using h'), if_neg h]
    by_cases hb : c < 0x10000
    · have hb' : ((c : Int) < 65536) := by omega
      rw [if_pos (by simpa using hb')]
      have := loop2_units text c [c] { s with v1 := (c : Int), v2 := [(c : Int)] }
      simp only [codeUnits, if_pos hb]
      simpa using this
    · have hb' : ¬ ((c : Int) < 65536) := by omega
      rw [if_neg (by simpa using hb')]
      have e1 : (55296 : Int) + ((c : Int) - 65536) / 1024 = ((0xD800 + (c - 0x10000) / 1024 : Nat) : Int) := by
        omega
      have e2 : (56320 : Int) + ((c : Int) - 65536) % 1024 = ((0xDC00 + (c - 0x10000) % 1024 : Nat) : Int) := by
        omega
      have := loop2_units text c [0xD800 + (c - 0x10000) / 1024, 0xDC00 + (c - 0x10000) % 1024]
        { s with v1 := (c : Int), v3 := (c : Int) - 65536,
                 v2 := [(55296 : Int) + ((c : Int) - 65536) / 1024, (56320 : Int) + ((c : Int) - 65536) % 1024] }
      simp only [List.map_cons, List.map_nil, Int.ofNat_eq_natCast, ← e1, ← e2] at this
      simp only [codeUnits, if_neg hb]
      exact this

theorem loop1_all (text : List Nat) : ∀ (t : List Nat) (s : PSt),
    (t.foldl (loop1 text) s).v0 = s.v0 ++ escape t := by
  intro t
  induction t with
  | nil => intro s; simp [escape]
  | cons c t ih => intro s; simp only [List.foldl_cons]; rw [ih, loop1_cp]; simp [escape]

/-- **the translated `_escape_non_ascii` is the model's `escape`**, for every string -/
theorem C10py_escape_translated (t : List Nat) : pyRun t = escape t := by
  unfold pyRun Generated.Py.EscapeNonAscii.run
  simp [loop1_all]

example : pyRun [65, 233, 0x1F600] = escape [65, 233, 0x1F600] := C10py_escape_translated _

end Props.C10py
