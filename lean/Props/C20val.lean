import Model.StrWidth
import Proofs.StrWidthVal
/-!
# C20 — "Unsupported fonts or units raise ValueError", for every *value class*

`Props/C20.lean` proves the clause for the typed model (`FontArg` = an int or a string, `unit : String`).  Nothing in
`get_string_width` enforces its annotations, so the refused value can be `None`, a float, bytes, a tuple, a numpy
scalar, …; building the refusal must not depend on the value being a string.  Here the clause is stated over
`Model.StrWidth.Val` (every Python value class a caller can pass) for the value-level model `getStringWidthV`:

* `fontClass` / `unitClass` (specification level, independent of the model): `supported` (a documented value in its
  documented type), `unsupported` (equals no documented value), `lenient` (another type whose value equals a
  documented one — `True`, `4.0`, `numpy.int64(4)`, `numpy.str_("Arial")` — accepted or refused, nothing else),
  `free` (unhashable: the dictionary lookup raised `TypeError` before any change; outside the judged set);
* `expected` = what the statement demands of a call whose text / size / dpi lie in its quantifier;
* `C20_val_expected`: the model meets the demand on **every** call; the stronger forms
  `C20_val_unsupported_font` (whatever the other four arguments are) and `C20_val_unsupported_unit` (whatever the
  dpi is) say that the refusal does not depend on arguments that are looked at later;
* `C20_val_refines`: on typed arguments the value-level model is the typed model, so every theorem of
  `Props/C20.lean` speaks about it.

The harness (`harness/props/c20.py`, value stream) evaluates `expected` through the driver on every generated call
and compares it with what the real function did; the model outcome is compared as correspondence.
-/
namespace Props.C20val
open Model.StrWidth Proofs.StrWidthVal Generated

/-- the documented names and numbers are the generated tables of the code under test -/
theorem C20_val_spec_tables :
    fontPaths.map (·.1) = specFontNames ∧
    fontNumberToName = (List.range 10).map (fun k => (k + 1, specFontNames.getD k "")) :=
  spec_tables

/-- an unsupported font — of whatever type — is a `ValueError`, whatever the other four arguments are -/
theorem C20_val_unsupported_font (measure : String → Rat → List Char → Rat) (font : Val)
    (h : fontClass font = .unsupported) (text size unit dpi : Val) :
    getStringWidthV measure text font size unit dpi = .raises .valueError := by
  simp [getStringWidthV, fontPathV_unsupported h]

/-- an unsupported unit — of whatever type — is a `ValueError` whenever the call gets as far as the unit (font
accepted, size and text in the domain), whatever the dpi value is -/
theorem C20_val_unsupported_unit (measure : String → Rat → List Char → Rat) (text font size unit : Val)
    (hu : unitClass unit = .unsupported) (hf : font.hashable = true)
    (ht : textInDomain text = true) (hs : sizeInDomain size = true) (dpi : Val) :
    getStringWidthV measure text font size unit dpi = .raises .valueError := by
  obtain ⟨q, hq, _⟩ := sizeStage_domain hs
  obtain ⟨s, _, hts⟩ := textStage_domain ht
  rcases fontPathV_hashable hf with ⟨p, hp⟩ | hp
  · simp [getStringWidthV, hp, hq, hts, Stage.bind, convertV_unsupported hu]
  · simp [getStringWidthV, hp]

/-- a supported font and unit give a width on the statement's domain -/
theorem C20_val_supported (measure : String → Rat → List Char → Rat) (text font size unit dpi : Val)
    (hf : fontClass font = .supported) (hu : unitClass unit = .supported)
    (ht : textInDomain text = true) (hs : sizeInDomain size = true) (hd : dpiInDomain dpi = true) :
    ∃ w, getStringWidthV measure text font size unit dpi = .ok w := by
  obtain ⟨q, hq, _⟩ := sizeStage_domain hs
  obtain ⟨s, _, hts⟩ := textStage_domain ht
  obtain ⟨p, hp⟩ := fontPathV_supported hf
  obtain ⟨w, hw⟩ := convertV_supported (Or.inl hu) hd (measure p q s.toList)
  exact ⟨w, by simp [getStringWidthV, hp, hq, hts, Stage.bind, hw]⟩

/-- hashable font and unit on the statement's domain: a width or a `ValueError`, never anything else -/
theorem C20_val_decided (measure : String → Rat → List Char → Rat) (text font size unit dpi : Val)
    (hf : font.hashable = true) (hu : unit.hashable = true)
    (ht : textInDomain text = true) (hs : sizeInDomain size = true) (hd : dpiInDomain dpi = true) :
    (∃ w, getStringWidthV measure text font size unit dpi = .ok w) ∨
    getStringWidthV measure text font size unit dpi = .raises .valueError := by
  obtain ⟨q, hq, _⟩ := sizeStage_domain hs
  obtain ⟨s, _, hts⟩ := textStage_domain ht
  rcases fontPathV_hashable hf with ⟨p, hp⟩ | hp
  · cases hc : unitClass unit with
    | unsupported =>
      exact Or.inr (by simp [getStringWidthV, hp, hq, hts, Stage.bind, convertV_unsupported hc])
    | free => simp [unitClass, hu] at hc; split at hc <;> (try split at hc) <;> simp at hc
    | supported =>
      obtain ⟨w, hw⟩ := convertV_supported (Or.inl hc) hd (measure p q s.toList)
      exact Or.inl ⟨w, by simp [getStringWidthV, hp, hq, hts, Stage.bind, hw]⟩
    | lenient =>
      obtain ⟨w, hw⟩ := convertV_supported (Or.inr hc) hd (measure p q s.toList)
      exact Or.inl ⟨w, by simp [getStringWidthV, hp, hq, hts, Stage.bind, hw]⟩
  · exact Or.inr (by simp [getStringWidthV, hp])

/-- **the clause over every value class**: on every call the value-level model meets what the statement demands —
`ValueError` for an unsupported font or unit of any type, a width for supported ones, one of the two for lenient
values; calls outside the statement's quantifier (`Expect.free`) demand nothing -/
theorem C20_val_expected (measure : String → Rat → List Char → Rat) (text font size unit dpi : Val) :
    meets (expected text font size unit dpi) (getStringWidthV measure text font size unit dpi) = true := by
  unfold expected
  split
  · rename_i hdom
    simp only [Bool.and_eq_true] at hdom
    obtain ⟨⟨ht, hs⟩, hd⟩ := hdom
    have hfree : ∀ v, fontClass v = .free ↔ v.hashable = false := by
      intro v
      unfold fontClass
      cases hv : v.hashable
      · simp
      · simp only [if_true]
        repeat' split
        all_goals simp
    have hfreeu : ∀ v, unitClass v = .free ↔ v.hashable = false := by
      intro v
      unfold unitClass
      cases hv : v.hashable
      · simp
      · simp only [if_true]
        repeat' split
        all_goals simp
    have hhf : fontClass font ≠ .free → font.hashable = true := by
      intro hne
      cases hv : font.hashable
      · exact absurd ((hfree font).mpr hv) hne
      · rfl
    have hhu : unitClass unit ≠ .free → unit.hashable = true := by
      intro hne
      cases hv : unit.hashable
      · exact absurd ((hfreeu unit).mpr hv) hne
      · rfl
    have A := fun h => C20_val_unsupported_font measure font h text size unit dpi
    have B := fun hu hf => C20_val_unsupported_unit measure text font size unit hu hf ht hs dpi
    have C := fun hf hu => C20_val_supported measure text font size unit dpi hf hu ht hs hd
    have D := fun hf hu => C20_val_decided measure text font size unit dpi hf hu ht hs hd
    generalize getStringWidthV measure text font size unit dpi = O at A B C D
    cases hf : fontClass font with
    | free => cases unitClass unit <;> rfl
    | unsupported => rw [A hf]; cases unitClass unit <;> rfl
    | supported =>
      have hh := hhf (by rw [hf]; decide)
      cases hu : unitClass unit with
      | free => rfl
      | unsupported => rw [B hu hh]; rfl
      | supported => obtain ⟨w, hw⟩ := C hf hu; rw [hw]; rfl
      | lenient => rcases D hh (hhu (by rw [hu]; decide)) with ⟨w, hw⟩ | hw <;> rw [hw] <;> rfl
    | lenient =>
      have hh := hhf (by rw [hf]; decide)
      cases hu : unitClass unit with
      | free => rfl
      | unsupported => rw [B hu hh]; rfl
      | supported => rcases D hh (hhu (by rw [hu]; decide)) with ⟨w, hw⟩ | hw <;> rw [hw] <;> rfl
      | lenient => rcases D hh (hhu (by rw [hu]; decide)) with ⟨w, hw⟩ | hw <;> rw [hw] <;> rfl
  · rfl

/-- the baseline of the `free` class: an unhashable font (list, dict, set, ndarray, a tuple containing one) fails
in the dictionary lookup with `TypeError` — before anything else is looked at; likewise an unhashable unit once the
call gets that far.  These classes are kept out of the judged set (and listed in the evidence). -/
theorem C20_val_unhashable_font (measure : String → Rat → List Char → Rat) (font : Val)
    (h : font.hashable = false) (text size unit dpi : Val) :
    getStringWidthV measure text font size unit dpi = .raises .typeError := by
  simp [getStringWidthV, fontPathV_free h]

theorem C20_val_unhashable_unit (measure : String → Rat → List Char → Rat) (text font size unit : Val)
    (hu : unit.hashable = false) (hf : fontClass font = .supported)
    (ht : textInDomain text = true) (hs : sizeInDomain size = true) (dpi : Val) :
    getStringWidthV measure text font size unit dpi = .raises .typeError := by
  obtain ⟨q, hq, _⟩ := sizeStage_domain hs
  obtain ⟨s, _, hts⟩ := textStage_domain ht
  obtain ⟨p, hp⟩ := fontPathV_supported hf
  simp [getStringWidthV, hp, hq, hts, Stage.bind, convertV_free hu]

/-- on typed arguments of the statement's domain the value-level model **is** the typed model of `Props/C20.lean`
(font an int or a `str`, unit a `str`, size and dpi Python numbers) -/
theorem C20_val_refines (measure : String → Rat → List Char → Rat) (s : String) (font : FontArg) (unit : String)
    (size dpi : Rat) (hs : 4 ≤ size ∧ size ≤ 48) (hd : 36 ≤ dpi ∧ dpi ≤ 600) :
    getStringWidthV measure (.str s) (match font with | .num n => .int n | .name nm => .str nm) (.float size)
        (.str unit) (.float dpi) =
      Stage.ofExcept (getStringWidth measure s.toList font size unit dpi) := by
  have hsd : sizeInDomain (.float size) = true := by simp [sizeInDomain, numIn, hs.1, hs.2]
  have hdd : dpiInDomain (.float dpi) = true := by simp [dpiInDomain, numIn, hd.1, hd.2]
  obtain ⟨q, hq, hqpos⟩ := sizeStage_domain hsd
  obtain ⟨d, hdq, hdpos⟩ := dpiStage_domain hdd
  have hq' : q = size := by
    have : sizeStage (.float size) = .ok size := by
      have h0 : ¬ size ≤ 0 := by grind
      have hp : pillowSize size = true := by
        simp only [pillowSize, Bool.and_eq_true, decide_eq_true_eq]; constructor <;> grind
      simp [sizeStage, Val.num?, h0, hp]
    rw [this] at hq; cases hq; rfl
  have hd' : d = dpi := by
    have hne : dpi ≠ 0 := by grind
    have : dpiStage (.float dpi) = .ok dpi := by
      have hnl : ¬ dpi < 0 := by grind
      have hr : floatRange dpi = true := by
        simp only [floatRange, floatRange.rabs', hnl, if_false, Bool.and_eq_true, decide_eq_true_eq]
        exact ⟨Rat.le_trans (by decide +kernel) hd.1, Rat.le_trans hd.2 (by decide +kernel)⟩
      simp [dpiStage, Val.num?, hne, hr]
    rw [this] at hdq; cases hdq; rfl
  subst hq' hd'
  have hnot : ¬ q ≤ 0 := Rat.not_le.mpr hqpos
  have hpath : fontPathV (match font with | .num n => .int n | .name nm => .str nm) =
      fontPath font := by
    cases font with
    | num n =>
      simp only [fontPathV, fontKeyV, Val.pyInt?, fontPath, bind, Except.bind]
      cases fontName (.num n) with
      | error e => rfl
      | ok nm =>
        simp only [strKeyLookup, Val.hashable, Val.str?, if_true]
        cases fontPaths.lookup nm <;> rfl
    | name nm =>
      simp only [fontPathV, fontKeyV, Val.pyInt?, fontPath, fontName, bind, Except.bind, strKeyLookup,
        Val.hashable, Val.str?, if_true]
      cases fontPaths.lookup nm <;> rfl
  unfold getStringWidthV getStringWidth
  rw [hpath]
  cases fontPath font with
  | error e => rfl
  | ok p =>
    simp only [hq, textStage, Stage.bind, bind, Except.bind, hnot, if_false]
    unfold convertV convert
    simp only [Val.hashable, Val.str?, if_true]
    by_cases h1 : unit = "px"
    · simp [h1, Stage.ofExcept]
    · by_cases h2 : unit = "in"
      · have hne : d ≠ 0 := by grind
        subst h2; simp [hdq, Stage.bind, Stage.ofExcept, hne]
      · by_cases h3 : unit = "mm"
        · have hne : d ≠ 0 := by grind
          subst h3; simp [hdq, Stage.bind, Stage.ofExcept, hne]
        · simp [h1, h2, h3, Stage.ofExcept]

/-! ## the classes are inhabited and the demands are not vacuous -/

/-- every class of the refusal clause on concrete values: the seeded-change class (`None`, a float, an int as unit)
is `unsupported`, hence a `ValueError`; equal-valued other types are lenient; unhashables are free -/
example :
    fontClass .null = .unsupported ∧ fontClass (.float (3 / 2)) = .unsupported ∧ fontClass (.float 4) = .lenient ∧
    fontClass (.bool true) = .lenient ∧ fontClass (.bool false) = .unsupported ∧ fontClass (.npInt 3) = .lenient ∧
    fontClass (.int 11) = .unsupported ∧ fontClass (.int 4) = .supported ∧ fontClass (.str "Arial") = .supported ∧
    fontClass (.str "arial") = .unsupported ∧ fontClass .bytes = .unsupported ∧ fontClass (.tuple true) = .unsupported ∧
    fontClass (.tuple false) = .free ∧ fontClass .list = .free ∧ fontClass .nan = .unsupported ∧
    unitClass .null = .unsupported ∧ unitClass (.int 72) = .unsupported ∧ unitClass (.float (127 / 5)) = .unsupported ∧
    unitClass (.str "mm") = .supported ∧ unitClass (.npStr "mm") = .lenient ∧ unitClass (.str "MM") = .unsupported ∧
    unitClass .list = .free := by
  decide +kernel

example :
    expected (.str "Placebo") .null (.int 12) (.str "in") (.float 72) = .valueError ∧
    expected (.str "Placebo") (.int 9) (.float (19 / 2)) .null (.int 300) = .valueError ∧
    expected (.str "Placebo") (.str "Courier New") (.npFloat 12) (.int 1) (.npInt 72) = .valueError ∧
    expected (.str "Placebo") (.int 9) (.int 12) (.str "px") (.float 72) = .width ∧
    expected (.str "Placebo") (.float 4) (.int 12) (.str "px") (.float 72) = .either ∧
    expected (.str "Placebo") .list (.int 12) (.str "px") (.float 72) = .free ∧
    expected .null .null (.int 12) (.str "px") (.float 72) = .free := by
  decide +kernel

/-- a measure-independent evaluation: `None` as font or unit, a float font, an int unit — `ValueError` each -/
example (measure : String → Rat → List Char → Rat) :
    getStringWidthV measure (.str "x") .null (.int 12) (.str "in") (.float 72) = .raises .valueError ∧
    getStringWidthV measure (.str "x") (.float (3 / 2)) (.int 12) (.str "in") (.float 72) = .raises .valueError ∧
    getStringWidthV measure (.str "x") (.int 4) (.int 12) .null (.float 72) = .raises .valueError ∧
    getStringWidthV measure (.str "x") (.str "Arial") (.int 12) (.int 72) .null = .raises .valueError := by
  refine ⟨C20_val_unsupported_font measure _ (by decide +kernel) _ _ _ _,
    C20_val_unsupported_font measure _ (by decide +kernel) _ _ _ _,
    C20_val_unsupported_unit measure _ _ _ _ (by decide +kernel) rfl rfl (by decide +kernel) _,
    C20_val_unsupported_unit measure _ _ _ _ (by decide +kernel) rfl rfl (by decide +kernel) _⟩

/-- the unchanged code refuses the lenient values `4.0` and `numpy.int64(4)` (not `int` instances, so they are looked
up as names) and accepts `True` as font 1 — both allowed -/
example (measure : String → Rat → List Char → Rat) :
    getStringWidthV measure (.str "x") (.float 4) (.int 12) (.str "px") (.float 72) = .raises .valueError ∧
    getStringWidthV measure (.str "x") (.npInt 4) (.int 12) (.str "px") (.float 72) = .raises .valueError ∧
    getStringWidthV measure (.str "x") (.bool true) (.int 12) (.str "px") (.float 72) =
      getStringWidthV measure (.str "x") (.int 1) (.int 12) (.str "px") (.float 72) := by
  refine ⟨?_, ?_, ?_⟩ <;> simp [getStringWidthV, fontPathV, fontKeyV, Val.pyInt?, strKeyLookup, Val.hashable, Val.str?]

end Props.C20val
