import Model.Layout
import Proofs.Paginate
import Proofs.Layout
/-!
# C02 — no data cell is lost, duplicated, reordered or altered   (role-level part)

`layout d` is the model of pagination + page rendering (Model/Layout.lean).  The theorems say that
the data-row blocks of all pages, concatenated in page order, are exactly rows 0..n-1 in order, that
every row sits on the page the pagination assigned to it, and which columns are rendered as cells.
-/
namespace Props.C02
open Model.Paginate Model.Layout

def dataIdx (bs : List Block) : List Nat :=
  bs.filterMap fun b => match b with
    | .data i => some i
    | _ => none

/-- structural fact behind everything else: the cumulative re-slicing of
`_apply_data_post_processing` lands on the strategy's own slices, slices are contiguous and
cover all rows, page numbers are 1..P and `total = P`. -/
theorem C02_pages_structure (d : LDoc) (hne : d.rows ≠ []) :
    (d.pages.map (·.number) = List.range' 1 d.pages.length) ∧
    (∀ pg ∈ d.pages, pg.total = d.pages.length ∧ pg.dataStart = pg.start ∧ 0 < pg.height ∧
        pg.start + pg.height ≤ d.rows.length ∧
        ∀ i, (pg.start ≤ i ∧ i < pg.start + pg.height) ↔ d.pageNums[i]? = some pg.number) ∧
    ((d.pages.map (·.height)).sum = d.rows.length) := by
  obtain ⟨P, _, hlen, hnum, hok, hsum⟩ := Proofs.Layout.pages_spec d hne
  refine ⟨by rw [hlen]; exact hnum, ?_, hsum⟩
  intro pg hpg
  have h := hok pg hpg
  have hb := h.bound
  rw [Proofs.Layout.pageNums_length] at hb
  exact ⟨by rw [hlen]; exact h.total_eq, h.data_eq, h.height_pos, hb,
    h.iff (Proofs.Layout.pageNums_sorted d)⟩

/-- every data row exactly once, in original order, pages in page order -/
theorem C02_rows_once_in_order (d : LDoc) :
    (layout d).flatMap dataIdx = List.range d.rows.length := by
  exact Proofs.Layout.layout_dataIdx d

/-- a data row is rendered on the page whose number the pagination assigned to it -/
theorem C02_row_on_its_page (d : LDoc) (k i : Nat) (bs : List Block)
    (h : (layout d)[k]? = some bs) (hi : i ∈ dataIdx bs) :
    d.pageNums[i]? = some (k + 1) := by
  simp only [layout, List.getElem?_map, Option.map_eq_some_iff] at h
  obtain ⟨pg, hpg, rfl⟩ := h
  exact Proofs.Layout.row_on_page d k i pg hpg hi

/-! ## which columns become cells (`prepare_dataframe_for_body_encoding`) and what a cell shows -/

/-- display text of a value: `""` for null, the string otherwise (`_encode`: `"" if raw is None`) -/
def displayCell : Option String → String
  | none => ""
  | some s => s

/-- names removed from the display: subline_by always; page_by iff spanning rows are shown -/
def removedCols (pageBy sublineBy : List String) (spanning : Bool) : List String :=
  sublineBy ++ (if spanning then pageBy else [])

def keptCols (cols removed : List String) : List String := cols.filter (fun c => !removed.contains c)

def renderRow (cols removed : List String) (row : List (Option String)) : List String :=
  ((cols.zip row).filter (fun x => !removed.contains x.1)).map (fun x => displayCell x.2)

theorem C02_kept_cols_order (cols removed : List String) :
    (keptCols cols removed).Sublist cols ∧
    ∀ c, c ∈ keptCols cols removed ↔ (c ∈ cols ∧ c ∉ removed) := by
  refine ⟨List.filter_sublist, ?_⟩
  intro c
  simp [keptCols, List.mem_filter]

theorem C02_row_cells (cols removed : List String) (row : List (Option String))
    (hlen : row.length = cols.length) :
    (renderRow cols removed row).length = (keptCols cols removed).length ∧
    ∀ (j : Nat) (c : String), (keptCols cols removed)[j]? = some c → cols.Nodup →
      ∃ (k : Nat) (v : Option String), cols[k]? = some c ∧ row[k]? = some v ∧ (renderRow cols removed row)[j]? = some (displayCell v) := by
  refine ⟨?_, ?_⟩
  · induction cols generalizing row with
    | nil => simp [renderRow, keptCols]
    | cons c cs ih =>
      cases row with
      | nil => simp at hlen
      | cons v vs =>
        have hl : vs.length = cs.length := by simpa using hlen
        have := ih vs hl
        simp only [renderRow, keptCols, List.zip_cons_cons, List.filter_cons] at this ⊢
        split <;> simp only [List.length_map, List.length_cons] at this ⊢ <;> omega
  · intro j c hj hnd
    clear hnd
    induction cols generalizing row j with
    | nil => simp [keptCols] at hj
    | cons c0 cs ih =>
      cases row with
      | nil => simp at hlen
      | cons v vs =>
        have hl : vs.length = cs.length := by simpa using hlen
        simp only [renderRow, keptCols, List.zip_cons_cons, List.filter_cons] at hj ⊢
        by_cases hc : (!removed.contains c0) = true
        · simp only [hc, if_true, List.map_cons] at hj ⊢
          cases j with
          | zero =>
            simp only [List.getElem?_cons_zero, Option.some.injEq] at hj
            exact ⟨0, v, by simp [hj], by simp, by simp⟩
          | succ j =>
            simp only [List.getElem?_cons_succ] at hj ⊢
            obtain ⟨k, w, h1, h2, h3⟩ := ih vs hl j hj
            exact ⟨k + 1, w, by simpa using h1, by simpa using h2, h3⟩
        · simp only [hc] at hj ⊢
          obtain ⟨k, w, h1, h2, h3⟩ := ih vs hl j hj
          exact ⟨k + 1, w, by simpa using h1, by simpa using h2, h3⟩

/-- non-vacuity: a 5-row table on 2 pages -/
example :
    (layout { nrow := 4, rows := (List.range 5).map (fun _ => ⟨1, [], [], 1, 1⟩), hasPageBy := false,
              hasSubline := false, newPage := false, pagebyColumn := true, pagebyHeader := true,
              headers := [true], asColheader := true, hasTitle := false, hasSublineTxt := false,
              footnote := .absent, source := .absent, pageTitle := .all, pageFootnote := .last,
              pageSource := .last }).map dataIdx = [[0, 1, 2], [3, 4]] := by decide

end Props.C02
