import Model.Encode
import Model.CellAttr
import Proofs.EncodeAttrs
import Props.C09
import Props.C01enc
/-!
# C09 for the whole-encoder model: cell formatting follows the data cell

`Props/C09.lean` proves the binding for the partial model `cellAttr` (column removal → page rows → page-relative
`iloc`).  Here the same is stated for what `Model.Encode.encode` really does for a data row:

  `prepare` (`processedAttrs`: expand + drop removed columns) → `pageAttrs` (the page's rows of every matrix) →
  `renderBlock (.data i)` → `encodeRow … (i - pg.start)` → `encodeCell … j` → `ilocV <matrix> (i - pg.start) j`.

Vocabulary (all from `Proofs/EncodeAttrs.lean`):
* `Field` — the 31 attribute matrices of `TblAttrsOf`; `f.get A` the projection; `f.isEdge` ⇔ `f` is `bTop`/`bBottom`
  (those two are rewritten by `_apply_pagination_borders`; `Props/C07enc.lean` says what they hold);
* `Run measure k d` — the intermediate values of an ACCEPTED run of `encodePages` (`encodePages_run`, `encode_run`:
  every accepted document has one): `R.A` the user's body attributes after `_to_nested_list`, `R.removed` the removed
  column indices, `R.p = prepare d`, `R.ld` the role-level document, `R.rows` the final frame, `R.ess` the elements;
  `R.Renders pg blocks` — `pg` is a page of the run and `blocks` its block list;
* `readAt A r j` — the record of all values `_encode` can read at position `(r, j)`; `cellOf k R …` — `encodeCell`
  as a function of the values read; `shapeOk a` — the user attribute is absent, a scalar, a non-empty list / tuple or a
  non-empty rectangular nested list with ≥ 1 column (on these `BroadcastValue.iloc` is total; C09's `Rect` hypothesis).
-/
namespace Props.C09enc
open Model.Encode Model.Broadcast Model.Layout Model.Emit Proofs.EncodeAttrs

/-! ## every accepted document has a run; what is rendered for a data row -/

/-- an accepted document has a run, and the run's elements are the document's blocks -/
theorem C09enc_run (measure : Measure) (d : Doc) (g : Model.Rtf.DocG) (h : encode measure d = .ok g) :
    ∃ R : Run measure (mkColorCtx d) d,
      g.blocks = joinElems R.ess.flatten ++ [Model.Rtf.BlockG.plain [.nl, .nl, .nl, .nl]] :=
  encode_run h

/-- the data rows of a rendered page are exactly the frame rows `pg.start ≤ i < pg.start + pg.height` (inside the
frame), and each is emitted by `encodeRow` on the page's attributes at the PAGE-RELATIVE row `i - pg.start`, cell `j`
by `encodeCell … (i - pg.start) j` with the `j`-th cumulative width; the emitted element is part of the output -/
theorem C09enc_data_rows {measure : Measure} {k : ColorCtx} {d : Doc} (R : Run measure k d)
    {pg : PageCtx} {blocks : List Block} (hr : R.Renders pg blocks) :
    pg.start + pg.height ≤ d.rows.length ∧
    (∀ i, Block.data i ∈ blocks ↔ (pg.start ≤ i ∧ i < pg.start + pg.height)) ∧
    ∀ i, Block.data i ∈ blocks → ∃ cells e cs jv just hv hh,
      R.rows[i]? = some cells ∧ e ∈ R.ess.flatten ∧
      e = rowElem { gaph := gaphOf hh, just := just, cells := cs } ∧ cs.length = cells.length ∧
      (∀ j cell, cells[j]? = some cell → ∃ c, cs[j]? = some c ∧
        encodeCell k (pageAttrs d R.A R.p pg).attrs (i - pg.start) j (j + 1 == cells.length) (cell.getD [])
          R.p.cum[j]? = .ok c) ∧
      ilocV (pageAttrs d R.A R.p pg).attrs.cellJust (i - pg.start) 0 = .ok jv ∧ resolveRowJust jv = .ok just ∧
      ilocV (pageAttrs d R.A R.p pg).attrs.cellHeight (i - pg.start) 0 = .ok hv ∧ hv.toRat = .ok hh := by
  obtain ⟨_, hb, hiff⟩ := R.page_geometry hr
  refine ⟨hb, hiff, ?_⟩
  intro i hi
  obtain ⟨cells, e, hc, he, hmem⟩ := R.data_rendered hr hi
  obtain ⟨_, cs, jv, just, hv, hh, hlen, hcell, h1, h2, h3, h4, rfl⟩ := encodeRow_inv he
  exact ⟨cells, _, cs, jv, just, hv, hh, hc, hmem, rfl, hlen, hcell, h1, h2, h3, h4⟩

/-- the cell the encoder emits is a function of the values read at its position `(r, j)` and of nothing else in the
attribute matrices -/
theorem C09enc_cell_reads (k : ColorCtx) (A : TblAttrsOf MatV) (r j : Nat) (isLast : Bool) (text : Str)
    (width : Option Rat) :
    encodeCell k A r j isLast text width = cellOf k (readAt A r j) isLast text width ∧
    ∀ f : Field, f.get (readAt A r j) = ilocV (f.get A) r j :=
  ⟨encodeCell_eq_cellOf k A r j isLast text width, readAt_get A r j⟩

/-! ## the binding -/

/-- **C09 for the encoder, one field, any page geometry.**  `A` is the user's attribute record after
`_to_nested_list`, `p.attrs` its processed form (`prepare`).  For EVERY page context inside the frame, page-relative
row `i`, displayed column `j` with original column `c = keptIdx[j]`, the value `_encode` reads for field `f` on the
page attributes is the value the user's matrix holds at (table row `pg.start + i`, original column `c`) under
rtflite's broadcasting rule (`ilocV` = `BroadcastValue.iloc`: index modulo the matrix's own shape) — page slicing and
column removal never re-bind a value to another cell. -/
theorem C09enc_binding_page {d : Doc} {bodyA A : TblAttrsOf MatV} {p : Prep} {removed : List Nat}
    (hattrs : p.attrs = processedAttrs A d.rows.length d.cols.length removed)
    (f : Field) (hf : f.isEdge = false) (hg : GoodV (f.get A)) (pg : PageCtx)
    (hpage : pg.start + pg.height ≤ d.rows.length) {i j c : Nat} (hi : i < pg.height)
    (hj : (keptIdx d.cols.length removed)[j]? = some c) :
    ilocV (f.get (pageAttrs d bodyA p pg).attrs) i j = ilocV (f.get A) (pg.start + i) c :=
  read_binding hattrs f hf hg pg hpage hi hj

/-- the same through the partial model of `Props/C09.lean`: on a present matrix the value read is `cellAttr`, which
`C09_binding` equates with `specAttr` -/
theorem C09enc_binding_cellAttr {d : Doc} {bodyA A : TblAttrsOf MatV} {p : Prep} {removed : List Nat}
    (hattrs : p.attrs = processedAttrs A d.rows.length d.cols.length removed)
    (f : Field) (hf : f.isEdge = false) (m : Mat Val) (hm : f.get A = some m) (hg : Proofs.Broadcast.Good m)
    (pg : PageCtx) (hpage : pg.start + pg.height ≤ d.rows.length) {i j : Nat} (hi : i < pg.height)
    (hj : j < (keptIdx d.cols.length removed).length) :
    ∃ v, Model.CellAttr.cellAttr m d.rows.length d.cols.length removed pg.start pg.height i j = some v ∧
      Model.CellAttr.specAttr m d.cols.length removed pg.start i j = some v ∧
      ilocV (f.get (pageAttrs d bodyA p pg).attrs) i j = .ok v := by
  have hspec := Props.C09.C09_binding m d.rows.length d.cols.length removed pg.start pg.height i j hg.ne hg.rect
    hg.cols hpage hi hj
  have hjc : (keptIdx d.cols.length removed)[j]? = some (keptIdx d.cols.length removed)[j] :=
    List.getElem?_eq_getElem hj
  have hb := read_binding (bodyA := bodyA) hattrs f hf (by intro m' hm'; rw [hm] at hm'; cases hm'; exact hg) pg hpage
    hi hjc
  rw [hm, ilocV_good hg] at hb
  have hsome := hg.iloc_isSome (pg.start + i) (keptIdx d.cols.length removed)[j]
  cases hv : m.iloc (pg.start + i) (keptIdx d.cols.length removed)[j] with
  | none => rw [hv] at hsome; cases hsome
  | some v =>
    rw [hv] at hb
    refine ⟨v, ?_, ?_, hb⟩
    · rw [hspec]; unfold Model.CellAttr.specAttr; rw [hjc]; exact hv
    · unfold Model.CellAttr.specAttr; rw [hjc]; exact hv

/-- **C09 for the encoder, one field, a rendered data row.**  For the data row with frame index `i` on the page the
encoder renders it on, and displayed column `j` (original column `c`): what `encodeCell` reads for field `f` is the
user's value at `(i, c)`; the right-hand matrix is the user's attribute `_to_nested_list`-normalised. -/
theorem C09enc_binding {measure : Measure} {k : ColorCtx} {d : Doc} (R : Run measure k d)
    (f : Field) (hf : f.isEdge = false) (hs : shapeOk (f.get d.body.attrs) = true)
    {pg : PageCtx} {blocks : List Block} (hr : R.Renders pg blocks) {i : Nat} (hb : Block.data i ∈ blocks)
    {j c : Nat} (hj : (keptIdx d.cols.length R.removed)[j]? = some c) :
    (f.get d.body.attrs).toNested = .ok (f.get R.A) ∧
    ilocV (f.get (pageAttrs d R.A R.p pg).attrs) (i - pg.start) j = ilocV (f.get R.A) i c := by
  have hn := get_mapM R.hA f
  obtain ⟨_, hbound, hiff⟩ := R.page_geometry hr
  obtain ⟨h1, h2⟩ := (hiff i).mp hb
  refine ⟨hn, ?_⟩
  have := read_binding (bodyA := R.A) (p := R.p) (A := R.A) (removed := R.removed) (by rw [R.p_eq]) f hf
    (toNested_goodV hn hs) pg hbound (show i - pg.start < pg.height by omega) hj
  rw [this]
  congr 1
  omega

/-- **the whole record.**  Everything `encodeCell` reads for the cell of frame row `i`, displayed column `j` is the
record of the user's ORIGINAL values at `(i, c)`, except the two edge styles `bTop` / `bBottom` (C07); hence the cell
the encoder emits is the cell `_encode` would build from the original matrices at the original position, with the
page's edge styles. -/
theorem C09enc_cell {measure : Measure} {k : ColorCtx} {d : Doc} (R : Run measure k d) (hs : bodyShapesOk d = true)
    {pg : PageCtx} {blocks : List Block} (hr : R.Renders pg blocks) {i : Nat} (hb : Block.data i ∈ blocks)
    {j c : Nat} (hj : (keptIdx d.cols.length R.removed)[j]? = some c) :
    readAt (pageAttrs d R.A R.p pg).attrs (i - pg.start) j =
      withEdges (readAt R.A i c) (ilocV (pageAttrs d R.A R.p pg).attrs.bTop (i - pg.start) j)
        (ilocV (pageAttrs d R.A R.p pg).attrs.bBottom (i - pg.start) j) ∧
    ∀ (isLast : Bool) (text : Str) (width : Option Rat),
      encodeCell k (pageAttrs d R.A R.p pg).attrs (i - pg.start) j isLast text width =
        cellOf k (withEdges (readAt R.A i c) (ilocV (pageAttrs d R.A R.p pg).attrs.bTop (i - pg.start) j)
          (ilocV (pageAttrs d R.A R.p pg).attrs.bBottom (i - pg.start) j)) isLast text width := by
  have e : readAt (pageAttrs d R.A R.p pg).attrs (i - pg.start) j =
      withEdges (readAt R.A i c) (ilocV (pageAttrs d R.A R.p pg).attrs.bTop (i - pg.start) j)
        (ilocV (pageAttrs d R.A R.p pg).attrs.bBottom (i - pg.start) j) := by
    apply ext_get
    intro f
    rw [get_withEdges, readAt_get]
    by_cases hf : f.isEdge = true
    · cases f <;> first | rfl | cases hf
    · have hf' : f.isEdge = false := by simpa using hf
      have := (C09enc_binding R f hf' (bodyShapesOk_field hs f hf') hr hb hj).2
      rw [this, ← readAt_get]
      cases f <;> first | rfl | cases hf'
  exact ⟨e, fun l t w => by rw [encodeCell_eq_cellOf, e]⟩

/-- the two row-level attributes (`cell_justification`, `cell_height`: read at column 0 of the page row) are the
user's values at the row's original index and the first DISPLAYED column's original index -/
theorem C09enc_row_attrs {measure : Measure} {k : ColorCtx} {d : Doc} (R : Run measure k d)
    (hs : bodyShapesOk d = true) {pg : PageCtx} {blocks : List Block} (hr : R.Renders pg blocks) {i : Nat}
    (hb : Block.data i ∈ blocks) {c0 : Nat} (hj : (keptIdx d.cols.length R.removed)[0]? = some c0) :
    ilocV (pageAttrs d R.A R.p pg).attrs.cellJust (i - pg.start) 0 = ilocV R.A.cellJust i c0 ∧
    ilocV (pageAttrs d R.A R.p pg).attrs.cellHeight (i - pg.start) 0 = ilocV R.A.cellHeight i c0 :=
  ⟨(C09enc_binding R .cellJust rfl (bodyShapesOk_field hs .cellJust rfl) hr hb hj).2,
   (C09enc_binding R .cellHeight rfl (bodyShapesOk_field hs .cellHeight rfl) hr hb hj).2⟩

/-- the binding does not depend on where page breaks fall: two page contexts (of any two paginations) that contain
the same table row read the same value for it -/
theorem C09enc_page_independent {d : Doc} {bodyA bodyA' A : TblAttrsOf MatV} {p : Prep} {removed : List Nat}
    (hattrs : p.attrs = processedAttrs A d.rows.length d.cols.length removed)
    (f : Field) (hf : f.isEdge = false) (hg : GoodV (f.get A)) (pg pg' : PageCtx)
    (hpage : pg.start + pg.height ≤ d.rows.length) (hpage' : pg'.start + pg'.height ≤ d.rows.length)
    {i i' j c : Nat} (hi : i < pg.height) (hi' : i' < pg'.height) (hsame : pg.start + i = pg'.start + i')
    (hj : (keptIdx d.cols.length removed)[j]? = some c) :
    ilocV (f.get (pageAttrs d bodyA p pg).attrs) i j = ilocV (f.get (pageAttrs d bodyA' p pg').attrs) i' j := by
  rw [read_binding hattrs f hf hg pg hpage hi hj, read_binding hattrs f hf hg pg' hpage' hi' hj, hsame]

/-! ## the cell the value is bound to is the cell whose text is shown -/

/-- displayed columns: `keptIdx` lists, in order, the original indices of the displayed columns (`C09_kept_idx`); there
are `ncolsDisp` of them; the `j`-th displayed column name and the `j`-th cell of every processed frame row are the
original ones at `c = keptIdx[j]`; without group_by the final frame is the processed frame -/
theorem C09enc_text_cell {measure : Measure} {k : ColorCtx} {d : Doc} (R : Run measure k d) :
    ((keptIdx d.cols.length R.removed).Pairwise (· < ·) ∧
      ∀ c, c ∈ keptIdx d.cols.length R.removed ↔ (c < d.cols.length ∧ c ∉ R.removed)) ∧
    R.p.ncolsDisp = (keptIdx d.cols.length R.removed).length ∧
    (∀ j c : Nat, (keptIdx d.cols.length R.removed)[j]? = some c → R.p.dispCols[j]? = d.cols[c]?) ∧
    (∀ (i : Nat) (row : List (Option Str)), d.rows[i]? = some row → row.length = d.cols.length →
      ∃ prow, R.p.dispRows[i]? = some prow ∧
      ∀ j c : Nat, (keptIdx d.cols.length R.removed)[j]? = some c → prow[j]? = row[c]?) ∧
    (d.body.groupByL = [] → R.rows = R.p.dispRows) := by
  refine ⟨Props.C09.C09_kept_idx _ _, ?_, ?_, ?_, ?_⟩
  · rw [R.p_eq]; exact nDisplayed_keepMask _ _
  · intro j c hj
    rw [R.p_eq]
    exact Proofs.BroadcastAttr.dropCols_getElem? d.cols R.removed j c hj
  · intro i row hrow hlen
    refine ⟨dropCols row R.removed, ?_, ?_⟩
    · rw [R.p_eq]; simp [List.getElem?_map, hrow]
    · intro j c hj
      exact Proofs.BroadcastAttr.dropCols_getElem? row R.removed j c (by rw [hlen]; exact hj)
  · intro hg
    have := R.hrows
    unfold finalRows at this
    simp only [hg, List.isEmpty_nil, if_true] at this
    exact (Except.ok.inj this).symm

/-- a user attribute of an admissible shape is a matrix on which `iloc` never fails -/
theorem C09enc_shape (a : Attr) (M : MatV) (h : a.toNested = .ok M) (hs : shapeOk a = true) : GoodV M :=
  toNested_goodV h hs

/-! ## every form in which a component holds an attribute value

The constructors accept one value in many spellings; after construction a table component (`TableAttributes`) holds
  * a nested list for a Python scalar / list / tuple / nested list, a 2-D array and a data frame (`Attr.nested`), and
  * a FLAT list for a 1-D array-like — numpy 1-D array, polars / pandas Series, numpy 0-d array, numpy integer / bool
    scalar (`_to_nested_list` converts array-likes with `.tolist()` after its list / tuple branch) — `Attr.list`;
a text component additionally holds tuples (`Attr.tuple`) and bare scalars (`Attr.scalar`).  `C09enc_binding` reads
every attribute through `Attr.toNested` (the `BroadcastValue` validator, run on every use); the theorem below says what
that reading is for each held form, at every row and column: a flat list is ONE ROW — a per-column vector, never
indexed by the row —, a tuple one value per row, a scalar every cell, a nested list `Mat.iloc` cell by cell. -/
theorem C09enc_held_forms :
    (∀ (xs : List Val), xs.any Val.isScalar = true →
      (Attr.list xs).toNested = .ok (some [xs]) ∧
      ∀ (r c : Nat) (h : c < xs.length), ilocV (some [xs]) r c = .ok xs[c]) ∧
    (∀ (xs : List Val),
      (Attr.tuple xs).toNested = .ok (some (xs.map fun x => [x])) ∧
      ∀ (r c : Nat) (h : r < xs.length), ilocV (some (xs.map fun x => [x])) r c = .ok xs[r]) ∧
    (∀ (v : Val), v.isScalar = true →
      (Attr.scalar v).toNested = .ok (some [[v]]) ∧ ∀ r c : Nat, ilocV (some [[v]]) r c = .ok v) ∧
    (∀ (m : Mat Val), (Attr.nested m).toNested = .ok (some m)) := by
  refine ⟨?_, ?_, ?_, ?_⟩
  · intro xs hs
    refine ⟨by simp [Attr.toNested, hs], ?_⟩
    intro r c h
    have h0 : xs.length ≠ 0 := by omega
    simp [ilocV, Mat.iloc, Mat.ncols, h0, Nat.mod_one, Nat.mod_eq_of_lt h, List.getElem?_eq_getElem h]
  · intro xs
    refine ⟨rfl, ?_⟩
    intro r c h
    have h0 : xs.length ≠ 0 := by omega
    have hn : Mat.ncols (xs.map fun x => [x]) = 1 := by
      cases xs with
      | nil => simp at h
      | cons x t => simp [Mat.ncols]
    simp [ilocV, Mat.iloc, hn, h0, Nat.mod_one, Nat.mod_eq_of_lt h, List.getElem?_map, List.getElem?_eq_getElem h]
  · intro v hv
    refine ⟨by simp [Attr.toNested, hv], ?_⟩
    intro r c
    simp [ilocV, Mat.iloc, Mat.ncols, Nat.mod_one]
  · intro m
    rfl

/-- non-vacuity of `C09enc_held_forms`: `text_justification = numpy.array(["l", "c", "r"])` is held as the flat list
`["l", "c", "r"]`; row 1, column 2 reads `"r"` (its column's entry), not `"c"` (the entry with the row's index) -/
example : (Attr.list [.str "l", .str "c", .str "r"]).toNested = .ok (some [[.str "l", .str "c", .str "r"]]) ∧
    ilocV (some [[.str "l", .str "c", .str "r"]]) 1 2 = .ok (.str "r") := by decide

/-! ## non-vacuity -/

open Props.C01enc in
/-- three columns `g, a, b`, four rows; `page_by = ["g"]` with `new_page` (column `g` is removed and shown as a spanning
row, one page per group: rows 0–1 on page 1, rows 2–3 on page 2); `col_rel_width = [1, 2, 3]`; a 4 × 3 `text_format`
matrix; column header from the column names with the inherited widths `[1, 2, 3]` (as `_inherit_header_widths` leaves
them), title, footnote as table, source paragraph -/
def exPB : Doc :=
  { exDoc [1, 2, 3] with
    cols := ["g".toList, "a".toList, "b".toList],
    rows := [[some "G1".toList, some "x".toList, some "1".toList], [some "G1".toList, some "y".toList, some "2".toList],
             [some "G2".toList, some "z".toList, some "3".toList], [some "G2".toList, some "w".toList, some "4".toList]],
    headers := [some { text := none, colRelWidth := some [1, 2, 3], attrs := exTbl }],
    body :=
      { attrs := { exTbl with format := .nested [[.str "", .str "b", .str "i"], [.str "", .str "", .str "b"],
                                                [.str "", .str "i", .str ""], [.str "", .str "bi", .str ""]] },
        colRelWidth := some [1, 2, 3], asColheader := true, groupBy := none, pageBy := some ["g".toList],
        sublineBy := none, newPage := true, pagebyHeader := true, pagebyColumn := false } }

set_option maxRecDepth 100000

/-- the hypotheses are satisfiable: the example has admissible shapes, lies in C01's domain and is accepted … -/
example : bodyShapesOk exPB = true ∧ Model.EncodeDomain.InDomain exPB ∧
    (match encode Props.C01enc.exMeasure exPB with
     | .ok _ => true
     | .error _ => false) = true := by decide +kernel

/-- … so it has a run to which the theorems apply -/
example : ∃ _ : Run Props.C01enc.exMeasure (mkColorCtx exPB) exPB, True := by
  cases h : encode Props.C01enc.exMeasure exPB with
  | ok g => obtain ⟨R, _⟩ := C09enc_run _ _ g h; exact ⟨R, trivial⟩
  | error e =>
    have : (match encode Props.C01enc.exMeasure exPB with
     | .ok _ => true
     | .error _ => false) = true := by decide +kernel
    rw [h] at this; cases this

/-- direct evaluation, independently of the theorems: on page 2 (`start = 2`, two rows) the second page row, first
displayed column (original column 1 = `a`, since `g` is removed) reads `"bi"` — the user's value at (3, 1) — and the
second displayed column reads `""` — the user's value at (3, 2); the pages are the ones the layout computes -/
example : (match prepare exPB, exPB.body.attrs.mapM Attr.toNested with
    | .ok p, .ok A =>
      decide (keptIdx exPB.cols.length p.removed = [1, 2]) &&
      decide (ilocV (pageAttrs exPB A p ⟨2, 2, 2, 2, 2⟩).attrs.format 1 0 = .ok (.str "bi")) &&
      decide (ilocV A.format 3 1 = .ok (.str "bi")) &&
      decide (ilocV (pageAttrs exPB A p ⟨2, 2, 2, 2, 2⟩).attrs.format 1 1 = ilocV A.format 3 2) &&
      (match mkLDoc Props.C01enc.exMeasure exPB p with
       | .ok (ld, _) => decide (ld.pages.map (fun pg => (pg.number, pg.total, pg.start, pg.height, pg.dataStart)) =
           [(1, 2, 0, 2, 0), (2, 2, 2, 2, 2)])
       | .error _ => false)
    | _, _ => false) = true := by decide +kernel

end Props.C09enc
