import Model.Escape
import Model.Emit
import Model.EscNodes
import Proofs.EscNodes
/-!
# C01 / C10 bridge — the escaper's output satisfies the emitter theorems' side conditions

`escNodes t` is the escaper's output for the code points `t` as syntax nodes.  It prints to exactly the bytes
`Model.Escape.escape t` (the model that C10 ties to the real `_escape_non_ascii`), it is a valid text hole
(`textOk`) and has the escaper's `\u` form (`uForm`) — for every text of Unicode scalar values without raw
`\ { }` and line ends.  Hence `C01e_rows_doc_wellformed` applies to rows whose cell bodies are escaped texts.
-/
namespace Props.C01esc
open Model.Rtf Model.Emit Model.Escape Model.EscNodes

set_option linter.unusedVariables false in
/-- the node form prints to the escaper's bytes (holds for every code-point list; `hs` is not needed) -/
theorem C01x_print_escape (t : List Nat) (hs : ∀ n ∈ t, isScalar n = true) :
    (printNodes (escNodes t)).map Char.toNat = escape t :=
  Proofs.EscNodes.print_escNodes t

set_option linter.unusedVariables false in
/-- an escaped text is a valid text hole of the emitters (`hs` is not needed, `hp` is) -/
theorem C01x_text_ok (t : List Nat) (hs : ∀ n ∈ t, isScalar n = true) (hp : ∀ n ∈ t, plainCp n = true) :
    textOk (escNodes t) = true := by
  simp only [textOk, Proofs.EscNodes.plain_escNodes t, Proofs.EscNodes.nodesOk_escNodes t hp, Bool.and_self]

/-- and has the `\uc1\uN*` form the `\u` discipline theorem needs -/
theorem C01x_u_form (t : List Nat) (hs : ∀ n ∈ t, isScalar n = true) :
    uForm (escNodes t) = true :=
  Proofs.EscNodes.uForm_escNodes t hs

/-- non-vacuity: "é😀 x" -/
example : (printNodes (escNodes [233, 128512, 32, 120])).map Char.toNat = escape [233, 128512, 32, 120] ∧
    textOk (escNodes [233, 128512, 32, 120]) = true ∧ uForm (escNodes [233, 128512, 32, 120]) = true := by decide

end Props.C01esc
