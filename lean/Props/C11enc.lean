import Model.Encode
import Model.Convert
import Model.ConvertSpec
import Proofs.EncodeLift
import Proofs.EncodeAttrs
import Proofs.EncodeText
import Proofs.ConvNodes
import Proofs.EncodeSegments
import Props.C11
import Props.C10enc
/-!
# C11 for the whole-encoder model: text conversion translates exactly the documented tokens, per position

`Props/C11.lean` proves the property about `Model.Convert` (the conversion up to the escaper, and the route of the
`text_convert` flag for values made of booleans).  Here it is stated about the ENCODER model `Model.Encode.encode`.

* Every text hole the encoder writes is `textNodes (convText conv t)` (`Props/C10enc.lean`, one theorem per position
  kind, each with the place `FlagAt M r c conv` where the flag is read).  `convText conv t` IS
  `TextContent(text=t, convert=conv)._convert_special_chars()` of `Props/C11.lean` with the escaper of C10
  (`C11enc_hole_is_convertSpecial`).
* Conversion off: the hole is the escaped text itself (`C11enc_conversion_off`); conversion on and a `regular` text: the
  hole is the escaped rendering of the ONE-PASS reading `spec t` — exactly the documented tokens are translated,
  everything else stays (`C11enc_conversion_on`; natural rendering when no `>=`/`<=` occurs: `C11enc_conversion_exact`;
  D15 at the hole level: `C11enc_witness_D15`); a listed command alone becomes its character
  (`C11enc_supported_command`).
* The flag (`C11enc_per_position`): `FlagAt M r c conv` is `BroadcastValue(value=text_convert).iloc(r, c)` through the
  `bool` field; for values made of booleans it is `Model.Convert.flagAt` of `Props/C11.lean` (`C11enc_flag_bridge`), so
  `C11_per_position` / `C11_defaults` apply verbatim (`C11enc_defaults`).  Positions: data cell → the body's value at
  the cell's ORIGINAL (row, column) (`C11enc_data_flag_binding`: page slicing and column removal do not re-bind flags);
  header cell `j` → `(0, j)` of the header's; line `i` of title / subline / page header / footer → `(i, 0)`;
  footnote / source → `(0, 0)`; spanning heading → the body's at `(0, page_by column)` or the default `False`
  (`C11enc_heading_default`); subline_by heading → never converted.
* Segments (`C11enc_segment_offset`, `C11enc_segment_cell_flag`): a page that shows several page_by groups is encoded
  by the renderer segment by segment, `_encode(segment, …, row_offset = rows of the page above the segment)`.  In the
  model `encodeRows … off` is that call; encoding `above ++ seg` at once (what `renderBlock` does, data row `i` at
  page-relative row `i - dataStart`) equals encoding `above` and then `seg` with offset `|above|`, and cell `j` of row
  `i` of the segment reads its flag at attribute row `|above| + i` — the row's OWN page-relative row, not the row at
  the same offset from the top of the page.  With `C11enc_data_flag_binding` this is the flag the user gave for the
  cell's original (row, column) (`Props/C02encflag.lean`: `C02encflag_cell_own_flag`).
-/
namespace Props.C11enc
open Model.Rtf Model.Emit Model.Encode Model.Broadcast Model.Layout Model.Convert
open Proofs.EncodeLift Proofs.EncodeAttrs Proofs.EncodeText Proofs.ConvNodes

/-! ## the hole is `_convert_special_chars` -/

/-- `convText` is `convertSpecial` of `Props/C11.lean` with C10's escaper (`escStr` = `escape` on characters) -/
theorem C11enc_hole_is_convertSpecial (conv : Bool) (t : List Char) :
    convText conv t = convertSpecial escStr conv t := rfl

/-- with conversion off the text reaches the escaper unchanged: the hole is the escaped text -/
theorem C11enc_conversion_off (t : List Char) : textNodes (convText false t) = textNodes (escStr t) := rfl

/-- with conversion on, a `regular` text reaches the escaper as the rendering of its one-pass reading: every documented
token (`^ _ >= <=`, newline, `\pagenumber \totalpage \pagefield`, a listed LaTeX command with its brace group) is
replaced, unknown commands stay verbatim, all other characters are unchanged and in order (a blank follows `≥`/`≤`,
D15) -/
theorem C11enc_conversion_on (t : List Char) (h : regular t = true) :
    textNodes (convText true t) = textNodes (escStr (renderD15 (spec t))) := by
  rw [convText_true, Props.C11.C11_conversion_upto_D15 t h]

/-- … and without comparison tokens it is the natural rendering -/
theorem C11enc_conversion_exact (t : List Char) (h : regular t = true) (hc : noCmp (spec t) = true) :
    textNodes (convText true t) = textNodes (escStr (render (spec t))) := by
  rw [convText_true, Props.C11.C11_conversion_partial t h hc]

/-- D15 at the level of the hole: for `a>=b` the encoder writes `a≥ b` (escaped), not the natural rendering `a≥b` -/
theorem C11enc_witness_D15 :
    convText true ['a', '>', '=', 'b'] = escStr ['a', chGe, ' ', 'b'] ∧
    convText true ['a', '>', '=', 'b'] ≠ escStr (render (spec ['a', '>', '=', 'b'])) := by
  decide +kernel

/-- every listed command the documented syntax can name, alone in a text position with conversion on, is written as
exactly its listed character -/
theorem C11enc_supported_command (k : List Char) (cp : Nat) (hm : (k, cp) ∈ latexTable) (hn : nameable k = true) :
    textNodes (convText true k) = textNodes (escStr [Char.ofNat cp]) := by
  rw [convText_true, (Props.C11.C11_supported_commands k cp hm hn).1]

/-- one statement for both values of the flag: what a position with flag `conv` writes for the user's text `t` -/
theorem C11enc_per_position (M : MatV) (r c : Nat) (conv : Bool) (_h : FlagAt M r c conv) (t : List Char) :
    textNodes (convText conv t) = textNodes (if conv then escStr (convertCore true t) else escStr t) := by
  cases conv <;> rfl

/-! ## the route of the flag -/

/-- a `text_convert` value made of booleans, as the component's `__dict__` holds it -/
def ofFlagVal : FlagVal → Attr
  | .flat xs => .list (xs.map Val.bool)
  | .tuple xs => .tuple (xs.map Val.bool)
  | .nested m => .nested (m.map fun row => row.map Val.bool)

theorem iloc_bridge (m : List (List Bool)) (r c : Nat) (b : Bool) :
    FlagAt (some (m.map fun row => row.map Val.bool)) r c b ↔ Model.Convert.iloc m r c = some b := by
  unfold FlagAt ilocV Model.Convert.iloc Mat.iloc
  cases m with
  | nil => simp
  | cons row0 rest =>
    simp only [List.map_cons, List.length_cons, Mat.ncols, List.head?_cons, Option.map_some, Option.getD_some,
      List.length_map, Nat.succ_ne_zero, decide_false, Bool.false_or, decide_eq_true_eq, if_false]
    by_cases h0 : row0.length = 0
    · simp [h0]
    · simp only [h0, if_false]
      have hlen : ((row0.map Val.bool) :: rest.map fun row => row.map Val.bool).length = (row0 :: rest).length := by
        simp
      have hget : ((row0.map Val.bool) :: rest.map fun row => row.map Val.bool)[r % (rest.length + 1)]? =
          ((row0 :: rest)[r % (rest.length + 1)]?).map fun row => row.map Val.bool := by
        show ((row0 :: rest).map fun (row : List Bool) => row.map Val.bool)[r % (rest.length + 1)]? = _
        rw [List.getElem?_map]
      rw [hget]
      cases hr : (row0 :: rest)[r % (rest.length + 1)]? with
      | none => simp
      | some row =>
        simp only [Option.map_some, List.getElem?_map]
        cases hc : row[c % row0.length]? with
        | none => simp
        | some x =>
          simp only [Option.map_some]
          constructor
          · rintro ⟨v, hv, hb⟩
            cases hv
            simp only [Val.toBool, Except.ok.injEq] at hb
            rw [hb]
          · intro hb
            cases hb
            exact ⟨_, rfl, rfl⟩

/-- **the flag of the encoder is C11's flag.**  For a `text_convert` value made of booleans (a flat list, a tuple, a
nested list), what the encoder's position `(r, c)` receives is `Model.Convert.flagAt v r c`. -/
theorem C11enc_flag_bridge (v : FlagVal) (M : MatV) (hM : (ofFlagVal v).toNested = .ok M) (r c : Nat) (b : Bool) :
    FlagAt M r c b ↔ flagAt v r c = some b := by
  unfold flagAt
  cases v with
  | flat xs =>
    simp only [ofFlagVal, Attr.toNested] at hM
    cases xs with
    | nil =>
      simp only [List.map_nil, List.any_nil, Bool.false_eq_true, if_false, List.isEmpty_nil, if_true,
        Except.ok.injEq] at hM
      subst hM
      simp [FlagAt, ilocV, toNested, Model.Convert.iloc]
    | cons x xs =>
      simp only [List.map_cons, List.any_cons, Val.isScalar, Bool.true_or, if_true, Except.ok.injEq] at hM
      subst hM
      exact iloc_bridge [x :: xs] r c b
  | tuple xs =>
    simp only [ofFlagVal, Attr.toNested, Except.ok.injEq] at hM
    subst hM
    have : (xs.map Val.bool).map (fun x => [x]) = (xs.map fun x => [x]).map fun row => row.map Val.bool := by
      simp [List.map_map]
    rw [this]
    exact iloc_bridge _ r c b
  | nested m =>
    simp only [ofFlagVal, Attr.toNested, Except.ok.injEq] at hM
    subst hM
    exact iloc_bridge m r c b

/-- `C11_per_position` for the encoder: with a `text_convert` value made of booleans, the hole written at a position
whose flag is read at `(r, c)` is `positionText` of `Props/C11.lean` -/
theorem C11enc_positionText (v : FlagVal) (M : MatV) (hM : (ofFlagVal v).toNested = .ok M) (r c : Nat) (conv : Bool)
    (h : FlagAt M r c conv) (t : List Char) :
    positionText escStr v r c t = some (convText conv t) := by
  have := (C11enc_flag_bridge v M hM r c conv).mp h
  rw [Props.C11.C11_per_position escStr v r c t conv this]
  cases conv <;> rfl

/-- constructor defaults: a default-constructed component holds `defaultFlag comp` (generated from the source tree);
at EVERY position the encoder reads the documented default from it — on for title, column header, body, footnote,
source; off for subline, page header, page footer -/
theorem C11enc_defaults (comp : Model.Convert.Comp) (M : MatV) (hM : (ofFlagVal (defaultFlag comp)).toNested = .ok M) (r c : Nat) :
    generatedDefault comp = some (defaultFlag comp) ∧ FlagAt M r c (documentedDefault comp) := by
  obtain ⟨h1, h2⟩ := Props.C11.C11_defaults comp r c
  exact ⟨h1, (C11enc_flag_bridge _ M hM r c _).mpr h2⟩

/-- the spanning group heading uses `False` when the body holds no `text_convert` (the default of
`encode_spanning_row`), whatever the body's constructor default is -/
theorem C11enc_heading_default (k : ColorCtx) (d : Doc) (bodyA : TblAttrsOf MatV) (level : Nat) (text : String)
    (e : Elem) (h : spanningRow k d bodyA level text = .ok e) (hnone : bodyA.convert = none) :
    ∃ fmt cf, e = rowElem fmt ∧ fmt.cells = [cf] ∧ cf.body = textNodes (escStr text.toList) := by
  obtain ⟨fmt, cf, conv, h1, h2, h3, h4⟩ := spanningRow_hole h
  rcases h4 with ⟨_, rfl⟩ | ⟨hne, _⟩
  · exact ⟨fmt, cf, h1, h2, h3⟩
  · exact absurd hnone hne

/-- **data cells: the flag follows the cell.**  For a page of the encoder, a data row `i` on it and displayed column `j`
(original column `c`): the flag the cell receives (read on the page's attributes at the page-relative position) is the
body's `text_convert` — `_to_nested_list`-normalised — at the cell's ORIGINAL position `(i, c)` under rtflite's
broadcasting rule.  Column removal (page_by / subline_by) and page slicing do not re-bind a flag to another cell. -/
theorem C11enc_data_flag_binding (measure : Measure) (d : Doc) (pl : Plan) (hp : plan measure d = .ok pl)
    (hs : shapeOk d.body.attrs.convert = true)
    (x : PageCtx × List Block) (hx : x ∈ pl.pageBlocks) (i : Nat) (hi : x.1.start ≤ i ∧ i < x.1.start + x.1.height)
    (j c : Nat) (hj : (keptIdx d.cols.length pl.p.removed)[j]? = some c) (conv : Bool) :
    d.body.attrs.convert.toNested = .ok pl.bodyA.convert ∧
    (FlagAt (pageAttrs d pl.bodyA pl.p x.1).attrs.convert (i - x.1.dataStart) j conv ↔
      FlagAt pl.bodyA.convert i c conv) := by
  obtain ⟨hprep, hA, _, _⟩ := plan_ok hp
  obtain ⟨removed, hrem, hpr, _⟩ := prepare_parts hprep
  have hpe := prepare_eq hprep hA hrem
  have hn := get_mapM hA Field.convert
  have hne : pl.ld.rows ≠ [] := by
    intro h0
    have hpg := (pageBlocks_mem hx).1
    rw [Proofs.Layout.pages_of_no_rows pl.ld h0] at hpg
    simp only [List.mem_singleton] at hpg
    rw [hpg] at hi
    simp at hi
  obtain ⟨_, hds, hb, _⟩ := page_bounds hne hx
  rw [(plan_rows_length hp).2] at hb
  refine ⟨hn, ?_⟩
  have hattrs : pl.p.attrs = processedAttrs pl.bodyA d.rows.length d.cols.length removed := by rw [hpe]
  rw [hpr] at hj
  have := read_binding (bodyA := pl.bodyA) hattrs Field.convert rfl (toNested_goodV hn hs) x.1 hb
    (show i - x.1.start < x.1.height by omega) hj
  have hidx : x.1.start + (i - x.1.start) = i := by omega
  rw [hidx] at this
  unfold FlagAt
  rw [hds]
  show (∃ v, ilocV (Field.convert.get (pageAttrs d pl.bodyA pl.p x.1).attrs) (i - x.1.start) j = .ok v ∧ _) ↔
    (∃ v, ilocV (Field.convert.get pl.bodyA) i c = .ok v ∧ _)
  rw [this]

/-! ## segments of a page: `_encode(segment, col_widths, row_offset)` -/

/-- **the segment offset.**  Encoding the rows `xs ++ ys` with offset `off` is encoding `xs` with `off` and then `ys`
with `off + |xs|`: the `row_offset` the renderer hands to every segment of a page (the number of page rows above it)
is exactly what makes segment-by-segment encoding equal to the encoding of the whole page. -/
theorem C11enc_segment_offset (k : ColorCtx) (A : TblAttrsOf MatV) (cw : List Rat) (off : Nat)
    (xs ys : List (List (Option Model.Encode.Str))) :
    encodeRows k A cw off (xs ++ ys) =
      (do let a ← encodeRows k A cw off xs
          let b ← encodeRows k A cw (off + xs.length) ys
          pure (a ++ b)) :=
  Proofs.EncodeSegments.encodeRows_append k A cw off xs ys

/-- **a cell of a later segment is converted under its own row's flag.**  The page holds the rows `above ++ seg`; the
segment `seg` is encoded with `row_offset = |above|`.  Row `i` of the segment is row `|above| + i` of the page, and cell
`j` of it is written as `textNodes (convText conv text)` with `conv` read at attribute position `(|above| + i, j)` —
whatever the flags of the rows `0 … ` at the top of the page are. -/
theorem C11enc_segment_cell_flag (k : ColorCtx) (A : TblAttrsOf MatV) (cw : List Rat)
    (above seg : List (List (Option Model.Encode.Str))) (es : List Elem)
    (h : encodeRows k A cw above.length seg = .ok es) (i : Nat) (cells : List (Option Model.Encode.Str))
    (hc : seg[i]? = some cells) :
    (above ++ seg)[above.length + i]? = some cells ∧
    ∃ fmt : RowFmt, es[i]? = some (rowElem fmt) ∧ fmt.cells.length = cells.length ∧
      ∀ j c, cells[j]? = some c → ∃ cf conv, fmt.cells[j]? = some cf ∧ FlagAt A.convert (above.length + i) j conv ∧
        cf.body = textNodes (convText conv (c.getD [])) := by
  refine ⟨?_, Proofs.EncodeSegments.encodeRows_holes h i cells hc⟩
  rw [List.getElem?_append_right (Nat.le_add_right _ _), Nat.add_sub_cancel_left]
  exact hc

/-! ## non-vacuity -/

set_option maxRecDepth 100000

open Props.C01enc in
/-- two page_by groups on one page (`g` is shown as spanning rows, so the page is encoded in two segments), a ROW-WISE
`text_convert`: on for row 0, off for the `code` cell of row 1 -/
def exRowwise : Doc :=
  { exDoc [1, 2, 3] with
    cols := ["g".toList, "code".toList, "label".toList],
    rows := [[some "G1".toList, some "x^2".toList, some "a".toList],
             [some "G2".toList, some "y^2".toList, some "b_1".toList]],
    title := none, footnote := none, source := none, headers := [],
    body := { attrs := { exTbl with convert := .nested [[.bool true, .bool true, .bool true],
                                                        [.bool true, .bool false, .bool true]] },
              colRelWidth := some [1, 2, 3], asColheader := true, groupBy := none, pageBy := some ["g".toList],
              sublineBy := none, newPage := false, pagebyHeader := true, pagebyColumn := true } }

open Props.C01enc in
/-- the encoder accepts the document; the `code` cell of the first group is converted (`x\super 2`), the `code` cell of
the SECOND group — first row of its segment — stands verbatim (`y^2`: its own flag, not the flag of the page's first
row), its `label` cell is converted (`b\sub 1`) -/
example :
    shapeOk exRowwise.body.attrs.convert = true ∧
    (match encodeText exMeasure exRowwise with
     | .ok s => hasInfix " x\\super 2}".toList s && hasInfix " y^2}".toList s && hasInfix " b\\sub 1}".toList s &&
                hasInfix " G1}".toList s && hasInfix " G2}".toList s
     | .error _ => false) = true := by
  refine ⟨by decide, by decide +kernel⟩

/-- a `text_convert` that differs per column: `[[True, False]]` -/
def convPerColumn : TblAttrsOf Attr :=
  { Props.C01enc.exTbl with convert := .nested [[.bool true, .bool false]] }

open Props.C01enc in
/-- one row `a>=b | a>=b`, conversion on for the first column and off for the second -/
def exPerColumn : Doc :=
  { exTiny [1, 2] with
    rows := [[some "a>=b".toList, some "a>=b é".toList]],
    body := { (exTiny [1, 2]).body with attrs := convPerColumn } }

open Props.C01enc in
/-- the encoder accepts the document; in the string it returns the first cell is converted (`a≥ b`, escaped), the
second is not (`a>=b`, its `é` escaped); the bridge and the binding hypotheses hold (booleans, a well-shaped value) -/
example :
    (match encodeText exMeasure exPerColumn with
     | .ok s => hasInfix " a\\uc1\\u8805* b}".toList s && hasInfix " a>=b \\uc1\\u233*}".toList s
     | .error _ => false) = true ∧
    exPerColumn.body.attrs.convert = ofFlagVal (.nested [[true, false]]) ∧
    shapeOk exPerColumn.body.attrs.convert = true ∧
    flagAt (.nested [[true, false]]) 0 0 = some true ∧ flagAt (.nested [[true, false]]) 0 1 = some false ∧
    regular "a>=b".toList = true := by
  refine ⟨by decide +kernel, rfl, by decide, by decide, by decide, by decide +kernel⟩

end Props.C11enc
