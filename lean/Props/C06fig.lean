import Model.EncodeFigure
import Model.Figure
import Proofs.EncodeFigureLift
import Proofs.Figure
import Props.C16enc
/-!
# C06 for figure documents: one page per FIGURE, whatever the shape of `fig_width` / `fig_height`

C06's quantifier names "figure documents with 1..n figures".  `RTFFigure` takes the sizes as "single value or list"; the
page loop of `_encode_figure_only` resolves the size of figure `j` with `_get_dimension` (`Model.Figure.getDim`:
positional, the LAST value reused for the figures beyond the list).  The statement's pages, and its `first` / `last`,
are therefore those of the FIGURE list; the length of a size list must enter nowhere.  For the encoder model
`Model.EncodeFigure.encodeWithF` (byte-exact against `rtf_encode()`; `harness/props/c06.py: run_figure_docs` ties the
role sequences per page for sizes given as scalar / one entry / fewer, as many, more entries than figures, list or tuple):

* `C06fig_dims_total`     a non-empty size list answers EVERY position: the entry at the position, the last entry beyond
                          the list — a list shorter than the figure list is no refusal and ends no loop;
* `C06fig_page`           an accepted document has `figs.length` pages and page `j` is, in this order, title slot, subline,
                          picture, `\par`, footnote, source — each exactly when its placement selects page `j` of
                          `figs.length` (`first` ↔ `j = 0`, `last` ↔ `j + 1 = figs.length`), a page break between
                          consecutive pages and none after the last;
* `C06fig_roles_independent_of_sizes`   the roles of page `j` are a function of the placements, the components present
                          and the figure count alone: two documents that differ in `fig_width` / `fig_height` only (any
                          lengths) have the same roles on every page;
* `C06fig_single_page`    with one figure the three placements coincide.
-/
namespace Props.C06fig
open Model.Rtf Model.Emit Model.Encode Model.EncodeFigure
open Model.Figure (Pict Piece Cfg figureLoop pageBody getDim splitPages)
open Proofs.EncodeFigureLift

/-- the pieces C06 prescribes for page `j` of `N` of a figure document, in order -/
def prescribed (d : FDoc) (N j : Nat) (p : Pict) : List Piece :=
  (if d.page.pageTitle.shows (j == 0) (j + 1 == N) then [.title] else []) ++
  (if d.subline.isSome && d.page.pageTitle.shows (j == 0) (j + 1 == N) then [.subline] else []) ++
  [.pict p, .par] ++
  (if d.footnote.isSome && d.page.pageFootnote.shows (j == 0) (j + 1 == N) then [.footnote] else []) ++
  (if d.source.isSome && d.page.pageSource.shows (j == 0) (j + 1 == N) then [.source] else [])

/-- the role of a piece (the picture without its content) -/
def role : Piece → Nat
  | .title => 0 | .subline => 1 | .pict _ => 2 | .par => 3 | .footnote => 4 | .source => 5 | .pageBreak => 6

theorem pageBody_eq_prescribed (d : FDoc) (N j : Nat) (p : Pict) : pageBody (cfgOf d) N j p = prescribed d N j p := by
  simp only [pageBody, prescribed, cfgOf, shows_figPl, Bool.true_and]

/-- a non-empty size list answers every position — the entry at the position, beyond the list its last entry -/
theorem C06fig_dims_total (dims : List Rat) (hne : dims ≠ []) (j : Nat) :
    ∃ v, getDim dims j = some v ∧ (∀ h : j < dims.length, v = dims[j]) ∧ (dims.length ≤ j → v = dims.getLast hne) := by
  by_cases hj : j < dims.length
  · refine ⟨dims[j], Props.C16.C16_dim_positional dims j hj, fun _ => rfl, fun h => absurd hj (Nat.not_lt.mpr h)⟩
  · refine ⟨dims.getLast hne, Props.C16.C16_dim_last_reused dims j (Nat.le_of_not_lt hj) hne, fun h => absurd h hj,
      fun _ => rfl⟩

/-- **C06 on figure documents.**  Every accepted figure document — whatever the lengths of its size lists — has as many
pages as FIGURES, one page break fewer, and page `j` carries exactly the prescribed pieces in the prescribed order, the
placements evaluated against the figure count -/
theorem C06fig_page (d : FDoc) (g : DocG) (n : Nat) (h : encodeWithF d = .ok (some g, n)) :
    ∃ picts, PictsOf d picts ∧
      g.blocks = (figureLoop (cfgOf d) picts).flatMap (renderPiece d) ++ [BlockG.plain [Node.nl, Node.nl]] ∧
      (splitPages (figureLoop (cfgOf d) picts)).length = d.figs.length ∧
      (figureLoop (cfgOf d) picts).count Piece.pageBreak + 1 = d.figs.length ∧
      ∀ j, j < d.figs.length → ∃ p, picts[j]? = some p ∧
        (splitPages (figureLoop (cfgOf d) picts))[j]? = some (prescribed d d.figs.length j p) := by
  obtain ⟨hne, picts, hP, hb⟩ := Props.C16enc.C16enc_structure d g n h
  refine ⟨picts, hP, hb, Props.C16enc.C16enc_page_count d picts hP hne, Props.C16enc.C16enc_breaks d picts hP hne, ?_⟩
  intro j hj
  have hj' : j < picts.length := by rw [hP.length]; exact hj
  refine ⟨picts[j], List.getElem?_eq_getElem hj', ?_⟩
  rw [Props.C16enc.C16enc_page_j d picts hP j picts[j] (List.getElem?_eq_getElem hj'), pageBody_eq_prescribed]

/-- the roles of a page do not depend on the sizes: documents that differ in `fig_width` / `fig_height` only — lists of
any lengths — prescribe the same roles for page `j` of `N` -/
theorem C06fig_roles_independent_of_sizes (d : FDoc) (ws hs : List Rat) (N j : Nat) (p p' : Pict) :
    (prescribed { d with widths := ws, heights := hs } N j p').map role = (prescribed d N j p).map role := by
  simp only [prescribed, List.map_append, List.map_cons, List.map_nil, role]

/-- one figure: `first`, `last` and `all` select the only page alike -/
theorem C06fig_single_page (d : FDoc) (pt pf ps : Model.Layout.Placement) (p : Pict) :
    prescribed { d with page := { d.page with pageTitle := pt, pageFootnote := pf, pageSource := ps } } 1 0 p =
      prescribed { d with page := { d.page with pageTitle := .all, pageFootnote := .all, pageSource := .all } } 1 0 p := by
  cases pt <;> cases pf <;> cases ps <;> rfl

/-! ## non-vacuity: THREE figures, `fig_width = [4, 5]` (shorter than the figure list), `fig_height = [3]`; title on
every page, footnote on the last -/

def exShort : FDoc :=
  { Props.C16enc.exFigDoc with
    figs := Props.C16enc.exFigDoc.figs ++ [{ suffix := ".png".toList, bytes := Props.C16.exPng }],
    widths := [4, 5], heights := [3] }

set_option maxRecDepth 100000

/-- the encoder accepts the example; three pictures at widths 4, 5, 5 (the last value reused) -/
example :
    (match encodeWithF exShort with
     | .ok (some g, _) =>
       (g.blocks.filterMap fun b => match b with
          | BlockG.plain [_, Node.grp (_ :: Node.cw _ none false :: Node.cw _ (some _) _ :: Node.cw _ (some _) _ ::
              Node.cw _ (some wg) _ :: Node.cw _ (some hg) _ :: _)] => some (wg, hg)
          | _ => none) == [(5760, 4320), (7200, 4320), (7200, 4320)]
     | _ => false) = true := by
  decide +kernel

/-- `C06fig_page` applied to it: three pages; title on each, the footnote on the third only -/
example : ∀ g n, encodeWithF exShort = .ok (some g, n) → ∃ picts : List Pict,
    (splitPages (figureLoop (cfgOf exShort) picts)).length = 3 ∧
    ∀ j, j < 3 → ∃ p, (splitPages (figureLoop (cfgOf exShort) picts))[j]? = some (prescribed exShort 3 j p) ∧
      (prescribed exShort 3 j p).map role = if j = 2 then [0, 2, 3, 4] else [0, 2, 3] := by
  intro g n h
  obtain ⟨picts, _, _, hlen, _, hpg⟩ := C06fig_page exShort g n h
  refine ⟨picts, hlen, ?_⟩
  intro j hj
  obtain ⟨p, _, hp⟩ := hpg j hj
  refine ⟨p, hp, ?_⟩
  match j, hj with
  | 0, _ => rfl
  | 1, _ => rfl
  | 2, _ => rfl

end Props.C06fig
