import Generated.PyTextFormatting
import Proofs.PyStr
import Proofs.Emit
import Model.Emit
import Model.Encode
/-!
# C01 — translator tie for the text-formatting emitter

`Generated.Py.TextFormatting.run` is regenerated on every run from the source of `TextContent._get_text_formatting`
(`row.py`).  The function returns `\fsN{\fK…`: the size, the OPENING brace of the text group and the control words inside
it; its callers add `" " + text + "}"`.  Proved here: that string is `\fsN`, `{`, and the printed `Model.Emit.runWords t`
(`C01py_text_formatting_translated`), and `print_plainRun`: with the caller's blank, text and closing brace it is the
printed `Model.Emit.plainRun t text` — the node pair every text run of the model consists of.  The format characters are
taken in the order of `sorted(list(set(format)))`, `Generated.Py.pySortedSet`: strictly increasing with the members of
the string (`pySortedSet_sorted`, `pySortedSet_mem` — which determines it), and equal to the encoder model's `sortedSet`
(`pySortedSet_model`).  A format character without a code raises `ValueError`.
-/
set_option linter.unusedSimpArgs false
namespace Props.C01pyt
open Model.Rtf Model.Emit Generated.Py Generated.Py.TextFormatting Props.C01py Props.C01pyc

/-- a colour field of the text against the model's optional index: `None` and `""` give no control word, any other
colour resolves to the model's index -/
def ColorRel (gci : List Nat → Except Exc Int) : Option (List Nat) → Option Int → Prop
  | none, m => m = none
  | some c, m => if c.isEmpty then m = none else ∃ k, gci c = .ok k ∧ m = some k

/-- the format characters in emission order: none for `None` (and for `""`) -/
def fmtChars : Option (List Nat) → List Nat
  | none => []
  | some f => pySortedSet f

/-- the emitted format characters against the model's format control words, one to one -/
def FmtRel (fc : List Nat → Option (List Nat)) : List Nat → List (List Char) → Prop
  | [], [] => True
  | ch :: cs, w :: ws => fc [ch] = some (cps ('\\' :: w)) ∧ FmtRel fc cs ws
  | _, _ => False

theorem loop1_fold (p2h gci fc keys) (size : Rat) (font : Int) :
    ∀ (cs : List Nat) (ws : List (List Char)), FmtRel fc cs ws → ∀ (color bg format : Option (List Nat)) (s : St),
      cs.foldlM (loop1 p2h gci fc keys size font color bg format) s =
        .ok { s with v0 := s.v0 ++ ws.map fun w => cps ('\\' :: w) } := by
  intro cs
  induction cs with
  | nil => intro ws h color bg format s; cases ws <;> simp [FmtRel] at h; simp [List.foldlM, pure, Except.pure]
  | cons c cs ih =>
    intro ws h color bg format s
    rcases ws with _ | ⟨w, ws⟩ <;> simp only [FmtRel] at h
    obtain ⟨h1, h2⟩ := h
    simp [List.foldlM_cons, loop1, h1, pyDictGet, bind, Except.bind, pure, Except.pure, ih ws h2]

/-- a character without a code stops the loop with `ValueError` -/
theorem loop1_fold_error (p2h gci fc keys) (size : Rat) (font : Int) :
    ∀ (cs : List Nat), (∃ ch ∈ cs, fc [ch] = none) → ∀ (color bg format : Option (List Nat)) (s : St),
      cs.foldlM (loop1 p2h gci fc keys size font color bg format) s = .error .ValueError := by
  intro cs
  induction cs with
  | nil => intro h; obtain ⟨_, hm, _⟩ := h; cases hm
  | cons c cs ih =>
    intro h color bg format s
    cases hc : fc [c] with
    | none =>
      simp [List.foldlM_cons, loop1, hc, bind, Except.bind, throw, throwThe, MonadExceptOf.throw]
    | some code =>
      have h' : ∃ ch ∈ cs, fc [ch] = none := by
        obtain ⟨ch, hm, hn⟩ := h
        rcases List.mem_cons.mp hm with rfl | hm
        · rw [hc] at hn; cases hn
        · exact ⟨ch, hm, hn⟩
      simp [List.foldlM_cons, loop1, hc, pyDictGet, bind, Except.bind, pure, Except.pure, ih h']

theorem print_cws (ws : List (List Char)) :
    cps (printNodes (ws.map fun w => Node.cw w none false)) = (ws.map fun w => cps ('\\' :: w)).flatten := by
  induction ws with
  | nil => rfl
  | cons w ws ih =>
    simp only [List.map_cons, printNodes, printNode, cps_append, ih, List.flatten_cons]
    simp [cps]

/-- **the translated `_get_text_formatting` prints `\fsN`, the opening brace and the model's run words** -/
theorem C01py_text_formatting_translated (p2h : Rat → Int) (gci fc) (keys : List (List Nat)) (size : Rat) (font : Int)
    (color bg format : Option (List Nat)) (t : TextFmt)
    (hh : t.halfPts = p2h size) (hf : t.fontIdx = font - 1)
    (hc : ColorRel gci color t.color) (hb : ColorRel gci bg t.bg)
    (hfm : FmtRel fc (fmtChars format) t.formats) :
    run p2h gci fc keys size font color bg format =
      .ok (cps (printNodes [cwi "fs" t.halfPts]) ++ 123 :: cps (printNodes (runWords t))) := by
  have e1 : ([92, 102, 115] : List Nat) = cps ('\\' :: "fs".toList) := by decide
  have e2 : ([123, 92, 102] : List Nat) = 123 :: cps ('\\' :: "f".toList) := by decide
  have e3 : ([92, 99, 102] : List Nat) = cps ('\\' :: "cf".toList) := by decide
  have e4 : ([92, 99, 104, 115, 104, 100, 110, 103, 48, 92, 99, 104, 99, 98, 112, 97, 116] : List Nat) =
      cps ('\\' :: "chshdng".toList) ++ strOfInt 0 ++ cps ('\\' :: "chcbpat".toList) := by decide
  have e5 : ([92, 99, 98] : List Nat) = cps ('\\' :: "cb".toList) := by decide
  rcases t with ⟨thyph, tsb, tsa, tsl, tfi, tli, tri, tjust, thp, tfont, tcol, tbg, tfmts⟩
  simp only at hh hf hc hb hfm
  subst hh hf
  -- the format: `None`, `""` (both: no character), or a non-empty string (the loop runs)
  have hl : (fmtChars format = [] ∧ tfmts = [] ∧ (∀ f, format = some f → f = [])) ∨
      (∃ f, format = some f ∧ f.isEmpty = false ∧ ∀ (color bg format : Option (List Nat)) (s : St),
        (pySortedSet f).foldlM (loop1 p2h gci fc keys size font color bg format) s =
          .ok { s with v0 := s.v0 ++ tfmts.map fun w => cps ('\\' :: w) }) := by
    rcases format with _ | f
    · simp only [fmtChars] at hfm
      cases tfmts <;> simp [FmtRel] at hfm
      exact .inl ⟨rfl, rfl, by simp⟩
    · by_cases hfe : f.isEmpty = true
      · have : f = [] := List.isEmpty_iff.mp hfe
        subst this
        simp only [fmtChars, pySortedSet, List.foldr_nil] at hfm
        cases tfmts <;> simp [FmtRel] at hfm
        exact .inl ⟨rfl, rfl, by simp⟩
      · exact .inr ⟨f, rfl, by simpa using hfe, loop1_fold p2h gci fc keys size font _ _ hfm⟩
  -- the two colours
  rcases color with _ | c <;> rcases bg with _ | b <;> simp only [ColorRel] at hc hb
  all_goals (try (by_cases hce : c.isEmpty = true <;> simp only [hce, if_true, if_false, Bool.false_eq_true] at hc))
  all_goals (try (by_cases hbe : b.isEmpty = true <;> simp only [hbe, if_true, if_false, Bool.false_eq_true] at hb))
  all_goals (try obtain ⟨kc, hkc, hc⟩ := hc)
  all_goals (try obtain ⟨kb, hkb, hb⟩ := hb)
  all_goals subst_vars
  all_goals
    rcases hl with ⟨_, rfl, hnil⟩ | ⟨f, rfl, hfe, hfold⟩
    · rcases format with _ | f
      all_goals (try (have := hnil f rfl; subst this))
      all_goals
        simp only [TextFormatting.run, bind, Except.bind, pure, Except.pure, pyJoin_nil, e1, e2, e3, e4, e5,
          List.isEmpty_nil, Bool.not_true, Bool.not_false, Bool.false_eq_true, if_false, if_true, List.nil_append,
          List.append_assoc, List.flatten_append, List.flatten_cons, List.flatten_nil, List.append_nil,
          List.cons_append, *]
      all_goals
        simp [runWords, printNodes, printNode, cwi, Proofs.Emit.printNodes_append, cps_append, print_cws, cps,
          strOfInt_digits, List.map_append]
    · simp only [TextFormatting.run, hfold, hfe, bind, Except.bind, pure, Except.pure, pyJoin_nil, e1, e2, e3, e4, e5,
        Bool.not_true, Bool.not_false, Bool.false_eq_true, if_false, if_true, List.nil_append,
        List.append_assoc, List.flatten_append, List.flatten_cons, List.flatten_nil, List.append_nil,
        List.cons_append, *]
      simp only [runWords, Proofs.Emit.printNodes_append, cps_append, print_cws]
      simp [printNodes, printNode, cwi, cps, strOfInt_digits, List.map_append]

/-- a format character without a code: `ValueError` (when the colours resolve) -/
theorem C01py_text_formatting_unknown_format (p2h : Rat → Int) (gci fc) (keys : List (List Nat)) (size : Rat)
    (font : Int) (color bg format : Option (List Nat)) (mc mb : Option Int)
    (hc : ColorRel gci color mc) (hb : ColorRel gci bg mb)
    (hbad : ∃ ch ∈ fmtChars format, fc [ch] = none) :
    run p2h gci fc keys size font color bg format = .error .ValueError := by
  obtain ⟨f, rfl, hfe, hfold⟩ : ∃ f, format = some f ∧ f.isEmpty = false ∧
      ∀ (color bg format : Option (List Nat)) (s : St),
        (pySortedSet f).foldlM (loop1 p2h gci fc keys size font color bg format) s = .error .ValueError := by
    rcases format with _ | f
    · obtain ⟨_, hm, _⟩ := hbad; simp [fmtChars] at hm
    · refine ⟨f, rfl, ?_, loop1_fold_error p2h gci fc keys size font _ hbad⟩
      cases f with
      | nil => obtain ⟨_, hm, _⟩ := hbad; simp [fmtChars, pySortedSet] at hm
      | cons _ _ => rfl
  rcases color with _ | c <;> rcases bg with _ | b <;> simp only [ColorRel] at hc hb
  all_goals (try (by_cases hce : c.isEmpty = true <;> simp only [hce, if_true, if_false, Bool.false_eq_true] at hc))
  all_goals (try (by_cases hbe : b.isEmpty = true <;> simp only [hbe, if_true, if_false, Bool.false_eq_true] at hb))
  all_goals (try obtain ⟨kc, hkc, hc⟩ := hc)
  all_goals (try obtain ⟨kb, hkb, hb⟩ := hb)
  all_goals
    simp only [TextFormatting.run, hfold, hfe, bind, Except.bind, pure, Except.pure,
      Bool.not_true, Bool.not_false, Bool.false_eq_true, if_false, if_true, *]

/-! ### the caller's part: blank, text, closing brace -/

theorem print_withSpace : ∀ ws : List Node, ws ≠ [] → (∀ n ∈ ws, ∃ w p, n = Node.cw w p false) →
    printNodes (withSpace ws) = printNodes ws ++ [' ']
  | [], h, _ => absurd rfl h
  | [n], _, hall => by
    obtain ⟨w, p, rfl⟩ := hall n (List.mem_singleton.mpr rfl)
    simp [withSpace, printNodes, printNode]
  | x :: y :: rest, _, hall => by
    have ih := print_withSpace (y :: rest) (by simp) (fun n hn => hall n (List.mem_cons_of_mem _ hn))
    simp only [withSpace, printNodes, ih, List.append_assoc]

theorem runWords_cws (t : TextFmt) : ∀ n ∈ runWords t, ∃ w p, n = Node.cw w p false := by
  intro n hn
  rcases t with ⟨thyph, tsb, tsa, tsl, tfi, tli, tri, tjust, thp, tfont, tcol, tbg, tfmts⟩
  simp only [runWords, List.mem_append, List.mem_map, List.mem_singleton] at hn
  rcases hn with ((rfl | hn) | hn) | ⟨w, _, rfl⟩
  · exact ⟨_, _, rfl⟩
  · rcases tcol with _ | c <;> simp at hn; subst hn; exact ⟨_, _, rfl⟩
  · rcases tbg with _ | b <;> simp at hn
    rcases hn with rfl | rfl | rfl <;> exact ⟨_, _, rfl⟩
  · exact ⟨_, _, rfl⟩

/-- `_get_text_formatting() + " " + text + "}"` is the printed `plainRun` -/
theorem print_plainRun (t : TextFmt) (text : List Node) :
    printNodes (plainRun t text) =
      printNodes [cwi "fs" t.halfPts] ++ '{' :: printNodes (runWords t) ++ ' ' :: printNodes text ++ ['}'] := by
  have hne : runWords t ≠ [] := by simp [runWords]
  simp only [plainRun, printNodes, printNode, Proofs.Emit.printNodes_append,
    print_withSpace (runWords t) hne (runWords_cws t), List.append_nil, List.append_assoc, List.cons_append,
    List.singleton_append, List.nil_append]

/-! ### `sorted(list(set(s)))` -/

theorem mem_insertCp (x c : Nat) : ∀ l : List Nat, x ∈ insertCp c l ↔ x = c ∨ x ∈ l
  | [] => by simp [insertCp]
  | d :: ds => by
    simp only [insertCp]
    split
    · simp
    · split
      · rename_i h; subst h; simp
      · simp only [List.mem_cons, mem_insertCp x c ds]
        constructor
        · rintro (h | h | h) <;> simp [h]
        · rintro (h | h | h) <;> simp [h]

/-- the members of `sorted(set(s))` are the characters of `s` -/
theorem pySortedSet_mem (x : Nat) : ∀ s : List Nat, x ∈ pySortedSet s ↔ x ∈ s
  | [] => by simp [pySortedSet]
  | c :: cs => by
    have ih := pySortedSet_mem x cs
    simp only [pySortedSet, List.foldr_cons] at ih ⊢
    simp [mem_insertCp, ih]

theorem sorted_insertCp (c : Nat) : ∀ l : List Nat, l.Pairwise (· < ·) → (insertCp c l).Pairwise (· < ·)
  | [], _ => by simp [insertCp]
  | d :: ds, h => by
    have hd := List.pairwise_cons.mp h
    simp only [insertCp]
    split
    · rename_i hcd
      refine List.pairwise_cons.mpr ⟨?_, h⟩
      intro a ha
      rcases List.mem_cons.mp ha with rfl | ha
      · exact hcd
      · exact Nat.lt_trans hcd (hd.1 a ha)
    · split
      · exact h
      · rename_i h1 h2
        refine List.pairwise_cons.mpr ⟨?_, sorted_insertCp c ds hd.2⟩
        intro a ha
        rcases (mem_insertCp a c ds).mp ha with rfl | ha
        · omega
        · exact hd.1 a ha

/-- `sorted(set(s))` is strictly increasing (so it has no repetition) -/
theorem pySortedSet_sorted : ∀ s : List Nat, (pySortedSet s).Pairwise (· < ·)
  | [] => by simp [pySortedSet]
  | c :: cs => by
    have ih := pySortedSet_sorted cs
    simp only [pySortedSet, List.foldr_cons] at ih ⊢
    exact sorted_insertCp c _ ih

theorem insertCp_model (c : Char) : ∀ l : List Char,
    insertCp c.toNat (cps l) = cps (Model.Encode.insertChar c l)
  | [] => rfl
  | d :: ds => by
    have hinj : (c.toNat = d.toNat) = (c = d) := by
      apply propext; constructor
      · intro h; exact Char.ext (UInt32.toNat_inj.mp h)
      · intro h; rw [h]
    simp only [cps, List.map_cons, insertCp, Model.Encode.insertChar, hinj]
    split
    · rfl
    · split
      · rfl
      · have := insertCp_model c ds
        simp only [cps] at this
        simp [this]

/-- the order of the translated function is the order of the encoder model (`Model.Encode.sortedSet`) -/
theorem pySortedSet_model : ∀ l : List Char, pySortedSet (cps l) = cps (Model.Encode.sortedSet l)
  | [] => rfl
  | c :: cs => by
    have ih := pySortedSet_model cs
    simp only [pySortedSet, Model.Encode.sortedSet, List.foldr_cons, cps, List.map_cons] at ih ⊢
    rw [ih]
    exact insertCp_model c _

end Props.C01pyt
