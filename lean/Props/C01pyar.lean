import Generated.PyRowAsRtf
import Generated.PyCellAsRtf
import Generated.PyBorderAsRtf
import Generated.PyTextAsRtf
import Generated.PyParagraphFormatting
import Generated.PyTextFormatting
import Props.C01pya
import Props.C01pyr
/-!
# C01 — the translated row emitter with the translated text emitter

`C01py_row_text_translated` closes the loop of `Props/C01pyr.lean`: with the translated `TextContent._as_rtf`
(`Props/C01pya.lean`) in the place of the parameter `text_as_rtf`, `"\n".join(Row._as_rtf())` is the printed row of the
grammar for every row whose cells — borders, alignment, right edge, paragraph and run format, converted text — are
related to the model's cells.  What stays a parameter of the whole tie: the code tables, `inch_to_twip`,
`point_to_halfpoint`, `_get_color_index` and `_convert_special_chars`.

(This file imports the generated definition of every function it relies on, so that it is an obligation exactly while
all six of them translate.)
-/
set_option linter.unusedSimpArgs false
namespace Props.C01pyar
open Model.Rtf Model.Emit Generated.Py Props.C01py Props.C01pyc Props.C01pya

/-! ### the row with the translated text emitter -/

open Generated.Py.RowAsRtf in
/-- `cell.text._as_rtf(method)` as the translated function on the fields of the text object; `conv` stands for
`_convert_special_chars` on that object -/
def textEmit (i2t : Rat → Int) (tjc : List Nat → Option (List Nat)) (tjk : List (List Nat)) (p2h : Rat → Int)
    (gci : List Nat → Except Exc Int) (fc : List Nat → Option (List Nat)) (fk : List (List Nat))
    (conv : Text → Except Exc (List Nat)) (x : Text) (method : List Nat) : Except Exc (List Nat) :=
  TextAsRtf.run i2t tjc tjk p2h gci fc fk (conv x) x.text x.font x.size x.format x.color x.background_color
    x.justification x.indent_first x.indent_left x.indent_right x.space x.space_before x.space_after x.hyphenation
    method

open Generated.Py.RowAsRtf in
/-- a cell of the Python row against a cell of the model row, down to the fields of its text -/
def FullCellRel (bc : List Nat → Option (List Nat)) (gci : List Nat → Except Exc Int)
    (vac : List Nat → Option (List Nat)) (i2t : Rat → Int) (tjc : List Nat → Option (List Nat)) (p2h : Rat → Int)
    (fc : List Nat → Option (List Nat)) (conv : Text → Except Exc (List Nat)) (pc : Cell) (m : CellFmt) : Prop :=
  BorderRel bc gci pc.border_left m.left ∧ BorderRel bc gci pc.border_top m.top ∧
  BorderRel bc gci pc.border_right m.right ∧ BorderRel bc gci pc.border_bottom m.bottom ∧
  (match pc.vertical_justification with
    | none => m.valign = []
    | some v => vac v = some (m.valign.flatMap fun w => cps ('\\' :: w))) ∧
  i2t pc.width = m.cellx ∧
  conv pc.text = .ok (cps (printNodes m.body)) ∧
  ParaRel i2t tjc pc.text.hyphenation pc.text.space_before pc.text.space_after pc.text.space pc.text.indent_first
    pc.text.indent_left pc.text.indent_right pc.text.justification m.text ∧
  RunRel p2h gci fc pc.text.size pc.text.font pc.text.color pc.text.background_color pc.text.format m.text

open Generated.Py.RowAsRtf in
def FullCellsRel (bc : List Nat → Option (List Nat)) (gci : List Nat → Except Exc Int)
    (vac : List Nat → Option (List Nat)) (i2t : Rat → Int) (tjc : List Nat → Option (List Nat)) (p2h : Rat → Int)
    (fc : List Nat → Option (List Nat)) (conv : Text → Except Exc (List Nat)) : List Cell → List CellFmt → Prop
  | [], [] => True
  | pc :: pcs, m :: ms => FullCellRel bc gci vac i2t tjc p2h fc conv pc m ∧
      FullCellsRel bc gci vac i2t tjc p2h fc conv pcs ms
  | _, _ => False

open Generated.Py.RowAsRtf in
theorem cellsRel_of_full (bc gci vac) (i2t : Rat → Int) (tjc tjk p2h fc fk conv) :
    ∀ (cells : List Cell) (ms : List CellFmt), FullCellsRel bc gci vac i2t tjc p2h fc conv cells ms →
      C01pyr.CellsRel bc gci vac i2t (textEmit i2t tjc tjk p2h gci fc fk conv) cells ms
  | [], [], _ => trivial
  | [], _ :: _, h => by simp [FullCellsRel] at h
  | _ :: _, [], h => by simp [FullCellsRel] at h
  | pc :: pcs, m :: ms, h => by
    simp only [FullCellsRel] at h
    obtain ⟨⟨hl, ht, hr, hb, hv, hx, hconv, hp, hrun⟩, hrest⟩ := h
    refine ⟨⟨hl, ht, hr, hb, hv, hx, ?_⟩, cellsRel_of_full bc gci vac i2t tjc tjk p2h fc fk conv pcs ms hrest⟩
    exact C01py_text_cell i2t tjc tjk p2h gci fc fk _ _ _ _ _ _ _ _ _ _ _ _ _ _ _ m.text m.body hconv hp hrun

open Generated.Py.RowAsRtf in
/-- **`Row._as_rtf` with the translated `TextContent._as_rtf` prints the model's row** -/
theorem C01py_row_text_translated (bc gci vac) (i2t : Rat → Int) (rjc) (rjk : List (List Nat)) (tjc) (tjk : List (List Nat))
    (p2h : Rat → Int) (fc) (fk : List (List Nat)) (conv : Text → Except Exc (List Nat))
    (cells : List Cell) (just : List Nat) (height : Rat) (r : RowFmt)
    (hj : rjc just = some (codeText r.just))
    (hg : r.gaph = Model.Encode.pyInt ((i2t height : Rat) / 2))
    (hc : FullCellsRel bc gci vac i2t tjc p2h fc conv cells r.cells) :
    (RowAsRtf.run bc gci vac i2t rjc rjk (textEmit i2t tjc tjk p2h gci fc fk conv) cells just height).map
        (pyJoin [10]) =
      .ok (cps (printNodes (rowNodesFull r))) :=
  C01pyr.C01py_row_translated bc gci vac i2t rjc rjk _ cells just height r hj hg
    (cellsRel_of_full bc gci vac i2t tjc tjk p2h fc fk conv cells r.cells hc)

end Props.C01pyar
