import Generated.PyBorderAsRtf
import Model.Emit
import Proofs.EscNodes
import Proofs.PyStr
/-!
# C01 — translator tie for the border emitter

`Generated.Py.BorderAsRtf.run` is regenerated on every run from the source of `Border._as_rtf` (`row.py`), in the
exception monad; the module dict `BORDER_CODES` and `Utils._get_color_index` are parameters.

This file proves that the string it builds is the printed form of the syntax tree `Model.Emit.borderNodes` — the tree the
well-formedness theorems of C01 are about: `"\\" + side + border._as_rtf()` = `printNodes (borderNodes side b)` for
every border whose style has a code (`""` or a control word) and whose colour resolves; an unknown style raises
`ValueError`; an exception of the colour resolution propagates.
-/
set_option linter.unusedSimpArgs false
namespace Props.C01py
open Model.Rtf Model.Emit Generated.Py Generated.Py.BorderAsRtf

/-! `cps` (code points of a list of characters), `codeText` (the text `BORDER_CODES` holds for a style whose control
word is `w`) and `strOfInt_digits` live in `Proofs/PyStr.lean`, shared by all emitter bridge files. -/

/-- an unknown style: `ValueError` -/
theorem C01py_border_unknown_style (bc gci) (style : List Nat) (width : Int) (color : Option (List Nat))
    (h : bc style = none) : run bc gci style width color = .error .ValueError := by
  simp [BorderAsRtf.run, h, throw, throwThe, MonadExceptOf.throw]

/-- **the translated `Border._as_rtf` prints the model's border nodes**: `side` is the cell-border control word the
caller puts in front (`"\\clbrdrl" + …`), `w` the control word of the style, `cidx` the resolved colour index -/
theorem C01py_border_translated (bc gci) (side : String) (style : List Nat) (width : Int)
    (color : Option (List Nat)) (w : List Char) (cidx : Option Int)
    (hcode : bc style = some (codeText w))
    (hcol : match color with
      | none => cidx = none
      | some c => ∃ k, gci c = .ok k ∧ cidx = some k) :
    (run bc gci style width color).map (cps ('\\' :: side.toList) ++ ·) =
      .ok (cps (printNodes (borderNodes side ⟨w, width, cidx⟩))) := by
  have e1 : cps "brdrw".toList = [98, 114, 100, 114, 119] := by decide
  have e2 : cps "brdrcf".toList = [98, 114, 100, 114, 99, 102] := by decide
  have hb : (92 : Nat) = '\\'.toNat := by decide
  rcases color with _ | c
  · subst hcol
    by_cases hw : w.isEmpty = true <;>
      simp [BorderAsRtf.run, hcode, pyDictGet, bind, Except.bind, pure, Except.pure, Except.map, borderNodes, printNodes,
        printNode, cw0, cwi, codeText, hw, cps, strOfInt_digits, e1, e2, hb, List.map_append]
  · obtain ⟨k, hk, rfl⟩ := hcol
    by_cases hw : w.isEmpty = true <;>
      simp [BorderAsRtf.run, hcode, hk, pyDictGet, bind, Except.bind, pure, Except.pure, Except.map, borderNodes, printNodes,
        printNode, cw0, cwi, codeText, hw, cps, strOfInt_digits, e1, e2, hb, List.map_append]

/-- a failure of the colour resolution propagates -/
theorem C01py_border_color_error (bc gci) (style : List Nat) (width : Int) (c : List Nat) (code : List Nat) (e : Exc)
    (hcode : bc style = some code) (he : gci c = .error e) :
    run bc gci style width (some c) = .error e := by
  simp [BorderAsRtf.run, hcode, he, pyDictGet, bind, Except.bind]

end Props.C01py
