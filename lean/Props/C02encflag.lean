import Model.Encode
import Proofs.EncodeLift
import Proofs.EncodeAttrs
import Proofs.EncodeText
import Proofs.ConvNodes
import Props.C02enc
import Props.C10enc
import Props.C11enc
/-!
# C02 for the whole-encoder model: a data cell is altered by nothing but its OWN `text_convert` flag

`Props/C02enc.lean` shows that the text hole of cell `j` of data row `i` is `textNodes (convText conv value)` with the
flag `conv` resolved on the PAGE's attributes at the page-relative position.  When `text_convert` is given per column or
per cell, "no data cell is altered" additionally needs that this flag is the one the user gave for THAT cell: column
removal (page_by shown as spanning rows, subline_by) and page slicing must not re-bind a flag to another cell.

* `C02encflag_cell_own_flag`   the hole of displayed cell `j` (original column `c = keptIdx[j]`) of data row `i` is
                               `textNodes (convText conv value)` where `conv` is the body's `text_convert` read at the
                               cell's ORIGINAL position `(i, c)`;
* `C02encflag_off_verbatim`    a cell whose own flag is off is written as its escaped display text — `^ _ >= <=` and
                               everything else in it stay as they are (read back verbatim, C10), whatever the flags of
                               the other columns / rows and whichever columns were removed to its left.
-/
namespace Props.C02encflag
open Model.Rtf Model.Emit Model.Encode Model.Broadcast Model.Layout
open Proofs.EncodeLift Proofs.EncodeAttrs Proofs.EncodeText Proofs.ConvNodes
open Props.C02 (dataIdx)

/-- **the flag of a data cell is its own.**  For every `.data i` block of the trace, displayed column `j` whose original
column is `c`, and value `v` of the final frame's row `i` at `j`: the cell's text hole is the converted display text of
`v` under the body's `text_convert` at `(i, c)` — the position of the cell in the data frame the user passed. -/
theorem C02encflag_cell_own_flag (measure : Measure) (k : ColorCtx) (d : Doc) (pl : Plan) (R : Trace)
    (hp : plan measure d = .ok pl) (hR : Renders k d pl R) (hs : shapeOk d.body.attrs.convert = true)
    (x : PageCtx × List (Block × List Elem)) (hx : x ∈ R) (y : Block × List Elem) (hy : y ∈ x.2)
    (i : Nat) (hb : y.1 = Block.data i) :
    ∃ cells fmt, pl.rows[i]? = some cells ∧ y.2 = [rowElem fmt] ∧ fmt.cells.length = cells.length ∧
      ∀ (j c : Nat) (v : Option Model.Encode.Str), (keptIdx d.cols.length pl.p.removed)[j]? = some c → cells[j]? = some v →
        ∃ cf conv, fmt.cells[j]? = some cf ∧ FlagAt pl.bodyA.convert i c conv ∧
          cf.body = textNodes (convText conv (v.getD [])) := by
  obtain ⟨cells, fmt, hcells, hy2, hlen, hcell⟩ := Props.C10enc.C10enc_data_cell_hole k d pl R hR x hx y hy i hb
  refine ⟨cells, fmt, hcells, hy2, hlen, ?_⟩
  intro j c v hj hv
  obtain ⟨cf, conv, hcf, hflag, hbody⟩ := hcell j v hv
  -- the page of the trace is a page of the plan, and row `i` lies in its slice
  have hxb : (x.1, x.2.map Prod.fst) ∈ pl.pageBlocks := by
    rw [← hR.blocks]
    exact List.mem_map.mpr ⟨x, hx, rfl⟩
  obtain ⟨n, hn⟩ := List.getElem?_of_mem hxb
  have hidx : i ∈ dataIdx (x.2.map Prod.fst) := by
    simp only [dataIdx, List.mem_filterMap, List.mem_map]
    exact ⟨y.1, ⟨y, hy, rfl⟩, by rw [hb]⟩
  obtain ⟨_, _, _, hlo, hhi, _⟩ :=
    Props.C02enc.C02enc_row_on_its_page measure d pl hp n i (x.1, x.2.map Prod.fst) hn hidx
  have hbind := (Props.C11enc.C11enc_data_flag_binding measure d pl hp hs (x.1, x.2.map Prod.fst) hxb i
    ⟨hlo, hhi⟩ j c hj conv).2
  exact ⟨cf, conv, hcf, hbind.mp hflag, hbody⟩

/-- **a cell whose own flag is off is written verbatim** (escaped only): if the body's `text_convert` at the cell's
original position `(i, c)` is `False`, the hole is `textNodes (escStr text)` — no `^ _ >= <=` or command of the text is
translated, whatever the flags of other cells and whichever columns were removed. -/
theorem C02encflag_off_verbatim (measure : Measure) (k : ColorCtx) (d : Doc) (pl : Plan) (R : Trace)
    (hp : plan measure d = .ok pl) (hR : Renders k d pl R) (hs : shapeOk d.body.attrs.convert = true)
    (x : PageCtx × List (Block × List Elem)) (hx : x ∈ R) (y : Block × List Elem) (hy : y ∈ x.2)
    (i : Nat) (hb : y.1 = Block.data i) :
    ∃ cells fmt, pl.rows[i]? = some cells ∧ y.2 = [rowElem fmt] ∧
      ∀ (j c : Nat) (v : Option Model.Encode.Str), (keptIdx d.cols.length pl.p.removed)[j]? = some c → cells[j]? = some v →
        FlagAt pl.bodyA.convert i c false →
        ∃ cf, fmt.cells[j]? = some cf ∧ cf.body = textNodes (escStr (v.getD [])) := by
  obtain ⟨cells, fmt, hcells, hy2, _, hcell⟩ :=
    C02encflag_cell_own_flag measure k d pl R hp hR hs x hx y hy i hb
  refine ⟨cells, fmt, hcells, hy2, ?_⟩
  intro j c v hj hv hoff
  obtain ⟨cf, conv, hcf, hflag, hbody⟩ := hcell j c v hj hv
  have : conv = false := flagAt_unique hflag hoff
  subst this
  exact ⟨cf, hcf, hbody⟩

/-! ## non-vacuity -/

open Props.C01enc in
/-- a listing `g | code | label` grouped by `g` (`page_by`, shown as spanning rows, so `g` is not a cell), conversion
off for the `code` column only: `text_convert = [[True, False, True]]` over the three frame columns -/
def exCode : Doc :=
  { exDoc [1, 2, 3] with
    cols := ["g".toList, "code".toList, "label".toList],
    rows := [[some "G1".toList, some "x^2".toList, some "sq_r".toList],
             [some "G1".toList, some "a>=b".toList, some "ord".toList],
             [some "G2".toList, some "ALT_SI".toList, some "alt".toList]],
    title := none, footnote := none, source := none, headers := [],
    body := { attrs := { exTbl with convert := .nested [[.bool true, .bool false, .bool true]] },
              colRelWidth := some [1, 2, 3], asColheader := true, groupBy := none, pageBy := some ["g".toList],
              sublineBy := none, newPage := false, pagebyHeader := true, pagebyColumn := true } }

set_option maxRecDepth 100000

open Props.C01enc in
/-- the hypotheses are satisfiable and the conclusion is visible by direct evaluation (independently of the theorems):
the value has an admissible shape, column `g` is the one removed (displayed columns are the original 1 and 2), the
encoder accepts the document, and in the string it returns the `code` cells stand verbatim (`x^2`, `a>=b`, `ALT_SI`)
while the `label` cell `sq_r` — conversion on — is written with `\sub ` -/
example :
    shapeOk exCode.body.attrs.convert = true ∧
    (match prepare exCode with
     | .ok p => decide (keptIdx exCode.cols.length p.removed = [1, 2])
     | .error _ => false) = true ∧
    (match encodeText exMeasure exCode with
     | .ok s => hasInfix " x^2}".toList s && hasInfix " a>=b}".toList s && hasInfix " ALT_SI}".toList s &&
                hasInfix " sq\\sub r}".toList s
     | .error _ => false) = true := by
  refine ⟨by decide, by decide +kernel, by decide +kernel⟩

end Props.C02encflag
