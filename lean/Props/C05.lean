import Model.Layout
import Proofs.Paginate
import Proofs.LayoutHeadings
/-!
# C05 — every data row sits under its own group heading on its own page

About `renderPage d pg` of Model/Layout.lean when page_by values are shown as spanning rows
(`d.spanning`).  `pg.dataStart = pg.start` (hypothesis `hds`) is what Props.C02.C02_pages_structure
establishes for every page of `d.pages`; it is kept as an explicit hypothesis here so that this file
does not depend on C02's proofs.
-/
namespace Props.C05
open Model.Paginate Model.Layout Proofs.LayoutHeadings

/-- text of the last level-`l` heading in a block list -/
def lastHeading (l : Nat) (bs : List Block) : Option String :=
  bs.reverse.findSome? fun b => match b with
    | .heading l' t => if l' = l then some t else none
    | _ => none

/-- no page_by value is null (the property quantifies over sorted key sequences of real values) -/
def NoNullKeys (d : LDoc) : Prop := ∀ r ∈ d.rows, ∀ v ∈ r.pkey, v ≠ none

/-- all rows have one value per page_by level -/
def KeysWide (d : LDoc) (nlev : Nat) : Prop := ∀ r ∈ d.rows, r.pkey.length = nlev

set_option linter.unusedVariables false in
/-- (1) each level's current value is rendered as a heading before the row, on the row's own page:
for every data row `i` on the page and every level `l` whose value `v` at that row is not a divider,
the last level-`l` heading before the row on that page carries `v`.
(`hnn` is not needed by the proof: a null at level `l` makes `hv` impossible for that level.) -/
theorem C05_under_own_heading (d : LDoc) (nlev : Nat) (hsp : d.spanning = true)
    (hnn : NoNullKeys d) (hw : KeysWide d nlev)
    (pg : PageCtx) (hds : pg.dataStart = pg.start) (hin : pg.start + pg.height ≤ d.rows.length)
    (hpos : 0 < pg.height)
    (pre post : List Block) (i : Nat) (hsplit : renderPage d pg = pre ++ Block.data i :: post)
    (r : LRow) (hr : d.rows[i]? = some r) (l : Nat) (v : String)
    (hv : r.pkey[l]? = some (some v)) (hdiv : v ≠ "-----") :
    lastHeading l pre = some v := by
  change lastH l pre = some v
  obtain ⟨r0, ks, p2, q1, hr0, hkeys, rfl, hs⟩ := page_split d pg hsp hin hpos pre post i hsplit
  have hmem : ∀ k ∈ r0.pkey :: ks, k.length = nlev := by
    intro k hk
    rw [← hkeys] at hk
    obtain ⟨r', _, hr', rfl⟩ := page_keys_mem d pg k hk
    exact hw r' hr'
  obtain ⟨j, key, hj, hkey, hres⟩ := body_inv_flat nlev ks r0.pkey (groupValues r0.pkey) pg.dataStart
    (pageHead d pg ++ topHeadings r0.pkey) p2 i q1
    (fun k' h => hmem k' (List.mem_cons_of_mem _ h))
    (by rw [groupValues_length]; exact hmem _ (by simp))
    (fun l v h => by rw [lastH_append, topHeadings_level h]; rfl)
    (fun l v h1 h2 => groupValues_getElem?_real.mpr ⟨h1, h2⟩)
    hs
  have hkr : key = r.pkey :=
    page_key d pg _ hkeys j key hkey r (by rw [show pg.start + j = i by omega]; exact hr)
  subst hkr
  have := hres l v hv hdiv
  simpa [List.append_assoc] using this

/-- headings in force after a block list: a heading of level l sets level l and CLEARS all deeper levels
(an inner heading belongs to the outer group it was rendered under) -/
def inForceStep (f : Nat → Option String) : Block → (Nat → Option String)
  | .heading l t => fun k => if k = l then some t else if l < k then none else f k
  | _ => f
def inForce (bs : List Block) : Nat → Option String := bs.foldl inForceStep (fun _ => none)

theorem inForce_eq_force (bs : List Block) : inForce bs = force bs := by
  have hstep : inForceStep = forceStep := by
    funext f b
    cases b <;> rfl
  simp only [inForce, force, forceFrom, hstep]

set_option linter.unusedVariables false in
/-- (1, hierarchical) as (1), and between the last level-`l` heading before the row and the row there is
no heading of a shallower level: the value is still *in force*.  Holds for the model of the repaired
`_render_body` (repo commit b273a2c "forget inner page_by headings when an outer level changes over a
divider"); for the model before that repair it was false: keys `[A,x],[B,-----],[B,x]` on one page gave
`heading 0 A, heading 1 x, data 0, heading 0 B, data 1, data 2`. -/
theorem C05_under_own_heading_hier (d : LDoc) (nlev : Nat) (hsp : d.spanning = true)
    (hnn : NoNullKeys d) (hw : KeysWide d nlev)
    (pg : PageCtx) (hds : pg.dataStart = pg.start) (hin : pg.start + pg.height ≤ d.rows.length)
    (hpos : 0 < pg.height)
    (pre post : List Block) (i : Nat) (hsplit : renderPage d pg = pre ++ Block.data i :: post)
    (r : LRow) (hr : d.rows[i]? = some r) (l : Nat) (v : String)
    (hv : r.pkey[l]? = some (some v)) (hdiv : v ≠ "-----") :
    inForce pre l = some v := by
  rw [inForce_eq_force]
  obtain ⟨r0, ks, p2, q1, hr0, hkeys, rfl, hs⟩ := page_split d pg hsp hin hpos pre post i hsplit
  have hmem : ∀ k ∈ r0.pkey :: ks, k.length = nlev := by
    intro k hk
    rw [← hkeys] at hk
    obtain ⟨r', _, hr', rfl⟩ := page_keys_mem d pg k hk
    exact hw r' hr'
  obtain ⟨j, key, hj, hkey, hres⟩ := body_inv_hier nlev ks r0.pkey (groupValues r0.pkey) pg.dataStart
    (pageHead d pg ++ topHeadings r0.pkey) p2 i q1
    (fun k' h => hmem k' (List.mem_cons_of_mem _ h))
    (by rw [groupValues_length]; exact hmem _ (by simp))
    (fun l v h => force_top _ h)
    (fun l v h1 h2 => groupValues_getElem?_real.mpr ⟨h1, h2⟩)
    hs
  have hkr : key = r.pkey :=
    page_key d pg _ hkeys j key hkey r (by rw [show pg.start + j = i by omega]; exact hr)
  subst hkr
  have := hres l v hv hdiv
  simpa [List.append_assoc] using this

/-- `inForce` clears deeper levels: after `B` nothing is in force at level 1 (while `lastHeading 1` is
still `x`), so the hierarchical form is strictly stronger than (1) on the page of the old defect -/
example : inForce [.heading 0 "A", .heading 1 "x", .data 0, .heading 0 "B", .data 1] 1 = none := by
  decide

/-- (2) a heading is always directly followed, on the same page, by a heading of a deeper level or by a
data row — never stranded at the bottom of a page, and outer levels come before inner ones. -/
theorem C05_heading_followed (d : LDoc) (hsp : d.spanning = true)
    (pg : PageCtx) (hin : pg.start + pg.height ≤ d.rows.length) (hpos : 0 < pg.height)
    (pre post : List Block) (l : Nat) (t : String)
    (hsplit : renderPage d pg = pre ++ Block.heading l t :: post) :
    ∃ b rest, post = b :: rest ∧
      ((∃ i, b = Block.data i) ∨ (∃ l' t', b = Block.heading l' t' ∧ l < l')) := by
  have hlt : pg.start < d.rows.length := by omega
  have hr0 : d.rows[pg.start]? = some d.rows[pg.start] := List.getElem?_eq_getElem hlt
  generalize d.rows[pg.start] = r0 at hr0
  have hgood : Good (renderPage d pg) := by
    rw [renderPage_eq, pageMid_spanning d pg hsp r0 hr0]
    apply Good.append_left
    · intro b hb l t h
      subst h
      rcases pageHead_mem d pg _ hb with h | ⟨_, h⟩
      · simp [other] at h
      · cases h
    apply Good.append_right
    · intro b hb l t h
      subst h
      have := pageTail_mem d pg _ hb
      simp [other] at this
    have hne : ((d.rows.drop pg.start).take pg.height).map (·.pkey) ≠ [] := by
      intro h
      have := congrArg List.length h
      simp at this
      omega
    generalize ((d.rows.drop pg.start).take pg.height).map (·.pkey) = keys at hne
    cases keys with
    | nil => exact absurd rfl hne
    | cons k0 ks =>
      rw [topHeadings_eq]
      simp only [bodyBlocks]
      exact (good_topFrom _ (Good.cons_other (by intro l t h; cases h) (good_body _ _ _ _))
        ⟨_, _, rfl⟩ _ _).1
  obtain ⟨b, rest, h1, h2⟩ := hgood pre l t post hsplit
  exact ⟨b, rest, h1, h2⟩

/-- (3) divider values never produce a heading -/
theorem C05_no_divider_heading (d : LDoc) (pg : PageCtx) (l : Nat) (t : String)
    (h : Block.heading l t ∈ renderPage d pg) : t ≠ "-----" :=
  (renderPage_heading_mem d pg l t h).1

/-- (4) headings appear only when spanning rows are shown -/
theorem C05_no_heading_without_spanning (d : LDoc) (hsp : d.spanning = false) (pg : PageCtx)
    (l : Nat) (t : String) : Block.heading l t ∉ renderPage d pg := by
  intro h
  have := (renderPage_heading_mem d pg l t h).2
  rw [hsp] at this
  cases this

/-- (5) with subline_by, a page whose first row has a non-divider, non-null subline value carries exactly
one subline heading paragraph, naming that value(s), placed before headers and body -/
theorem C05_subline_heading (d : LDoc) (hs : d.hasSubline = true) (pg : PageCtx)
    (r : LRow) (hr : d.rows[pg.start]? = some r) (vals : List String)
    (hvals : r.skey = vals.map some) (hne : vals ≠ []) (hnd : ∀ v ∈ vals, v ≠ "-----") :
    ((renderPage d pg).filter (fun b => match b with | .sublineHeading _ => true | _ => false))
      = [Block.sublineHeading (", ".intercalate vals)] := by
  change (renderPage d pg).filter isSub = _
  rw [renderPage_eq, List.filter_append, List.filter_append,
    pageHead_filter d hs pg r hr vals hvals hne hnd]
  have h1 : (pageMid d pg).filter isSub = [] := by
    apply filter_isSub_nil
    intro b hb t hbt
    subst hbt
    rcases pageMid_mem d pg _ hb with ⟨_, h⟩ | ⟨_, _, h, _⟩ <;> cases h
  have h2 : (pageTail d pg).filter isSub = [] := by
    apply filter_isSub_nil
    intro b hb t hbt
    subst hbt
    have := pageTail_mem d pg _ hb
    simp [other] at this
  rw [h1, h2]
  rfl

/-- non-vacuity: two levels, a group continuing on page 2 gets both headings again at the top -/
example :
    layout { nrow := 6,
             rows := [⟨1, [some "A", some "x"], [], 1, 1⟩, ⟨1, [some "A", some "x"], [], 1, 1⟩,
                      ⟨1, [some "A", some "y"], [], 1, 1⟩, ⟨1, [some "A", some "y"], [], 1, 1⟩,
                      ⟨1, [some "B", some "y"], [], 1, 1⟩],
             hasPageBy := true, hasSubline := false, newPage := false, pagebyColumn := true,
             pagebyHeader := true, headers := [true], asColheader := true, hasTitle := false,
             hasSublineTxt := false, footnote := .absent, source := .absent, pageTitle := .all,
             pageFootnote := .last, pageSource := .last }
      = [[.colHeader 0, .heading 0 "A", .heading 1 "x", .data 0, .data 1, .heading 1 "y", .data 2],
         [.brk, .colHeader 0, .heading 0 "A", .heading 1 "y", .data 3, .heading 0 "B", .heading 1 "y", .data 4]] := by
  decide

/-- the divider case that motivated the repair: `x` is rendered again under `B` -/
example :
    layout { nrow := 20,
             rows := [⟨1, [some "A", some "x"], [], 1, 1⟩, ⟨1, [some "B", some "-----"], [], 1, 1⟩,
                      ⟨1, [some "B", some "x"], [], 1, 1⟩],
             hasPageBy := true, hasSubline := false, newPage := false, pagebyColumn := true,
             pagebyHeader := true, headers := [true], asColheader := true, hasTitle := false,
             hasSublineTxt := false, footnote := .absent, source := .absent, pageTitle := .all,
             pageFootnote := .last, pageSource := .last }
      = [[.colHeader 0, .heading 0 "A", .heading 1 "x", .data 0, .heading 0 "B", .data 1,
          .heading 1 "x", .data 2]] := by
  decide

end Props.C05
