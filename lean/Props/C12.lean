import Model.Color
import Proofs.Color
import Proofs.ColorTable
import Proofs.ColorTableCodes
import Proofs.ColorTableNames
import Proofs.ColorFull
/-!
# C12 — colour and font references resolve to what the user asked for

Statement (properties.jsonl): every colour index used anywhere in the output refers to an existing entry of that
document's own colour table whose RGB value equals the named colour requested for that element, index 0 meaning the
default colour; a colour table is present whenever a non-default colour is used; every font reference names an entry
of the emitted font table that corresponds to the requested font number; single-table, multi-section and figure
documents.

Model: `Model.Color` (see its header for the functions mirrored), instantiated with the generated table
`Generated.colorTable`.  The facts about the table (`idxInj`: master indices identify rows; `seenRgb_eq`: the code
printed for a row reads back as the row's RGB columns; `names_nodup`, `idx_range` for the full table) are decided by
the kernel in `Proofs/ColorTable*.lean`.

How the clauses map to theorems
* "refers to an existing entry … whose RGB equals the requested colour"  → `C12_index_resolves`, `C12_document`
  (`Resolves`: `1 ≤ i ≤ |table|`, entry `i` is the dictionaries' own row for the requested name, and the code printed
  for it reads back as `name_to_rgb[name]`).  Two names may share one RGB (aquamarine / aquamarine1): the theorem gives
  the stronger "own row", the oracle on the implementation checks RGB equality only, as the statement does.
* "index 0 meaning the default colour"                                   → `C12_default_zero` (and `black_rgb`)
* no dangling index for *any* colour, collected or not                    → `C12_index_in_range`
* "a colour table is present whenever a non-default colour is used"      → `C12_table_present_iff`
* the table is the master-index-sorted, duplicate-free, filtered list     → `C12_table_spec`
* independence of the enumeration order of the collected set              → `C12_order_independent`
* every attribute value an emitter can print was collected (all three paths, text / background / border colours of
  every component) → inside `C12_document`, `C12_border_refs`, `C12_border_refs_emitters`
* fonts                                                                  → `C12_fonts`
* no context (direct use outside an encode): master index into the full table → `C12_full_table`
* the table and the indices use ONE numbering: in the full table only the master index resolves
  (`C12_full_table_only_master`); dense positions read against the full table name other colours
  (`C12_mixed_numbering_wrong`, with the oracle's verdict on it)
-/
namespace Props.C12
open Generated Model.Color Proofs.Color Proofs.ColorTable

/-! ## the table -/

/-- The dense table printed for a list of used colours: its names are exactly the non-default colours of the list
(as a multiset), in ascending master-index order; every entry is the dictionaries' own row of its name (so the code
printed is `name_to_rtf[name]`); when the list has no repetitions (a set) the order is strict: no entry twice. -/
theorem C12_table_spec (used : List String) (rows : List ColorRow) (h : tableRows colorTable used = .ok rows) :
    (rows.map (·.name)).Perm (used.filter significant) ∧
    rows.Pairwise (fun a b => a.idx ≤ b.idx) ∧
    (∀ row ∈ rows, lookupRow colorTable row.name = some row) ∧
    (used.Nodup → rows.Pairwise (fun a b => a.idx < b.idx)) := by
  have hk := tableRows_ok h
  refine ⟨hk.2.1, ?_, hk.2.2.1, ?_⟩
  · rw [hk.1]; exact sortRows_sorted _
  · intro hnd
    have hnames : (rows.map (·.name)).Nodup := hk.2.1.nodup_iff.mpr (hnd.sublist List.filter_sublist)
    have hsorted : rows.Pairwise (fun a b => a.idx ≤ b.idx) := by rw [hk.1]; exact sortRows_sorted _
    have hne : rows.Pairwise (fun a b => a ≠ b) := by
      have := List.pairwise_map.mp hnames
      exact this.imp (fun hab h => hab (by rw [h]))
    have hall : ∀ r ∈ rows, r ∈ colorTable := tableRows_mem_tbl h
    have key : ∀ a ∈ rows, ∀ b ∈ rows, a.idx ≤ b.idx → a ≠ b → a.idx < b.idx := by
      intro a ha b hb hle hne'
      rcases Nat.lt_or_ge a.idx b.idx with hlt | hge
      · exact hlt
      · exact absurd (idxInj a (hall a ha) b (hall b hb) (Nat.le_antisymm hle hge)) hne'
    have := List.Pairwise.and hsorted hne
    exact List.Pairwise.imp_of_mem (fun ha hb hab => key _ ha _ hb hab.1 hab.2) this

/-- The table text is non-empty exactly when a non-default colour occurs in the list (and then it is the dense
table); it is never an error when the names passed the constructors' validators. -/
theorem C12_table_present_iff (used : List String)
    (hv : ∀ c ∈ used, significant c = true → validColor colorTable c = true) :
    ∃ rows s, tableRows colorTable used = .ok rows ∧ generateColorTable colorTable (some used) = .ok s ∧
      (s ≠ "" ↔ ∃ c ∈ used, significant c = true) ∧
      (rows ≠ [] ↔ ∃ c ∈ used, significant c = true) ∧
      (s ≠ "" → s = "{\\colortbl;" ++ joinCodes rows ++ "\n}") := by
  obtain ⟨rows, hr⟩ := tableRows_total hv
  have hlen : rows.length = (used.filter significant).length := by
    have := (tableRows_ok hr).2.1.length_eq
    simpa [filtered] using this
  by_cases hex : ∃ c ∈ used, significant c = true
  · obtain ⟨c, hc, hs⟩ := hex
    have hmem : c ∈ used.filter significant := List.mem_filter.mpr ⟨hc, hs⟩
    have hne : used.filter significant ≠ [] := List.ne_nil_of_mem hmem
    have hrne : rows ≠ [] := by
      intro h0; rw [h0] at hlen; exact hne (List.eq_nil_of_length_eq_zero hlen.symm)
    have hemp : (filtered used).isEmpty = false := by
      cases hf : filtered used with
      | nil => exact absurd hf hne
      | cons _ _ => rfl
    refine ⟨rows, "{\\colortbl;" ++ joinCodes rows ++ "\n}", hr, ?_, ?_, ?_, fun _ => rfl⟩
    · cases rows with
      | nil => exact absurd rfl hrne
      | cons r rs => simp [generateColorTable, needsColorTable, hemp, hr]
    · constructor
      · intro _; exact ⟨c, hc, hs⟩
      · intro _ h
        have : ("{\\colortbl;" ++ joinCodes rows ++ "\n}").length = 0 := by rw [h]; rfl
        simp [String.length_append] at this
    · exact ⟨fun _ => ⟨c, hc, hs⟩, fun _ => hrne⟩
  · have hnil : used.filter significant = [] := by
      apply List.filter_eq_nil_iff.mpr
      intro c hc hs
      exact hex ⟨c, hc, hs⟩
    have hr0 : rows = [] := List.eq_nil_of_length_eq_zero (by rw [hlen, hnil]; rfl)
    refine ⟨rows, "", hr, ?_, ?_, ?_, fun h => absurd rfl h⟩
    · simp [generateColorTable, needsColorTable, filtered, hnil]
    · exact ⟨fun h => absurd rfl h, fun h => absurd h hex⟩
    · exact ⟨fun h => absurd hr0 h, fun h => absurd h hex⟩

/-! ## one reference -/

/-- A colour that is in the list (collected) and is not a default colour gets an index `i` with `1 ≤ i ≤ |table|`,
and entry `i` of the table is that colour's own row, whose printed code reads back as the RGB recorded for the name.
The same index is returned whether the list is passed explicitly or held in the context variable, and by
`Utils._get_color_index`. -/
theorem C12_index_resolves (used : List String) (rows : List ColorRow) (h : tableRows colorTable used = .ok rows)
    (c : String) (hc : c ∈ used) (hs : significant c = true) :
    ∃ i, rtfColorIndex colorTable (some used) c none = .ok i ∧
      rtfColorIndex colorTable none c (some used) = .ok i ∧
      utilsColorIndex colorTable (some used) c none = i ∧
      Resolves colorTable rows c i := by
  have h1 := rtfColorIndex_ctx hs hc h
  have h2 := resolves_of_mem idxInj seenRgb_eq (List.Perm.refl used) h hc hs
  exact ⟨indexIn rows c, h1.1, h1.2, h2.1, h2.2⟩

/-- `""` and `"black"` are index 0 on every path (any context, any list); `"black"` is RGB (0,0,0). -/
theorem C12_default_zero (ctx used : Option (List String)) (c : String) (h : c = "" ∨ c = "black") :
    rtfColorIndex colorTable ctx c used = .ok 0 ∧ utilsColorIndex colorTable ctx c used = 0 ∧
    requestedRgb colorTable "black" = some (0, 0, 0) := by
  have hs : significant c = false := by rcases h with rfl | rfl <;> decide
  exact ⟨by simp [rtfColorIndex, hs], utilsColorIndex_default _ _ _ _ hs, black_rgb⟩

/-- Whatever colour is asked for — collected or not, valid or not — the index printed while the context holds `used`
never points past the end of the table printed for `used`; a colour that is not in the list is printed as 0. -/
theorem C12_index_in_range (used : List String) (rows : List ColorRow) (h : tableRows colorTable used = .ok rows)
    (c : String) :
    utilsColorIndex colorTable (some used) c none ≤ rows.length ∧
    (c ∉ used → utilsColorIndex colorTable (some used) c none = 0) := by
  refine ⟨utilsColorIndex_le h c, ?_⟩
  intro hc
  by_cases hs : significant c = true
  · have hnm : c ∉ rows.map (·.name) := by
      intro hm
      have := (tableRows_ok h).2.1.mem_iff.mp hm
      exact hc (List.mem_filter.mp this).1
    cases he : (filtered used).isEmpty with
    | true => simp [utilsColorIndex, rtfColorIndex, hs, he]
    | false => simp [utilsColorIndex, rtfColorIndex, hs, he, h, indexIn_zero hnm]
  · exact utilsColorIndex_default _ _ _ _ (by simpa using hs)

/-! ## independence of the enumeration order of the collected set -/

/-- Two enumerations of the same collection give the same table (or both fail validation), the same table text and the
same index for every colour. -/
theorem C12_order_independent (u₁ u₂ : List String) (hp : u₁.Perm u₂) :
    (tableRows colorTable u₁ = tableRows colorTable u₂ ∨
      ∃ e₁ e₂, tableRows colorTable u₁ = .error e₁ ∧ tableRows colorTable u₂ = .error e₂) ∧
    (∀ c, utilsColorIndex colorTable (some u₁) c none = utilsColorIndex colorTable (some u₂) c none) ∧
    ((∀ c ∈ u₁, significant c = true → validColor colorTable c = true) →
      generateColorTable colorTable (some u₁) = generateColorTable colorTable (some u₂)) := by
  have ht := tableRows_perm idxInj hp
  have hemp : (filtered u₁).isEmpty = (filtered u₂).isEmpty := by
    have := (hp.filter significant).length_eq
    simp only [filtered]
    cases h1 : u₁.filter significant <;> cases h2 : u₂.filter significant <;> simp_all
  refine ⟨ht, ?_, ?_⟩
  · intro c
    simp only [utilsColorIndex]
    split
    · rfl
    · rename_i hs
      have hs' : significant c = true := by simpa using hs
      simp only [rtfColorIndex, hs', hemp]
      rcases ht with h | ⟨e₁, e₂, h₁, h₂⟩
      · rw [h]
      · rw [h₁, h₂]
        cases (filtered u₂).isEmpty <;> rfl
  · intro hv
    rcases ht with h | ⟨e₁, _, h₁, _⟩
    · simp only [generateColorTable, needsColorTable, hemp, h]
      rfl
    · obtain ⟨rows, hr⟩ := tableRows_total hv
      rw [hr] at h₁; cases h₁

/-! ## the document: every value an emitter can print was collected, on all three paths -/

/-- every collected colour passed the constructors' validators (`validate_text_color`, `validate_border_colors`, …) -/
def DocValid (d : Doc) : Prop := ∀ c ∈ collect d, validColor colorTable c = true

/-- Let the table be printed from one enumeration `e₁` of the collected set and the context hold another, `e₂`.
On each encoding path, for every component the path can print, every cell `(r, c)` and each of its text / background
colour attributes: whatever value `v` `BroadcastValue.iloc` hands to the emitter,
* if `v` is a non-default colour, the printed index resolves (in the sense of `Resolves`) to `v` in the printed table;
* otherwise the printed index is 0.
The table is non-empty iff the document uses a non-default colour. -/
theorem C12_document (p : Path) (d : Doc) (hv : DocValid d) (e₁ e₂ : List String)
    (h₁ : e₁.Perm (collect d)) (h₂ : e₂.Perm (collect d)) :
    ∃ rows, tableRows colorTable e₁ = .ok rows ∧
      (rows ≠ [] ↔ ∃ c ∈ collect d, significant c = true) ∧
      ∀ k ∈ emitters p d, ∀ a, (a = k.textColor ∨ a = k.bgColor) → ∀ r c v, a.at r c = .ok (some v) →
        (significant v = true → Resolves colorTable rows v (utilsColorIndex colorTable (some e₂) v none)) ∧
        (significant v = false → utilsColorIndex colorTable (some e₂) v none = 0) := by
  have hv₁ : ∀ c ∈ e₁, significant c = true → validColor colorTable c = true :=
    fun c hc _ => hv c (h₁.mem_iff.mp hc)
  obtain ⟨rows, s, hr, _, _, hne, _⟩ := C12_table_present_iff e₁ hv₁
  refine ⟨rows, hr, ?_, ?_⟩
  · rw [hne]
    constructor
    · rintro ⟨c, hc, hs⟩; exact ⟨c, h₁.mem_iff.mp hc, hs⟩
    · rintro ⟨c, hc, hs⟩; exact ⟨c, h₁.mem_iff.mpr hc, hs⟩
  · intro k hk a ha r c v hat
    refine ⟨?_, utilsColorIndex_default _ _ _ _⟩
    intro hs
    have hne' : v ≠ "" := by rintro rfl; exact absurd hs (by decide)
    have hcol : v ∈ collect d := by
      apply text_colors_collected hk
      rcases ha with rfl | rfl
      · exact Or.inl (at_colors hat hne')
      · exact Or.inr (at_colors hat hne')
    have := resolves_of_mem idxInj seenRgb_eq (h₁.trans h₂.symm) hr (h₂.mem_iff.mpr hcol) hs
    rw [this.1]; exact this.2

/-- The same for the border colours of EVERY component (`components d`: bodies, footnote / source and the other text
components, column headers — collected from the six `border_color_*` fields of each; repo fix, formerly of the bodies
only): whatever value `BroadcastValue.iloc` hands to `Border`, a `\brdrcf` printed from it resolves correctly. -/
theorem C12_border_refs (d : Doc) (e₁ e₂ : List String)
    (h₁ : e₁.Perm (collect d)) (h₂ : e₂.Perm (collect d)) (rows : List ColorRow)
    (hr : tableRows colorTable e₁ = .ok rows) :
    ∀ k ∈ components d, ∀ a ∈ k.borderColors, ∀ r c v, a.at r c = .ok (some v) →
      (significant v = true → Resolves colorTable rows v (utilsColorIndex colorTable (some e₂) v none)) ∧
      (significant v = false → utilsColorIndex colorTable (some e₂) v none = 0) := by
  intro k hk a ha r c v hat
  refine ⟨?_, utilsColorIndex_default _ _ _ _⟩
  intro hs
  have hne' : v ≠ "" := by rintro rfl; exact absurd hs (by decide)
  have hcol : v ∈ collect d := border_colors_collected hk ha (at_colors hat hne')
  have := resolves_of_mem idxInj seenRgb_eq (h₁.trans h₂.symm) hr (h₂.mem_iff.mpr hcol) hs
  rw [this.1]; exact this.2

/-- … in particular of every component an encoding path can print (`emitters p d ⊆ components d`) -/
theorem C12_border_refs_emitters (p : Path) (d : Doc) (e₁ e₂ : List String)
    (h₁ : e₁.Perm (collect d)) (h₂ : e₂.Perm (collect d)) (rows : List ColorRow)
    (hr : tableRows colorTable e₁ = .ok rows) :
    ∀ k ∈ emitters p d, ∀ a ∈ k.borderColors, ∀ r c v, a.at r c = .ok (some v) →
      (significant v = true → Resolves colorTable rows v (utilsColorIndex colorTable (some e₂) v none)) ∧
      (significant v = false → utilsColorIndex colorTable (some e₂) v none = 0) :=
  fun k hk => C12_border_refs d e₁ e₂ h₁ h₂ rows hr k (emitters_components p d hk)

/-- What `TextContent._get_text_formatting` prints: no `\cf` / `\cb` for `None` and `""`, otherwise exactly the index
the theorems above speak about; the font reference is `\f{font-1}`. -/
theorem C12_text_refs (ctx : Option (List String)) (font : Nat) (color bg : Option String) :
    (textRefs colorTable ctx font color bg).f = (font : Int) - 1 ∧
    (textRefs colorTable ctx font color bg).cf =
      (match color with
       | none => none
       | some c => if c = "" then none else some (utilsColorIndex colorTable ctx c none)) ∧
    (textRefs colorTable ctx font color bg).cb =
      (match bg with
       | none => none
       | some c => if c = "" then none else some (utilsColorIndex colorTable ctx c none)) := by
  refine ⟨rfl, ?_, ?_⟩
  · cases color with
    | none => rfl
    | some c => by_cases h : c = "" <;> simp [textRefs, colorRef, h]
  · cases bg with
    | none => rfl
    | some c => by_cases h : c = "" <;> simp [textRefs, colorRef, h]

/-! ## fonts -/

/-- For every font number `n` in 1..10 the reference printed is `\f{n-1}` and the emitted font table has an entry
`\f{n-1}` whose name is the name the library associates with font number `n`. -/
theorem C12_fonts (n : Nat) (h1 : 1 ≤ n) (h10 : n ≤ 10) :
    ∃ es name, fontEntries fontTable = .ok es ∧
      (textRefs colorTable none n none none).f = ((n - 1 : Nat) : Int) ∧
      fontEntryName es (n - 1) = some name ∧ fontNumberToName.lookup n = some name := by
  have key : ∀ m ∈ List.range' 1 10,
      (match fontEntries fontTable with
       | .ok es => (match fontEntryName es (m - 1), fontNumberToName.lookup m with
                    | some a, some b => a == b
                    | _, _ => false)
       | .error _ => false) = true := by decide
  have hm := key n (by rw [List.mem_range'_1]; omega)
  cases hes : fontEntries fontTable with
  | error e => simp [hes] at hm
  | ok es =>
    simp only [hes] at hm
    cases ha : fontEntryName es (n - 1) with
    | none => simp [ha] at hm
    | some a =>
      cases hb : fontNumberToName.lookup n with
      | none => simp [ha, hb] at hm
      | some b =>
        simp only [ha, hb, beq_iff_eq] at hm
        refine ⟨es, a, rfl, ?_, ha, by rw [hm]⟩
        simp only [textRefs]
        omega

/-- the emitted font table has exactly the entries `\f0 … \f9`, each once -/
theorem C12_font_table_entries :
    ∃ es, fontEntries fontTable = .ok es ∧ es.map (·.num) = List.range 10 := by
  have key : (match fontEntries fontTable with
      | .ok es => es.map (·.num) == List.range 10
      | .error _ => false) = true := by decide
  cases hes : fontEntries fontTable with
  | error e => simp [hes] at key
  | ok es => exact ⟨es, rfl, by simpa [hes] using key⟩

/-! ## no context: the full table -/

/-- Without a context and without a list (direct use of the service outside an encode) a valid non-default colour is
printed as its master index, and entry number `master index` of the full 657-entry table is that colour's own row. -/
theorem C12_full_table (c : String) (row : ColorRow) (hs : significant c = true)
    (hl : lookupRow colorTable c = some row) :
    rtfColorIndex colorTable none c none = .ok row.idx ∧
    1 ≤ row.idx ∧ row.idx ≤ (fullTableRows colorTable).length ∧
    (fullTableRows colorTable)[row.idx - 1]? = some row ∧ seenRgb row = requestedRgb colorTable c := by
  have hmem := (lookupRow_some hl).1
  have hpos := idx_pos row hmem
  rw [fullTableRows_eq]
  refine ⟨by simp [rtfColorIndex, hs, hl], hpos.1, hpos.2, ?_, ?_⟩
  · obtain ⟨k, hk, hget⟩ := List.mem_iff_getElem.mp hmem
    have hidx : (colorTable.map (·.idx))[k]'(by simpa using hk) = 1 + k := by
      have := idx_range
      simp only [this, List.getElem_range']
      omega
    rw [List.getElem_map, hget] at hidx
    have : row.idx - 1 = k := by omega
    rw [this, List.getElem?_eq_getElem hk, hget]
  · simp [requestedRgb, hl, seenRgb_eq row hmem, rowRgb]

/-! ## one numbering for the table and for the indices -/

/-- In the full 657-entry table the ONLY index that resolves to a colour is that colour's master index: an index `i`
whose entry is `c`'s own row is `row.idx`.  So an index computed in another numbering — the position of `c` in the
dense table of the colours a document uses — resolves in the full table only where the two numberings happen to
coincide. -/
theorem C12_full_table_only_master (c : String) (i : Nat)
    (h : Resolves colorTable (fullTableRows colorTable) c i) :
    ∃ row, lookupRow colorTable c = some row ∧ i = row.idx := by
  obtain ⟨row, hget, _, hl, _, _⟩ := h.entry
  refine ⟨row, hl, ?_⟩
  rw [fullTableRows_eq] at hget
  obtain ⟨hk, hrow⟩ := List.getElem?_eq_some_iff.mp hget
  have hidx : (colorTable.map (·.idx))[i - 1]'(by simpa using hk) = 1 + (i - 1) := by
    have := idx_range
    simp only [this, List.getElem_range']
    omega
  rw [List.getElem_map, hrow] at hidx
  have := h.pos
  omega

/-- **The table and the indices must use the same numbering.**  Both numberings are consistent by themselves — the
dense table with positions in the dense table (`C12_index_resolves`), the full table with master indices
(`C12_full_table`) — but they must not be mixed: a document whose only colour is red prints index 1 (red's position in
its dense table); entry 1 of the full table is white, index 1 does not resolve to red there, and the decidable oracle
the harness evaluates on real output (`useOk`: the entry's RGB is the requested colour's) rejects the reference.  (The
class of a seeded change that wrote the full table under a page option while the emitters kept the dense indices.) -/
theorem C12_mixed_numbering_wrong :
    utilsColorIndex colorTable (some ["red"]) "red" none = 1 ∧
    (fullTableRows colorTable)[0]?.map (·.name) = some "white" ∧
    ¬ Resolves colorTable (fullTableRows colorTable) "red" 1 ∧
    useOk colorTable (none :: (fullTableRows colorTable).map (fun r => some (rowRgb r))) ⟨1, "red"⟩ = false := by
  refine ⟨by decide +kernel, by rw [fullTableRows_eq]; decide +kernel, ?_, by rw [fullTableRows_eq]; decide +kernel⟩
  intro h
  obtain ⟨row, hl, hi⟩ := C12_full_table_only_master "red" 1 h
  have : (lookupRow colorTable "red").map (·.idx) = some 552 := by decide +kernel
  rw [hl] at this
  simp at this
  omega

/-! ## non-vacuity -/

/-- a list as `list(set)` may enumerate it, with defaults mixed in: the table is blue(26) < red(552), in that order,
whatever the enumeration, and red is entry 2 -/
example : (tableRows colorTable ["red", "", "black", "blue"]).toOption.map (·.map (·.idx)) = some [26, 552] ∧
    utilsColorIndex colorTable (some ["red", "", "black", "blue"]) "red" none = 2 ∧
    utilsColorIndex colorTable (some ["blue", "red"]) "red" none = 2 := by decide +kernel

def exampleDoc : Doc :=
  { bodies := [{ textColor := .nested [["red", "blue"], ["", "black"]], bgColor := .flat false ["gold"] }],
    texts := [{ textColor := .flat true ["aquamarine1", "aquamarine"] }],
    headers := [{ bgColor := .nested [["gray0"]], borderColors := [.none, .flat false ["orange"]] }] }

/-- the hypotheses of `C12_document` / `C12_border_refs` are satisfiable by a document with colours on a body, a title
and a header, the header with a border colour of its own (`orange`, collected since the repo fix) -/
example : DocValid exampleDoc ∧
    (collect exampleDoc).Perm ["gold", "aquamarine", "red", "gray0", "blue", "black", "aquamarine1", "orange"] ∧
    (∃ k ∈ components exampleDoc, ∃ a ∈ k.borderColors, a.at 0 0 = .ok (some "orange")) ∧
    (∃ c ∈ collect exampleDoc, significant c = true) := by
  refine ⟨?_, ?_, ?_, ?_⟩
  · intro c hc
    have : (collect exampleDoc).all (fun c => validColor colorTable c) = true := by decide +kernel
    exact List.all_eq_true.mp this c hc
  · decide
  · exact ⟨_, List.mem_append_right _ (List.mem_singleton.mpr rfl), _, List.mem_cons_of_mem _ (List.mem_singleton.mpr rfl),
      rfl⟩
  · exact ⟨"red", by decide, by decide⟩

end Props.C12
