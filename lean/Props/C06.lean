import Model.Layout
import Proofs.Paginate
import Proofs.LayoutRoles
/-!
# C06 — titles, headers, footnotes and sources appear on exactly the configured pages

About `renderPage d pg` / `layout d` of Model/Layout.lean.  "first"/"last" refer to `pg.number = 1`
and `pg.number = pg.total`; that page numbers are `1..P` with `total = P` is
Props.C02.C02_pages_structure.
-/
namespace Props.C06
open Model.Paginate Model.Layout Proofs.LayoutRoles

/-- position of a block kind in the required order
break, title, subline, subline heading, column headers, body (headings + data), footnote, source -/
def rank : Block → Nat
  | .brk => 0
  | .title => 1
  | .subline => 2
  | .sublineHeading _ => 3
  | .colHeader _ => 4
  | .heading _ _ => 5
  | .data _ => 5
  | .footnote _ => 6
  | .source _ => 7

theorem rank_eq_rk : rank = rk := by funext b; cases b <;> rfl

def isFirst (pg : PageCtx) : Bool := pg.number == 1
def isLast (pg : PageCtx) : Bool := pg.number == pg.total

/-- (1) order: on every page the blocks appear in the order title, subline, column headers, body,
footnote, source (after the page break) -/
theorem C06_order (d : LDoc) (pg : PageCtx) :
    ((renderPage d pg).map rank).Pairwise (· ≤ ·) := by
  rw [rank_eq_rk]
  exact (renderPage_sorted d pg).1

/-- (2) each of title / subline / footnote / source appears at most once, and exactly on the pages
its placement option selects -/
theorem C06_title (d : LDoc) (pg : PageCtx) :
    (renderPage d pg).count Block.title =
      if d.hasTitle && d.pageTitle.shows (isFirst pg) (isLast pg) then 1 else 0 := by
  rw [renderPage_eq]
  simp only [List.count_append]
  rw [count_zero_of_rk (segBrk_rk pg) (by decide), count_zero_of_rk (segSubline_rk d pg) (by decide),
    count_zero_of_rk (segSubHeading_rk d pg) (by decide),
    count_zero_of_rk (segColHeaders_rk d pg) (by decide),
    count_zero_of_rk (segTop_rk d pg) (by decide),
    count_zero_of_rk (segBody_rk d pg) (by decide),
    count_zero_of_rk (segFootnote_rk d pg) (by decide),
    count_zero_of_rk (segSource_rk d pg) (by decide)]
  unfold segTitle isFirst isLast
  split <;> simp

theorem C06_subline (d : LDoc) (pg : PageCtx) :
    (renderPage d pg).count Block.subline =
      if d.hasSublineTxt && d.pageTitle.shows (isFirst pg) (isLast pg) then 1 else 0 := by
  rw [renderPage_eq]
  simp only [List.count_append]
  rw [count_zero_of_rk (segBrk_rk pg) (by decide), count_zero_of_rk (segTitle_rk d pg) (by decide),
    count_zero_of_rk (segSubHeading_rk d pg) (by decide),
    count_zero_of_rk (segColHeaders_rk d pg) (by decide),
    count_zero_of_rk (segTop_rk d pg) (by decide),
    count_zero_of_rk (segBody_rk d pg) (by decide),
    count_zero_of_rk (segFootnote_rk d pg) (by decide),
    count_zero_of_rk (segSource_rk d pg) (by decide)]
  unfold segSubline isFirst isLast
  split <;> simp

theorem C06_footnote (d : LDoc) (pg : PageCtx) :
    ((renderPage d pg).filter (fun b => match b with | .footnote _ => true | _ => false)) =
      if d.footnote != .absent && d.pageFootnote.shows (isFirst pg) (isLast pg)
      then [Block.footnote (d.footnote == .table)] else [] := by
  have hp : ∀ b : Block, (match b with | .footnote _ => true | _ => false) = true → rk b = 6 := by
    intro b; cases b <;> simp [rk]
  rw [renderPage_eq]
  simp only [List.filter_append]
  rw [filter_nil_of_rk (segBrk_rk pg) hp (by decide),
    filter_nil_of_rk (segTitle_rk d pg) hp (by decide),
    filter_nil_of_rk (segSubline_rk d pg) hp (by decide),
    filter_nil_of_rk (segSubHeading_rk d pg) hp (by decide),
    filter_nil_of_rk (segColHeaders_rk d pg) hp (by decide),
    filter_nil_of_rk (segTop_rk d pg) hp (by decide),
    filter_nil_of_rk (segBody_rk d pg) hp (by decide),
    filter_nil_of_rk (segSource_rk d pg) hp (by decide)]
  unfold segFootnote isFirst isLast
  split <;> simp

theorem C06_source (d : LDoc) (pg : PageCtx) :
    ((renderPage d pg).filter (fun b => match b with | .source _ => true | _ => false)) =
      if d.source != .absent && d.pageSource.shows (isFirst pg) (isLast pg)
      then [Block.source (d.source == .table)] else [] := by
  have hp : ∀ b : Block, (match b with | .source _ => true | _ => false) = true → rk b = 7 := by
    intro b; cases b <;> simp [rk]
  rw [renderPage_eq]
  simp only [List.filter_append]
  rw [filter_nil_of_rk (segBrk_rk pg) hp (by decide),
    filter_nil_of_rk (segTitle_rk d pg) hp (by decide),
    filter_nil_of_rk (segSubline_rk d pg) hp (by decide),
    filter_nil_of_rk (segSubHeading_rk d pg) hp (by decide),
    filter_nil_of_rk (segColHeaders_rk d pg) hp (by decide),
    filter_nil_of_rk (segTop_rk d pg) hp (by decide),
    filter_nil_of_rk (segBody_rk d pg) hp (by decide),
    filter_nil_of_rk (segFootnote_rk d pg) hp (by decide)]
  unfold segSource isFirst isLast
  split <;> simp

/-- (3) column headers: on the first page, and on later pages exactly when pageby_header is true;
one row per header object that has text or is auto-populated -/
theorem C06_col_headers (d : LDoc) (pg : PageCtx) :
    ((renderPage d pg).filterMap (fun b => match b with | .colHeader k => some k | _ => none)) =
      if d.pagebyHeader || isFirst pg then
        (d.headers.zipIdx.filterMap fun (x : Bool × Nat) => if x.1 || d.asColheader then some x.2 else none)
      else [] := by
  have hf : ∀ b : Block, (match b with | .colHeader k => some k | _ => none).isSome = true → rk b = 4 := by
    intro b; cases b <;> simp [rk]
  rw [renderPage_eq]
  simp only [List.filterMap_append]
  rw [filterMap_nil_of_rk (segBrk_rk pg) hf (by decide),
    filterMap_nil_of_rk (segTitle_rk d pg) hf (by decide),
    filterMap_nil_of_rk (segSubline_rk d pg) hf (by decide),
    filterMap_nil_of_rk (segSubHeading_rk d pg) hf (by decide),
    filterMap_nil_of_rk (segTop_rk d pg) hf (by decide),
    filterMap_nil_of_rk (segBody_rk d pg) hf (by decide),
    filterMap_nil_of_rk (segFootnote_rk d pg) hf (by decide),
    filterMap_nil_of_rk (segSource_rk d pg) hf (by decide)]
  unfold segColHeaders isFirst
  split
  · simp only [List.nil_append, List.append_nil, List.filterMap_filterMap]
    congr 1
    funext x
    cases h : (x.1 || d.asColheader) <;> simp
  · simp

/-- (4) every page after the first begins with exactly one page break; the first page has none -/
theorem C06_break (d : LDoc) (pg : PageCtx) :
    (isFirst pg = true → Block.brk ∉ renderPage d pg) ∧
    (isFirst pg = false → ∃ rest, renderPage d pg = Block.brk :: rest ∧ Block.brk ∉ rest) := by
  have hrest : Block.brk ∉ segTitle d pg ++ segSubline d pg ++ segSubHeading d pg ++ segColHeaders d pg ++
      segTop d pg ++ segBody d pg ++ segFootnote d pg ++ segSource d pg := by
    simp only [List.mem_append, not_or]
    exact ⟨⟨⟨⟨⟨⟨⟨not_mem_of_rk (segTitle_rk d pg) (by decide),
      not_mem_of_rk (segSubline_rk d pg) (by decide)⟩,
      not_mem_of_rk (segSubHeading_rk d pg) (by decide)⟩,
      not_mem_of_rk (segColHeaders_rk d pg) (by decide)⟩,
      not_mem_of_rk (segTop_rk d pg) (by decide)⟩,
      not_mem_of_rk (segBody_rk d pg) (by decide)⟩,
      not_mem_of_rk (segFootnote_rk d pg) (by decide)⟩,
      not_mem_of_rk (segSource_rk d pg) (by decide)⟩
  have heq : renderPage d pg = segBrk pg ++ (segTitle d pg ++ segSubline d pg ++ segSubHeading d pg ++
      segColHeaders d pg ++ segTop d pg ++ segBody d pg ++ segFootnote d pg ++ segSource d pg) := by
    rw [renderPage_eq]; simp only [List.append_assoc]
  rw [heq]
  unfold isFirst segBrk
  constructor
  · intro h
    rw [if_pos h, List.nil_append]
    exact hrest
  · intro h
    rw [if_neg (by rw [h]; decide)]
    exact ⟨_, rfl, hrest⟩

/-- (5) under an explicit description of the page list (independent of how `LDoc.pages` is computed) -/
theorem C06_single_page_of_struct (d : LDoc) (pt pf ps : Placement)
    (hstruct : ∀ pg ∈ d.pages, pg.number = 1 ∧ pg.total = 1) :
    layout { d with pageTitle := pt, pageFootnote := pf, pageSource := ps } = layout d := by
  unfold layout
  rw [pages_placement]
  apply List.map_congr_left
  intro pg hpg
  exact renderPage_placement_of_single d pt pf ps pg (hstruct pg hpg).1 (hstruct pg hpg).2

/-- (5) on a one-page document 'first', 'last' and 'all' are indistinguishable -/
theorem C06_single_page (d : LDoc) (pt pf ps : Placement) (h : d.pages.length = 1) :
    layout { d with pageTitle := pt, pageFootnote := pf, pageSource := ps } = layout d := by
  exact C06_single_page_of_struct d pt pf ps (single_page_struct d h)

/-- (6) `shows` is what the option names mean -/
theorem C06_shows (f l : Bool) :
    Placement.all.shows f l = true ∧ Placement.first.shows f l = f ∧ Placement.last.shows f l = l := by
  exact ⟨rfl, rfl, rfl⟩

/-- non-vacuity: 3 pages, title first, footnote last, source all, headers repeated -/
example :
    (layout { nrow := 5, rows := (List.range 5).map (fun _ => ⟨1, [], [], 1, 1⟩), hasPageBy := false,
              hasSubline := false, newPage := false, pagebyColumn := true, pagebyHeader := true,
              headers := [true], asColheader := true, hasTitle := true, hasSublineTxt := false,
              footnote := .table, source := .para, pageTitle := .first, pageFootnote := .last,
              pageSource := .all })
      = [[.title, .colHeader 0, .data 0, .data 1, .source false],
         [.brk, .colHeader 0, .data 2, .data 3, .source false],
         [.brk, .colHeader 0, .data 4, .footnote true, .source false]] := by decide

end Props.C06
