import Model.ValidateHist
import Proofs.ValidateHist
/-!
# C19 over histories — every constructor call is judged in the file-system state AT THAT CALL

`Props/C19.lean` states the figure clause for one call whose argument carries the existence flags
(`FigArgs.figures`): in the model, existence is an *input of each call*; nothing is remembered between calls.
Here the same is stated for whole histories (`Model.ValidateHist`): constructor calls with files created,
replaced, deleted, renamed (other name, other suffix, other directory) and the working directory changed in
between, paths absolute or relative.

* `C19hist_call_is_constructFigure` — a call in state `fs` is `Model.Validate.constructFigure` applied to the
  existence flags read off `fs` (all of `C19_figure_*` applies to every call of every history);
* `C19hist_verdict_at_call` / `C19hist_run_append` — folding the construction over ANY history, the verdict of a
  call is `constructFigureAt` of the state reached by the file-system events before it;
  `C19hist_same_state_same_verdict`, `C19hist_earlier_calls_irrelevant`: two histories that reach the same state
  give the call the same verdict — whatever calls were made before (accepted or refused, with the same path or
  not) does not enter.  Trivial in the model (it has no memory); it is the statement the correspondence ties to
  the code: `harness/props/c19.py` runs histories against the real constructors in one process and compares every
  call with `run` / `runSpec`.
* `C19hist_meets_spec` — the model meets the specification verdict at every call;
  `C19hist_missing_now_never_constructed`, `C19hist_deleted_then_rejected`, `C19hist_renamed_then_rejected`,
  `C19hist_chdir_then_rejected` — a file that is missing NOW is refused even if the same call was accepted
  before; `C19hist_created_then_accepted` — and a file that exists NOW is accepted even if the call was refused
  before.
-/
namespace Props.C19hist
open Model.Validate Model.ValidateSpec Model.ValidateHist Proofs.Validate Proofs.ValidateHist

/-! ## one call -/

/-- With no unsupported-format file among the paths, a call in state `fs` is exactly `constructFigure` on the
existence flags of that state: `FigArgs.figures` is "exists at the time of the call". -/
theorem C19hist_call_is_constructFigure (fs : Fs) (c : FigCall) (h : anyOther fs c = false) :
    constructFigureAt fs c = constructFigure (c.toArgs fs) := by
  unfold constructFigureAt constructFigure
  by_cases hf : figFieldsOk (c.toArgs fs) = true
  · simp only [hf, Bool.not_true, Bool.false_eq_true, if_false, toArgs_figMissing]
    unfold anyOther at h
    unfold anyMissing
    cases hp : c.paths with
    | none => simp
    | some ps =>
      simp only [hp] at h ⊢
      have hno : ∀ s ∈ ps.map fs.status, s ≠ .other := by
        intro s hs
        obtain ⟨p, hmem, rfl⟩ := List.mem_map.mp hs
        intro heq
        have := List.any_eq_false.mp h p hmem
        simp [heq] at this
      rw [checkPaths_no_other _ hno]
      by_cases hm : (ps.any fun p => fs.status p == .missing) = true
      · have : (ps.map fs.status).all (· != .missing) = false := by
          obtain ⟨p, hmem, hs⟩ := List.any_eq_true.mp hm
          apply Bool.eq_false_iff.mpr
          intro hall
          have := List.all_eq_true.mp hall (fs.status p) (List.mem_map_of_mem hmem)
          simp_all
        simp [hm, this]
      · have : (ps.map fs.status).all (· != .missing) = true := by
          apply List.all_eq_true.mpr
          intro s hs
          obtain ⟨p, hmem, rfl⟩ := List.mem_map.mp hs
          have := List.any_eq_false.mp (Bool.eq_false_iff.mpr hm) p hmem
          simpa using this
        simp [hm, this]
  · simp [hf]

/-- The model meets the specification verdict of every call in every state. -/
theorem C19hist_meets_spec (fs : Fs) (c : FigCall) :
    (specFigureAt fs c = .reject → constructFigureAt fs c = .error .validationError) ∧
    (specFigureAt fs c = .notFound → constructFigureAt fs c = .error .fileNotFound) ∧
    (specFigureAt fs c = .rejectAny →
      constructFigureAt fs c = .error .validationError ∨ constructFigureAt fs c = .error .fileNotFound) ∧
    (specFigureAt fs c = .accept → constructFigureAt fs c = .ok ()) := by
  by_cases hd : figInDomain (c.toArgs fs) = true
  · have hfe := figFieldsOk_eq (c.toArgs fs) hd
    by_cases hi : figIllegal (c.toArgs fs) = true
    · -- an illegal field: ValidationError before the paths are looked at
      have hc : constructFigureAt fs c = .error .validationError := by
        simp [constructFigureAt, hfe, hi]
      by_cases hm : anyMissing fs c = true <;> simp [specFigureAt, hd, hi, hm, hc]
    · have hi' : figIllegal (c.toArgs fs) = false := Bool.eq_false_iff.mpr hi
      by_cases ho : anyOther fs c = true
      · have hne := constructFigureAt_missing_ne_ok fs c
        rcases hcase : constructFigureAt fs c with e | u
        · have hcases : e = .fileNotFound ∨ e = .validationError := by
            unfold constructFigureAt at hcase
            simp only [hfe, hi', Bool.not_false, Bool.not_true, Bool.false_eq_true, if_false] at hcase
            cases hp : c.paths with
            | none => simp [hp] at hcase
            | some ps =>
              simp only [hp] at hcase
              rcases checkPaths_cases (ps.map fs.status) with h | h | h <;> rw [h] at hcase
              · cases hcase
              · left; injection hcase with h'; exact h'.symm
              · right; injection hcase with h'; exact h'.symm
          by_cases hm : anyMissing fs c = true
          · rcases hcases with rfl | rfl <;> simp [specFigureAt, hd, hi', hm, ho]
          · simp [specFigureAt, hd, hi', hm, ho]
        · by_cases hm : anyMissing fs c = true
          · exact absurd hcase (hne hm)
          · simp [specFigureAt, hd, hi', hm, ho]
      · have ho' : anyOther fs c = false := Bool.eq_false_iff.mpr ho
        rw [C19hist_call_is_constructFigure fs c ho', constructFigure_of_domain _ hd, toArgs_figMissing]
        by_cases hm : anyMissing fs c = true <;> simp [specFigureAt, hd, hi', hm, ho']
  · simp [specFigureAt, hd]

/-- A path that names no file NOW never yields an RTFFigure. -/
theorem C19hist_missing_never_constructed (fs : Fs) (c : FigCall) (h : anyMissing fs c = true) :
    constructFigureAt fs c ≠ .ok () :=
  constructFigureAt_missing_ne_ok fs c h

/-! ## histories: each verdict depends only on the state at that call -/

/-- Folding the construction over any history: the verdict of a call is `constructFigureAt` of the state reached
by the events before it; what precedes and what follows is judged on its own. -/
theorem C19hist_run_append (fs : Fs) (pre : List Ev) (c : FigCall) (post : List Ev) :
    run fs (pre ++ .call c :: post) =
      run fs pre ++ constructFigureAt (pre.foldl step fs) c :: run (pre.foldl step fs) post :=
  run_append_call fs pre c post

/-- … and so is the specification verdict the harness compares it with. -/
theorem C19hist_runSpec_append (fs : Fs) (pre : List Ev) (c : FigCall) (post : List Ev) :
    runSpec fs (pre ++ .call c :: post) =
      runSpec fs pre ++ specFigureAt (pre.foldl step fs) c :: runSpec (pre.foldl step fs) post :=
  runSpec_append_call fs pre c post

/-- The verdict of a call made after ANY history `pre`. -/
theorem C19hist_verdict_at_call (fs : Fs) (pre : List Ev) (c : FigCall) :
    (run fs (pre ++ [.call c])).getLast? = some (constructFigureAt (pre.foldl step fs) c) := by
  rw [run_append_call]
  simp [run]

/-- Constructor calls leave the state alone: the state a call is judged in is the one reached by the file-system
events alone. -/
theorem C19hist_calls_leave_state (fs : Fs) (evs : List Ev) :
    evs.foldl step fs = (evs.filter (fun e => !e.isCall)).foldl step fs :=
  foldl_step_filter fs evs

/-- Two histories that reach the same file-system state give a call the same verdict. -/
theorem C19hist_same_state_same_verdict (fs fs' : Fs) (pre pre' : List Ev) (c : FigCall)
    (h : pre.foldl step fs = pre'.foldl step fs') :
    (run fs (pre ++ [.call c])).getLast? = (run fs' (pre' ++ [.call c])).getLast? := by
  rw [C19hist_verdict_at_call, C19hist_verdict_at_call, h]

/-- In particular the calls made earlier — accepted or refused, with the same paths or others — are irrelevant:
dropping them all from the history leaves the verdict. -/
theorem C19hist_earlier_calls_irrelevant (fs : Fs) (pre : List Ev) (c : FigCall) :
    (run fs (pre ++ [.call c])).getLast? =
      (run fs (pre.filter (fun e => !e.isCall) ++ [.call c])).getLast? :=
  C19hist_same_state_same_verdict fs fs pre _ c (foldl_step_filter fs pre)

/-- A call one of whose paths names no file in the state reached is refused — whatever happened before, e.g.
the very same call having been accepted while the file was there. -/
theorem C19hist_missing_now_never_constructed (fs : Fs) (pre : List Ev) (c : FigCall)
    (h : anyMissing (pre.foldl step fs) c = true) :
    ∃ r, (run fs (pre ++ [.call c])).getLast? = some r ∧ r ≠ .ok () :=
  ⟨_, C19hist_verdict_at_call fs pre c, constructFigureAt_missing_ne_ok _ c h⟩

/-- file deleted, then the call (absolute path, or relative in the working directory) -/
theorem C19hist_deleted_then_rejected (fs : Fs) (pre : List Ev) (c : FigCall) (ps : List PathRef)
    (hp : c.paths = some ps) (d : Nat) (n : String)
    (hmem : .abs d n ∈ ps ∨ (.rel n ∈ ps ∧ (pre.foldl step fs).cwd = d)) :
    ∃ r, (run fs (pre ++ [.delete d n, .call c])).getLast? = some r ∧ r ≠ .ok () := by
  have happ : pre ++ [Ev.delete d n, .call c] = (pre ++ [.delete d n]) ++ [.call c] := by simp
  rw [happ]
  apply C19hist_missing_now_never_constructed
  simp only [List.foldl_append, List.foldl_cons, List.foldl_nil]
  rcases hmem with h | ⟨h, hcwd⟩
  · exact anyMissing_mem _ c ps hp _ h (status_of_has_false _ _ (has_after_delete _ d n))
  · refine anyMissing_mem _ c ps hp _ h (status_of_has_false _ _ ?_)
    have : (step (pre.foldl step fs) (.delete d n)).cwd = d := by simp [step, hcwd]
    simp only [Fs.resolve, this]
    exact has_after_delete _ d n

/-- file renamed away (other name, other suffix, other directory), then the call with the old name -/
theorem C19hist_renamed_then_rejected (fs : Fs) (pre : List Ev) (c : FigCall) (ps : List PathRef)
    (hp : c.paths = some ps) (d : Nat) (n : String) (d' : Nat) (n' : String)
    (hne : (d, n) ≠ (d', n')) (hex : (pre.foldl step fs).has d n = true) (hmem : .abs d n ∈ ps) :
    ∃ r, (run fs (pre ++ [.rename d n d' n', .call c])).getLast? = some r ∧ r ≠ .ok () := by
  have happ : pre ++ [Ev.rename d n d' n', .call c] = (pre ++ [.rename d n d' n']) ++ [.call c] := by simp
  rw [happ]
  apply C19hist_missing_now_never_constructed
  simp only [List.foldl_append, List.foldl_cons, List.foldl_nil]
  exact anyMissing_mem _ c ps hp _ hmem
    (status_of_has_false _ _ (has_after_rename_source _ d n d' n' hne hex))

/-- the process changes into a directory that has no file of that name, then the call with the relative path -/
theorem C19hist_chdir_then_rejected (fs : Fs) (pre : List Ev) (c : FigCall) (ps : List PathRef)
    (hp : c.paths = some ps) (d : Nat) (n : String)
    (hno : (pre.foldl step fs).has d n = false) (hmem : .rel n ∈ ps) :
    ∃ r, (run fs (pre ++ [.chdir d, .call c])).getLast? = some r ∧ r ≠ .ok () := by
  have happ : pre ++ [Ev.chdir d, .call c] = (pre ++ [.chdir d]) ++ [.call c] := by simp
  rw [happ]
  apply C19hist_missing_now_never_constructed
  simp only [List.foldl_append, List.foldl_cons, List.foldl_nil]
  refine anyMissing_mem _ c ps hp _ hmem (status_of_has_false _ _ ?_)
  simpa [step, Fs.resolve, Fs.has] using hno

/-- the other direction (a remembered refusal would be as wrong as a remembered acceptance): the file is
created, then a call with legal fields whose only path it is — accepted, whatever was refused before -/
theorem C19hist_created_then_accepted (fs : Fs) (pre : List Ev) (c : FigCall) (d : Nat) (n : String)
    (hp : c.paths = some [.abs d n]) (hemb : embeddable n = true)
    (hdom : figInDomain (c.toArgs (step (pre.foldl step fs) (.create d n))) = true)
    (hleg : figIllegal (c.toArgs (step (pre.foldl step fs) (.create d n))) = false) :
    (run fs (pre ++ [.create d n, .call c])).getLast? = some (.ok ()) := by
  have happ : pre ++ [Ev.create d n, .call c] = (pre ++ [.create d n]) ++ [.call c] := by simp
  rw [happ, C19hist_verdict_at_call]
  simp only [List.foldl_append, List.foldl_cons, List.foldl_nil]
  have hst : (step (pre.foldl step fs) (.create d n)).status (.abs d n) = .image := by
    simp [Fs.status, Fs.resolve, has_after_create, hemb]
  have hspec : specFigureAt (step (pre.foldl step fs) (.create d n)) c = .accept := by
    simp [specFigureAt, hdom, hleg, anyMissing, anyOther, hp, hst]
  rw [(C19hist_meets_spec _ c).2.2.2 hspec]

/-! ## the hypotheses are satisfiable; the histories the harness runs -/

/-- `RTFFigure(figures="d0/plot.png")` accepted; file deleted → `FileNotFoundError`; created again → accepted;
renamed to `plot.txt` → the old name is missing, the new one is not embeddable; relative path after `chdir`. -/
example :
    let c : FigCall := { paths := some [.abs 0 "plot.png"] }
    let r : FigCall := { paths := some [.rel "plot.png"] }
    let t : FigCall := { paths := some [.abs 0 "plot.txt"] }
    run { cwd := 0, files := [(0, "plot.png")] }
      [.call c, .delete 0 "plot.png", .call c, .create 0 "plot.png", .call c, .call r, .chdir 1, .call r,
       .chdir 0, .rename 0 "plot.png" 0 "plot.txt", .call c, .call t] =
      [.ok (), .error .fileNotFound, .ok (), .ok (), .error .fileNotFound, .error .fileNotFound,
       .error .validationError] ∧
    runSpec { cwd := 0, files := [(0, "plot.png")] }
      [.call c, .delete 0 "plot.png", .call c, .chdir 1, .call r,
       .call { c with figAlign := some (.str "middle") }] =
      [.accept, .notFound, .notFound, .rejectAny] := by
  decide +kernel

end Props.C19hist
