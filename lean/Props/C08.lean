import Model.Widths
import Model.WidthsHist
import Proofs.Widths
import Generated.Constants
/-!
# C08 — all rows of a table share one right edge and proportional columns

Model: `Model.Widths` (`Utils._col_widths`, `inch_to_twip`, width resolution in
`RTFDocument.__init__`, slicing in `prepare_dataframe_for_body_encoding`, header widths in
`PageRenderer._render_column_headers` **as repaired** by `fixes/header-widths-after-column-removal.patch`,
spanning rows, footnote/source rows).  Floats are exact rationals; `twip x = round(1440·x)`, ties to even.

All statements hold for width lists of any length and every positive table width.
-/
namespace Props.C08
open Model.Widths Model.WidthsHist Proofs.Widths

/-- the constant the model hard-wires is the one in `core/constants.py` (regenerated every run) -/
theorem C08_twips_per_inch : Generated.twipsPerInch = 1440 := by decide

/-! ## one right edge -/

/-- In exact arithmetic the last cumulative width IS the table width … -/
theorem C08_last_is_W (w : List Rat) (W : Rat) (hne : w ≠ []) (hp : AllPos w) :
    (colWidths w W).getLast? = some W :=
  colWidths_getLast? w W hne (by have := sumQ_pos w hne hp; grind)

/-- … so the last `\cellx` of a row built from `colWidths w W` is `twip W`. -/
theorem C08_right_edge (w : List Rat) (W : Rat) (hne : w ≠ []) (hp : AllPos w) :
    ((colWidths w W).map twip).getLast? = some (twip W) :=
  getLast?_map_twip _ _ (C08_last_is_W w W hne hp)

/-! ## proportional columns -/

/-- Boundary `k` sits exactly at `W·(Σ_{i≤k} w_i)/Σw` inches, and its `\cellx` value is at most
half a twip away from `1440·W·(Σ_{i≤k} w_i)/Σw`. -/
theorem C08_boundary_proportional (w : List Rat) (W : Rat) (k : Nat) (c : Rat)
    (h : (colWidths w W)[k]? = some c) :
    c = sumQ (w.take (k + 1)) * W / sumQ w ∧
    ((twip c : Int) : Rat) - 1440 * W * sumQ (w.take (k + 1)) / sumQ w ≤ 1 / 2 ∧
    1440 * W * sumQ (w.take (k + 1)) / sumQ w - ((twip c : Int) : Rat) ≤ 1 / 2 := by
  rw [colWidths_eq_exact] at h
  unfold exactPositions at h
  rw [List.getElem?_map] at h
  cases hp : (prefFrom 0 w)[k]? with
  | none => simp [hp] at h
  | some p =>
    rw [hp] at h
    simp only [Option.map_some, Option.some.injEq] at h
    have hpk := prefFrom_getElem? 0 w k p hp
    have hc : c = sumQ (w.take (k + 1)) * W / sumQ w := by
      rw [← h, hpk]; congr 2; grind
    have e : 1440 * W * sumQ (w.take (k + 1)) / sumQ w = c * 1440 := by
      rw [hc]; simp only [Rat.div_def]; grind
    refine ⟨hc, ?_, ?_⟩
    · rw [e]; exact round_sub_le (c * 1440)
    · rw [e]; exact sub_round_le (c * 1440)

/-- Boundaries in inches are strictly positive and strictly increasing; in twips they are never
negative and never decrease. -/
theorem C08_monotone (w : List Rat) (W : Rat) (hW : 0 < W) (hp : AllPos w) :
    (∀ c ∈ colWidths w W, 0 < c) ∧ List.Pairwise (· < ·) (colWidths w W) ∧
    (∀ t ∈ (colWidths w W).map twip, 0 ≤ t) ∧ List.Pairwise (· ≤ ·) ((colWidths w W).map twip) :=
  ⟨(colWidths_increasing w W hW hp).1, (colWidths_increasing w W hW hp).2,
   (twips_monotone w W hW hp).1, (twips_monotone w W hW hp).2⟩

/-- A boundary lying more than half a twip from the left edge has a strictly positive `\cellx`
(for the stated domain — widths in [0.2,10], ≤ 12 columns, W ≥ 2 — the first boundary is ≥ 5 twips). -/
theorem C08_positive (c : Rat) (h : 1 / 2 < c * 1440) : 0 < twip c :=
  round_pos h

/-! ## spanning rows, footnote / source rows -/

theorem C08_spanning_row (W : Rat) (hW : 0 < W) : spanRow W = [twip W] := by
  have : W ≠ 0 := by grind
  simp [spanRow, spanRowQ, this]

/-- footnote / source rendered as table with a one-entry width vector (default `[1.0]`) -/
theorem C08_footnote_row (x W : Rat) (hx : 0 < x) : footRow [x] W = .ok [twip W] := by
  have : x ≠ 0 := by grind
  simp [footRow, toTwips, footRowQ_single x W this]

/-- … and with ANY non-empty vector of positive widths (repo fix 'one cell spanning the table': the cell ends at
the last boundary; it used to end at the first one, see `C08enc`) -/
theorem C08_footnote_row_any (w : List Rat) (W : Rat) (hne : w ≠ []) (hp : AllPos w) : footRow w W = .ok [twip W] := by
  have hl := C08_last_is_W w W hne hp
  simp [footRow, footRowQ, rowQ, toTwips, hl]

/-! ## headers line up with the data columns — after page_by / subline_by column removal -/

/-- A header that inherited the body's widths (one text cell per displayed column) has exactly the
data rows' boundary vector, for every body vector, every removal mask and every width (the two
computations are the same function, error cases included). -/
theorem C08_header_inherited_aligns (uw : Option (List Rat)) (ncol : Nat) (keep : List Bool) (W : Rat) :
    headerRow (inheritHeader none (resolveBody uw ncol)) keep (nDisplayed keep) W =
      dataRow (resolveBody uw ncol) keep W := by
  simp only [headerRow, dataRow, headerRowQ_inherited]

/-- The code before the repair (header keeps the pre-removal vector) violates this: 3 equal columns,
the first removed by page_by, W = 6.25 in: header `\cellx3000,6000`, data `\cellx4500,9000` (D9). -/
theorem C08_unrepaired_header_witness :
    headerRowOld (inheritHeader none (resolveBody none 3)) [false, true, true] 2 (25 / 4) = .ok [3000, 6000] ∧
    dataRow (resolveBody none 3) [false, true, true] (25 / 4) = .ok [4500, 9000] := by
  decide +kernel

/-! ## the whole section: every row kind, and the oracle used on the implementation -/

/-- For every well-formed section (consistent shapes, positive widths, ≥ 1 displayed column, W > 0)
the model produces rows, every one of them ends at `twip W`, and the decidable specification
`checkRows` (the oracle the harness evaluates on rtflite's real output, here with zero tolerance)
reports no violated clause: right edge, proportionality within one twip for data rows, alignment
of inherited headers. -/
theorem C08_section (s : Section) (h : WFSection s) :
    ∃ rows, sectionRows s = .ok rows ∧
      (∀ r ∈ rows, r.2.getLast? = some (twip s.W)) ∧
      checkRows 0 s.W (bodyProcessed (resolveBody s.userW s.ncol) s.keep) rows = [] := by
  obtain ⟨hs, f, g, e, hgood, hkind⟩ := sectionRowsQ_ok s h
  let pw := bodyProcessed (resolveBody s.userW s.ncol) s.keep
  have hbw := resolveBody_wf s.userW s.ncol s.keep h.keepLen h.disp h.user
  obtain ⟨hpp, hpl⟩ := bodyProcessed_wf _ _ hbw
  have hpne : pw ≠ [] := by
    intro he; have := h.disp; simp only [pw] at he; rw [he] at hpl; simp at hpl; omega
  have hW0 : s.W ≠ 0 := by have := h.Wpos; grind
  -- every row of the section is a good row
  have hall : ∀ r ∈ hs ++ [(Kind.span, [s.W]), (Kind.data, colWidths pw s.W)] ++ f ++ g,
      GoodQ s.W pw r := by
    intro r hr
    simp only [List.mem_append, List.mem_cons, List.not_mem_nil, or_false] at hr
    rcases hr with ((hr | hr | hr) | hr) | hr
    · exact hgood r (by simp [hr])
    · subst hr
      refine ⟨[1], ?_, by simp, (colWidths_single 1 s.W (by decide)).symm, ?_⟩
      · intro y hy; simp at hy; subst hy; decide
      · intro hk; rcases hk with hk | ⟨j, hk⟩ <;> simp at hk
    · subst hr; exact ⟨pw, hpp, hpne, rfl, fun _ => rfl⟩
    · exact hgood r (by simp [hr])
    · exact hgood r (by simp [hr])
  refine ⟨_, sectionRows_eq s _ e, ?_, ?_⟩
  · intro r hr
    simp only [twipRows, List.mem_map] at hr
    obtain ⟨q, hq, rfl⟩ := hr
    exact getLast?_map_twip _ _ (goodQ_last (hall q hq))
  · unfold checkRows
    have hdv : dataVecOf (twipRows (hs ++ [(Kind.span, [s.W]), (Kind.data, colWidths pw s.W)] ++ f ++ g))
        = some ((colWidths pw s.W).map twip) := by
      simp only [twipRows, List.map_append, List.append_assoc]
      rw [dataVecOf_append]
      · simp [dataVecOf]
      · intro r hr
        simp only [List.mem_map] at hr
        obtain ⟨q, hq, rfl⟩ := hr
        obtain ⟨j, b, hk⟩ := hkind q hq
        simp [hk]
    rw [hdv]
    apply checkFrom_nil_of_all
    intro r hr
    simp only [twipRows, List.mem_map] at hr
    obtain ⟨q, hq, rfl⟩ := hr
    exact rowViol_good 0 s.W pw q (hall q hq)

/-! ## history: configuration objects used by an earlier document -/

/-- A caller-owned body object is never written by a construction, so the widths each document gets
depend only on the object as the user configured it and on that document's own column count —
not on which documents were built with the object before. -/
theorem C08_history (obj : Option (List Rat)) (ns : List Nat) :
    constructMany obj ns = (ns.map (resolveBody obj), obj) := by
  induction ns with
  | nil => rfl
  | cons n ns ih => simp [constructMany, construct, ih]

/-- The code before 6e822b0 wrote the resolved vector back: a width-less body used for a 3-column and
then a 2-column frame gave the second document three widths, whose data rows stop at two thirds of W. -/
theorem C08_history_old_witness :
    let (_, obj') := constructOld none 3
    let (w2, _) := constructOld obj' 2
    w2 = [1, 1, 1] ∧ dataRow w2 [true, true] (25 / 4) = .ok [3000, 6000] := by
  decide +kernel

/-! ## sharing: one configuration object listed for several sections of one document -/

/-- Whatever body objects the sections of a multi-section document share (`rtf_body=[body] * n`, any pattern of
references into the store `objs`), every section holds the widths resolved from ITS object as the user configured it
and ITS OWN column count, and no object of the store is written. -/
theorem C08_sections_shared (objs : List (Option (List Rat))) (secs : List (Nat × Nat)) :
    constructSections objs secs = (secs.map fun s => resolveBody (objAt objs s.1) s.2, objs) := by
  induction secs generalizing objs with
  | nil => rfl
  | cons s rest ih =>
    obtain ⟨r, n⟩ := s
    have hset : objs.set r (objAt objs r) = objs := by
      apply List.ext_getElem?
      intro i
      by_cases hi : r = i
      · subst hi
        by_cases hr : r < objs.length
        · simp [objAt, hr]
        · simp [hr]
      · simp [hi]
    simp [constructSections, construct, hset, ih]

/-- … so the widths of section `j` depend only on that section's own object and column count: not on the other
sections, their column counts, or on which of them list the same object. -/
theorem C08_section_widths_own (objs : List (Option (List Rat))) (secs : List (Nat × Nat)) (j r n : Nat)
    (h : secs[j]? = some (r, n)) :
    (constructSections objs secs).1[j]? = some (resolveBody (objAt objs r) n) := by
  rw [C08_sections_shared]
  simp [List.getElem?_map, h]

/-- and every row kind of every such section ends at `twip W`: `C08_section` applies to each section with the widths the
construction hands it (`Section.userW` = the shared object's vector, `Section.ncol` = the section's own count). -/
theorem C08_sections_shared_rows (objs : List (Option (List Rat))) (secs : List (Nat × Nat)) (j r n : Nat)
    (h : secs[j]? = some (r, n)) (s : Section) (hu : s.userW = objAt objs r) (hn : s.ncol = n) (hwf : WFSection s) :
    (constructSections objs secs).1[j]? = some (resolveBody s.userW s.ncol) ∧
    ∃ rows, sectionRows s = .ok rows ∧ (∀ row ∈ rows, row.2.getLast? = some (twip s.W)) ∧
      checkRows 0 s.W (bodyProcessed (resolveBody s.userW s.ncol) s.keep) rows = [] := by
  refine ⟨?_, C08_section s hwf⟩
  rw [hu, hn]
  exact C08_section_widths_own objs secs j r n h

/-- What resolving once per DISTINCT object would do (not the code): one width-less body listed for a 4-column and a
2-column section hands the second section four widths; its data rows stop at half of W. -/
theorem C08_sections_memo_witness :
    constructSectionsMemo [none] [] [(0, 4), (0, 2)] = [[1, 1, 1, 1], [1, 1, 1, 1]] ∧
    dataRow [1, 1, 1, 1] [true, true] (25 / 4) = .ok [2250, 4500] ∧
    (constructSections [none] [(0, 4), (0, 2)]).1 = [[1, 1, 1, 1], [1, 1]] ∧
    dataRow [1, 1] [true, true] (25 / 4) = .ok [4500, 9000] := by
  decide +kernel

/-! ## history: a page object that was used, then re-configured -/

/-- Whatever a page object went through — documents encoded with it, `col_width` written or copy-updated, other options
written, plain copies — it holds the table width configured last, and the encoder has kept nothing on it: … -/
theorem C08_page_history (p : PageObj) (ops : List PageOp) :
    (pageRun p ops).colWidth = configuredWidth p.colWidth ops ∧ (pageRun p ops).kept = p.kept := by
  induction ops generalizing p with
  | nil => exact ⟨rfl, rfl⟩
  | cons o ops ih =>
    cases o with
    | setWidth w =>
      have := ih { p with colWidth := w }
      simpa [pageRun, pageStep, configuredWidth] using this
    | other => simpa [pageRun, pageStep, configuredWidth] using ih p
    | encode => simpa [pageRun, pageStep, configuredWidth] using ih p

/-- … so every row kind of the document encoded next (group spanning rows included) ends at the twips of the width
configured THEN, not of a width the object had when an earlier document used it. -/
theorem C08_page_history_rows (w0 : Rat) (ops : List PageOp) (s : Section)
    (hW : s.W = widthUsed (pageRun { colWidth := w0 } ops)) (hwf : WFSection s) :
    ∃ rows, sectionRows s = .ok rows ∧
      (∀ r ∈ rows, r.2.getLast? = some (twip (configuredWidth w0 ops))) ∧
      checkRows 0 (configuredWidth w0 ops) (bodyProcessed (resolveBody s.userW s.ncol) s.keep) rows = [] := by
  have hc : s.W = configuredWidth w0 ops := by
    rw [hW]; exact (C08_page_history { colWidth := w0 } ops).1
  rw [← hc]
  exact C08_section s hwf

/-- What keeping the table width on the object would do (not the code): a landscape page (8.5 in) encoded once, then
copy-updated to 9.5 in and encoded again lays the group spanning rows of the second document out at 12240 twips while
the configured width is 13680. -/
theorem C08_page_keep_witness :
    let ops := [PageOp.encode, PageOp.setWidth (19 / 2), PageOp.encode]
    spanRow (widthUsedKeep (pageRunKeep { colWidth := 17 / 2 } ops)) = [12240] ∧
    twip (configuredWidth (17 / 2) ops) = 13680 ∧
    spanRow (widthUsed (pageRun { colWidth := 17 / 2 } ops)) = [13680] ∧
    widthsAtEncodes (17 / 2) ops = [17 / 2, 19 / 2] := by
  decide +kernel

/-! ## non-vacuity -/

/-- 4 columns `[2, 1, 1.5, 0.5]`, the first removed by page_by, default header + explicit spanning
header with own widths, footnote and source as tables, portrait `col_width` 6.25. -/
example :
    sectionRows { ncol := 4, keep := [false, true, true, true], userW := some [2, 1, 3 / 2, 1 / 2],
                  headers := [⟨2, some [1, 2]⟩, ⟨3, none⟩], footW := some [1], srcW := some [1], W := 25 / 4 }
      = .ok [(Kind.header 0 false, [3000, 9000]), (Kind.header 1 true, [3000, 7500, 9000]),
             (Kind.span, [9000]), (Kind.data, [3000, 7500, 9000]),
             (Kind.foot, [9000]), (Kind.source, [9000])] := by
  decide +kernel

example : WFSection { ncol := 4, keep := [false, true, true, true], userW := some [2, 1, 3 / 2, 1 / 2],
                      headers := [⟨2, some [1, 2]⟩, ⟨3, none⟩], footW := some [1], srcW := some [1],
                      W := 25 / 4 } where
  keepLen := rfl
  disp := by decide
  Wpos := by decide +kernel
  user := by
    refine ⟨?_, Or.inr (Or.inl rfl)⟩
    intro x hx; simp at hx; rcases hx with rfl | rfl | rfl | rfl <;> decide +kernel
  headers := by
    intro h hh
    simp at hh
    rcases hh with rfl | rfl
    · refine ⟨?_, rfl, by decide⟩
      intro x hx; simp at hx; rcases hx with rfl | rfl <;> decide +kernel
    · rfl
  foot := fun fw h => ⟨1, by simpa using h.symm, by decide +kernel⟩
  src := fun fw h => ⟨1, by simpa using h.symm, by decide +kernel⟩

end Props.C08
