import Model.GroupBy
import Model.GroupBySpec
import Model.GroupByHist
import Proofs.GroupBy
import Proofs.GroupByHist
/-!
# C13 over histories — every evaluation is judged by its own frame, whatever was evaluated before

`Props/C13.lean` speaks about one evaluation.  The encoder evaluates every document of a process on ONE
`GroupingService` object, so the statement the property makes about a process is about histories:
`Model.GroupBy.Hist.run service cs` folds the service object of the code (`Model/GroupByHist.lean`: it keeps
nothing) over any sequence of calls `cs` — frames related or not, valid and invalid in any order.

* `C13hist_pure`, `C13hist_step`      every answer of every history is the pure function of its own call;
* `C13hist_step_rejects_exactly`      step `k` raises `ValueError` iff the keys of ITS frame are not contiguous;
* `C13hist_step_cells`, `…_others_untouched`   a rendered step `k` shows exactly the demanded cells of ITS frame;
* `C13hist_memo_transparent_iff`      the state such an object most plausibly acquires — accepted tables remembered
                                      under a key, the scan skipped for a known key — leaves every history's answers
                                      unchanged **iff** the key never identifies an accepted table with a rejected one;
* `C13hist_exactKey_sound`            the grouping columns themselves (with height and variables) are such a key;
* `C13hist_sumKey_unsound`, `C13hist_sumKey_history`   layout + variables + height + the SUM of per-row hashes is not,
                                      for any row hash: after `g = [A,A,B,B]` was accepted, `g = [A,B,A,B]` is rendered.

The tie to the code is `harness/props/c13_hist.py`: histories of `rtf_encode()` / direct service calls over related
frames in one fresh process, every step judged by the Lean oracle for its own frame.
-/
namespace Props.C13hist
open Model.GroupBy Model.GroupBy.Hist Proofs.GroupBy Proofs.GroupByHist

deriving instance DecidableEq for Except

/-! ## the service of the code over any history -/

/-- Any history of calls on one service object: the answers are those each call gets alone. -/
theorem C13hist_pure (cs : List Call) : run service cs = cs.map answer := runFrom_service cs ()

/-- … step by step. -/
theorem C13hist_step (cs : List Call) (k : Nat) (hk : k < cs.length) :
    (run service cs)[k]? = some (answer cs[k]) := by
  rw [C13hist_pure, List.getElem?_map, List.getElem?_eq_getElem hk]
  rfl

/-- Whatever was evaluated before — the same rows in another order, a subset, other values — step `k` raises
`ValueError` iff at some level the hierarchical keys of its own frame are not contiguous. -/
theorem C13hist_step_rejects_exactly (cs : List Call) (k : Nat) (hk : k < cs.length)
    (wf : WF cs[k].df) (hnd : cs[k].gb.Nodup) (hsub : ∀ g ∈ cs[k].gb, g ∈ names cs[k].df)
    (hne : cs[k].gb ≠ []) (hh : height cs[k].df ≠ 0) :
    (run service cs)[k]? = some (.error .valueError) ↔
      ¬ ∀ l, l < cs[k].gb.length → Contiguous (keysAt cs[k].df cs[k].gb l) := by
  rw [C13hist_step cs k hk, ← enhance_error_iff cs[k].df wf cs[k].gb hnd hsub hne hh]
  unfold answer
  cases h : enhanceGroupBy cs[k].df cs[k].gb with
  | error e => cases e; simp
  | ok s => simp

/-- A step that renders shows, in every group_by cell of its own frame, exactly what the property demands
(blank iff a true repeat that does not start a page, the original otherwise). -/
theorem C13hist_step_cells (cs : List Call) (k : Nat) (hk : k < cs.length) (wf : WF cs[k].df)
    (hnd : cs[k].gb.Nodup) (r : Frame) (h : (run service cs)[k]? = some (.ok r)) (l : Nat)
    (hl : l < cs[k].gb.length) (i : Nat) (hi : i < height cs[k].df) :
    cellAt (getCol r cs[k].gb[l]) i = expectedCell (cs[k].gb.map (getCol cs[k].df)) cs[k].starts l i := by
  rw [C13hist_step cs k hk] at h
  unfold answer at h
  cases hs : enhanceGroupBy cs[k].df cs[k].gb with
  | error e => simp [hs] at h
  | ok s =>
    simp only [hs, Option.some.injEq, Except.ok.injEq] at h
    subst h
    exact cellAt_restored cs[k].df wf cs[k].gb hnd cs[k].starts s hs l hl i hi

/-- … and leaves every other column of its own frame as it is. -/
theorem C13hist_step_others_untouched (cs : List Call) (k : Nat) (hk : k < cs.length) (r : Frame)
    (h : (run service cs)[k]? = some (.ok r)) (m : Str) (hm : m ∉ cs[k].gb) :
    getCol r m = getCol cs[k].df m := by
  rw [C13hist_step cs k hk] at h
  unfold answer at h
  cases hs : enhanceGroupBy cs[k].df cs[k].gb with
  | error e => simp [hs] at h
  | ok s =>
    simp only [hs, Option.some.injEq, Except.ok.injEq] at h
    subst h
    rw [getCol_restorePageContext_other _ _ _ _ _ hm]
    rcases enhance_ok cs[k].df cs[k].gb s hs with ⟨_, hs'⟩ | ⟨_, _, _, _, hs'⟩
    · rw [hs']
    · rw [hs', getCol_suppressHier_other cs[k].df cs[k].gb m hm]

/-! ## remembered acceptances -/

/-- Accepted tables remembered under a key that never identifies an accepted table with a rejected one: every
history is answered as by the object that remembers nothing. -/
theorem C13hist_memo_transparent {κ : Type} [DecidableEq κ] (key : Frame → List Str → κ)
    (hk : AcceptSound key) (cs : List Call) : run (memoService key) cs = run service cs := by
  rw [C13hist_pure]
  exact runFrom_memo key hk cs [] (by intro k hkm; simp at hkm)

/-- Exactly then. -/
theorem C13hist_memo_transparent_iff {κ : Type} [DecidableEq κ] (key : Frame → List Str → κ) :
    (∀ cs : List Call, run (memoService key) cs = cs.map answer) ↔ AcceptSound key := by
  constructor
  · intro h a ga b gb ha hb hkey hva
    have h2 := h [⟨a, ga, []⟩, ⟨b, gb, []⟩]
    rw [memo_two_calls key a ga b gb ha hb hkey hva] at h2
    simp only [List.map_cons, List.map_nil, answer, enhance_consulted b gb hb] at h2
    cases hv : validateDataSorting b gb with
    | error e => simp [hv] at h2
    | ok u => cases u; rfl
  · intro hk cs
    rw [C13hist_memo_transparent key hk cs, C13hist_pure]

/-- The grouping columns themselves (with the height and the variables) are such a key. -/
theorem C13hist_exactKey_sound : AcceptSound exactKey := by
  intro a ga b gb ha hb hkey hva
  simp only [exactKey, Prod.mk.injEq] at hkey
  obtain ⟨hh, hg, hcols⟩ := hkey
  subst hg
  rw [← validate_congr a b ga ha hb hh (List.map_inj_left.mp hcols)]
  exact hva

/-- Layout, variables, height and the SUM of per-row hashes of the grouping columns — for ANY row hash — is not:
the sum does not see the order of the rows. -/
theorem C13hist_sumKey_unsound (h : List Cell → Nat) : ¬ AcceptSound (sumKey h) := by
  intro hk
  have := hk grouped [['g']] scattered [['g']] ⟨by decide, by decide⟩ ⟨by decide, by decide⟩ (sumKey_collides h)
    (by decide)
  exact absurd this (by decide)

/-- The history that shows it, from a new object: `g = [A,A,B,B]` is accepted and remembered, then `g = [A,B,A,B]`
— which alone is rejected with `ValueError` — is rendered. -/
theorem C13hist_sumKey_history (h : List Cell → Nat) :
    (∃ r, (run (memoService (sumKey h)) [⟨grouped, [['g']], []⟩, ⟨scattered, [['g']], []⟩])[1]? = some (.ok r)) ∧
      answer ⟨scattered, [['g']], []⟩ = .error .valueError ∧
      (run service [⟨grouped, [['g']], []⟩, ⟨scattered, [['g']], []⟩])[1]? = some (.error .valueError) := by
  refine ⟨⟨restorePageContext (suppress scattered [['g']]) scattered [['g']] [], ?_⟩, by decide, by decide⟩
  rw [memo_two_calls (sumKey h) grouped [['g']] scattered [['g']] ⟨by decide, by decide⟩ ⟨by decide, by decide⟩
    (sumKey_collides h) (by decide)]
  rfl

/-! ## non-vacuity -/

private def c (s : String) : Cell := some s.toList

/-- valid, the same rows scattered, valid again (two levels, a null key): each step by its own frame -/
example :
    (run service
      [⟨[("s".toList, [c "S1", c "S1", c "S1", c "S2"]), ("p".toList, [none, none, c "x", c "x"])],
        ["s".toList, "p".toList], [2]⟩,
       ⟨[("s".toList, [c "S1", c "S1", c "S1", c "S2"]), ("p".toList, [none, c "x", none, c "x"])],
        ["s".toList, "p".toList], []⟩,
       ⟨[("s".toList, [c "S1", c "S1", c "S1", c "S2"]), ("p".toList, [none, none, c "x", c "x"])],
        ["s".toList, "p".toList], []⟩]) =
      [.ok [("s".toList, [c "S1", none, c "S1", c "S2"]), ("p".toList, [none, none, c "x", c "x"])],
       .error .valueError,
       .ok [("s".toList, [c "S1", none, none, c "S2"]), ("p".toList, [none, none, c "x", c "x"])]] := by decide

end Props.C13hist
