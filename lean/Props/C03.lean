import Model.Layout
import Model.PaginateSpec
import Proofs.Paginate
import Proofs.Layout
/-!
# C03 — no page exceeds the nrow row budget

`tableRows` counts, for one rendered page, column-header rows, group heading rows (page_by spanning rows
and the subline heading), data rows with their line estimate, and table-rendered footnote / source rows.

The unchanged code violates the full statement in two recorded ways (known findings, DESIGN.md §8):
  * D3  a header without text (auto-populated from column names) is rendered but not reserved;
  * D4  page_by heading rows are reserved as ONE row at each group start, but a heading row is rendered
        per level, and again at the top of every page on which the group continues.
`C03_budget` is therefore stated with the two *excess* terms made explicit (what is rendered beyond
what was reserved); `C03_full` is the statement without them; `C03_witness_*` refute it.
-/
namespace Props.C03
open Model.Paginate Model.Layout

def linesOf (d : LDoc) (i : Nat) : Nat := (d.rows[i]?.map (·.lines)).getD 0

def tableRows (d : LDoc) (bs : List Block) : Nat :=
  (bs.map fun b => match b with
    | .colHeader _ => 1
    | .heading _ _ => 1
    | .sublineHeading _ => 1
    | .data i => linesOf d i
    | .footnote true => 1
    | .source true => 1
    | _ => 0).sum

def dataIdx (bs : List Block) : List Nat :=
  bs.filterMap fun b => match b with
    | .data i => some i
    | _ => none

def headingCount (bs : List Block) : Nat :=
  (bs.filter fun b => match b with | .heading _ _ => true | _ => false).length

/-- heading rows reserved by the metadata for the rows of this page -/
def reservedHeadingRows (d : LDoc) (bs : List Block) : Nat :=
  ((dataIdx bs).map fun i => match d.meta[i]?, d.rows[i]? with
    | some m, some r => m.total - r.lines
    | _, _ => 0).sum

/-- D3: headers rendered without being reserved -/
def autoHeaderExcess (d : LDoc) : Nat :=
  if d.asColheader then (d.headers.filter (fun h => !h)).length else 0

/-- D4: heading rows rendered beyond those reserved for the page's rows -/
def headingExcess (d : LDoc) (bs : List Block) : Nat :=
  headingCount bs - reservedHeadingRows d bs

/-- every line estimate is at least 1 (`max(1, …)`) -/
def LinesPos (d : LDoc) : Prop := ∀ r ∈ d.rows, 1 ≤ r.lines

/-- Lemma A (greedy fill): the reserved load of a page fits the available rows, unless the page holds a
single data row.

STATEMENT REPAIRED: the hypothesis `hl : LinesPos d` was added.  Without it the statement is false,
because `_assign_pages` never breaks while `current_rows = 0`: a row estimated at 0 lines leaves the
page "empty", so the next row joins it whatever its size.  Smallest counterexample (`C03_load_needs_LinesPos`
below): `nrow = 1`, two rows with `lines = 0` and `lines = 2`, no other component — both rows land on
page 1, load 2 > avail 1, two data rows.  (`calculate_row_metadata` guarantees `lines ≥ 1` through
`max(1, …)`, so the hypothesis holds for every real document.) -/
theorem C03_load (d : LDoc) (hl : LinesPos d) (pg : PageCtx) (hpg : pg ∈ d.pages) :
    let bs := renderPage d pg
    (((dataIdx bs).map fun i => (d.meta[i]?.map (·.total)).getD 0).sum ≤ availRows d.nrow d.additional) ∨
    (dataIdx bs).length ≤ 1 := by
  intro bs
  exact Proofs.Layout.page_load d hl pg hpg

/-- the budget with the explained deviations -/
theorem C03_budget (d : LDoc) (hl : LinesPos d) (pg : PageCtx) (hpg : pg ∈ d.pages) :
    let bs := renderPage d pg
    tableRows d bs ≤ d.nrow + autoHeaderExcess d + headingExcess d bs ∨ (dataIdx bs).length ≤ 1 := by
  intro bs
  exact Proofs.Layout.page_budget d hl pg hpg

/-- `⌊x⌋ + 1 ≥ ⌈x⌉`: the line estimate is at least the number of lines the text needs
(`w = wn/wd`, `cw = cn/cd`, all positive): `lines * cw ≥ w`. -/
theorem C03_lines_cover (wn wd cn cd : Nat) (hwd : 0 < wd) (hcn : 0 < cn) (hcd : 0 < cd) :
    wn * cd ≤ linesNeeded wn wd cn cd * (wd * cn) := by
  have _ := hcd
  have hb : 0 < wd * cn := Nat.mul_pos hwd hcn
  have h1 : linesNeeded wn wd cn cd = (wn * cd) / (wd * cn) + 1 := by
    simp only [linesNeeded]; exact Nat.max_eq_right (Nat.le_add_left 1 _)
  rw [h1, Nat.add_mul, Nat.one_mul, Nat.mul_comm ((wn * cd) / (wd * cn))]
  have h2 := Nat.div_add_mod (wn * cd) (wd * cn)
  have h3 := Nat.mod_lt (wn * cd) hb
  omega

/-- the full statement (false today, see witnesses) -/
def C03_full : Prop :=
  ∀ (d : LDoc), LinesPos d → ∀ pg ∈ d.pages,
    tableRows d (renderPage d pg) ≤ d.nrow ∨ (dataIdx (renderPage d pg)).length ≤ 1

/-- with explicit headers and no page_by headings the full budget holds -/
theorem C03_partial (d : LDoc) (hl : LinesPos d) (hh : autoHeaderExcess d = 0)
    (hp : d.spanning = false) (pg : PageCtx) (hpg : pg ∈ d.pages) :
    tableRows d (renderPage d pg) ≤ d.nrow ∨ (dataIdx (renderPage d pg)).length ≤ 1 := by
  have hb := (Proofs.Layout.pages_bound d pg hpg).2
  have hh0 : headingExcess d (renderPage d pg) = 0 := by
    have : headingCount (renderPage d pg) = 0 := Proofs.Layout.renderPage_headingCount d pg hb hp
    simp only [headingExcess, this]; omega
  have := C03_budget d hl pg hpg
  simp only [hh, hh0, Nat.add_zero] at this
  exact this

def witnessAutoHeader : LDoc :=
  { nrow := 4, rows := (List.range 12).map (fun _ => ⟨1, [], [], 1, 1⟩), hasPageBy := false,
    hasSubline := false, newPage := false, pagebyColumn := true, pagebyHeader := true,
    headers := [false], asColheader := true, hasTitle := false, hasSublineTxt := false,
    footnote := .absent, source := .absent, pageTitle := .all, pageFootnote := .last, pageSource := .last }

def witnessContinuation : LDoc :=
  { nrow := 4, rows := (List.range 12).map (fun _ => ⟨1, [some "A"], [], 1, 1⟩), hasPageBy := true,
    hasSubline := false, newPage := false, pagebyColumn := true, pagebyHeader := true,
    headers := [true], asColheader := true, hasTitle := false, hasSublineTxt := false,
    footnote := .absent, source := .absent, pageTitle := .all, pageFootnote := .last, pageSource := .last }

/-- D3 witness: `nrow = 4`, one auto-populated header, 12 one-line rows.  One row is reserved for
nothing, so 4 data rows are placed per page and the rendered header makes every page 5 rows high:
each of the 3 pages overflows by 1. -/
theorem witnessAutoHeader_overflow :
    witnessAutoHeader.pages.map (fun pg =>
      (pg.number, tableRows witnessAutoHeader (renderPage witnessAutoHeader pg),
        (dataIdx (renderPage witnessAutoHeader pg)).length)) = [(1, 5, 4), (2, 5, 4), (3, 5, 4)] := by
  decide

/-- D4 witness: `nrow = 4`, one header with text, 12 one-line rows of one page_by group "A".  The heading
row is reserved only for row 0 (page 1: 1 + 1 + 2 = 4 rows), but rendered again at the top of every
continuation page: pages 2, 3, 4 hold 3 data rows + header + heading = 5 rows, overflow by 1. -/
theorem witnessContinuation_overflow :
    witnessContinuation.pages.map (fun pg =>
      (pg.number, tableRows witnessContinuation (renderPage witnessContinuation pg),
        (dataIdx (renderPage witnessContinuation pg)).length)) =
      [(1, 4, 2), (2, 5, 3), (3, 5, 3), (4, 5, 3), (5, 3, 1)] := by
  decide

/-- the counterexample that made `LinesPos` necessary in `C03_load` -/
def zeroLineDoc : LDoc :=
  { nrow := 1, rows := [⟨0, [], [], 1, 1⟩, ⟨2, [], [], 1, 1⟩], hasPageBy := false,
    hasSubline := false, newPage := false, pagebyColumn := true, pagebyHeader := true,
    headers := [], asColheader := false, hasTitle := false, hasSublineTxt := false,
    footnote := .absent, source := .absent, pageTitle := .all, pageFootnote := .last, pageSource := .last }

theorem C03_load_needs_LinesPos :
    ¬ (∀ (d : LDoc) (pg : PageCtx), pg ∈ d.pages →
        (((dataIdx (renderPage d pg)).map fun i => (d.meta[i]?.map (·.total)).getD 0).sum ≤
            availRows d.nrow d.additional) ∨ (dataIdx (renderPage d pg)).length ≤ 1) := by
  intro h
  have h1 := h zeroLineDoc (zeroLineDoc.pages[0]'(by decide)) (List.getElem_mem _)
  revert h1
  decide

/-- A single-level group start reserves at least the spanning rows rendered for it, whatever the value is: an
ordinary text, the EMPTY string or blanks (a blank spanning row is rendered — and reserved: only the divider empties
the heading text `calculate_row_metadata` measures), a null (reserved, not rendered), the divider (neither). -/
theorem C03_start_reserved (v : Option String) (m : Nat) (hm : 1 ≤ m) :
    (topHeadings [v]).length ≤ headingRows [v] m := by
  unfold topHeadings groupValues headingRows
  cases hd : isDivider v with
  | true => simp [hd, List.zipIdx]
  | false =>
    cases v with
    | none => simp [hd, List.zipIdx]
    | some s => simp [hd, List.zipIdx]; exact hm

/-- the empty string and blanks are values like any other: rendered as a (blank) spanning row, and reserved -/
theorem C03_blank_value_rendered_and_reserved (m : Nat) :
    topHeadings [some ""] = [Block.heading 0 ""] ∧ headingRows [some ""] m = m ∧
    topHeadings [some " "] = [Block.heading 0 " "] ∧ headingRows [some " "] m = m ∧
    topHeadings [none] = [] ∧ headingRows [none] m = m ∧
    topHeadings [some "-----"] = [] ∧ headingRows [some "-----"] m = 0 := by
  refine ⟨by decide, ?_, by decide, ?_, by decide, ?_, by decide, ?_⟩ <;>
    simp [headingRows, isDivider, strOf]

/-- groups that do not straddle a page, the first one labelled with the empty string (`nrow = 10`, one header with
text, groups ''×3, A×5, B×3): the blank spanning row is part of the budget of page 1, which holds exactly 10 rows. -/
def blankGroups : LDoc :=
  { nrow := 10,
    rows := (List.replicate 3 ⟨1, [some ""], [], 1, 1⟩) ++ (List.replicate 5 ⟨1, [some "A"], [], 1, 1⟩) ++
            (List.replicate 3 ⟨1, [some "B"], [], 1, 1⟩),
    hasPageBy := true, hasSubline := false, newPage := false, pagebyColumn := true, pagebyHeader := true,
    headers := [true], asColheader := true, hasTitle := false, hasSublineTxt := false,
    footnote := .absent, source := .absent, pageTitle := .all, pageFootnote := .last, pageSource := .last }

theorem C03_blank_group_counted :
    blankGroups.pages.map (fun pg =>
      (pg.number, tableRows blankGroups (renderPage blankGroups pg),
        headingCount (renderPage blankGroups pg), (dataIdx (renderPage blankGroups pg)).length)) =
      [(1, 10, 2, 7), (2, 7, 2, 4)] := by
  decide

/-- the D4 witness alone also refutes the full statement (page 2) -/
theorem C03_witness_continuation : ¬ C03_full := by
  intro h
  have h1 := h witnessContinuation (by unfold LinesPos; decide)
    (witnessContinuation.pages[1]'(by decide)) (List.getElem_mem _)
  revert h1
  decide

theorem C03_witness : ¬ C03_full := by
  intro h
  have h1 := h witnessAutoHeader (by unfold LinesPos; decide)
    (witnessAutoHeader.pages[0]'(by decide)) (List.getElem_mem _)
  revert h1
  decide

end Props.C03
