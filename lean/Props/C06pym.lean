import Generated.PyPageMargin
import Model.Encode
import Proofs.PyStr
import Proofs.Emit
/-!
# C06 — translator tie for the margin words of a page

`Generated.Py.PageMargin.run` is regenerated on every run from `RTFEncodingService.encode_page_margin`
(`services/encoding_service.py`).  Proved here: for a page with six margins the string is the printed
`Model.Encode.marginNodes` followed by a newline — the margin words both the document start and every page break carry
(C06: a page break restates the paper size and margins the document opened with) — and for any other number of margins
both the function (`zip(…, strict=True)`) and the model raise `ValueError`.
-/
set_option linter.unusedSimpArgs false
namespace Props.C06pym
open Model.Rtf Model.Emit Model.Encode Generated.Py Generated.Py.PageMargin Props.C01py Props.C01pyc

theorem loop1_fold (i2t : Rat → Int) (margin : List Rat) : ∀ (ms : List Rat) (s : St),
    ms.foldlM (loop1 i2t margin) s = .ok { s with v1 := s.v1 ++ ms.map i2t }
  | [], s => by simp [List.foldlM, pure, Except.pure]
  | m :: ms, s => by
    simp only [List.foldlM_cons, loop1, bind, Except.bind, pure, Except.pure, loop1_fold i2t margin ms]
    simp

theorem loop2_fold (i2t : Rat → Int) (margin : List Rat) : ∀ (ps : List (List Nat × Int)) (s : St),
    ps.foldlM (loop2 i2t margin) s = .ok { s with v2 := s.v2 ++ ps.map fun p => p.1 ++ strOfInt p.2 }
  | [], s => by simp [List.foldlM, pure, Except.pure]
  | p :: ps, s => by
    simp only [List.foldlM_cons, loop2, bind, Except.bind, pure, Except.pure, loop2_fold i2t margin ps]
    simp

/-- the six code words of `margin_codes` -/
def codes : List (List Nat) :=
  ["margl", "margr", "margt", "margb", "headery", "footery"].map fun n => cps ('\\' :: n.toList)

/-- what the function computes, for every list of margins (through `loop1_fold` / `loop2_fold`, which name the
accumulators `v1`, `v2` of the two comprehensions: only `C06py_page_margin_wrong_length` depends on this) -/
theorem run_eq (i2t : Rat → Int) (margin : List Rat) :
    run i2t margin =
      if margin.length = 6 then
        .ok (((codes.zip (margin.map i2t)).map fun p => p.1 ++ strOfInt p.2).flatten ++ [10])
      else .error .ValueError := by
  have ec : ([([92, 109, 97, 114, 103, 108] : List Nat), [92, 109, 97, 114, 103, 114], [92, 109, 97, 114, 103, 116],
      [92, 109, 97, 114, 103, 98], [92, 104, 101, 97, 100, 101, 114, 121], [92, 102, 111, 111, 116, 101, 114, 121]]
      : List (List Nat)) = codes := by decide
  simp only [PageMargin.run, ec, loop1_fold, loop2_fold, bind, Except.bind, pure, Except.pure, List.nil_append,
    pyJoin_nil]
  have hl : codes.length = 6 := by decide
  by_cases h : margin.length = 6
  · simp [h, hl]
  · have h' : ¬ (6 = margin.length) := fun e => h e.symm
    simp [h, h', hl, throw, throwThe, MonadExceptOf.throw]

/-- the six margin words (without the final newline) -/
def marginStr (i2t : Rat → Int) (a b c d e f : Rat) : List Nat :=
  cps ('\\' :: "margl".toList) ++ strOfInt (i2t a) ++ cps ('\\' :: "margr".toList) ++ strOfInt (i2t b) ++
  cps ('\\' :: "margt".toList) ++ strOfInt (i2t c) ++ cps ('\\' :: "margb".toList) ++ strOfInt (i2t d) ++
  cps ('\\' :: "headery".toList) ++ strOfInt (i2t e) ++ cps ('\\' :: "footery".toList) ++ strOfInt (i2t f)

/-- six margins, by running the function (both loops unfold on the six elements: this proof does not name a local of
the function, so it survives any reordering of its statements that keeps the result) -/
theorem run_six (i2t : Rat → Int) (a b c d e f : Rat) :
    run i2t [a, b, c, d, e, f] = .ok (marginStr i2t a b c d e f ++ [10]) := by
  simp [PageMargin.run, loop1, loop2, List.foldlM, bind, Except.bind, pure, Except.pure, pyJoin_nil, marginStr, cps]

/-- **six margins: the translated `encode_page_margin` prints the model's margin words and a newline** -/
theorem C06py_page_margin_translated (pg : Page) (h6 : pg.margin.length = 6) :
    ∃ ns, marginNodes pg = .ok ns ∧
      run Model.Encode.twip pg.margin = .ok (cps (printNodes ns) ++ [10]) := by
  rcases hm : pg.margin with _ | ⟨a, _ | ⟨b, _ | ⟨c, _ | ⟨d, _ | ⟨e, _ | ⟨f, _ | ⟨g, rest⟩⟩⟩⟩⟩⟩⟩ <;>
    simp only [hm, List.length_cons, List.length_nil] at h6 <;> try omega
  refine ⟨_, by simp [marginNodes, hm, pure, Except.pure, bind, Except.bind]; rfl, ?_⟩
  rw [run_six]
  simp [marginStr, printNodes, printNode, cwi, cps, strOfInt_digits, List.map_append]

/-- **any other number of margins: `ValueError`, in the code and in the model** -/
theorem C06py_page_margin_wrong_length (pg : Page) (h6 : pg.margin.length ≠ 6) :
    marginNodes pg = .error "ValueError" ∧ run Model.Encode.twip pg.margin = .error .ValueError := by
  constructor
  · simp [marginNodes, h6, bind, Except.bind, throw, throwThe, MonadExceptOf.throw]
  · rw [run_eq]; simp [h6]

end Props.C06pym
