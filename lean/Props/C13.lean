import Model.GroupBy
import Model.GroupBySpec
import Proofs.GroupBy
/-!
# C13 — group_by blanks only true repeats and restores context on each page

Model: `Model.GroupBy` (= `GroupingService.enhance_group_by`, `restore_page_context`,
`validate_data_sorting`, and the page-start / slicing part of `_apply_data_post_processing`), of the
code **with** the repairs `fixes/groupby-null-aware-suppression.patch` and
`fixes/groupby-tuple-keys.patch`.  The behaviour before the repairs is `Model.GroupBy.Legacy`; the
last section shows by concrete witnesses that it violates the property (D17, D17b, key collisions).

Notation: `df` the frame handed to the service (all columns of one height, `WF`), `gb` the group_by
columns (distinct names), `gcols = gb.map (getCol df)` the original group columns in level order,
`starts` any list of page-start indices, `heights` any list of page heights.
A cell is `none` (null — rendered as the empty text, like a blanked cell) or `some text`.
-/
namespace Props.C13
open Model.GroupBy Proofs.GroupBy

/-! ## (a) the cell clause: blank exactly for a true repeat that is not a page's first row,
the original value otherwise -/

/-- Every cell of every group_by level, for every frame, every number of levels, every set of
page-start indices: the restored frame holds exactly the cell the specification demands
(`expectedCell`: `none` iff the hierarchical key up to this level equals the previous row's — null
being a value of its own — and the row does not start a page; the original cell otherwise). -/
theorem C13_cells (df : Frame) (wf : WF df) (gb : List Str) (hnd : gb.Nodup) (starts : List Nat)
    (s : Frame) (h : enhanceGroupBy df gb = .ok s) (l : Nat) (hl : l < gb.length) (i : Nat)
    (hi : i < height df) :
    cellAt (getCol (restorePageContext s df gb starts) gb[l]) i =
      expectedCell (gb.map (getCol df)) starts l i :=
  cellAt_restored df wf gb hnd starts s h l hl i hi

/-- The statement's "exactly when", at the level of what the reader sees: a cell whose original
text is not empty is rendered blank iff it is a true repeat and not the first data row of a page. -/
theorem C13_blank_iff (df : Frame) (wf : WF df) (gb : List Str) (hnd : gb.Nodup) (starts : List Nat)
    (s : Frame) (h : enhanceGroupBy df gb = .ok s) (l : Nat) (hl : l < gb.length) (i : Nat)
    (hi : i < height df) (hne : display (cellAt (getCol df gb[l]) i) ≠ []) :
    display (cellAt (getCol (restorePageContext s df gb starts) gb[l]) i) = [] ↔
      (isRepeat (gb.map (getCol df)) l i = true ∧ isPageStart starts i = false) := by
  rw [C13_cells df wf gb hnd starts s h l hl i hi]
  unfold expectedCell
  have hget : (gb.map (getCol df)).getD l [] = getCol df gb[l] := by
    simp [List.getD, List.getElem?_map, List.getElem?_eq_getElem hl]
  rw [hget]
  cases h1 : isRepeat (gb.map (getCol df)) l i <;> cases h2 : isPageStart starts i <;>
    simp [display] <;> exact hne

/-- … and in every other case the cell shows the original value unchanged. -/
theorem C13_shown_otherwise (df : Frame) (wf : WF df) (gb : List Str) (hnd : gb.Nodup)
    (starts : List Nat) (s : Frame) (h : enhanceGroupBy df gb = .ok s) (l : Nat) (hl : l < gb.length)
    (i : Nat) (hi : i < height df)
    (hno : ¬ (isRepeat (gb.map (getCol df)) l i = true ∧ isPageStart starts i = false)) :
    cellAt (getCol (restorePageContext s df gb starts) gb[l]) i = cellAt (getCol df gb[l]) i := by
  rw [C13_cells df wf gb hnd starts s h l hl i hi]
  unfold expectedCell
  have hget : (gb.map (getCol df)).getD l [] = getCol df gb[l] := by
    simp [List.getD, List.getElem?_map, List.getElem?_eq_getElem hl]
  rw [hget]
  cases h1 : isRepeat (gb.map (getCol df)) l i <;> cases h2 : isPageStart starts i <;> simp_all

/-- the first data row of every page after the first is among the page-start indices computed from
the page heights (so (a) restores the context there) -/
theorem C13_page_first_rows_are_starts (heights : List Nat) (p : Nat) (hp : p < heights.length)
    (hpos : 0 < p) : (heights.take p).sum ∈ pageStarts heights := by
  have := mem_pageStartsAux heights 0 false p hp (Or.inr hpos)
  simpa [pageStarts] using this

/-! ## (b) columns not named in group_by are untouched -/

theorem C13_others_untouched (df : Frame) (gb : List Str) (starts : List Nat) (s : Frame)
    (h : enhanceGroupBy df gb = .ok s) (m : Str) (hm : m ∉ gb) :
    getCol (restorePageContext s df gb starts) m = getCol df m := by
  rw [getCol_restorePageContext_other _ _ _ _ _ hm]
  rcases enhance_ok df gb s h with ⟨_, hs⟩ | ⟨_, _, _, _, hs⟩
  · rw [hs]
  · rw [hs, getCol_suppressHier_other df gb m hm]

/-- no column is added, dropped, renamed or moved -/
theorem C13_column_names_kept (df : Frame) (gb : List Str) (starts : List Nat) (s : Frame)
    (h : enhanceGroupBy df gb = .ok s) :
    names (restorePageContext s df gb starts) = names df := by
  rcases enhance_ok df gb s h with ⟨h0, hs⟩ | ⟨_, _, hsub, _, hs⟩
  · subst hs
    rcases h0 with h0 | h0
    · subst h0; simp [restorePageContext]
    · -- empty frame: restoration has no index below the height
      unfold restorePageContext
      split
      · rfl
      · have : ∀ (ss : List Nat) (r : Frame), ss.foldl (restoreOne s gb) r = r := by
          intro ss
          induction ss with
          | nil => intro r; rfl
          | cons x ss ih => intro r; simp [restoreOne, h0, ih]
        rw [this]
  · subst hs
    have hn := names_suppressHier df gb hsub
    rw [names_restorePageContext _ _ _ _ (fun g hg => by rw [hn]; exact hsub g hg), hn]

/-! ## (c) filling blanks downward within a page reconstructs the column -/

/-- the slice of a column that page `p` shows -/
def pageOf (c : Col) (heights : List Nat) (p : Nat) : Col := (splitCol c heights).getD p []

/-- Per page (any page heights), per level: fill-down of the rendered slice gives back every
non-null original cell; the only cells not reconstructed are original nulls, which no renderer that
shows null as blank can distinguish from a blank. -/
theorem C13_filldown_page (df : Frame) (wf : WF df) (gb : List Str) (hnd : gb.Nodup)
    (heights : List Nat) (s : Frame) (h : enhanceGroupBy df gb = .ok s) (l : Nat) (hl : l < gb.length)
    (p : Nat) (hp : p < heights.length) :
    let shown := pageOf (getCol (restorePageContext s df gb (pageStarts heights)) gb[l]) heights p
    let orig := pageOf (getCol df gb[l]) heights p
    (fillDown shown).length = orig.length ∧
      ∀ j, cellAt orig j ≠ none → cellAt (fillDown shown) j = cellAt orig j := by
  intro shown orig
  have e1 : shown = ((getCol (restorePageContext s df gb (pageStarts heights)) gb[l]).drop
      (heights.take p).sum).take heights[p] := by
    simp [shown, pageOf, List.getD, splitCol_getElem? heights _ p hp]
  have e2 : orig = ((getCol df gb[l]).drop (heights.take p).sum).take heights[p] := by
    simp [orig, pageOf, List.getD, splitCol_getElem? heights _ p hp]
  rw [e1, e2]
  apply segment_fill df wf gb hnd (pageStarts heights) s h l hl
  cases p with
  | zero => left; simp
  | succ p => right; exact C13_page_first_rows_are_starts heights (p + 1) hp (by omega)

/-- "reconstructs the column exactly": when the group column holds no null, fill-down of each page's
rendered slice **is** the original slice. -/
theorem C13_filldown_exact (df : Frame) (wf : WF df) (gb : List Str) (hnd : gb.Nodup)
    (heights : List Nat) (s : Frame) (h : enhanceGroupBy df gb = .ok s) (l : Nat) (hl : l < gb.length)
    (p : Nat) (hp : p < heights.length) (hnn : ∀ x ∈ getCol df gb[l], x ≠ none) :
    fillDown (pageOf (getCol (restorePageContext s df gb (pageStarts heights)) gb[l]) heights p) =
      pageOf (getCol df gb[l]) heights p := by
  have := C13_filldown_page df wf gb hnd heights s h l hl p hp
  apply fill_all_nonnull _ _ this.1 this.2
  intro x hx
  apply hnn
  have e2 : pageOf (getCol df gb[l]) heights p =
      ((getCol df gb[l]).drop (heights.take p).sum).take heights[p] := by
    simp [pageOf, List.getD, splitCol_getElem? heights _ p hp]
  rw [e2] at hx
  exact List.mem_of_mem_drop (List.mem_of_mem_take hx)

/-! ## (d) non-contiguous keys are rejected with ValueError (and only those) -/

/-- For a non-empty frame and at least one group column: `enhance_group_by` raises `ValueError`
iff at some level the hierarchical keys (null a value of its own) are not contiguous, i.e. some key
occurs, is interrupted by a different key, and occurs again. -/
theorem C13_rejects_exactly_noncontiguous (df : Frame) (wf : WF df) (gb : List Str) (hnd : gb.Nodup)
    (hsub : ∀ g ∈ gb, g ∈ names df) (hne : gb ≠ []) (hh : height df ≠ 0) :
    enhanceGroupBy df gb = .error .valueError ↔
      ¬ ∀ l, l < gb.length → Contiguous (keysAt df gb l) :=
  enhance_error_iff df wf gb hnd hsub hne hh

/-- the rejection reaches the encoder: no page data is produced -/
theorem C13_postProcess_rejects (df : Frame) (wf : WF df) (gb : List Str) (hnd : gb.Nodup)
    (hsub : ∀ g ∈ gb, g ∈ names df) (hne : gb ≠ []) (hh : height df ≠ 0) (heights : List Nat)
    (hnc : ¬ ∀ l, l < gb.length → Contiguous (keysAt df gb l)) :
    postProcess df gb heights = .error .valueError := by
  have := (enhance_error_iff df wf gb hnd hsub hne hh).mpr hnc
  simp [postProcess, restored, hne, this]

/-- the decidable form used by the run-time oracle is the same predicate -/
theorem C13_contigB_iff {α : Type} [DecidableEq α] (ks : List α) : contigB ks = true ↔ Contiguous ks :=
  ⟨contiguous_of_contigB ks, contigB_of_contiguous ks⟩

/-! ## (e) what the pages get: slices of the restored frame -/

/-- the group column that page `p` of `_apply_data_post_processing` carries is the page's slice of
the restored column — so (a)–(c) speak about what each page renders -/
theorem C13_pages_are_slices (df : Frame) (gb : List Str) (hne : gb ≠ []) (heights : List Nat)
    (pages : List Frame) (h : postProcess df gb heights = .ok pages) (p : Nat)
    (hp : p < heights.length) (m : Str) :
    ∃ s, enhanceGroupBy df gb = .ok s ∧
      getCol (pages.getD p []) m =
        pageOf (getCol (restorePageContext s df gb (pageStarts heights)) m) heights p := by
  unfold postProcess restored at h
  simp only [hne, if_false] at h
  cases hs : enhanceGroupBy df gb with
  | error e => simp [hs] at h
  | ok s =>
    refine ⟨s, rfl, ?_⟩
    simp only [hs] at h
    injection h with h
    subst h
    simp only [List.getD, splitFrameAux_getElem? _ heights 0 p hp, Option.getD_some, pageOf,
      splitCol_getElem? heights _ p hp, getCol_sliceFrame, Nat.zero_add]

/-! ## non-vacuity -/

deriving instance DecidableEq for Except

private def c (s : String) : Cell := some s.toList

/-- two levels with nulls, three pages (heights 2,3,1): every clause is exercised -/
example :
    restored
      [("g0".toList, [c "a", c "a", c "a", none, none, c "b"]),
       ("g1".toList, [c "x", c "x", none, none, c "x", c "x"]),
       ("v".toList,  [c "1", c "2", c "3", c "4", c "5", c "6"])]
      ["g0".toList, "g1".toList] [2, 3, 1]
    = .ok
      [("g0".toList, [c "a", none, c "a", none, none, c "b"]),
       ("g1".toList, [c "x", none, none, none, c "x", c "x"]),
       ("v".toList,  [c "1", c "2", c "3", c "4", c "5", c "6"])] := by decide

example :
    enhanceGroupBy [("g".toList, [c "a", c "b", c "a"])] ["g".toList] = .error .valueError := by decide

/-! ## legacy: the code before the repairs violates the property (machine-checked witnesses) -/

/-- D17: `g = [null, A, A, B, B]` — the first `A` follows a null, so it is **not** a repeat, yet the
unrepaired code blanks it (`"A" != null` is null, `when(null)` takes `otherwise`). -/
theorem C13_legacy_D17_null_then_value_blanked :
    let df : Frame := [("g".toList, [none, c "A", c "A", c "B", c "B"])]
    ∃ s, Legacy.enhanceGroupBy df ["g".toList] = .ok s ∧
      cellAt (getCol (restorePageContext s df ["g".toList] []) "g".toList) 1 = none ∧
      expectedCell [getCol df "g".toList] [] 0 1 = c "A" := by
  exact ⟨_, rfl, by decide, by decide⟩

/-- D17b (no nulls involved): `g0 = [a,a,b,b]`, `g1 = [x,x,x,x]` — row 2 has key `(b,x) ≠ (a,x)`, yet
the unrepaired code blanks its `g1` cell, because the parent comparison is made on the frame whose
`g0` column is already blanked (`b != null` is null). -/
theorem C13_legacy_D17b_parent_change_not_seen :
    let df : Frame := [("g0".toList, [c "a", c "a", c "b", c "b"]), ("g1".toList, [c "x", c "x", c "x", c "x"])]
    let gb := ["g0".toList, "g1".toList]
    ∃ s, Legacy.enhanceGroupBy df gb = .ok s ∧
      cellAt (getCol (restorePageContext s df gb []) "g1".toList) 2 = none ∧
      expectedCell (gb.map (getCol df)) [] 1 2 = c "x" := by
  exact ⟨_, rfl, by decide, by decide⟩

/-- validator, false acceptance: `(g,null), (g,"__NULL__"), (g,null)` is not contiguous, the
unrepaired validator accepts it (`fill_null("__NULL__")` collides with the literal text). -/
theorem C13_legacy_validator_accepts_noncontiguous :
    let df : Frame := [("g0".toList, [c "g", c "g", c "g"]), ("g1".toList, [none, c "__NULL__", none])]
    let gb := ["g0".toList, "g1".toList]
    Legacy.validateDataSorting df gb = .ok () ∧ contigB (keysAt df gb 1) = false := by
  exact ⟨by decide, by decide⟩

/-- validator, false rejection: `("a|b","c"), ("x","y"), ("a","b|c")` are three different keys, the
unrepaired validator raises (`"|"`-joined keys collide). -/
theorem C13_legacy_validator_rejects_contiguous :
    let df : Frame := [("g0".toList, [c "a|b", c "x", c "a"]), ("g1".toList, [c "c", c "y", c "b|c"])]
    let gb := ["g0".toList, "g1".toList]
    Legacy.validateDataSorting df gb = .error .valueError ∧
      contigB (keysAt df gb 0) = true ∧ contigB (keysAt df gb 1) = true := by
  exact ⟨by decide, by decide, by decide⟩

/-- What remains true of the text-key validator (should `fixes/groupby-tuple-keys.patch` not be
applied): on data whose group cells contain no `|` and are not the text `__NULL__` it raises
`ValueError` exactly for non-contiguous keys — the two witnesses above are the only kind of exception. -/
theorem C13_legacy_validator_partial (df : Frame) (wf : WF df) (gb : List Str) (hnd : gb.Nodup)
    (hsub : ∀ g ∈ gb, g ∈ names df) (hne : gb ≠ []) (hh : height df ≠ 0)
    (hsep : ∀ g ∈ gb, ∀ x ∈ getCol df g, SepFree x) :
    Legacy.validateDataSorting df gb = .error .valueError ↔
      ¬ ∀ l, l < gb.length → Contiguous (keysAt df gb l) := by
  rw [legacy_validate_eq df gb hsep, ← validate_ok_iff df wf gb hnd hsub hne hh]
  cases hv : validateDataSorting df gb with
  | error e => cases e; simp
  | ok u => cases u; simp

end Props.C13
