import Generated.PyFootnoteSourceBorders
import Model.Borders
/-!
# C07 — translator tie for `_apply_footnote_source_borders`

`Generated.Py.FootnoteSourceBorders.run` is regenerated on every run from the source of
`PageFeatureProcessor._apply_footnote_source_borders`: which table-rendered component (source before footnote) takes the
style that closes the page's table.  Proved here: it is the `fnOverride` / `srcOverride` of `Model.Borders.applyBorders`.
(The decision fragment of `_apply_pagination_borders` that feeds it: `Props/C07py.lean`.)
-/
set_option linter.unusedSimpArgs false
namespace Props.C07pyc
open Model.Borders Generated.Py

/-- code points of a model string -/
def codes (s : String) : List Nat := s.toList.map Char.toNat

/-! ## `_apply_footnote_source_borders` -/
open Generated.Py.FootnoteSourceBorders

/-- `getattr(component, "as_table", default)` -/
def asTable (f : Option Foot) (default : Bool) : Bool :=
  match f with
  | none => default
  | some f => f.as_table

def kSource : List Nat := codes "source"
def kFootnote : List Nat := codes "footnote"

/-- **the translated `_apply_footnote_source_borders`**: the list of writes to `page.component_borders` — the source
when it is shown as a table, otherwise the footnote when it is, otherwise nothing (`hf`, `hs`: the truthiness of the
caller's `has_footnote_on_page` / `has_source_on_page`) -/
theorem C07py_component_translated (hf hs : Bool) (style : List Nat) (fn src : Option Foot) :
    run hf hs style fn src =
      if hs && asTable src false then [(kSource, style)]
      else if hf && asTable fn true then [(kFootnote, style)] else [] := by
  have e1 : kSource = [115, 111, 117, 114, 99, 101] := by decide
  have e2 : kFootnote = [102, 111, 111, 116, 110, 111, 116, 101] := by decide
  rw [e1, e2]
  cases hf <;> cases hs <;> rcases fn with _ | ⟨_ | _⟩ <;> rcases src with _ | ⟨_ | _⟩ <;> simp [run, asTable]

/-- the value `renderer.py` reads back: `page.component_borders.get(key)` after the writes -/
def lookup (key : List Nat) (ws : List (List Nat × List Nat)) : Option (List Nat) :=
  (ws.reverse.find? (fun w => w.1 == key)).map (·.2)

/-- **the overrides of the model are the writes of the code**: when a style closes the page (`closingStyle b = some st`)
and a table-rendered component ends it, `applyBorders` hands the style to the component the code writes it to.
`fnTableHere` / `srcTableHere` are the fragment's `v2` / `v3` (`C07py_decision_translated`), which imply the truthiness
`hf` / `hs` the caller passes on. -/
theorem C07py_overrides (b : BorderIn) (st : String) (hf hs : Bool) (fn src : Option Foot)
    (hh : b.height ≠ 0) (hc : closingStyle b = some st)
    (h1 : b.fnTableHere = (hf && asTable fn true)) (h2 : b.srcTableHere = (hs && asTable src false))
    (ht : (b.fnTableHere || b.srcTableHere) = true) :
    (applyBorders b).srcOverride.map codes = lookup kSource (run hf hs (codes st) fn src) ∧
    (applyBorders b).fnOverride.map codes = lookup kFootnote (run hf hs (codes st) fn src) := by
  have hne : kSource ≠ kFootnote := by decide
  rw [C07py_component_translated, ← h1, ← h2]
  unfold applyBorders
  simp only [hh, if_false, hc]
  cases hs' : b.srcTableHere <;> cases hf' : b.fnTableHere <;> simp [hs', hf'] at ht ⊢ <;>
    simp [lookup, hne, Ne.symm hne]


end Props.C07pyc
