import Model.Rtf
import Model.RtfDoc
import Model.Emit
import Proofs.Rtf
import Proofs.Emit
import Props.C01
/-!
# C01 — emitter core: rows, cells and text runs as rtflite writes them are well-formed for every input

`Model/Emit.lean` is the byte-exact model of `TextContent._as_rtf`, `Border`, `Cell`, `Row._as_rtf` (tied to the
real classes by a unit-level byte comparison on every run).  These theorems say: whatever the attributes, the
number of cells and the (escaped) texts, an emitted row is an instance of the grammar's row with all side
conditions, and a document made of a head and any number of emitted rows is `wellFormed`.
-/
namespace Props.C01emit
open Model.Rtf Model.Emit

/-- an emitted row satisfies the grammar's row conditions: every part plain, boundaries as given -/
theorem C01e_row_block_ok (r : RowFmt) (h : rowOk r = true) : blockOk (rowBlock r) = true :=
  Proofs.Emit.row_block_ok r h

/-- adjacency holds inside an emitted row followed by `\pard`, whatever follows that is not a letter, digit,
'-' or blank (in rtflite: a newline or the closing brace) -/
theorem C01e_row_adjacent (r : RowFmt) (h : rowOk r = true) (c : Char)
    (hc : badAfter none c = false) : nodesOk (rowNodesFull r) (some c) = true :=
  Proofs.Emit.nodesOk_frame _ (some c) (Proofs.Emit.row_frame r h) hc

/-- an emitted paragraph (title line, footnote, source, page header) is one plain, adjacency-closed group -/
theorem C01e_paragraph_ok (t : TextFmt) (text : List Node) (ht : textFmtOk t = true) (hx : textOk text = true)
    (after : Option Char) :
    plainNode (paragraph t text) = true ∧ nodeOk (paragraph t text) after = true := by
  have hw := Proofs.Emit.textWords_ok t ht
  simp only [textOk, Bool.and_eq_true] at hx
  refine ⟨Proofs.Emit.paragraph_plain t text (Proofs.Emit.all_notTable _ hw) hx.1, ?_⟩
  simp only [paragraph, nodeOk]
  exact Proofs.Emit.nodesOk_frame _ (some '}')
    (Proofs.Emit.paragraph_frame t text (Proofs.Emit.all_nameOk _ hw) hx.2) (by simp only [Proofs.Emit.goodNext]; decide)

/-- the `\u` discipline is compositional: a text hole of the escaper's form inside an emitted row leaves the
reader's `\uc` state as it found it.

STATEMENT REPAIRED (hypothesis `hn` added).  Without it the statement is false: the words a row takes from its
inputs (`r.just`, the cells' `valign`, border `style`, text `just` / `formats`) are arbitrary names, and `wordOk`
(letters only, not a table word) does not exclude `u` / `uc`.  Smallest counterexample:
`r = ⟨0, "u".toList, []⟩`, `st = []`, `ts = []`: the row prints `\trowd\trgaph0\trleft0\u\n\intbl\row\pard`,
`uOk 1 [] 0 (toksNodes (rowNodesFull r) ++ []) = false` (a `\u` without parameter) but `uOk 1 [] 0 [] = true`.
`rowNoU r` (Model/Emit.lean) says that none of the input words of the row is `u` / `uc`. -/
theorem C01e_row_u (r : RowFmt) (hn : rowNoU r = true) (hu : ∀ c ∈ r.cells, uForm c.body = true) (st : List Nat)
    (ts : List Tok) :
    uOk 1 st 0 (toksNodes (rowNodesFull r) ++ ts) = uOk 1 st 0 ts :=
  Proofs.Emit.row_uNeutral r hn hu st ts

/-- every document made of a `\u`-free plain head and any number of emitted rows is well-formed RTF.

STATEMENT REPAIRED (two hypotheses added).  As first given (without `hfirst`, and `hrows` without `rowNoU r`) it is
false in two ways:
* `hadj` says nothing about the FIRST character of the head, which follows `\rtf1` directly.
  `head = [Node.txt ['5']]`, `rows = []` satisfies `hplain`, `hnou`, `hadj`, but prints `{\rtf15\n}`, which lexes as
  `\rtf` with parameter 15: `wellFormed = false` (signature).  `hfirst`: the control word `\rtf1` may be followed by
  the first printed character of the head (it is not a digit or a blank).
* an input word of a row may be `u` / `uc` (`wordOk` does not exclude them).  `head = []`,
  `rows = [⟨0, "u".toList, []⟩]` satisfies all hypotheses as first given (`rowOk = true`, no cells), but prints
  `{\rtf1\n\trowd\trgaph0\trleft0\u\n\intbl\row\pard\n}`: `wellFormed = false` (`\u` without parameter).
  `rowNoU r` in `hrows`: none of the input words of the row is `u` / `uc`. -/
theorem C01e_rows_doc_wellformed (head : List Node) (rows : List RowFmt)
    (hplain : plainNodes head = true) (hnou : noUNodes head = true)
    (hadj : nodesOk (head ++ [Node.nl]) none = true)
    (hfirst : nodeOk (Node.cw "rtf".toList (some 1) false) (printNodes (head ++ [Node.nl])).head? = true)
    (hrows : ∀ r ∈ rows, rowOk r = true ∧ rowNoU r = true ∧ ∀ c ∈ r.cells, uForm c.body = true) :
    wellFormed (printDoc (rowsDoc (head ++ [Node.nl]) rows)) = true :=
  Props.C01.C01_grammar_wellformed _ (Proofs.Emit.rowsDoc_ok head rows hplain hnou hadj hfirst hrows)

/-- the two counterexamples to the statements as first given (see the comments above) -/
example : plainNodes [Node.txt ['5']] = true ∧ noUNodes [Node.txt ['5']] = true ∧
    nodesOk ([Node.txt ['5']] ++ [Node.nl]) none = true ∧
    wellFormed (printDoc (rowsDoc ([Node.txt ['5']] ++ [Node.nl]) [])) = false := by decide
example : rowOk ⟨0, "u".toList, []⟩ = true ∧
    wellFormed (printDoc (rowsDoc ([] ++ [Node.nl]) [⟨0, "u".toList, []⟩])) = false ∧
    uOk 1 [] 0 (toksNodes (rowNodesFull ⟨0, "u".toList, []⟩) ++ []) = false ∧ uOk 1 [] 0 [] = true := by decide

/-- non-vacuity: a two-cell row with a bold red cell containing an escaped é -/
def exT : TextFmt := ⟨false, 15, 15, none, 0, 0, 0, "qc".toList, 18, 0, some 2, none, ["b".toList]⟩
def exB : BorderFmt := ⟨"brdrs".toList, 15, none⟩
def exBody : List Node :=
  [Node.txt "caf".toList, Node.cw "uc".toList (some 1) false, Node.cw "u".toList (some 233) false, Node.txt "*".toList]
def exC1 : CellFmt := ⟨some exB, some exB, none, some exB, ["clvertalt".toList], 4500, exT, exBody⟩
def exC2 : CellFmt := ⟨some exB, some exB, some exB, some exB, ["clvertalt".toList], 9000, exT, [Node.txt "x".toList]⟩
def exR : RowFmt := ⟨108, "trqc".toList, [exC1, exC2]⟩

example : rowOk exR = true ∧ rowNoU exR = true ∧ uForm exBody = true := by decide
example : wellFormed (printDoc (rowsDoc [cw0 "ansi", Node.nl] [exR, exR])) = true := by decide +kernel

/-- the hypotheses of the main theorem are satisfiable (the theorem applied to the example) -/
example : wellFormed (printDoc (rowsDoc ([cw0 "ansi"] ++ [Node.nl]) [exR, exR])) = true :=
  C01e_rows_doc_wellformed [cw0 "ansi"] [exR, exR] (by decide) (by decide) (by decide) (by decide)
    (by simp only [List.mem_cons, List.not_mem_nil, or_false, or_self, forall_eq]; decide)

end Props.C01emit
