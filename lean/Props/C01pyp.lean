import Generated.PyParagraphFormatting
import Proofs.PyStr
import Proofs.Emit
import Model.Emit
import Model.Widths
/-!
# C01 — translator tie for the paragraph-formatting emitter

`Generated.Py.ParagraphFormatting.run` is regenerated on every run from the source of
`TextContent._get_paragraph_formatting` (`row.py`).  Proved here: the string it builds is the printed form of
`Model.Emit.paraFormat t` — the paragraph control words inside every `\pard …` the model emits — for every text whose
model format `t` records the hyphenation flag, the spacings, `int(space * 240)` when `space != 1`, the three indents
after their round trip through inches (`inch_to_twip(indent / 1440)`; `twip_of_twips`: with the model's `twip` on exact
rationals that round trip is the identity, which is why `Model.Encode.resolveText` passes the indents on unchanged) and
the control word of the justification code.  An unknown justification raises `ValueError`.
-/
set_option linter.unusedSimpArgs false
namespace Props.C01pyp
open Model.Rtf Model.Emit Generated.Py Generated.Py.ParagraphFormatting Props.C01py Props.C01pyc

/-- an unknown justification: `ValueError` -/
theorem C01py_paragraph_unknown_justification (i2t tjc keys) (hyph : Bool) (sb sa space fi li ri : Int)
    (just : List Nat) (h : tjc just = none) :
    run i2t tjc keys hyph sb sa space fi li ri just = .error .ValueError := by
  cases hyph <;> by_cases hs : space = 1 <;>
    simp [ParagraphFormatting.run, h, hs, bind, Except.bind, pure, Except.pure, throw, throwThe, MonadExceptOf.throw]

/-- **the translated `_get_paragraph_formatting` prints the model's paragraph format** -/
theorem C01py_paragraph_formatting_translated (i2t : Rat → Int) (tjc) (keys : List (List Nat)) (hyph : Bool)
    (sb sa space fi li ri : Int) (just : List Nat) (t : TextFmt)
    (hh : t.hyph = hyph) (hsb : t.sb = sb) (hsa : t.sa = sa)
    (hsl : t.sl = if space ≠ 1 then some (space * 240) else none)
    (hfi : t.fi = i2t ((fi : Rat) / 1440)) (hli : t.li = i2t ((li : Rat) / 1440))
    (hri : t.ri = i2t ((ri : Rat) / 1440))
    (hj : tjc just = some (codeText t.just)) :
    run i2t tjc keys hyph sb sa space fi li ri just = .ok (cps (printNodes (paraFormat t))) := by
  have e1 : ([92, 104, 121, 112, 104, 112, 97, 114] : List Nat) = cps ('\\' :: "hyphpar".toList) := by decide
  have e2 : ([92, 104, 121, 112, 104, 112, 97, 114, 48] : List Nat) = cps ('\\' :: "hyphpar".toList) ++ strOfInt 0 := by
    decide
  have e3 : ([92, 115, 98] : List Nat) = cps ('\\' :: "sb".toList) := by decide
  have e4 : ([92, 115, 97] : List Nat) = cps ('\\' :: "sa".toList) := by decide
  have e5 : ([92, 115, 108] : List Nat) = cps ('\\' :: "sl".toList) := by decide
  have e6 : ([92, 115, 108, 109, 117, 108, 116, 49] : List Nat) = cps ('\\' :: "slmult".toList) ++ strOfInt 1 := by
    decide
  have e7 : ([92, 102, 105] : List Nat) = cps ('\\' :: "fi".toList) := by decide
  have e8 : ([92, 108, 105] : List Nat) = cps ('\\' :: "li".toList) := by decide
  have e9 : ([92, 114, 105] : List Nat) = cps ('\\' :: "ri".toList) := by decide
  have ek : (((1440 : Int) : Int) : Rat) = 1440 := rfl
  rcases t with ⟨thyph, tsb, tsa, tsl, tfi, tli, tri, tjust, thp, tfont, tcol, tbg, tfmts⟩
  simp only at hh hsb hsa hsl hfi hli hri hj
  subst hh hsb hsa hsl hfi hli hri
  cases thyph <;> by_cases hs : space = 1 <;> by_cases hw : tjust.isEmpty = true <;>
    simp only [ParagraphFormatting.run, hj, hs, hw, ek, pyDictGet, bind, Except.bind, pure, Except.pure, pyJoin_nil,
      e1, e2, e3, e4, e5, e6, e7, e8, e9, Option.isNone_some, Bool.false_eq_true, if_false, if_true, ne_eq,
      not_true_eq_false, not_false_eq_true, decide_true, decide_false, List.nil_append, List.append_assoc,
      List.flatten_append, List.flatten_cons, List.flatten_nil, List.append_nil, List.cons_append] <;>
    simp [paraFormat, printNodes, printNode, cw0, cwi, codeText, hw, cps, strOfInt_digits, List.map_append]

/-- the model's `inch_to_twip` (`round(x * 1440)` on exact rationals) undoes the division by `TWIPS_PER_INCH`: the
indents arrive in the output as they are -/
theorem twip_of_twips (n : Int) : Model.Widths.twip ((n : Rat) / 1440) = n := by
  have h : (n : Rat) / 1440 * 1440 = n := Rat.div_mul_cancel (by decide)
  simp only [Model.Widths.twip, h, Model.Widths.roundHalfEven, Rat.floor_intCast, Rat.sub_self, Rat.mul_zero]
  have : (0 : Rat) < 1 := by decide
  simp [this]

end Props.C01pyp
