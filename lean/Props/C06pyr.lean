import Generated.PyShouldShowRenderer
import Props.C06py
/-!
# C06 — translator tie for the renderer's copy of the placement rule
-/
namespace Props.C06pyr
open Model.Layout Props.C06py
open Generated.Py.ShouldShow (run)

/-! The renderer has its own copy of the rule (`PageRenderer._should_show`, an if-chain); it is translated and tied to
the same model function, so the two copies cannot drift apart unnoticed. -/

theorem C06pyr_should_show_translated (p : Placement) (isFirst isLast : Bool) :
    Generated.Py.ShouldShowRenderer.run (name p) isFirst isLast = p.shows isFirst isLast := by
  cases p <;> simp [Generated.Py.ShouldShowRenderer.run, name, Placement.shows] <;> decide

/-- the processor's and the renderer's copies agree on EVERY string (not only on the three options) -/
theorem C06pyr_two_copies_agree (loc : List Nat) (isFirst isLast : Bool) :
    Generated.Py.ShouldShowRenderer.run loc isFirst isLast = run loc isFirst isLast := by
  simp only [Generated.Py.ShouldShowRenderer.run, run]
  by_cases h1 : loc = [97, 108, 108] <;> by_cases h2 : loc = [102, 105, 114, 115, 116] <;>
    by_cases h3 : loc = [108, 97, 115, 116] <;> simp [h1, h2, h3]

end Props.C06pyr
