import Generated.PyIloc
import Model.Broadcast
/-!
# C09 — translator tie for the binding rule of cell attributes

`Generated.Py.Iloc.run` is regenerated on every run from the source of `BroadcastValue.iloc` (harness/pytranslate.py),
in the exception monad: `%` by `len(...)` raises `ZeroDivisionError` on an empty matrix / empty first row (NOT caught by
the function's `except IndexError`), `value[i]` raises `IndexError`, which the handler turns into `ValueError`.

This file proves that it is, for every matrix and every pair of int indices, `Model.Broadcast.Mat.iloc` — the lookup all
C09 theorems are about: the same element whenever the model finds one, an exception exactly when the model answers
`none` (and which one).
-/
set_option linter.unusedSimpArgs false
namespace Props.C09py
open Model.Broadcast Generated.Py Generated.Py.Iloc

variable {α : Type}

/-- `a % n` for a positive length: no exception, the mathematical remainder -/
theorem pyMod_pos (a : Int) (n : Nat) (h : 0 < n) : pyMod a (Int.ofNat n) = .ok (a % (n : Int)) := by
  have hn : (Int.ofNat n) ≠ 0 := by simp; omega
  simp only [pyMod, hn, if_false]
  rw [Int.fmod_eq_emod_of_nonneg]
  · rfl
  · simp

/-- `xs[i]` for a non-negative index -/
theorem pyIndex_nonneg (xs : List α) (i : Int) (h : 0 ≤ i) :
    pyIndex xs i = match xs[i.toNat]? with
      | some x => .ok x
      | none => .error .IndexError := by
  have h1 : ¬ i < 0 := by omega
  simp only [pyIndex, h1, if_false]
  rfl

/-- the value is `None`: `None` -/
theorem C09py_iloc_none (r c : Int) : run (none : Option (List (List α))) r c = .ok none := rfl

/-- **the translated `iloc` is the model's lookup**, for every matrix and all int indices (negative ones included:
`r % len` is the floor remainder, the model's natural-number index is its value) -/
theorem C09py_iloc_translated (m : Mat α) (r c : Int) :
    run (some m) r c =
      match m.iloc (r % (m.length : Int)).toNat (c % (m.ncols : Int)).toNat with
      | some x => .ok (some x)
      | none => .error (if m.length = 0 ∨ m.ncols = 0 then .ZeroDivisionError else .ValueError) := by
  cases m with
  | nil => simp [run, pyMod, Mat.iloc, bind, Except.bind]
  | cons row0 rest =>
    have hlen : 0 < (row0 :: rest).length := by simp
    have e3 : pyIndex (row0 :: rest) 0 = .ok row0 := by simp [pyIndex]
    have hnc : Mat.ncols (row0 :: rest) = row0.length := by simp [Mat.ncols]
    generalize row0 :: rest = L at hlen e3 hnc ⊢
    have hL0 : L.length ≠ 0 := by omega
    have hi0 := Int.emod_nonneg r (b := (L.length : Int)) (by omega)
    have hi1 := Int.emod_lt_of_pos r (b := (L.length : Int)) (by omega)
    generalize hi : r % (L.length : Int) = i at hi0 hi1
    have hk : i.toNat < L.length := by omega
    have hmod : i.toNat % L.length = i.toNat := Nat.mod_eq_of_lt hk
    have hrow : L[i.toNat]? = some L[i.toNat] := List.getElem?_eq_getElem hk
    generalize L[i.toNat] = row at hrow
    have e1 : pyMod r (Int.ofNat L.length) = .ok i := by rw [pyMod_pos _ _ hlen, hi]
    have e2 : pyIndex L i = .ok row := by rw [pyIndex_nonneg _ _ hi0, hrow]
    rw [hnc]
    by_cases hz : row0.length = 0
    · have e4 : pyMod c (Int.ofNat row0.length) = .error .ZeroDivisionError := by simp [pyMod, hz]
      simp only [run, e1, e2, e3, e4, bind, Except.bind]
      simp [Mat.iloc, hL0, hmod, hrow, hnc, hz]
    · have hpos : 0 < row0.length := by omega
      have hj0 := Int.emod_nonneg c (b := (row0.length : Int)) (by omega)
      have hj1 := Int.emod_lt_of_pos c (b := (row0.length : Int)) (by omega)
      generalize hj : c % (row0.length : Int) = j at hj0 hj1
      have hjm : j.toNat % row0.length = j.toNat := Nat.mod_eq_of_lt (by omega)
      have e4 : pyMod c (Int.ofNat row0.length) = .ok j := by rw [pyMod_pos _ _ hpos, hj]
      have e5 := pyIndex_nonneg row j hj0
      cases hx : row[j.toNat]? with
      | none =>
        rw [hx] at e5
        simp only [run, e1, e2, e3, e4, e5, bind, Except.bind]
        simp [Mat.iloc, hL0, hmod, hjm, hrow, hnc, hz, hx, throw, throwThe, MonadExceptOf.throw]
      | some x =>
        rw [hx] at e5
        simp only [run, e1, e2, e3, e4, e5, bind, Except.bind]
        simp [Mat.iloc, hL0, hmod, hjm, hrow, hnc, hz, hx, pure, Except.pure]

/-- natural-number indices (what the encoder passes) -/
theorem C09py_iloc_nat (m : Mat α) (r c : Nat) :
    (run (some m) (Int.ofNat r) (Int.ofNat c)).toOption = (m.iloc r c).map some := by
  rw [C09py_iloc_translated]
  have : ∀ (a b : Nat), ((Int.ofNat a) % (b : Int)).toNat = a % b := by
    intro a b; simp only [Int.ofNat_eq_natCast]; omega
  have h2 : m.iloc (r % m.length) (c % m.ncols) = m.iloc r c := by
    simp [Mat.iloc]
  rw [this, this, h2]
  cases m.iloc r c <;> simp [Except.toOption]

example : run (some [[1, 2, 3], [4, 5, 6]]) 3 (-1) = .ok (some 6) := by rfl
example : run (some [[1, 2, 3], [4]]) 1 2 = .error Exc.ValueError := by rfl
example : run (some ([] : List (List Nat))) 0 0 = .error Exc.ZeroDivisionError := by rfl

end Props.C09py
