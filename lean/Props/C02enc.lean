import Model.Encode
import Model.Layout
import Proofs.EncodeLift
import Props.C02
import Props.C01enc
/-!
# C02 for the whole-encoder model: no data cell is lost, duplicated, reordered or altered

`Props/C02.lean` proves the property about the role-level layout (`Layout.layout ld` for EVERY `ld`).  Here it is stated
about the ENCODER model `Model.Encode.encode` (byte-exact against `rtf_encode()`):

* `C02enc_structure`         every accepted document has a plan (`Proofs.EncodeLift.plan`: `prepare`, the `LDoc` of
                             `mkLDoc`, the final frame) and a trace `R` (page by page, block by block, the elements each
                             block was rendered to); the output blocks are the trace's elements joined by newlines;
* `C02enc_rows_once_in_order`   the `.data i` blocks over all pages, in rendering order, are `0, 1, …, nrows-1`;
* `C02enc_row_on_its_page`   a data row is rendered on the page the pagination assigned to it, inside the page's slice;
* `C02enc_data_row`          every `.data i` block is rendered as ONE table row:
                             `encodeRow k attrs cum (i - dataStart) rows[i]`, with one cell per value whose text hole is
                             `textNodes (convText conv (value or ""))`;
* `C02enc_row_content`, `C02enc_kept_cols`, `C02enc_renderRow`  (without group_by) `rows[i]` is frame row `i` with
                             exactly the removed columns dropped (subline_by; page_by when spanning rows are shown), the
                             others in their original order — the last one in the vocabulary of `Props.C02`, so that
                             `C02_kept_cols_order` / `C02_row_cells` apply verbatim (`C02enc_row_cells`);
* `C02enc`                   all of it from `encode measure d = .ok g`.
-/
namespace Props.C02enc
open Model.Rtf Model.Emit Model.Encode Model.Broadcast Model.Layout Proofs.EncodeLift
open Props.C02 (dataIdx)

/-- the frame is rectangular: every row has one value per column (an invariant of `pl.DataFrame`) -/
def Rect (d : Doc) : Prop := ∀ r ∈ d.rows, r.length = d.cols.length

/-! ## the encoder's plan and trace -/

/-- every accepted document has a plan and a rendering trace; the blocks of the output are the elements of the trace,
in order, joined by newlines -/
theorem C02enc_structure (measure : Measure) (d : Doc) (g : DocG) (h : encode measure d = .ok g) :
    ∃ pl R, plan measure d = .ok pl ∧ Renders (mkColorCtx d) d pl R ∧
      g.blocks = joinElems R.elems ++ [BlockG.plain [Node.nl, Node.nl, Node.nl, Node.nl]] :=
  encode_trace h

/-- the page renderer of the encoder succeeds exactly when the plan exists and every block renders; its result is the
concatenation of the block renderings -/
theorem C02enc_pages_structure (measure : Measure) (k : ColorCtx) (d : Doc) (elems : List Elem) (near : Nat) :
    encodePages measure k d = .ok (elems, near) ↔
      ∃ pl R, plan measure d = .ok pl ∧ Renders k d pl R ∧ elems = R.elems ∧ near = pl.near :=
  encodePages_trace

/-! ## every row once, in order, on its page -/

/-- the `.data i` blocks the encoder renders, over all pages in rendering order, are exactly `0 … nrows-1`:
every frame row is rendered once, in the original order -/
theorem C02enc_rows_once_in_order (measure : Measure) (d : Doc) (pl : Plan) (hp : plan measure d = .ok pl) :
    pl.pageBlocks.flatMap (fun x => dataIdx x.2) = List.range d.rows.length := by
  obtain ⟨hprep, _, hld, _⟩ := plan_ok hp
  have hf := mkLDoc_facts (prepare_dispRows_length hprep) hld
  have h1 : pl.pageBlocks.flatMap (fun x => dataIdx x.2) = (pl.pageBlocks.map Prod.snd).flatMap dataIdx := by
    rw [List.flatMap_map]
  rw [h1, pageBlocks_map_snd, Props.C02.C02_rows_once_in_order, hf.length]

/-- the same on the trace -/
theorem C02enc_trace_rows_once (measure : Measure) (k : ColorCtx) (d : Doc) (pl : Plan) (R : Trace)
    (hp : plan measure d = .ok pl) (hR : Renders k d pl R) :
    R.flatMap (fun x => dataIdx (x.2.map Prod.fst)) = List.range d.rows.length := by
  rw [← C02enc_rows_once_in_order measure d pl hp, ← hR.blocks, Trace.blocks, List.flatMap_map]

/-- a data row is rendered on the page the pagination assigned to it (pages are numbered from 1), inside the page's
slice of the frame; the slice of the processed frame starts where the slice of the original frame starts -/
theorem C02enc_row_on_its_page (measure : Measure) (d : Doc) (pl : Plan) (hp : plan measure d = .ok pl)
    (n i : Nat) (x : PageCtx × List Block) (hx : pl.pageBlocks[n]? = some x) (hi : i ∈ dataIdx x.2) :
    pl.ld.pageNums[i]? = some (n + 1) ∧ x.1.number = n + 1 ∧ x.1.dataStart = x.1.start ∧
      x.1.start ≤ i ∧ i < x.1.start + x.1.height ∧ i < d.rows.length := by
  obtain ⟨hpg, hbs⟩ := pageBlocks_getElem? hx
  have hlay : (layout pl.ld)[n]? = some x.2 := by
    rw [← pageBlocks_map_snd, List.getElem?_map, hx]; rfl
  have h1 := Props.C02.C02_row_on_its_page pl.ld n i x.2 hlay hi
  have hnum := (pages_numbering pl.ld n x.1 hpg).1
  have hlt : i < d.rows.length := by
    have hmem : i ∈ pl.pageBlocks.flatMap (fun x => dataIdx x.2) :=
      List.mem_flatMap.mpr ⟨x, List.mem_of_getElem? hx, hi⟩
    rw [C02enc_rows_once_in_order measure d pl hp] at hmem
    exact List.mem_range.mp hmem
  have hne : pl.ld.rows ≠ [] := by
    intro h0
    have := Proofs.Layout.pageNums_length pl.ld
    rw [h0] at this
    have h2 : pl.ld.pageNums = [] := List.eq_nil_of_length_eq_zero this
    rw [h2] at h1
    cases h1
  obtain ⟨_, hall, _⟩ := Props.C02.C02_pages_structure pl.ld hne
  obtain ⟨_, hds, _, _, hiff⟩ := hall x.1 (List.mem_of_getElem? hpg)
  have := (hiff i).mpr (by rw [h1, hnum])
  exact ⟨h1, hnum, hds, this.1, this.2, hlt⟩

/-! ## a data block is one table row of the final frame -/

/-- every `.data i` block of the trace was rendered as exactly one table row: `encodeRow` with the page's attributes,
the body's cumulative widths, the row's position on the page as attribute row, and row `i` of the final frame.
The row has one cell per value; the text hole of cell `j` is the converted, escaped display text of value `j`
(`""` for null), with the `convert` flag and text format resolved from the page attributes at `(i - dataStart, j)`,
and its right boundary is the twip value of the `j`-th cumulative width. -/
theorem C02enc_data_row (k : ColorCtx) (d : Doc) (pl : Plan) (R : Trace) (hR : Renders k d pl R)
    (x : PageCtx × List (Block × List Elem)) (hx : x ∈ R) (y : Block × List Elem) (hy : y ∈ x.2)
    (i : Nat) (hb : y.1 = Block.data i) :
    ∃ cells fmt, pl.rows[i]? = some cells ∧
      encodeRow k (pageAttrs d pl.bodyA pl.p x.1).attrs pl.p.cum (i - x.1.dataStart) cells = .ok (rowElem fmt) ∧
      y.2 = [rowElem fmt] ∧ cells ≠ [] ∧ fmt.cells.length = cells.length ∧
      ∀ j c, cells[j]? = some c → ∃ cf tv tf conv w,
        fmt.cells[j]? = some cf ∧
        textValsAt (pageAttrs d pl.bodyA pl.p x.1).attrs.toTextAttrsOf (i - x.1.dataStart) j = .ok tv ∧
        resolveText k tv = .ok (tf, conv) ∧ pl.p.cum[j]? = some w ∧
        cf.cellx = twip w ∧ cf.text = tf ∧ cf.body = textNodes (convText conv (c.getD [])) := by
  have h := hR.each x hx y hy
  rw [hb] at h
  simp only [renderBlock] at h
  split at h
  · next cells hcells =>
    obtain ⟨e, he, h⟩ := Proofs.Encode.bind_ok h
    have hy2 := (Proofs.Encode.pure_ok h).symm
    obtain ⟨hne, fmt, rfl, hlen, hcell⟩ := encodeRow_cells he
    refine ⟨cells, fmt, hcells, he, hy2, hne, hlen, ?_⟩
    intro j c hc
    obtain ⟨cf, hcf, hec⟩ := hcell j c hc
    obtain ⟨tv, tf, conv, w, h1, h2, h3, h4, h5, h6⟩ := encodeCell_body hec
    exact ⟨cf, tv, tf, conv, w, hcf, h1, h2, h3, h4, h5, h6⟩
  · cases h

/-- the final frame has one row per frame row, with and without group_by -/
theorem C02enc_rows_length (measure : Measure) (d : Doc) (pl : Plan) (hp : plan measure d = .ok pl) :
    pl.rows.length = d.rows.length :=
  (plan_rows_length hp).1

/-! ## which columns become cells -/

/-- the final frame is the processed frame when there is no group_by: every row of the original frame with the
positions of `removedIdx` dropped -/
theorem C02enc_rows_no_groupby (measure : Measure) (d : Doc) (pl : Plan) (hp : plan measure d = .ok pl)
    (hgb : d.body.groupByL = []) :
    ∃ removed, removedIdx d = .ok removed ∧
      removed = (removedNames d.body).map (fun n => d.cols.idxOf n) ∧ (∀ n ∈ removedNames d.body, n ∈ d.cols) ∧
      pl.rows = d.rows.map (fun r => dropCols r removed) ∧ pl.p.dispCols = dropCols d.cols removed := by
  obtain ⟨hprep, _, _, hfin⟩ := plan_ok hp
  obtain ⟨removed, hrem, _, _, _, hcols, hrows⟩ := prepare_parts hprep
  obtain ⟨h1, h2⟩ := removedIdx_ok hrem
  refine ⟨removed, hrem, h1, h2, ?_, hcols⟩
  unfold finalRows at hfin
  simp only [hgb, List.isEmpty_nil, if_true] at hfin
  rw [← Except.ok.inj hfin]
  exact hrows

/-- `columns_to_remove`: the subline_by columns always, the page_by columns exactly when spanning rows are shown -/
theorem C02enc_removed_names (d : Doc) :
    removedNames d.body = d.body.sublineByL ++ (if spanningDoc d then d.body.pageByL else []) :=
  removedNames_eq d

/-- (without group_by, unique column names) the row the encoder renders for frame row `i` consists of exactly the
cells of the columns that are not removed, unaltered and in their original order -/
theorem C02enc_row_content (measure : Measure) (d : Doc) (pl : Plan) (hp : plan measure d = .ok pl)
    (hgb : d.body.groupByL = []) (hnd : d.cols.Nodup) (i : Nat) (row : List (Option Str))
    (hrow : d.rows[i]? = some row) (hlen : row.length = d.cols.length) :
    pl.rows[i]? = some (((d.cols.zip row).filter fun x => !(removedNames d.body).contains x.1).map (·.2)) := by
  obtain ⟨removed, _, h1, _, h3, _⟩ := C02enc_rows_no_groupby measure d pl hp hgb
  rw [h3, List.getElem?_map, hrow, Option.map_some, h1,
    dropCols_eq_filter hnd (removedNames d.body) row (Nat.le_of_eq hlen)]

/-- (unique column names) the displayed columns are the columns that are not removed, in their original order -/
theorem C02enc_kept_cols (measure : Measure) (d : Doc) (pl : Plan) (hp : plan measure d = .ok pl)
    (hnd : d.cols.Nodup) :
    pl.p.dispCols = d.cols.filter (fun c => !(removedNames d.body).contains c) ∧
    pl.p.dispCols.Sublist d.cols ∧
    ∀ c, c ∈ pl.p.dispCols ↔ (c ∈ d.cols ∧ c ∉ removedNames d.body) := by
  obtain ⟨hprep, _, _, _⟩ := plan_ok hp
  obtain ⟨removed, hrem, _, _, _, hcols, _⟩ := prepare_parts hprep
  obtain ⟨h1, _⟩ := removedIdx_ok hrem
  have he : pl.p.dispCols = d.cols.filter (fun c => !(removedNames d.body).contains c) := by
    rw [hcols, h1, dropCols_cols_eq_filter hnd]
  refine ⟨he, by rw [he]; exact List.filter_sublist, ?_⟩
  intro c
  rw [he]
  simp [List.mem_filter]

/-- (without group_by, rectangular frame, unique column names) every rendered row has exactly one cell per displayed
column -/
theorem C02enc_row_width (measure : Measure) (d : Doc) (pl : Plan) (hp : plan measure d = .ok pl)
    (hgb : d.body.groupByL = []) (hnd : d.cols.Nodup) (hrect : Rect d) (i : Nat) (cells : List (Option Str))
    (hcells : pl.rows[i]? = some cells) : cells.length = pl.p.dispCols.length := by
  obtain ⟨removed, _, _, _, h3, _⟩ := C02enc_rows_no_groupby measure d pl hp hgb
  have hi : i < d.rows.length := by
    have := (List.getElem?_eq_some_iff.mp hcells).1
    rw [h3, List.length_map] at this
    exact this
  have hrow : d.rows[i]? = some d.rows[i] := List.getElem?_eq_getElem hi
  have hlen := hrect _ (List.getElem_mem hi)
  have h := C02enc_row_content measure d pl hp hgb hnd i _ hrow hlen
  rw [hcells, Option.some.injEq] at h
  rw [h, (C02enc_kept_cols measure d pl hp hnd).1, List.length_map]
  generalize d.rows[i] = row at hlen
  generalize d.cols = cols at hlen
  clear h hrow hi h3
  induction cols generalizing row with
  | nil => simp
  | cons c cs ih =>
    cases row with
    | nil => simp at hlen
    | cons v vs =>
      have := ih vs (by simpa using hlen)
      simp only [List.zip_cons_cons, List.filter_cons]
      split
      · rw [List.length_cons, List.length_cons, this]
      · exact this

/-! ## the same in the vocabulary of `Props.C02` -/

/-- the removed names of the encoder are `Props.C02.removedCols` of the page_by / subline_by names -/
theorem C02enc_removedCols (d : Doc) :
    (removedNames d.body).map String.ofList =
      Props.C02.removedCols (d.body.pageByL.map String.ofList) (d.body.sublineByL.map String.ofList) (spanningDoc d) := by
  rw [removedNames_eq, Props.C02.removedCols, List.map_append]
  split <;> simp

/-- (without group_by, unique column names) the display texts of the row the encoder renders for frame row `i` are
`Props.C02.renderRow` of the column names, the removed names and the frame row -/
theorem C02enc_renderRow (measure : Measure) (d : Doc) (pl : Plan) (hp : plan measure d = .ok pl)
    (hgb : d.body.groupByL = []) (hnd : d.cols.Nodup) (i : Nat) (row cells : List (Option Str))
    (hrow : d.rows[i]? = some row) (hlen : row.length = d.cols.length) (hcells : pl.rows[i]? = some cells) :
    cells.map (fun c => String.ofList (c.getD [])) =
      Props.C02.renderRow (d.cols.map String.ofList)
        (Props.C02.removedCols (d.body.pageByL.map String.ofList) (d.body.sublineByL.map String.ofList) (spanningDoc d))
        (row.map optString) := by
  have h := C02enc_row_content measure d pl hp hgb hnd i row hrow hlen
  rw [hcells, Option.some.injEq] at h
  rw [h, ← C02enc_removedCols, Props.C02.renderRow]
  generalize removedNames d.body = names
  generalize d.cols = cols
  clear h hlen hrow hcells hnd
  induction cols generalizing row with
  | nil => simp
  | cons c cs ih =>
    cases row with
    | nil => simp
    | cons v vs =>
      have hd : String.ofList (v.getD []) = Props.C02.displayCell (optString v) := by
        cases v <;> rfl
      simp only [List.map_cons, List.zip_cons_cons, List.filter_cons, contains_map_ofList]
      split
      · simp only [List.map_cons, ih vs, hd]
      · exact ih vs

/-- the displayed column names are `Props.C02.keptCols` -/
theorem C02enc_keptCols (measure : Measure) (d : Doc) (pl : Plan) (hp : plan measure d = .ok pl)
    (hnd : d.cols.Nodup) :
    pl.p.dispCols.map String.ofList =
      Props.C02.keptCols (d.cols.map String.ofList)
        (Props.C02.removedCols (d.body.pageByL.map String.ofList) (d.body.sublineByL.map String.ofList)
          (spanningDoc d)) := by
  rw [(C02enc_kept_cols measure d pl hp hnd).1, ← C02enc_removedCols, Props.C02.keptCols]
  generalize removedNames d.body = names
  generalize d.cols = cols
  induction cols with
  | nil => rfl
  | cons c cs ih =>
    simp only [List.map_cons, List.filter_cons, contains_map_ofList]
    split
    · simp only [List.map_cons, ih]
    · exact ih

/-- `Props.C02.C02_row_cells` for the encoder: the `j`-th rendered cell of frame row `i` shows the value of the `j`-th
kept column, for the kept column's name `c` -/
theorem C02enc_row_cells (measure : Measure) (d : Doc) (pl : Plan) (hp : plan measure d = .ok pl)
    (hgb : d.body.groupByL = []) (hnd : d.cols.Nodup) (i : Nat) (row cells : List (Option Str))
    (hrow : d.rows[i]? = some row) (hlen : row.length = d.cols.length) (hcells : pl.rows[i]? = some cells)
    (j : Nat) (c : Str) (hj : pl.p.dispCols[j]? = some c) :
    ∃ (kk : Nat) (v : Option Str), d.cols[kk]? = some c ∧ row[kk]? = some v ∧
      (cells[j]?).map (fun x => String.ofList (x.getD [])) = some (String.ofList (v.getD [])) := by
  have h1 := C02enc_renderRow measure d pl hp hgb hnd i row cells hrow hlen hcells
  have h2 := C02enc_keptCols measure d pl hp hnd
  have hj' : (Props.C02.keptCols (d.cols.map String.ofList)
      (Props.C02.removedCols (d.body.pageByL.map String.ofList) (d.body.sublineByL.map String.ofList)
        (spanningDoc d)))[j]? = some (String.ofList c) := by
    rw [← h2, List.getElem?_map, hj]; rfl
  have hnd' : (d.cols.map String.ofList).Nodup := by
    unfold List.Nodup at hnd ⊢
    rw [List.pairwise_map]
    exact hnd.imp (fun hab he => hab (ofList_inj he))
  obtain ⟨kk, v, hk, hv, hres⟩ := (Props.C02.C02_row_cells (d.cols.map String.ofList) _ (row.map optString)
    (by simp [hlen])).2 j (String.ofList c) hj' hnd'
  rw [← h1, List.getElem?_map] at hres
  rw [List.getElem?_map] at hk hv
  cases hc : d.cols[kk]? with
  | none => rw [hc] at hk; cases hk
  | some c' =>
    rw [hc] at hk
    simp only [Option.map_some, Option.some.injEq] at hk
    cases hr : row[kk]? with
    | none => rw [hr] at hv; cases hv
    | some v' =>
      rw [hr] at hv
      simp only [Option.map_some, Option.some.injEq] at hv
      subst hv
      refine ⟨kk, v', by rw [hc, ofList_inj hk], hr, ?_⟩
      rw [hres]
      cases v' <;> rfl

/-! ## all of it from `encode measure d = .ok g` -/

/-- **C02 for the encoder model.**  For every document the encoder accepts there are a plan and a trace such that the
output is the trace's elements joined by newlines, the data blocks of the trace are `0 … nrows-1` in order, and every
data block `.data i` was rendered to exactly one table row, `encodeRow` of row `i` of the final frame at attribute row
`i - dataStart` of its page, `dataStart ≤ i < dataStart + height`; without group_by the final frame is the original
frame with the removed columns' positions dropped. -/
theorem C02enc (measure : Measure) (d : Doc) (g : DocG) (h : encode measure d = .ok g) :
    ∃ pl R, plan measure d = .ok pl ∧ Renders (mkColorCtx d) d pl R ∧
      g.blocks = joinElems R.elems ++ [BlockG.plain [Node.nl, Node.nl, Node.nl, Node.nl]] ∧
      R.flatMap (fun x => dataIdx (x.2.map Prod.fst)) = List.range d.rows.length ∧
      (∀ x ∈ R, ∀ y ∈ x.2, ∀ i, y.1 = Block.data i →
        x.1.dataStart ≤ i ∧ i < x.1.dataStart + x.1.height ∧
        ∃ cells fmt, pl.rows[i]? = some cells ∧
          encodeRow (mkColorCtx d) (pageAttrs d pl.bodyA pl.p x.1).attrs pl.p.cum (i - x.1.dataStart) cells
            = .ok (rowElem fmt) ∧
          y.2 = [rowElem fmt] ∧ fmt.cells.length = cells.length) ∧
      (d.body.groupByL = [] → ∃ removed, removedIdx d = .ok removed ∧
        pl.rows = d.rows.map (fun r => dropCols r removed)) := by
  obtain ⟨pl, R, hp, hR, hg⟩ := encode_trace h
  refine ⟨pl, R, hp, hR, hg, C02enc_trace_rows_once measure _ d pl R hp hR, ?_, ?_⟩
  · intro x hx y hy i hb
    obtain ⟨cells, fmt, h1, h2, h3, _, h5, _⟩ := C02enc_data_row _ d pl R hR x hx y hy i hb
    obtain ⟨n, hn⟩ := List.getElem?_of_mem hx
    have hpb : pl.pageBlocks[n]? = some (x.1, x.2.map Prod.fst) := by
      rw [← hR.blocks, Trace.blocks, List.getElem?_map, hn]; rfl
    have hi : i ∈ dataIdx (x.2.map Prod.fst) := by
      simp only [dataIdx, List.mem_filterMap, List.mem_map]
      exact ⟨y.1, ⟨y, hy, rfl⟩, by rw [hb]⟩
    obtain ⟨_, _, hds, h6, h7, _⟩ := C02enc_row_on_its_page measure d pl hp n i _ hpb hi
    dsimp only at hds h6 h7
    exact ⟨by omega, by omega, cells, fmt, h1, h2, h3, h5⟩
  · intro hgb
    obtain ⟨removed, h1, _, _, h4, _⟩ := C02enc_rows_no_groupby measure d pl hp hgb
    exact ⟨removed, h1, h4⟩

/-! ## non-vacuity -/

open Props.C01enc in
/-- five rows on two pages (`nrow = 5`: title is no table row; header, footnote, source reserve three) -/
def exDoc5 : Doc :=
  { exDoc [1, 2] with
    rows := [[some "x".toList, some "1".toList], [some "y".toList, some "2".toList], [some "z".toList, none],
             [some "n>=3".toList, some "é".toList], [some "w".toList, some "5".toList]],
    page := { exPage with nrow := 5 } }

set_option maxRecDepth 100000

open Props.C01enc in
/-- the encoder accepts the example, renders it on two pages with the data blocks `0,1,2 | 3,4`, and the hypotheses
of the column theorems (no group_by, unique names, rectangular frame) hold for it -/
example :
    (match encode exMeasure exDoc5 with | .ok _ => true | .error _ => false) = true ∧
    (match encoderBlocks exMeasure exDoc5 with
     | .ok pbs => pbs.map (fun x => (x.1.number, dataIdx x.2)) == [(1, [0, 1, 2]), (2, [3, 4])]
     | .error _ => false) = true ∧
    exDoc5.body.groupByL = [] ∧ exDoc5.cols.Nodup ∧ Rect exDoc5 := by
  refine ⟨by decide +kernel, by decide +kernel, rfl, by decide, ?_⟩
  intro r hr
  revert r
  decide

end Props.C02enc
