import Model.Encode
import Model.Layout
import Proofs.EncodeLift
import Proofs.EncodeLayout
import Props.C02
import Props.C05
import Props.C01enc
/-!
# C05 for the whole-encoder model: every data row sits under its own group heading on its own page

`Props/C05.lean` proves the property about `Layout.renderPage ld pg` for every role-level document.  Here the theorems
are about the pages the ENCODER renders (`Plan.pageBlocks`; `encodePages` renders exactly these block lists), with the
hypotheses on the document `d`:

* spanning rows are shown       `spanningDoc d` = there are page_by columns and `not new_page or pageby_row != "column"`;
* the page_by value of a row    `row[d.cols.idxOf name]? = some (some s)` for the `l`-th page_by name (`str()` of the cell);
* the role-level hypotheses `KeysWide`, `dataStart = start`, the slice bounds and (for `C05_under_own_heading*`) the
  unused `NoNullKeys` are all DERIVED (from `mkLDoc` and C02), so they do not appear;
* every `.heading lvl t` block is rendered as the one table row `spanningRow k d bodyA lvl t`
  (`C05enc_heading_rendered`), every `.sublineHeading t` as the paragraph `sublineHeading t` (nothing for `t = ""`).
-/
namespace Props.C05enc
open Model.Rtf Model.Emit Model.Encode Model.Broadcast Model.Layout Proofs.EncodeLift
open Props.C05 (lastHeading inForce)

/-- (1) **each level's current value is rendered as a heading before the row, on the row's own page, and is still in
force at the row.**  For every data row `i` on a page the encoder renders and every page_by level `l` (column `name`)
whose value `s` at frame row `i` is neither null nor the divider `-----`: the last level-`l` heading before the row on
that page carries `s`, and no heading of a shallower level stands between it and the row. -/
theorem C05enc_under_own_heading (measure : Measure) (d : Doc) (pl : Plan) (hp : plan measure d = .ok pl)
    (hsp : spanningDoc d = true) (x : PageCtx × List Block) (hx : x ∈ pl.pageBlocks)
    (pre post : List Block) (i : Nat) (hsplit : x.2 = pre ++ Block.data i :: post)
    (row : List (Option Str)) (hrow : d.rows[i]? = some row) (l : Nat) (name s : Str)
    (hname : d.body.pageByL[l]? = some name) (hval : row[d.cols.idxOf name]? = some (some s))
    (hdiv : s ≠ "-----".toList) :
    lastHeading l pre = some (String.ofList s) ∧ inForce pre l = some (String.ofList s) := by
  have hf := plan_facts hp
  obtain ⟨r, hr, hpk, _⟩ := ldRow hp hrow
  have hne : pl.ld.rows ≠ [] := by
    intro h0; rw [h0] at hr; cases hr
  obtain ⟨hbs, hds, hin, hpos⟩ := page_bounds hne hx
  have hw : ∀ r ∈ pl.ld.rows, r.pkey.length = d.body.pageByL.length := by
    intro r' hr'
    obtain ⟨j, hj⟩ := List.getElem?_of_mem hr'
    obtain ⟨row', _, _, _, _, _, h4, _, _⟩ := hf.row j r' hj
    rw [h4, List.length_map, pick_length]
  have hv : r.pkey[l]? = some (some (String.ofList s)) := by
    rw [hpk, List.getElem?_map, pick_getElem?, hname, Option.map_some, hval]
    rfl
  rw [hbs] at hsplit
  have := under_own_heading pl.ld _ (by rw [spanning_eq hf]; exact hsp) hw x.1 hds hin hpos pre post i hsplit r hr l
    (String.ofList s) hv (ofList_ne_divider hdiv)
  rw [Props.C05.inForce_eq_force]
  exact this

/-- a heading the encoder renders carries a page_by value of some frame row, is not the divider, and appears only
when spanning rows are shown ((3) and (4) of C05) -/
theorem C05enc_heading_text (measure : Measure) (d : Doc) (pl : Plan) (hp : plan measure d = .ok pl)
    (x : PageCtx × List Block) (hx : x ∈ pl.pageBlocks) (l : Nat) (t : String)
    (h : Block.heading l t ∈ x.2) :
    t ≠ "-----" ∧ spanningDoc d = true ∧
      ∃ row ∈ d.rows, ∃ s, some s ∈ pick d.cols row d.body.pageByL ∧ t = String.ofList s := by
  have hf := plan_facts hp
  obtain ⟨hpg, hbs⟩ := pageBlocks_mem hx
  rw [hbs] at h
  refine ⟨Props.C05.C05_no_divider_heading pl.ld x.1 l t h, ?_, ?_⟩
  · cases hs : spanningDoc d with
    | true => rfl
    | false =>
      exact absurd h (Props.C05.C05_no_heading_without_spanning pl.ld (by rw [spanning_eq hf]; exact hs) x.1 l t)
  · obtain ⟨r, hr, hs⟩ := Proofs.EncodeLayout.renderPage_heading_text pl.ld x.1 l t h
    obtain ⟨j, hj⟩ := List.getElem?_of_mem hr
    obtain ⟨row, _, _, h1, _, _, h4, _, _⟩ := hf.row j r hj
    rw [h4] at hs
    obtain ⟨v, hv, hvs⟩ := List.mem_map.mp hs
    obtain ⟨s', rfl, hs'⟩ := Proofs.Encode.optString_some hvs
    refine ⟨row, List.mem_of_getElem? h1, s', hv, ?_⟩
    rw [← hs']
    simp

/-- (3) divider values never produce a heading -/
theorem C05enc_no_divider_heading (measure : Measure) (d : Doc) (pl : Plan) (hp : plan measure d = .ok pl)
    (x : PageCtx × List Block) (hx : x ∈ pl.pageBlocks) (l : Nat) (t : String)
    (h : Block.heading l t ∈ x.2) : t ≠ "-----" :=
  (C05enc_heading_text measure d pl hp x hx l t h).1

/-- (4) no spanning rows without page_by, or with `new_page` and `pageby_row = "column"` -/
theorem C05enc_no_heading_without_spanning (measure : Measure) (d : Doc) (pl : Plan) (hp : plan measure d = .ok pl)
    (hsp : spanningDoc d = false) (x : PageCtx × List Block) (hx : x ∈ pl.pageBlocks) (l : Nat) (t : String) :
    Block.heading l t ∉ x.2 := by
  intro h
  have := (C05enc_heading_text measure d pl hp x hx l t h).2.1
  rw [hsp] at this
  cases this

/-- (2) a heading is always directly followed, on the same page, by a heading of a deeper level or by a data row:
never stranded at the bottom of a page, outer levels before inner ones -/
theorem C05enc_heading_followed (measure : Measure) (d : Doc) (pl : Plan) (hp : plan measure d = .ok pl)
    (x : PageCtx × List Block) (hx : x ∈ pl.pageBlocks) (pre post : List Block) (l : Nat) (t : String)
    (hsplit : x.2 = pre ++ Block.heading l t :: post) :
    ∃ b rest, post = b :: rest ∧
      ((∃ i, b = Block.data i) ∨ (∃ l' t', b = Block.heading l' t' ∧ l < l')) := by
  have hf := plan_facts hp
  have hmem : Block.heading l t ∈ x.2 := by rw [hsplit]; simp
  obtain ⟨_, hsp, row, hrow, _⟩ := C05enc_heading_text measure d pl hp x hx l t hmem
  have hne : pl.ld.rows ≠ [] := by
    intro h0
    have := hf.length
    rw [h0] at this
    have h1 : d.rows = [] := List.eq_nil_of_length_eq_zero this.symm
    rw [h1] at hrow
    cases hrow
  obtain ⟨hbs, _, hin, hpos⟩ := page_bounds hne hx
  rw [hbs] at hsplit
  exact Props.C05.C05_heading_followed pl.ld (by rw [spanning_eq hf]; exact hsp) x.1 hin hpos pre post l t hsplit

/-- (5) with subline_by, a page whose first frame row has non-null, non-divider subline_by values carries exactly one
subline heading, naming those values, joined by `", "` -/
theorem C05enc_subline_heading (measure : Measure) (d : Doc) (pl : Plan) (hp : plan measure d = .ok pl)
    (hs : d.body.sublineByL ≠ []) (x : PageCtx × List Block) (hx : x ∈ pl.pageBlocks)
    (row : List (Option Str)) (hrow : d.rows[x.1.start]? = some row) (vals : List Str)
    (hvals : pick d.cols row d.body.sublineByL = vals.map some) (hne : vals ≠ [])
    (hnd : ∀ v ∈ vals, v ≠ "-----".toList) :
    (x.2.filter (fun b => match b with | .sublineHeading _ => true | _ => false))
      = [Block.sublineHeading (", ".intercalate (vals.map String.ofList))] := by
  have hf := plan_facts hp
  obtain ⟨hpg, hbs⟩ := pageBlocks_mem hx
  obtain ⟨r, hr, _, hsk⟩ := ldRow hp hrow
  rw [hbs]
  apply Props.C05.C05_subline_heading pl.ld (by rw [hf.hasSubline]; cases h : d.body.sublineByL with
    | nil => exact absurd h hs
    | cons a b => rfl) x.1 r hr (vals.map String.ofList)
  · rw [hsk, hvals, List.map_map, List.map_map]
    rfl
  · intro h0
    apply hne
    simpa using h0
  · intro v hv
    obtain ⟨s, hs', rfl⟩ := List.mem_map.mp hv
    exact ofList_ne_divider (hnd s hs')

/-! ## how the heading blocks are rendered -/

/-- every `.heading lvl t` block of the trace is rendered as exactly one table row, the spanning row
`spanningRow k d bodyA lvl t` (one cell over the table width, text `t` under the body's `convert` flag) -/
theorem C05enc_heading_rendered (k : ColorCtx) (d : Doc) (pl : Plan) (R : Trace) (hR : Renders k d pl R)
    (x : PageCtx × List (Block × List Elem)) (hx : x ∈ R) (y : Block × List Elem) (hy : y ∈ x.2)
    (lvl : Nat) (t : String) (hb : y.1 = Block.heading lvl t) :
    ∃ e, spanningRow k d pl.bodyA lvl t = .ok e ∧ y.2 = [e] := by
  have h := hR.each x hx y hy
  rw [hb] at h
  simp only [renderBlock] at h
  obtain ⟨e, he, h⟩ := Proofs.Encode.bind_ok h
  exact ⟨e, he, (Proofs.Encode.pure_ok h).symm⟩

/-- every `.sublineHeading t` block of the trace is rendered as the paragraph `sublineHeading t`; an empty joined text
renders nothing (`if not text: return ""`) -/
theorem C05enc_subline_rendered (k : ColorCtx) (d : Doc) (pl : Plan) (R : Trace) (hR : Renders k d pl R)
    (x : PageCtx × List (Block × List Elem)) (hx : x ∈ R) (y : Block × List Elem) (hy : y ∈ x.2)
    (t : String) (hb : y.1 = Block.sublineHeading t) :
    y.2 = if t.isEmpty then [] else [[BlockG.plain [sublineHeading t]]] := by
  have h := hR.each x hx y hy
  rw [hb] at h
  simp only [renderBlock] at h
  split at h
  · next ht => rw [if_pos ht]; exact (Except.ok.inj h).symm
  · next ht => rw [if_neg ht]; exact (Except.ok.inj h).symm

/-- the equations of `renderBlock` for the two heading kinds -/
theorem C05enc_renderBlock_heading (k : ColorCtx) (d : Doc) (bodyA : TblAttrsOf MatV) (p : Prep)
    (rows : List (List (Option Str))) (pg : PageCtx) (pa : PageAttrs) (lvl : Nat) (t : String) :
    renderBlock k d bodyA p rows pg pa (.heading lvl t) = (do return [← spanningRow k d bodyA lvl t]) ∧
    renderBlock k d bodyA p rows pg pa (.sublineHeading t) =
      (if t.isEmpty then .ok [] else .ok [[BlockG.plain [sublineHeading t]]]) :=
  ⟨rfl, rfl⟩

/-! ## from `encode measure d = .ok g` -/

/-- **C05 for the encoder model.**  For every accepted document there are a plan and a trace (the output is the
trace's elements joined by newlines) such that on every page: each heading block was rendered as its spanning row, is
not a divider and is directly followed by a deeper heading or a data row; and (with spanning rows) every data row
whose page_by value at level `l` is a real, non-divider value has that value in force. -/
theorem C05enc (measure : Measure) (d : Doc) (g : DocG) (h : encode measure d = .ok g) :
    ∃ pl R, plan measure d = .ok pl ∧ Renders (mkColorCtx d) d pl R ∧
      g.blocks = joinElems R.elems ++ [BlockG.plain [Node.nl, Node.nl, Node.nl, Node.nl]] ∧
      ∀ x ∈ R,
        (∀ y ∈ x.2, ∀ lvl t, y.1 = Block.heading lvl t →
          t ≠ "-----" ∧ spanningDoc d = true ∧ ∃ e, spanningRow (mkColorCtx d) d pl.bodyA lvl t = .ok e ∧ y.2 = [e]) ∧
        (∀ pre post l t, x.2.map Prod.fst = pre ++ Block.heading l t :: post →
          ∃ b rest, post = b :: rest ∧
            ((∃ i, b = Block.data i) ∨ (∃ l' t', b = Block.heading l' t' ∧ l < l'))) ∧
        (spanningDoc d = true → ∀ pre post i, x.2.map Prod.fst = pre ++ Block.data i :: post →
          ∀ row, d.rows[i]? = some row → ∀ l name s, d.body.pageByL[l]? = some name →
            row[d.cols.idxOf name]? = some (some s) → s ≠ "-----".toList →
            inForce pre l = some (String.ofList s)) := by
  obtain ⟨pl, R, hp, hR, hg⟩ := encode_trace h
  refine ⟨pl, R, hp, hR, hg, ?_⟩
  intro x hx
  have hpb : (x.1, x.2.map Prod.fst) ∈ pl.pageBlocks := by
    rw [← hR.blocks, Trace.blocks]
    exact List.mem_map.mpr ⟨x, hx, rfl⟩
  refine ⟨?_, ?_, ?_⟩
  · intro y hy lvl t hb
    have hm : Block.heading lvl t ∈ x.2.map Prod.fst := List.mem_map.mpr ⟨y, hy, hb⟩
    obtain ⟨h1, h2, _⟩ := C05enc_heading_text measure d pl hp _ hpb lvl t hm
    exact ⟨h1, h2, C05enc_heading_rendered _ d pl R hR x hx y hy lvl t hb⟩
  · intro pre post l t hs
    exact C05enc_heading_followed measure d pl hp _ hpb pre post l t hs
  · intro hsp pre post i hs row hrow l name s hname hval hdiv
    exact (C05enc_under_own_heading measure d pl hp hsp _ hpb pre post i hs row hrow l name s hname hval hdiv).2

/-! ## non-vacuity -/

open Props.C01enc in
/-- four columns, page_by `g` (spanning rows), subline_by `s`, five rows on four pages (`nrow = 7`) -/
def exDocPB : Doc :=
  { exDoc [1, 1, 1, 2] with
    cols := ["g".toList, "s".toList, "a".toList, "b".toList],
    rows := [[some "A".toList, some "S1".toList, some "x".toList, some "1".toList],
             [some "A".toList, some "S1".toList, some "y".toList, some "2".toList],
             [some "A".toList, some "S1".toList, some "z".toList, none],
             [some "B".toList, some "S1".toList, some "n>=3".toList, some "é".toList],
             [some "B".toList, some "S2".toList, some "w".toList, some "5".toList]],
    page := { exPage with nrow := 7 },
    body := { (exDoc [1, 1, 1, 2]).body with pageBy := some ["g".toList], sublineBy := some ["s".toList] } }

set_option maxRecDepth 100000

open Props.C01enc in
/-- the encoder accepts the example; spanning rows are shown and there is a subline_by column; group `A` continues on
page 2 and gets its heading again, every page carries the subline heading of its first row -/
example :
    (match encode exMeasure exDocPB with | .ok _ => true | .error _ => false) = true ∧
    (match encoderBlocks exMeasure exDocPB with
     | .ok pbs => pbs.map (·.2) ==
        [[.title, .sublineHeading "S1", .colHeader 0, .heading 0 "A", .data 0, .data 1],
         [.brk, .title, .sublineHeading "S1", .colHeader 0, .heading 0 "A", .data 2],
         [.brk, .title, .sublineHeading "S1", .colHeader 0, .heading 0 "B", .data 3],
         [.brk, .title, .sublineHeading "S2", .colHeader 0, .heading 0 "B", .data 4, .footnote true, .source false]]
     | .error _ => false) = true ∧
    spanningDoc exDocPB = true ∧ exDocPB.body.sublineByL ≠ [] := by
  refine ⟨by decide +kernel, by decide +kernel, by decide, by decide⟩

open Props.C01enc in
/-- the hypotheses of (1) are satisfiable: the theorem applied to frame row 2 of the example (the continuation of group
`A` on page 2): whatever stands before `.data 2` on its page, heading `A` is in force at level 0 -/
example : ∀ pl, plan exMeasure exDocPB = .ok pl → ∀ x ∈ pl.pageBlocks, ∀ pre post,
    x.2 = pre ++ Block.data 2 :: post → inForce pre 0 = some (String.ofList "A".toList) :=
  fun pl hp x hx pre post hs =>
    (C05enc_under_own_heading exMeasure exDocPB pl hp (by decide) x hx pre post 2 hs
      [some "A".toList, some "S1".toList, some "z".toList, none] rfl 0 "g".toList "A".toList rfl (by decide)
      (by decide)).2

end Props.C05enc
