import Model.Encode
import Model.Borders
import Proofs.EncodeAttrs
import Props.C07
import Props.C09enc
/-!
# C07 for the whole-encoder model: table edges are closed by the documented border hierarchy on every page

`Props/C07.lean` proves the hierarchy for `Model.Borders.applyBorders` on a well-formed `BorderIn`.  Here the same is
stated for the border styles `Model.Encode.encode` EMITS for data cells:

* `borderIn d bodyA p pg` is the explicit input `pageAttrs` hands to `applyBorders` (`C07enc_page_edges`: the
  `border_top` / `border_bottom` matrices `encodeRow` reads on the page are `strMat` of its output, the footnote / source
  overrides are its overrides);
* `PageOK` (decidable, on `d` / `prepare d` / the page) implies `Props.C07.WF (borderIn …)` (`C07enc_wf`), and every
  page with a data row that the encoder renders satisfies it when the two user matrices have an admissible shape and a
  column is displayed (`C07enc_pageOK_of_run`);
* every C07 theorem is restated for `ilocV (pageAttrs …).attrs.bTop i j` / `… bBottom i j` — the values
  `encodeCell`'s `top ← mk A.bTop A.bcTop` / `bottom ← mk A.bBottom A.bcBottom` read — in terms of `d`:
  `d.page.borderFirst/borderLast`, `bodyA.bFirst/bLast/bTop`, `hasHeaderRow d`, `footTableHere …`;
  "other edges" are tied to the user's ORIGINAL matrix at the cell's original (row, column) (`edgeStr`), which joins C07
  with C09;
* `C07enc_emitted`: a style string read is emitted as the control word `BORDER_CODES` gives for it
  (`resolveBorder`); `C07enc_last_row_emitted`, `C07enc_first_row_emitted`: the two table-closing statements on the
  emitted cells of an accepted run; `C07enc_foot_override…`: what `renderFoot` does with the overrides.
-/
namespace Props.C07enc
open Model.Encode Model.Broadcast Model.Borders Model.Layout Model.Emit Proofs.EncodeAttrs Proofs.Encode Generated

/-! ## the border input of a page and its well-formedness -/

/-- what `encodeRow` reads for the two edges on a non-empty page is the output of `_apply_pagination_borders` on
`borderIn d bodyA p pg`; the overrides handed to `renderFoot` are its overrides -/
theorem C07enc_page_edges (d : Doc) (bodyA : TblAttrsOf MatV) (p : Prep) (pg : PageCtx) (hh : pg.height ≠ 0) :
    (pageAttrs d bodyA p pg).attrs.bTop = strMat (applyBorders (borderIn d bodyA p pg)).top ∧
    (pageAttrs d bodyA p pg).attrs.bBottom = strMat (applyBorders (borderIn d bodyA p pg)).bottom ∧
    (pageAttrs d bodyA p pg).fnOverride = (applyBorders (borderIn d bodyA p pg)).fnOverride ∧
    (pageAttrs d bodyA p pg).srcOverride = (applyBorders (borderIn d bodyA p pg)).srcOverride :=
  pageAttrs_edges d bodyA p pg hh

/-- a page of a prepared document on which C07 applies: `A` is the user's body attribute record after
`_to_nested_list`, `p = prepare d`; the page is non-empty and inside the frame, a column is displayed, and the user's
`border_top` / `border_bottom` are absent, empty or non-empty rectangular with ≥ 1 column -/
structure PageOK (d : Doc) (A : TblAttrsOf MatV) (p : Prep) (removed : List Nat) (pg : PageCtx) : Prop where
  attrs : p.attrs = processedAttrs A d.rows.length d.cols.length removed
  ncols : p.ncolsDisp = (keptIdx d.cols.length removed).length
  hpos : 0 < pg.height
  wpos : 0 < p.ncolsDisp
  inside : pg.start + pg.height ≤ d.rows.length
  top : GoodOrEmpty A.bTop
  bottom : GoodOrEmpty A.bBottom

/-- `PageOK` gives the hypothesis of every C07 theorem -/
theorem C07enc_wf {d : Doc} {A : TblAttrsOf MatV} {p : Prep} {removed : List Nat} {pg : PageCtx}
    (h : PageOK d A p removed pg) (bodyA : TblAttrsOf MatV) : Props.C07.WF (borderIn d bodyA p pg) := by
  have hrows : 0 < d.rows.length := by have := h.hpos; have := h.inside; omega
  have hk : 0 < (keptIdx d.cols.length removed).length := by rw [← h.ncols]; exact h.wpos
  have ht : GoodOrEmpty p.attrs.bTop := by
    rw [h.attrs]; exact processed_goodOrEmpty .bTop h.top removed hrows hk
  have hb : GoodOrEmpty p.attrs.bBottom := by
    rw [h.attrs]; exact processed_goodOrEmpty .bBottom h.bottom removed hrows hk
  obtain ⟨g1, g2⟩ := borderIn_good (d := d) (bodyA := bodyA) h.hpos h.wpos ht hb
  exact ⟨h.hpos, h.wpos, g1.ne, g1.rect, g1.cols, g2.ne, g2.rect, g2.cols⟩

/-- shapes of a user `border_top` / `border_bottom` on which `_apply_pagination_borders` works: an admissible shape
of C09 (`shapeOk`) or an empty list / tuple / nested list (replaced by a grid of `""`) -/
def edgeShapeOk (a : Attr) : Bool :=
  shapeOk a || (match a with
    | .list [] => true
    | .tuple [] => true
    | .nested [] => true
    | _ => false)

theorem C07enc_edge_shape {a : Attr} {M : MatV} (h : a.toNested = .ok M) (hs : edgeShapeOk a = true) :
    GoodOrEmpty M := by
  unfold edgeShapeOk at hs
  rw [Bool.or_eq_true] at hs
  rcases hs with hs | hs
  · exact goodV_goodOrEmpty (toNested_goodV h hs)
  · intro m hm
    left
    subst hm
    split at hs
    · simp [Attr.toNested] at h; exact h
    · simp [Attr.toNested] at h; exact h
    · simp [Attr.toNested] at h; exact h
    · cases hs

/-- every page of an accepted run that shows a data row satisfies `PageOK` as soon as a column is displayed and the
user's two edge attributes have an admissible shape -/
theorem C07enc_pageOK_of_run {measure : Measure} {k : ColorCtx} {d : Doc} (R : Run measure k d)
    (hcols : 0 < R.p.ncolsDisp) (ht : edgeShapeOk d.body.attrs.bTop = true)
    (hb : edgeShapeOk d.body.attrs.bBottom = true)
    {pg : PageCtx} {blocks : List Block} (hr : R.Renders pg blocks) {i : Nat} (hi : Block.data i ∈ blocks) :
    PageOK d R.A R.p R.removed pg := by
  obtain ⟨_, hbound, hiff⟩ := R.page_geometry hr
  obtain ⟨h1, h2⟩ := (hiff i).mp hi
  exact { attrs := by rw [R.p_eq]
          ncols := by rw [R.p_eq]; exact nDisplayed_keepMask _ _
          hpos := by omega
          wpos := hcols
          inside := hbound
          top := C07enc_edge_shape (get_mapM R.hA .bTop) ht
          bottom := C07enc_edge_shape (get_mapM R.hA .bBottom) hb }

/-! ## the C07 theorems on the values `encodeCell` reads -/

section
variable {d : Doc} {A : TblAttrsOf MatV} {p : Prep} {removed : List Nat} {pg : PageCtx}

theorem topRead (h : PageOK d A p removed pg) (bodyA : TblAttrsOf MatV) {i j : Nat} {s : String}
    (hs : topAt (applyBorders (borderIn d bodyA p pg)) i j = some s) :
    ilocV (pageAttrs d bodyA p pg).attrs.bTop i j = .ok (.str s) := by
  rw [(pageAttrs_edges d bodyA p pg (by have := h.hpos; omega)).1]
  exact ilocV_strMat hs

theorem bottomRead (h : PageOK d A p removed pg) (bodyA : TblAttrsOf MatV) {i j : Nat} {s : String}
    (hs : bottomAt (applyBorders (borderIn d bodyA p pg)) i j = some s) :
    ilocV (pageAttrs d bodyA p pg).attrs.bBottom i j = .ok (.str s) := by
  rw [(pageAttrs_edges d bodyA p pg (by have := h.hpos; omega)).2.1]
  exact ilocV_strMat hs

/-- (1) first page, no header row rendered: the first data row is emitted with top style `rtf_page.border_first` -/
theorem C07enc_first_page_no_header (h : PageOK d A p removed pg) (bodyA : TblAttrsOf MatV)
    (h1 : pg.number = 1) (h2 : hasHeaderRow d = false) (h3 : d.page.borderFirst ≠ "") :
    ∀ j, j < p.ncolsDisp → ilocV (pageAttrs d bodyA p pg).attrs.bTop 0 j = .ok (.str d.page.borderFirst) := by
  intro j hj
  exact topRead h bodyA (Props.C07.C07_first_page_no_header (borderIn d bodyA p pg) (C07enc_wf h bodyA)
    (by simp [borderIn, h1]) h2 h3 j hj)

/-- (2) first page under a rendered header row, and every later page: the first data row is emitted with
`rtf_body.border_first` (column-wise: `bodyFirstStyle`, which reads only `bodyA.bFirst` and `bodyA.bTop`) -/
theorem C07enc_body_first (h : PageOK d A p removed pg) (bodyA : TblAttrsOf MatV)
    (h1 : (pg.number = 1 ∧ hasHeaderRow d = true) ∨ pg.number ≠ 1) (h2 : matStr bodyA.bFirst ≠ []) :
    ∀ j, j < p.ncolsDisp →
      ilocV (pageAttrs d bodyA p pg).attrs.bTop 0 j = .ok (.str (bodyFirstStyle (borderIn d bodyA p pg) j)) := by
  intro j hj
  refine topRead h bodyA (Props.C07.C07_body_first (borderIn d bodyA p pg) (C07enc_wf h bodyA) ?_ h2 j hj)
  rcases h1 with ⟨a, b⟩ | a
  · left; exact ⟨by simp [borderIn, a], b⟩
  · right; simp [borderIn, a]

/-- with a 1×1 body `border_first` holding the string `s` (the default is `"single"`) and a user `border_top` whose
first row is not longer, that style is simply `s` -/
theorem C07enc_body_first_default (d : Doc) (bodyA : TblAttrsOf MatV) (p : Prep) (pg : PageCtx) (s : String)
    (hbf : bodyA.bFirst = some [[.str s]]) (hbt : ((matStr bodyA.bTop).head?.getD []).length ≤ 1) (j : Nat) :
    bodyFirstStyle (borderIn d bodyA p pg) j = s :=
  Props.C07.C07_body_first_default (borderIn d bodyA p pg) s (by simp [borderIn, hbf, matStr]) hbt j

/-- (3) what closes the table on the page: `rtf_body.border_last` on a page that is not the last,
`rtf_page.border_last` on the last page -/
theorem C07enc_closing_style (d : Doc) (bodyA : TblAttrsOf MatV) (p : Prep) (pg : PageCtx) :
    (pg.number ≠ pg.total → matStr bodyA.bLast ≠ [] → bodyLastStyle (borderIn d bodyA p pg) ≠ "" →
      closingStyle (borderIn d bodyA p pg) = some (bodyLastStyle (borderIn d bodyA p pg))) ∧
    (pg.number = pg.total → d.page.borderLast ≠ "" →
      closingStyle (borderIn d bodyA p pg) = some d.page.borderLast) ∧
    (pg.number = pg.total → d.page.borderLast = "" → closingStyle (borderIn d bodyA p pg) = none) ∧
    (∀ s, bodyA.bLast = some [[.str s]] → bodyLastStyle (borderIn d bodyA p pg) = s) := by
  obtain ⟨c1, c2, c3⟩ := Props.C07.C07_closing_style (borderIn d bodyA p pg)
  refine ⟨fun a b c => c1 (by simp [borderIn, a]) b c, fun a b => c2 (by simp [borderIn, a]) b,
    fun a b => c3 (by simp [borderIn, a]) b, ?_⟩
  intro s hs
  simp [bodyLastStyle, borderIn, hs, matStr]

/-- (4) no table-rendered footnote / source on the page: every cell of the page's last data row is emitted with the
closing style as bottom style, and `renderFoot` gets no override -/
theorem C07enc_closing_on_last_data_row (h : PageOK d A p removed pg) (bodyA : TblAttrsOf MatV) (s : String)
    (hs : closingStyle (borderIn d bodyA p pg) = some s)
    (hf : footTableHere d.footnote d.page.pageFootnote (pg.number == 1) (pg.number == pg.total) = false)
    (hsrc : footTableHere d.source d.page.pageSource (pg.number == 1) (pg.number == pg.total) = false) :
    (∀ j, j < p.ncolsDisp → ilocV (pageAttrs d bodyA p pg).attrs.bBottom (pg.height - 1) j = .ok (.str s)) ∧
    (pageAttrs d bodyA p pg).fnOverride = none ∧ (pageAttrs d bodyA p pg).srcOverride = none := by
  obtain ⟨c1, c2, c3⟩ := Props.C07.C07_closing_on_last_data_row (borderIn d bodyA p pg) (C07enc_wf h bodyA) s hs hf hsrc
  obtain ⟨_, _, e3, e4⟩ := pageAttrs_edges d bodyA p pg (by have := h.hpos; omega)
  exact ⟨fun j hj => bottomRead h bodyA (c1 j hj), by rw [e3, c2], by rw [e4, c3]⟩

/-- what a data cell keeps of the user's edge attribute `f` (`bTop` / `bBottom`): the string at the cell's ORIGINAL
(table row, original column) -/
theorem userEdge (h : PageOK d A p removed pg) (f : Field) (hM : GoodOrEmpty (f.get A)) {i j c : Nat}
    (hi : i < pg.height) (hj : (keptIdx d.cols.length removed)[j]? = some c) :
    (fillGrid pg.height p.ncolsDisp (f.get p.attrs)).iloc (pg.start + i) j = edgeStr (f.get A) (pg.start + i) c := by
  have hjw : j < p.ncolsDisp := by rw [h.ncols]; exact (List.getElem?_eq_some_iff.mp hj).1
  rw [h.attrs]
  exact fill_iloc f hM removed h.hpos (by have := h.inside; omega) hjw hj

/-- (5) a table-rendered footnote / source ends the page: the closing style goes to it (`renderFoot`'s override: the
source when it is a table, otherwise the footnote) and every data cell keeps the user's `border_bottom` of its
original (row, column) -/
theorem C07enc_closing_on_component (h : PageOK d A p removed pg) (bodyA : TblAttrsOf MatV) (s : String)
    (hs : closingStyle (borderIn d bodyA p pg) = some s)
    (hc : footTableHere d.footnote d.page.pageFootnote (pg.number == 1) (pg.number == pg.total) = true ∨
      footTableHere d.source d.page.pageSource (pg.number == 1) (pg.number == pg.total) = true) :
    (footTableHere d.source d.page.pageSource (pg.number == 1) (pg.number == pg.total) = true →
      (pageAttrs d bodyA p pg).srcOverride = some s ∧ (pageAttrs d bodyA p pg).fnOverride = none) ∧
    (footTableHere d.source d.page.pageSource (pg.number == 1) (pg.number == pg.total) = false →
      (pageAttrs d bodyA p pg).fnOverride = some s ∧ (pageAttrs d bodyA p pg).srcOverride = none) ∧
    (∀ i j c, i < pg.height → (keptIdx d.cols.length removed)[j]? = some c →
      ∃ s', edgeStr A.bBottom (pg.start + i) c = some s' ∧
        ilocV (pageAttrs d bodyA p pg).attrs.bBottom i j = .ok (.str s')) := by
  obtain ⟨c1, c2, c3⟩ := Props.C07.C07_closing_on_component (borderIn d bodyA p pg) (C07enc_wf h bodyA) s hs hc
  obtain ⟨_, _, e3, e4⟩ := pageAttrs_edges d bodyA p pg (by have := h.hpos; omega)
  refine ⟨fun a => by rw [e3, e4]; exact c1 a, fun a => by rw [e3, e4]; exact c2 a, ?_⟩
  intro i j c hi hj
  have hjw : j < p.ncolsDisp := by rw [h.ncols]; exact (List.getElem?_eq_some_iff.mp hj).1
  have h3 := c3 i j hi hjw
  have hu := userEdge h .bBottom h.bottom hi hj
  have hsome := (C07enc_wf h bodyA).botGood.iloc_isSome (pg.start + i) j
  cases hv : (borderIn d bodyA p pg).bottom.iloc (pg.start + i) j with
  | none => rw [hv] at hsome; cases hsome
  | some s' =>
    refine ⟨s', ?_, bottomRead h bodyA (by rw [h3]; exact hv)⟩
    exact hu.symm.trans hv

/-- (6) all other data-cell edges carry exactly the user's `border_top` / `border_bottom` of the cell's original
(row, column): page slicing, column removal and the page borders never touch them -/
theorem C07enc_other_edges (h : PageOK d A p removed pg) (bodyA : TblAttrsOf MatV) :
    (∀ i j c, 0 < i → i < pg.height → (keptIdx d.cols.length removed)[j]? = some c →
      ∃ s, edgeStr A.bTop (pg.start + i) c = some s ∧
        ilocV (pageAttrs d bodyA p pg).attrs.bTop i j = .ok (.str s)) ∧
    (∀ i j c, i + 1 < pg.height → (keptIdx d.cols.length removed)[j]? = some c →
      ∃ s, edgeStr A.bBottom (pg.start + i) c = some s ∧
        ilocV (pageAttrs d bodyA p pg).attrs.bBottom i j = .ok (.str s)) := by
  obtain ⟨c1, c2⟩ := Props.C07.C07_other_edges (borderIn d bodyA p pg) (C07enc_wf h bodyA)
  refine ⟨?_, ?_⟩
  · intro i j c h0 hi hj
    have hjw : j < p.ncolsDisp := by rw [h.ncols]; exact (List.getElem?_eq_some_iff.mp hj).1
    have h3 := c1 i j h0 hi hjw
    have hu := userEdge h .bTop h.top hi hj
    have hsome := (C07enc_wf h bodyA).topGood.iloc_isSome (pg.start + i) j
    cases hv : (borderIn d bodyA p pg).top.iloc (pg.start + i) j with
    | none => rw [hv] at hsome; cases hsome
    | some s =>
      refine ⟨s, ?_, topRead h bodyA (by rw [h3]; exact hv)⟩
      exact hu.symm.trans hv
  · intro i j c hi hj
    have hjw : j < p.ncolsDisp := by rw [h.ncols]; exact (List.getElem?_eq_some_iff.mp hj).1
    have h3 := c2 i j hi hjw
    have hu := userEdge h .bBottom h.bottom (show i < pg.height by omega) hj
    have hsome := (C07enc_wf h bodyA).botGood.iloc_isSome (pg.start + i) j
    cases hv : (borderIn d bodyA p pg).bottom.iloc (pg.start + i) j with
    | none => rw [hv] at hsome; cases hsome
    | some s =>
      refine ⟨s, ?_, bottomRead h bodyA (by rw [h3]; exact hv)⟩
      exact hu.symm.trans hv

/-- (7) when no top rule applies (first page, no header row rendered, empty `rtf_page.border_first`) the first row
keeps the user's top border too -/
theorem C07enc_top_untouched (h : PageOK d A p removed pg) (bodyA : TblAttrsOf MatV)
    (h1 : pg.number = 1) (h2 : hasHeaderRow d = false) (h3 : d.page.borderFirst = "") :
    ∀ j c, (keptIdx d.cols.length removed)[j]? = some c →
      ∃ s, edgeStr A.bTop pg.start c = some s ∧ ilocV (pageAttrs d bodyA p pg).attrs.bTop 0 j = .ok (.str s) := by
  intro j c hj
  have hjw : j < p.ncolsDisp := by rw [h.ncols]; exact (List.getElem?_eq_some_iff.mp hj).1
  have h4 := Props.C07.C07_top_untouched (borderIn d bodyA p pg) (C07enc_wf h bodyA) (by simp [borderIn, h1]) h2 h3
    j hjw
  have hu := userEdge h .bTop h.top h.hpos hj
  rw [Nat.add_zero] at hu
  have hsome := (C07enc_wf h bodyA).topGood.iloc_isSome pg.start j
  cases hv : (borderIn d bodyA p pg).top.iloc pg.start j with
  | none => rw [hv] at hsome; cases hsome
  | some s =>
    refine ⟨s, ?_, topRead h bodyA (by rw [h4]; exact hv)⟩
    exact hu.symm.trans hv

end

/-! ## from the value read to the control word emitted -/

/-- `encodeCell`: a top / bottom style string read at the cell's position is emitted as the border control word
`BORDER_CODES` holds for it (`\brdrs`, `\brdrdb`, …, none for `""`); a successful cell always has all of left, top,
bottom -/
theorem C07enc_emitted {k : ColorCtx} {A : TblAttrsOf MatV} {r j : Nat} {isLast : Bool} {text : Str}
    {width : Option Rat} {c : CellFmt} (h : encodeCell k A r j isLast text width = .ok c) :
    (∀ s, ilocV A.bTop r j = .ok (.str s) → ∃ code b, borderCodes.lookup s = some code ∧ c.top = some b ∧
      b.style = codeWord code) ∧
    (∀ s, ilocV A.bBottom r j = .ok (.str s) → ∃ code b, borderCodes.lookup s = some code ∧ c.bottom = some b ∧
      b.style = codeWord code) := by
  rw [encodeCell_eq_cellOf] at h
  obtain ⟨bw, _, _, _, _, _, top, bottom, _, _, _, _, _, _, _, _, ht, hb, _, _, _, rfl⟩ := cellOf_inv h
  refine ⟨?_, ?_⟩
  · intro s hs
    obtain ⟨st, col, h1, _, h3⟩ := mkBorder_inv ht
    have : (readAt A r j).bTop = ilocV A.bTop r j := rfl
    rw [this, hs] at h1
    cases h1
    obtain ⟨s', code, e1, e2, e3⟩ := resolveBorder_style h3
    cases e1
    exact ⟨code, top, e2, rfl, e3⟩
  · intro s hs
    obtain ⟨st, col, h1, _, h3⟩ := mkBorder_inv hb
    have : (readAt A r j).bBottom = ilocV A.bBottom r j := rfl
    rw [this, hs] at h1
    cases h1
    obtain ⟨s', code, e1, e2, e3⟩ := resolveBorder_style h3
    cases e1
    exact ⟨code, bottom, e2, rfl, e3⟩

/-- every cell of a row `encodeRow` emits for page row `r`, when the whole row reads the bottom style `s` (resp. top
style), carries the control word of `s` -/
theorem C07enc_row_emitted {k : ColorCtx} {A : TblAttrsOf MatV} {cum : List Rat} {r : Nat}
    {cells : List (Option Str)} {e : Elem} (h : encodeRow k A cum r cells = .ok e) :
    ∃ cs gaph just, e = rowElem { gaph := gaph, just := just, cells := cs } ∧ cs.length = cells.length ∧
      (∀ s, (∀ j, j < cells.length → ilocV A.bTop r j = .ok (.str s)) →
        ∃ code, borderCodes.lookup s = some code ∧ ∀ c ∈ cs, ∃ b, c.top = some b ∧ b.style = codeWord code) ∧
      (∀ s, (∀ j, j < cells.length → ilocV A.bBottom r j = .ok (.str s)) →
        ∃ code, borderCodes.lookup s = some code ∧ ∀ c ∈ cs, ∃ b, c.bottom = some b ∧ b.style = codeWord code) := by
  obtain ⟨hne, cs, jv, just, hv, hh, hlen, hcell, _, _, _, _, rfl⟩ := encodeRow_inv h
  have hpos : 0 < cells.length := List.length_pos_iff.mpr hne
  refine ⟨cs, _, just, rfl, hlen, ?_, ?_⟩
  · intro s hs
    obtain ⟨c0, _, henc0⟩ := hcell 0 cells[0] (List.getElem?_eq_getElem hpos)
    obtain ⟨code, _, hcode, _, _⟩ := (C07enc_emitted henc0).1 s (hs 0 hpos)
    refine ⟨code, hcode, ?_⟩
    intro c hc
    obtain ⟨i, hi, rfl⟩ := List.getElem_of_mem hc
    obtain ⟨c', hc', henc⟩ := hcell i cells[i] (List.getElem?_eq_getElem (by omega))
    rw [List.getElem?_eq_getElem hi] at hc'
    cases hc'
    obtain ⟨code', b, hcode', hb, hst⟩ := (C07enc_emitted henc).1 s (hs i (by omega))
    rw [hcode] at hcode'
    cases hcode'
    exact ⟨b, hb, hst⟩
  · intro s hs
    obtain ⟨c0, _, henc0⟩ := hcell 0 cells[0] (List.getElem?_eq_getElem hpos)
    obtain ⟨code, _, hcode, _, _⟩ := (C07enc_emitted henc0).2 s (hs 0 hpos)
    refine ⟨code, hcode, ?_⟩
    intro c hc
    obtain ⟨i, hi, rfl⟩ := List.getElem_of_mem hc
    obtain ⟨c', hc', henc⟩ := hcell i cells[i] (List.getElem?_eq_getElem (by omega))
    rw [List.getElem?_eq_getElem hi] at hc'
    cases hc'
    obtain ⟨code', b, hcode', hb, hst⟩ := (C07enc_emitted henc).2 s (hs i (by omega))
    rw [hcode] at hcode'
    cases hcode'
    exact ⟨b, hb, hst⟩


/-! ## the table-closing statements on the cells an accepted run emits -/

/-- **the last data row of a page closes the table.**  On every page of an accepted run (rectangular frame, a column
displayed, admissible edge shapes) on which no table-rendered footnote / source is shown, every cell of the page's last
data row is emitted with the closing style `s` as its bottom border control word — by `C07enc_closing_style`,
`s = rtf_page.border_last` on the last page and `rtf_body.border_last` on the others. -/
theorem C07enc_last_row_emitted {measure : Measure} {k : ColorCtx} {d : Doc} (R : Run measure k d)
    (hrect : frameRect d = true) (hcols : 0 < R.p.ncolsDisp) (ht : edgeShapeOk d.body.attrs.bTop = true)
    (hb : edgeShapeOk d.body.attrs.bBottom = true) {pg : PageCtx} {blocks : List Block} (hr : R.Renders pg blocks)
    (hh : 0 < pg.height) (s : String) (hs : closingStyle (borderIn d R.A R.p pg) = some s)
    (hf : footTableHere d.footnote d.page.pageFootnote (pg.number == 1) (pg.number == pg.total) = false)
    (hsrc : footTableHere d.source d.page.pageSource (pg.number == 1) (pg.number == pg.total) = false) :
    ∃ code cells e cs gaph just, borderCodes.lookup s = some code ∧
      R.rows[pg.start + pg.height - 1]? = some cells ∧ e ∈ R.ess.flatten ∧
      e = rowElem { gaph := gaph, just := just, cells := cs } ∧ cs.length = cells.length ∧
      ∀ c ∈ cs, ∃ b, c.bottom = some b ∧ b.style = codeWord code := by
  obtain ⟨_, _, hiff⟩ := R.page_geometry hr
  have hi : Block.data (pg.start + pg.height - 1) ∈ blocks := (hiff _).mpr ⟨by omega, by omega⟩
  have hok := C07enc_pageOK_of_run R hcols ht hb hr hi
  obtain ⟨cells, e, hc, he, hmem⟩ := R.data_rendered hr hi
  have hw := R.rows_width hrect cells (List.mem_of_getElem? hc)
  obtain ⟨c1, _, _⟩ := C07enc_closing_on_last_data_row hok R.A s hs hf hsrc
  obtain ⟨cs, gaph, just, rfl, hlen, _, hbot⟩ := C07enc_row_emitted he
  have e1 : pg.start + pg.height - 1 - pg.start = pg.height - 1 := by omega
  obtain ⟨code, hcode, hall⟩ := hbot s (fun j hj => by rw [e1]; exact c1 j (by omega))
  exact ⟨code, cells, _, cs, gaph, just, hcode, hc, hmem, rfl, hlen, hall⟩

/-- **the first data row of the document opens the table when no header row is rendered**: every cell of the first
data row of page 1 is emitted with `rtf_page.border_first` as its top border control word -/
theorem C07enc_first_row_emitted {measure : Measure} {k : ColorCtx} {d : Doc} (R : Run measure k d)
    (hrect : frameRect d = true) (hcols : 0 < R.p.ncolsDisp) (ht : edgeShapeOk d.body.attrs.bTop = true)
    (hb : edgeShapeOk d.body.attrs.bBottom = true) {pg : PageCtx} {blocks : List Block} (hr : R.Renders pg blocks)
    (hh : 0 < pg.height) (h1 : pg.number = 1) (h2 : hasHeaderRow d = false) (h3 : d.page.borderFirst ≠ "") :
    ∃ code cells e cs gaph just, borderCodes.lookup d.page.borderFirst = some code ∧
      R.rows[pg.start]? = some cells ∧ e ∈ R.ess.flatten ∧
      e = rowElem { gaph := gaph, just := just, cells := cs } ∧ cs.length = cells.length ∧
      ∀ c ∈ cs, ∃ b, c.top = some b ∧ b.style = codeWord code := by
  obtain ⟨_, _, hiff⟩ := R.page_geometry hr
  have hi : Block.data pg.start ∈ blocks := (hiff _).mpr ⟨by omega, by omega⟩
  have hok := C07enc_pageOK_of_run R hcols ht hb hr hi
  obtain ⟨cells, e, hc, he, hmem⟩ := R.data_rendered hr hi
  have hw := R.rows_width hrect cells (List.mem_of_getElem? hc)
  have c1 := C07enc_first_page_no_header hok R.A h1 h2 h3
  obtain ⟨cs, gaph, just, rfl, hlen, htop, _⟩ := C07enc_row_emitted he
  obtain ⟨code, hcode, hall⟩ := htop d.page.borderFirst (fun j hj => by rw [Nat.sub_self]; exact c1 j (by omega))
  exact ⟨code, cells, _, cs, gaph, just, hcode, hc, hmem, rfl, hlen, hall⟩

/-! ## footnote / source: what `renderFoot` does with the override -/

/-- a footnote / source block of a rendered page is emitted by `renderFoot` with the page's override -/
theorem C07enc_foot_rendered {measure : Measure} {k : ColorCtx} {d : Doc} (R : Run measure k d)
    {pg : PageCtx} {blocks : List Block} (hr : R.Renders pg blocks) :
    (∀ b f, Block.footnote b ∈ blocks → d.footnote = some f →
      ∃ es, renderFoot k d f (pageAttrs d R.A R.p pg).fnOverride = .ok es ∧ ∀ e ∈ es, e ∈ R.ess.flatten) ∧
    (∀ b f, Block.source b ∈ blocks → d.source = some f →
      ∃ es, renderFoot k d f (pageAttrs d R.A R.p pg).srcOverride = .ok es ∧ ∀ e ∈ es, e ∈ R.ess.flatten) := by
  refine ⟨?_, ?_⟩
  · intro b f hb hf
    obtain ⟨es, hes, hmem⟩ := R.block_rendered hr hb
    simp only [renderBlock, hf] at hes
    exact ⟨es, hes, hmem⟩
  · intro b f hb hf
    obtain ⟨es, hes, hmem⟩ := R.block_rendered hr hb
    simp only [renderBlock, hf] at hes
    exact ⟨es, hes, hmem⟩

/-- no override, an empty one, or a component rendered as paragraphs: the component is emitted from its own
attributes -/
theorem C07enc_foot_no_override (k : ColorCtx) (d : Doc) (f : Foot) (o : Option String)
    (h : o = none ∨ o = some "" ∨ f.asTable = false) : renderFoot k d f o = renderFoot k d f none := by
  rcases h with rfl | rfl | h
  · rfl
  · unfold renderFoot
    simp only [bne_self_eq_false, Bool.false_eq_true, if_false]
  · cases o with
    | none => rfl
    | some s =>
      unfold renderFoot
      simp only [h]
      cases f.attrs.mapM Attr.toNested with
      | error e => simp only [bind, Except.bind]
      | ok A =>
        have key : (if (s != "") = true then { A with bBottom := some [[Val.str s]] } else A).toTextAttrsOf =
            A.toTextAttrsOf := by split <;> rfl
        simp only [bind, Except.bind, Bool.not_false, if_true, key]

/-- a table-rendered footnote / source with a non-empty override `s`: ONE row is emitted, every cell of it with the
control word of `s` as bottom border — the component's own `border_bottom` is replaced -/
theorem C07enc_foot_override {k : ColorCtx} {d : Doc} {f : Foot} {s : String} {es : List Elem}
    (h : renderFoot k d f (some s) = .ok es) (hs : s ≠ "") (ht : f.asTable = true) :
    ∃ code cs gaph just, borderCodes.lookup s = some code ∧
      es = [rowElem { gaph := gaph, just := just, cells := cs }] ∧ cs.length = 1 ∧
      ∀ c ∈ cs, ∃ b, c.bottom = some b ∧ b.style = codeWord code := by
  unfold renderFoot at h
  peel h as A hA
  simp only [ht, hs, bne_iff_ne, ne_eq, not_false_eq_true, if_true, Bool.not_true, Bool.false_eq_true, if_false] at h
  cases hw : f.colRelWidth with
  | none => rw [hw] at h; exact (throw_ok h).elim
  | some w =>
    rw [hw] at h
    dsimp only at h
    have h := Proofs.Encode.ite_throw_ok h
    unfold encodeRows at h
    simp only [List.zipIdx_cons, List.zipIdx_nil, List.mapM_cons, List.mapM_nil] at h
    peel h as e he
    cases pure_ok h
    obtain ⟨cs, gaph, just, rfl, hlen, _, hbot⟩ := C07enc_row_emitted he
    obtain ⟨code, hcode, hall⟩ := hbot s (fun j hj => by
      have : j = 0 := by simp at hj; omega
      subst this
      rfl)
    exact ⟨code, cs, gaph, just, hcode, rfl, by simpa using hlen, hall⟩


theorem closingStyle_ne {b : BorderIn} {s : String} (h : closingStyle b = some s) : s ≠ "" := by
  unfold closingStyle at h
  split at h
  · split at h
    · next hc =>
      cases h
      simp only [Bool.and_eq_true, bne_iff_ne, ne_eq, decide_eq_true_eq] at hc
      exact hc.2
    · cases h
  · split at h
    · next hc =>
      cases h
      simpa using hc
    · cases h

theorem footTableHere_asTable {f : Foot} {pl : Placement} {a b : Bool}
    (h : footTableHere (some f) pl a b = true) : f.asTable = true := by
  simp only [footTableHere, Bool.and_eq_true] at h
  exact h.2

/-- **a table-rendered footnote / source closes the table.**  On every page of an accepted run with a closing style
`s` on which the source is shown as a table, the source row is emitted with the control word of `s` as bottom border;
when the source is not a table there but the footnote is, the footnote row is -/
theorem C07enc_component_emitted {measure : Measure} {k : ColorCtx} {d : Doc} (R : Run measure k d)
    (hcols : 0 < R.p.ncolsDisp) (ht : edgeShapeOk d.body.attrs.bTop = true)
    (hb : edgeShapeOk d.body.attrs.bBottom = true) {pg : PageCtx} {blocks : List Block} (hr : R.Renders pg blocks)
    (hh : 0 < pg.height) (s : String) (hs : closingStyle (borderIn d R.A R.p pg) = some s) :
    (∀ b f, Block.source b ∈ blocks → d.source = some f →
      footTableHere d.source d.page.pageSource (pg.number == 1) (pg.number == pg.total) = true →
      ∃ code cs gaph just, borderCodes.lookup s = some code ∧
        rowElem { gaph := gaph, just := just, cells := cs } ∈ R.ess.flatten ∧ cs.length = 1 ∧
        ∀ c ∈ cs, ∃ bd, c.bottom = some bd ∧ bd.style = codeWord code) ∧
    (∀ b f, Block.footnote b ∈ blocks → d.footnote = some f →
      footTableHere d.footnote d.page.pageFootnote (pg.number == 1) (pg.number == pg.total) = true →
      footTableHere d.source d.page.pageSource (pg.number == 1) (pg.number == pg.total) = false →
      ∃ code cs gaph just, borderCodes.lookup s = some code ∧
        rowElem { gaph := gaph, just := just, cells := cs } ∈ R.ess.flatten ∧ cs.length = 1 ∧
        ∀ c ∈ cs, ∃ bd, c.bottom = some bd ∧ bd.style = codeWord code) := by
  obtain ⟨_, _, hiff⟩ := R.page_geometry hr
  have hi : Block.data pg.start ∈ blocks := (hiff _).mpr ⟨by omega, by omega⟩
  have hok := C07enc_pageOK_of_run R hcols ht hb hr hi
  obtain ⟨hfn, hsrc⟩ := C07enc_foot_rendered R hr
  have hne := closingStyle_ne hs
  refine ⟨?_, ?_⟩
  · intro b f hbm hf hthere
    obtain ⟨c1, _, _⟩ := C07enc_closing_on_component hok R.A s hs (Or.inr hthere)
    obtain ⟨es, hes, hmem⟩ := hsrc b f hbm hf
    rw [(c1 hthere).1] at hes
    rw [hf] at hthere
    obtain ⟨code, cs, gaph, just, hcode, rfl, hlen, hall⟩ :=
      C07enc_foot_override hes hne (footTableHere_asTable hthere)
    exact ⟨code, cs, gaph, just, hcode, hmem _ (by simp), hlen, hall⟩
  · intro b f hbm hf hthere hnosrc
    obtain ⟨_, c2, _⟩ := C07enc_closing_on_component hok R.A s hs (Or.inl hthere)
    obtain ⟨es, hes, hmem⟩ := hfn b f hbm hf
    rw [(c2 hnosrc).1] at hes
    rw [hf] at hthere
    obtain ⟨code, cs, gaph, just, hcode, rfl, hlen, hall⟩ :=
      C07enc_foot_override hes hne (footTableHere_asTable hthere)
    exact ⟨code, cs, gaph, just, hcode, hmem _ (by simp), hlen, hall⟩

/-! ## non-vacuity (`Props.C09enc.exPB`: two pages, page_by column removed, header row, footnote as table on the last
page, source paragraph; `border_first = border_last = "double"` on the page, `"single"` on the body) -/

open Props.C09enc Props.C01enc

set_option maxRecDepth 100000

/-- the hypotheses of the run-level theorems hold for every run of the example (and it has one: `Props/C09enc.lean`) -/
example (R : Run exMeasure (mkColorCtx exPB) exPB) :
    frameRect exPB = true ∧ 0 < R.p.ncolsDisp ∧ edgeShapeOk exPB.body.attrs.bTop = true ∧
    edgeShapeOk exPB.body.attrs.bBottom = true := by
  have h : removedIdx exPB = .ok [0] := by decide +kernel
  have hr : R.removed = [0] := by
    have := R.hrem; rw [h] at this; exact (Except.ok.inj this).symm
  refine ⟨by decide +kernel, ?_, by decide +kernel, by decide +kernel⟩
  rw [R.p_eq, hr]
  show 0 < Model.Widths.nDisplayed (keepMask exPB.cols.length [0])
  decide +kernel

/-- direct evaluation, independently of the theorems.  Page 1 (not the last; header row rendered): the first data row
reads the body's `border_first`, the last data row the body's `border_last`, the row in between keeps the user's `""`.
Page 2 (the last; footnote rendered as table there): the data rows keep `""`, the closing style `rtf_page.border_last`
goes to the footnote, the source (a paragraph) gets nothing; the emitted bottom border of the last cell of page 1 is
`\brdrs` -/
example : (match prepare exPB, exPB.body.attrs.mapM Attr.toNested with
    | .ok p, .ok A =>
      let pa1 := pageAttrs exPB A p ⟨1, 2, 0, 2, 0⟩
      let pa2 := pageAttrs exPB A p ⟨2, 2, 2, 2, 2⟩
      decide (ilocV pa1.attrs.bTop 0 0 = .ok (.str "single")) && decide (ilocV pa1.attrs.bTop 1 0 = .ok (.str "")) &&
      decide (ilocV pa1.attrs.bBottom 0 1 = .ok (.str "")) &&
      decide (ilocV pa1.attrs.bBottom 1 1 = .ok (.str "single")) &&
      decide (pa1.fnOverride = none) &&
      decide (ilocV pa2.attrs.bBottom 1 0 = .ok (.str "")) && decide (ilocV pa2.attrs.bBottom 1 1 = .ok (.str "")) &&
      decide (pa2.fnOverride = some "double") && decide (pa2.srcOverride = none) &&
      (match encodeCell (mkColorCtx exPB) pa1.attrs 1 1 true "2".toList p.cum[1]? with
       | .ok c => decide (c.bottom.map (·.style) = some "brdrs".toList)
       | .error _ => false)
    | _, _ => false) = true := by decide +kernel

end Props.C07enc
