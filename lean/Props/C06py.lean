import Generated.PyShouldShow
import Model.Layout
/-!
# C06 — translator tie for the placement rule

`Generated.Py.ShouldShow.run` is regenerated on every run from `PageFeatureProcessor._should_show_element`.
It equals `Model.Layout.Placement.shows` (the rule every C06 placement theorem uses) on the three documented
options, and answers `False` for every other string.
-/
namespace Props.C06py
open Model.Layout Generated.Py.ShouldShow

/-- the option strings as code points -/
def name : Placement → List Nat
  | .first => "first".toList.map Char.toNat
  | .last => "last".toList.map Char.toNat
  | .all => "all".toList.map Char.toNat

theorem C06py_should_show_translated (p : Placement) (isFirst isLast : Bool) :
    run (name p) isFirst isLast = p.shows isFirst isLast := by
  cases p <;> simp [run, name, Placement.shows] <;> decide

/-- any other string: not shown -/
theorem C06py_unknown_option (loc : List Nat) (isFirst isLast : Bool)
    (h : ∀ p, loc ≠ name p) : run loc isFirst isLast = false := by
  have h1 := h .all; have h2 := h .first; have h3 := h .last
  simp only [name] at h1 h2 h3
  have e1 : ("all".toList.map Char.toNat) = [97, 108, 108] := by decide
  have e2 : ("first".toList.map Char.toNat) = [102, 105, 114, 115, 116] := by decide
  have e3 : ("last".toList.map Char.toNat) = [108, 97, 115, 116] := by decide
  rw [e1] at h1; rw [e2] at h2; rw [e3] at h3
  simp [run, h1, h2, h3]

example : run (name .last) false true = true := by decide

end Props.C06py
