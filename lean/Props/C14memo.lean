import Model.World
import Model.Memo
import Model.WorldMemo
import Proofs.World
import Proofs.Memo
import Props.C14
/-!
# C14, process-global stores (caches)

`Props/C14.lean` proves purity for the process state the code has (colour context, strategy registry, caller-owned
objects).  This file is about the state a *cache* adds — a keyed store in front of a stateless function, filled by
whichever request comes first — and says exactly when it is harmless:

* `C14memo_pure_iff`        a store keeps every answer history-independent **iff** its key determines the stored value;
* `C14memo_world_purity`    with such a store in the world (filled by the measurements of every encode, failing
                            ones included, and by direct calls) the target's outcome AND every answer its
                            measurements get are those of the fresh process, after any history;
* `C14memo_halfpoint_*`     loaded fonts keyed by (file, `int(2·size)`) — sizes 9.50 and 9.70 share `\fs19` — are
                            not of that kind: after one request at 9.50 a request at 9.70 is answered with the
                            9.50 font; lifted to the world, a target encoded after one direct measurement gets
                            another answer than in the fresh process.  Same for a key that forgets the font file.

rtflite has no such store today (`Op.measure` is a no-op of `Model.World.step`); the harness ties that to the code
by histories whose documents use one font file at nearby sizes with cell texts a fraction of a percent from a
wrap edge, so that any answer that is not the stateless one moves a page break (`harness/props/c14.py`,
`gen_measured`).
-/
namespace Props.C14memo
open Model.Memo Model.World Proofs.Memo Proofs.WorldMemo

variable {ρ κ ν : Type} [DecidableEq κ]

/-- With a faithful key, whatever was requested before, a request is answered with what it computes. -/
theorem C14memo_pure (S : Spec ρ κ ν) (hF : Faithful S) (hist : List ρ) (r : ρ) :
    (ask S (askAll S [] hist).1 r).2 = S.compute r :=
  (ask_sound S hF _ (askAll_sound S hF hist [] (sound_nil S)).1 r).2

/-- With a faithful key the store is invisible: a whole history is answered as if there were none. -/
theorem C14memo_transparent (S : Spec ρ κ ν) (hF : Faithful S) (hist : List ρ) :
    (askAll S [] hist).2 = hist.map S.compute :=
  (askAll_sound S hF hist [] (sound_nil S)).2

/-- Exactly then: history-independence of every answer is equivalent to the key determining the value. -/
theorem C14memo_pure_iff (S : Spec ρ κ ν) :
    (∀ (hist : List ρ) (r : ρ), (ask S (askAll S [] hist).1 r).2 = S.compute r) ↔ Faithful S := by
  constructor
  · intro h r r' hk
    have h1 := h [r] r'
    simp only [askAll, ask, find, if_pos hk] at h1
    exact h1
  · intro hF hist r
    exact C14memo_pure S hF hist r

/-- The world with such a store: after any history of operations (encodes measure through the store, failing ones
too) and direct measurements, the target's modelled outcome and the answers to its own measurements are the fresh
process's. -/
theorem C14memo_world_purity (S : Spec ρ κ ν) (hF : Faithful S) (q : Reqs ρ) (T : Table) (w₀ : World)
    (ops : List (MOp ρ)) (c : Ctor) :
    encodeCtorM S q T (runM S q T (freshM w₀) ops) c = encodeCtorM S q T (freshM w₀) c := by
  have hb : (runM S q T (freshM w₀) ops).base = (run T w₀ (baseOps ops)).1 := runM_base S q T ops (freshM w₀)
  have hs : Sound S (runM S q T (freshM w₀) ops).store := runM_sound S hF q T ops (freshM w₀) (sound_nil S)
  have hh : (runM S q T (freshM w₀) ops).base.heap = w₀.heap := by
    rw [hb]; exact Props.C14.C14_heap_unchanged T w₀ _
  have hf : (runM S q T (freshM w₀) ops).base.frames = w₀.frames := by
    rw [hb]; exact Props.C14.C14_frames_unchanged T w₀ _
  have hsd : (runM S q T (freshM w₀) ops).base.seed = w₀.seed := by
    rw [hb]; exact Props.C14.C14_seed_unchanged T w₀ _
  clear hb
  generalize runM S q T (freshM w₀) ops = mw at hs hh hf hsd
  unfold encodeCtorM
  rw [hh, hf]
  show (match construct w₀.heap w₀.frames c with
    | .ok d => ((encodeDoc T mw.base d).2, (askAll S mw.store (q w₀.heap w₀.frames d)).2)
    | .error e => (Outcome.error e, [])) = (match construct w₀.heap w₀.frames c with
    | .ok d => ((encodeDoc T w₀ d).2, (askAll S [] (q w₀.heap w₀.frames d)).2)
    | .error e => (Outcome.error e, []))
  cases construct w₀.heap w₀.frames c with
  | ok d =>
    simp only
    rw [(askAll_sound S hF _ _ hs).2, (askAll_sound S hF _ _ (sound_nil S)).2,
      Proofs.World.encodeDoc_outcome T d hsd hh hf]
  | error e => rfl

/-- Keyed by the exact request: faithful. -/
theorem C14memo_exact_faithful : Faithful exactKey := fun _ _ h => h

/-- Loaded fonts keyed by (file, `int(2·size)`): after a request at 9.50 pt the request at 9.70 pt gets the 9.50 font. -/
theorem C14memo_halfpoint_witness :
    (ask halfPointKey (askAll halfPointKey [] [(0, 950)]).1 (0, 970)).2 = (0, 950) := by decide

theorem C14memo_halfpoint_not_faithful : ¬ Faithful halfPointKey := by
  intro h
  have := h (0, 950) (0, 970) (by decide)
  exact absurd this (by decide)

/-- A key that forgets the font file: the same size in another font is answered with the first font. -/
theorem C14memo_sizeonly_not_faithful : ¬ Faithful sizeOnlyKey := by
  intro h
  have := h (0, 900) (1, 900) (by decide)
  exact absurd this (by decide)

/-- a figure document always constructs; its measurements are put in by `q` -/
def anyCtor : Ctor := { kind := .figure, secs := [], headers := .default, others := [] }

/-- In the world: with the half-point key, ONE direct measurement at 9.50 pt before the target changes what the
target's own measurement at 9.70 pt is answered with — the class of change the harness looks for. -/
theorem C14memo_world_halfpoint_witness :
    encodeCtorM halfPointKey (fun _ _ _ => [(0, 970)]) [] (runM halfPointKey (fun _ _ _ => [(0, 970)]) []
        (freshM (fresh [] [])) [.ask (0, 950)]) anyCtor
      ≠ encodeCtorM halfPointKey (fun _ _ _ => [(0, 970)]) [] (freshM (fresh [] [])) anyCtor := by
  decide

/-- … and so does one failing or successful encode of another document that measured at 9.50 pt. -/
theorem C14memo_world_halfpoint_encode_witness :
    let q : Reqs FontReq := fun _ _ d => if d.others = [] then [(0, 970)] else [(0, 950)]
    let other : Ctor := { anyCtor with others := [7] }
    encodeCtorM halfPointKey q [] (runM halfPointKey q [] (freshM (fresh [] []))
        [.op (.construct 0 other), .op (.encode 0)]) anyCtor
      ≠ encodeCtorM halfPointKey q [] (freshM (fresh [] [])) anyCtor := by
  decide

/-- Non-vacuity of `C14memo_world_purity`: the exact key on the same history gives the fresh answers. -/
example :
    (encodeCtorM exactKey (fun _ _ _ => [(0, 970)]) [] (runM exactKey (fun _ _ _ => [(0, 970)]) []
        (freshM (fresh [] [])) [.ask (0, 950)]) anyCtor).2 = [(0, 970)] := by decide

end Props.C14memo
