import Model.HeaderInput
/-!
# C06 — the container the column headers are handed over in

C06's statement speaks about the configured header rows ("column headers appear on the first page and on every later
page exactly when pageby_header is true"); `Model.Layout.LDoc.headers` / `Model.Encode.Doc.headers` are the LIST of
those rows.  `Model.HeaderInput` is the step before: what the constructor and the renderer's type guards make of the
Python container.  The theorems say that for every spelling the constructors accept the rows that reach the header
loop are the configured rows, in order — and why: the constructor hands on a `list`, the only sequence type the
guards recognise (`C06in_tuple_unrecognised` is what a tuple that survived construction would mean).
-/
namespace Props.C06in
open Model.HeaderInput

variable {α : Type} (f : α → α)

/-- a non-empty flat sequence of header rows, list or tuple, is a LIST of the resolved rows after construction -/
theorem C06in_post_is_list (box : Box) (r : α) (rows : List α) :
    construct f none (.flat box ((r :: rows).map some)) = .ok (.flat .list ((r :: rows).map (fun h => some (f h)))) := by
  simp [construct, validate, initFlatPath, List.all_map]

/-- single table: whatever the container — list or tuple, any number of rows (none included) — exactly the
configured rows reach the header loop, in order, with the body's widths inherited -/
theorem C06in_flat_spelling (box : Box) (rows : List α) :
    renderedOf f none (.flat box (rows.map some)) = .ok [rows.map f] := by
  cases rows with
  | nil => cases box <;> simp [renderedOf, construct, validate, initFlatPath, renderedDoc, rendered, toProcess, Except.map]
  | cons r rows =>
    simp only [renderedOf, C06in_post_is_list, renderedDoc, rendered, toProcess, Except.map]
    simp [List.filterMap_map]

/-- a single `RTFColumnHeader` object is the one-element list -/
theorem C06in_single (nsec : Option Nat) (h : α) :
    construct f nsec (.single h) = construct f nsec (.flat .list [some h]) := by
  simp [construct, validate]

theorem C06in_single_rendered (h : α) : renderedOf f none (.single h) = .ok [[f h]] := by
  simp [renderedOf, construct, validate, initFlatPath, renderedDoc, rendered, toProcess, Except.map]

/-- the same table handed over as a one-section list (df=[frame], rtf_body=[body]) with flat headers: the same
field value, and section 0 renders with the whole of it -/
theorem C06in_one_section_list (box : Box) (rows : List (Option α)) :
    construct f (some 1) (.flat box rows) = construct f none (.flat box rows) := by
  by_cases h : rows.all Option.isSome = true
  · simp only [construct, validate, h, if_true]
    rfl
  · simp only [construct, validate, h]
    rfl

theorem C06in_one_section_rendered (box : Box) (rows : List α) :
    renderedOf f (some 1) (.flat box (rows.map some)) = .ok [rows.map f] := by
  cases rows with
  | nil =>
    cases box <;>
      simp [renderedOf, construct, validate, initMulti, initFlatPath, renderedDoc, rendered, toProcess, sectionVal,
        isNestedList, List.range, List.range.loop, List.mapM_cons, List.mapM_nil, pure, Except.pure, bind, Except.bind]
  | cons r rows =>
    have h := C06in_post_is_list f box r rows
    rw [← C06in_one_section_list] at h
    simp only [renderedOf, h, renderedDoc]
    simp [rendered, toProcess, sectionVal, isNestedList, List.range, List.range.loop, List.mapM_cons, List.mapM_nil,
      pure, Except.pure, bind, Except.bind, List.filterMap_map]

/-- the type guards recognise no header in a tuple: a tuple that reached the renderer would render nothing -/
theorem C06in_tuple_unrecognised (rows : List (Option α)) : rendered (.flat .tuple rows) = .ok [] := by
  simp [rendered, toProcess]

/-- recorded domain decision: nested headers (any section non-empty) on a single table are refused at construction -/
theorem C06in_nested_refused (box : Box) (secs : List (Box × List (Option α)))
    (h : secs.any (fun s => !s.2.isEmpty) = true) :
    construct f none (.nested box secs) = .error .attribute := by
  have hne : secs.isEmpty = false := by
    cases secs with
    | nil => simp at h
    | cons _ _ => rfl
  simp [construct, validate, initFlatPath, hne, h]

/-- per-section headers: a list (or tuple) of `n` sections whose first is a list renders section i's own rows -/
theorem C06in_nested_sections (box : Box) (s0 : List (Option α)) (rest : List (Box × List (Option α))) (n : Nat)
    (hn : (rest.length + 1) = n) :
    ∃ secs', construct f (some n) (.nested box ((.list, s0) :: rest)) = .ok (.nested .list secs') ∧
      secs'.length = n ∧
      ∀ i : Nat, (secs'[i]?).map (fun (s : Box × List (Option α)) => s.2) =
        (((Box.list, s0) :: rest)[i]?).map (fun (s : Box × List (Option α)) => s.2.map (Option.map f)) := by
  refine ⟨((Box.list, s0) :: rest).map fun (s : Box × List (Option α)) =>
    if s.2.isEmpty then s else (.list, s.2.map (Option.map f)), ?_, ?_, ?_⟩
  · simp [construct, validate, initMulti, firstIsList, hn]
  · simp [hn]
  · intro i
    simp only [List.getElem?_map, Option.map_map]
    congr 1
    funext s
    by_cases hs : s.2 = []
    · simp [hs]
    · simp [hs]

/-- non-vacuity: two rows (one with own widths) as a tuple; the one-section list; the refused tuple of tuples -/
example : renderedOf (fun (h : Nat × Bool) => (h.1, true)) none (.flat .tuple [some (0, true), some (1, false)])
    = .ok [[(0, true), (1, true)]] := by rfl
example : renderedOf (fun (h : Nat × Bool) => (h.1, true)) (some 1) (.flat .tuple [some (0, true)])
    = .ok [[(0, true)]] := by rfl
example : construct (fun (h : Nat × Bool) => (h.1, true)) none (.nested .tuple [(.tuple, [some (0, true)])])
    = .error .attribute := by rfl
example : renderedOf (fun (h : Nat × Bool) => (h.1, true)) (some 2)
    (.nested .tuple [(.list, [some (0, false)]), (.tuple, [none])]) = .ok [[(0, true)], []] := by rfl

end Props.C06in
