import Model.Figure
import Model.FigureSpec
import Proofs.Figure
import Props.C16
/-!
# C16, file names — the picture type is that of the LAST suffix of the file's name

"Each image file is embedded ... tagged with the picture type of its format."  The format of a file is what its
name's suffix says (`.png`, `.jpg`/`.jpeg`, `.emf`, any case), and the suffix of a name is its LAST dot-token
(`Model.Figure.suffixOfName`, = `pathlib.PurePath.suffix`).  File names are data: exports are called
`plot.emf.png` (an EMF converted to PNG), `scan.png.jpg`, `km.v2.final.jpeg`, `results.pngquant.jpeg`, live in
directories called `figs.png/` ...  Nothing of a name but its last suffix may decide the picture type:

* `C16_suffix_is_last_token`     `suffixOfName (stem ++ "." ++ ext) = "." ++ ext` for every non-empty `stem`
                                 (dots, other suffixes, anything inside) and every non-empty dot-free `ext`;
* `C16_format_is_last_suffix`    hence the format of such a name is the table entry of `"." ++ ext` alone,
* `C16_stem_irrelevant`          two names with the same last suffix have the same format whatever their stems are
                                 (`plot.emf.png` ~ `plot.png`),
* `C16_directories_irrelevant`   and whatever directories they stand in (`dir.png/plot.jpg` ~ `plot.jpg`);
* `C16_name_blip`                the keyword the model writes for a path is the one the statement's table
                                 (`wantBlip`) demands for the last suffix of its final component;
* `C16_no_suffix`                a name without a dot, a name whose only dot is its first character (`.png`), and a
                                 name ending in a dot (`plot.png.`) have no suffix, hence no format of the table;
* examples (`decide`): `plot.emf.png`, `fig.png.jpg`, `chart.emfplus.png`, `.png.jpg`, `dir.png/plot.JPEG`.
-/
namespace Props.C16name
open Model.Figure Proofs.Figure

private theorem takeDrop_app (p : Char → Bool) (a b : List Char) (c : Char)
    (ha : ∀ x ∈ a, p x = true) (hc : p c = false) :
    (a ++ c :: b).takeWhile p = a ∧ (a ++ c :: b).dropWhile p = c :: b := by
  induction a with
  | nil => simp [hc]
  | cons x t ih =>
    have hx : p x = true := ha x (by simp)
    have ht : ∀ y ∈ t, p y = true := fun y hy => ha y (by simp [hy])
    obtain ⟨h1, h2⟩ := ih ht
    simp [hx, h1, h2]

private theorem takeWhile_all (p : Char → Bool) (a : List Char) (ha : ∀ x ∈ a, p x = true) :
    a.takeWhile p = a ∧ a.dropWhile p = [] := by
  induction a with
  | nil => simp
  | cons x t ih =>
    have hx : p x = true := ha x (by simp)
    have ht : ∀ y ∈ t, p y = true := fun y hy => ha y (by simp [hy])
    obtain ⟨h1, h2⟩ := ih ht
    simp [List.takeWhile, List.dropWhile, hx, h1, h2]

/-- the suffix of a name is its last dot-token, whatever stands in front of it -/
theorem C16_suffix_is_last_token (stem ext : List Char) (hs : stem ≠ []) (he : ext ≠ [])
    (hd : ∀ c ∈ ext, c ≠ '.') :
    suffixOfName (stem ++ '.' :: ext) = '.' :: ext := by
  have hrev : (stem ++ '.' :: ext).reverse = ext.reverse ++ '.' :: stem.reverse := by simp
  have hp : ∀ x ∈ ext.reverse, (fun c : Char => c != '.') x = true := by
    intro x hx
    have : x ∈ ext := by simpa using hx
    simpa using hd x this
  obtain ⟨h1, h2⟩ := takeDrop_app (fun c : Char => c != '.') ext.reverse stem.reverse '.' hp (by simp)
  unfold suffixOfName
  simp only [hrev, h1, h2]
  have hsr : stem.reverse ≠ [] := by simpa using hs
  cases hr : stem.reverse with
  | nil => exact absurd hr hsr
  | cons y t =>
    have : ext.reverse.isEmpty = false := by
      cases ext with
      | nil => exact absurd rfl he
      | cons a b => simp
    simp [this]

/-- **the format of a file name is the format of its last suffix** -/
theorem C16_format_is_last_suffix (stem ext : List Char) (hs : stem ≠ []) (he : ext ≠ [])
    (hd : ∀ c ∈ ext, c ≠ '.') :
    fmtOfSuffix (suffixOfName (stem ++ '.' :: ext)) = fmtOfSuffix ('.' :: ext) := by
  rw [C16_suffix_is_last_token stem ext hs he hd]

/-- earlier dot-tokens / anything in the stem are irrelevant -/
theorem C16_stem_irrelevant (s₁ s₂ ext : List Char) (h₁ : s₁ ≠ []) (h₂ : s₂ ≠ []) (he : ext ≠ [])
    (hd : ∀ c ∈ ext, c ≠ '.') :
    fmtOfSuffix (suffixOfName (s₁ ++ '.' :: ext)) = fmtOfSuffix (suffixOfName (s₂ ++ '.' :: ext)) := by
  rw [C16_format_is_last_suffix s₁ ext h₁ he hd, C16_format_is_last_suffix s₂ ext h₂ he hd]

/-- the final component of `dir/name` is `name` (no slash in `name`) -/
theorem baseName_dir (dir name : List Char) (hn : ∀ c ∈ name, c ≠ '/') :
    baseName (dir ++ '/' :: name) = name := by
  have hrev : (dir ++ '/' :: name).reverse = name.reverse ++ '/' :: dir.reverse := by simp
  have hp : ∀ x ∈ name.reverse, (fun c : Char => c != '/') x = true := by
    intro x hx
    have : x ∈ name := by simpa using hx
    simpa using hn x this
  obtain ⟨h1, _⟩ := takeDrop_app (fun c : Char => c != '/') name.reverse dir.reverse '/' hp (by simp)
  unfold baseName
  rw [hrev, h1]; simp

/-- what the directories of a path are called does not enter the format -/
theorem C16_directories_irrelevant (d₁ d₂ name : List Char) (hn : ∀ c ∈ name, c ≠ '/') :
    fmtOfPath (d₁ ++ '/' :: name) = fmtOfPath (d₂ ++ '/' :: name) := by
  unfold fmtOfPath
  rw [baseName_dir d₁ name hn, baseName_dir d₂ name hn]

/-- the keyword written for a path is the keyword the statement's table demands for its last suffix -/
theorem C16_name_blip (path bs w h f)
    (hf : fmtOfPath path = some f) :
    wantBlip (suffixOfName (baseName path)) = some (blipWord (encodeFigure f bs w h).fmt) :=
  Props.C16.C16_blip_matches_spec (suffixOfName (baseName path)) f bs w h hf

/-- no dot / only a leading dot / a trailing dot: no suffix (and so no format of the table) -/
theorem C16_no_suffix (name : List Char) (hd : ∀ c ∈ name, c ≠ '.') :
    suffixOfName name = [] ∧ suffixOfName ('.' :: name) = [] ∧ suffixOfName (name ++ ['.']) = [] := by
  have hp : ∀ x ∈ name.reverse, (fun c : Char => c != '.') x = true := by
    intro x hx
    have : x ∈ name := by simpa using hx
    simpa using hd x this
  refine ⟨?_, ?_, ?_⟩
  · obtain ⟨_, h2⟩ := takeWhile_all _ name.reverse hp
    unfold suffixOfName; simp only [h2]
  · have hrev : ('.' :: name).reverse = name.reverse ++ '.' :: [] := by simp
    obtain ⟨_, h2⟩ := takeDrop_app (fun c : Char => c != '.') name.reverse [] '.' hp (by simp)
    unfold suffixOfName; simp only [hrev, h2]
  · have hrev : (name ++ ['.']).reverse = '.' :: name.reverse := by simp
    unfold suffixOfName
    simp only [hrev, List.takeWhile, List.dropWhile]
    simp
    cases name.reverse <;> simp

theorem C16_no_suffix_no_format : fmtOfSuffix [] = none := by decide

/-! examples -/
example : fmtOfPath "plot.emf.png".toList = some .png := by decide
example : fmtOfPath "fig.png.jpg".toList = some .jpeg := by decide
example : fmtOfPath "chart.emfplus.png".toList = some .png := by decide
example : fmtOfPath "results.pngquant.jpeg".toList = some .jpeg := by decide
example : fmtOfPath ".png.jpg".toList = some .jpeg := by decide
example : fmtOfPath "dir.png/plot.JPEG".toList = some .jpeg := by decide
example : fmtOfPath "km.jpg.EMF".toList = some .emf := by decide
example : fmtOfPath ".png".toList = none := by decide
example : fmtOfPath "plot.png.".toList = none := by decide
example : fmtOfPath "dir.png/plot".toList = none := by decide
example : fmtOfPath "a.png.txt".toList = none := by decide

end Props.C16name
