import Model.Convert
import Model.ConvertSpec
import Proofs.Convert
/-!
# C11 — text conversion translates exactly the documented tokens and nothing else

Model: `Model.Convert` — `TextContent._convert_special_chars` up to (excluding) the per-character escaper:
the ordered `str.replace` passes over `RTF_CHAR_MAPPING` (`literalPasses charMapping`) followed by the
LaTeX pass `re.sub(r"\\[a-zA-Z]+(?:\{[^}]*\})?", …)` (`latexPass latexTable`); the escaper (C10) is the
parameter `esc` of `convertSpecial`.

Specification: `Model.Convert.spec` — ONE left-to-right pass producing events (plain character, mapped
character, super/sub switch, ≥/≤ sign, line break, three page fields, verbatim unknown command) and their
natural rendering `render`.

How the statement's sentences map to the theorems:
* "every supported command is replaced by its mapped character; longest letter run; brace group looked up
  together; unknown stay verbatim; `^ _ >= <=` newline, page keywords; all other characters unchanged and in
  order"  —  `convertCore true t = render (spec t)`.  The unchanged code does **not** satisfy this for every
  text (`C11_witness…`): it is proved for all `regular` texts without comparison tokens
  (`C11_conversion_partial`), and for all `regular` texts up to the blank rtflite leaves after `≥`/`≤`
  (`C11_conversion_upto_D15`, observation D15, pinned by tests/test_divider_filtering.py).
* "with conversion off the text is emitted verbatim apart from escaping" — `C11_conversion_off`.
* "controlled per component and per cell by text_convert" — `C11_per_position`, `C11_defaults`.

Facts about the generated tables are `decide +kernel` obligations: an edit of `RTF_CHAR_MAPPING`,
`unicode_latex` or a constructor default in the source tree re-opens them.
-/
namespace Props.C11
open Model.Convert Proofs.Convert

set_option maxRecDepth 100000

/-! ## obligations on the generated tables -/

/-- `RTF_CHAR_MAPPING` is, in this order, the documented token list with the documented control words -/
theorem C11_table_char_mapping : charMapping = docRules := by decide +kernel

/-- no pattern overlaps another pattern or an earlier output: sequential passes = one simultaneous pass -/
theorem C11_table_rules_compatible : allCompat [] docRules = true := by decide +kernel

/-- no command is listed twice (so "a later duplicate wins" never applies) -/
theorem C11_table_keys_distinct : (latexTable.map (·.1)).Nodup :=
  latexTable_nodup (by decide +kernel) (by decide +kernel)

/-- every listed code point is a scalar value of the basic plane above ASCII (`chr(cp)` is `Char.ofNat cp`) -/
theorem C11_table_codepoints_valid : latexTable.all (fun kv => decide (128 ≤ kv.2 ∧ kv.2 < 55296)) = true := by
  decide +kernel

/-- of the control words written by the literal passes exactly `\geq` and `\leq` are commands of the
symbol table (and map to U+2265, U+2264); the others, and the field group, pass through the LaTeX pass -/
theorem C11_table_control_words : TableFacts latexTable where
  unique := lookupLast_eq_first latexTable C11_table_keys_distinct
  super := by decide +kernel
  sub := by decide +kernel
  line := by decide +kernel
  chpgn := by decide +kernel
  totalpage := by decide +kernel
  field := by decide +kernel
  geq := by decide +kernel
  leq := by decide +kernel

/-- the symbol table is the documented one: 682 rows, digest over all (command, code point) pairs.
A row added, dropped or altered in `unicode_latex` re-opens this obligation (row order does not matter). -/
theorem C11_table_documented : tableDigest Generated.latexCodes = (682, 1761388101567058047) := by
  decide +kernel

/-- exactly four listed commands cannot be written with the documented syntax `\letters{group}?` -/
theorem C11_table_unnameable :
    (latexTable.filter (fun kv => !nameable kv.1)).map (·.1) =
      [['\\', '|'], ['\\', ':'], ['\\', 's', 'q', 'r', 't', '[', '3', ']'], ['\\', 's', 'q', 'r', 't', '[', '4', ']']] := by
  decide +kernel

/-- no nameable command contains a literal token or begins with a page keyword; all are `regular` -/
theorem C11_table_keys_regular :
    latexTable.all (fun kv => !nameable kv.1 || ((findTok kv.1).isNone && regular kv.1)) = true := by
  decide +kernel

/-! ## the conversion -/

/-- The eight `str.replace` passes in dict order equal ONE left-to-right pass that replaces, at each
position, the documented token starting there (all texts). -/
theorem C11_literal_passes_one_pass (t : Str) : literalPasses charMapping t = sim docRules t := by
  rw [C11_table_char_mapping]
  exact passes_eq_sim docRules C11_table_rules_compatible t

/-- On every `regular` text the multi-pass implementation writes exactly the rendering of the one-pass
specification, where a blank follows each `≥`/`≤` (D15). -/
theorem C11_conversion_upto_D15 (t : Str) (h : regular t = true) :
    convertCore true t = renderD15 (spec t) := by
  show latexPass latexTable (literalPasses charMapping t) = _
  rw [C11_literal_passes_one_pass]
  exact core_eq C11_table_control_words t h

/-- On every `regular` text without `>=`/`<=` tokens the implementation writes exactly the natural
rendering of the one-pass specification. -/
theorem C11_conversion_partial (t : Str) (h : regular t = true) (hc : noCmp (spec t) = true) :
    convertCore true t = render (spec t) := by
  rw [C11_conversion_upto_D15 t h, renderD15_eq_render _ hc]

/-- the property at full strength -/
def C11_full : Prop := ∀ t : Str, convertCore true t = render (spec t)

/-- D15: `a>=b` gives `a≥ b` -/
theorem C11_witness : ¬ C11_full := by
  intro h
  have := h ['a', '>', '=', 'b']
  revert this
  decide +kernel

/-- a literal token inside the brace group of a command is converted although the group is looked up
(and left) as a whole: `\mathbb{^}` gives `\mathbb{\super }` -/
theorem C11_witness_token_in_group :
    regular ['\\', 'm', 'a', 't', 'h', 'b', 'b', '{', '^', '}'] = false ∧
    convertCore true ['\\', 'm', 'a', 't', 'h', 'b', 'b', '{', '^', '}'] ≠
      renderD15 (spec ['\\', 'm', 'a', 't', 'h', 'b', 'b', '{', '^', '}']) := by
  decide +kernel

/-- the output of `\pagefield` starts with a brace group, which the LaTeX pass attaches to a command
directly in front of it: `\alpha\pagefield` leaves `\alpha` unconverted -/
theorem C11_witness_pagefield_after_command :
    regular (['\\', 'a', 'l', 'p', 'h', 'a'] ++ patPageField) = false ∧
    convertCore true (['\\', 'a', 'l', 'p', 'h', 'a'] ++ patPageField) ≠
      renderD15 (spec (['\\', 'a', 'l', 'p', 'h', 'a'] ++ patPageField)) := by
  decide +kernel

/-- … or closes an open brace for it: `\alpha{\pagefield` leaves `\alpha` unconverted -/
theorem C11_witness_pagefield_closes_group :
    regular (['\\', 'a', 'l', 'p', 'h', 'a', '{'] ++ patPageField) = false ∧
    convertCore true (['\\', 'a', 'l', 'p', 'h', 'a', '{'] ++ patPageField) ≠
      renderD15 (spec (['\\', 'a', 'l', 'p', 'h', 'a', '{'] ++ patPageField)) := by
  decide +kernel

/-- Every listed command that the documented syntax can name, standing alone, is replaced by exactly its
listed character. -/
theorem C11_supported_commands (k : Str) (cp : Nat) (hm : (k, cp) ∈ latexTable) (hn : nameable k = true) :
    convertCore true k = [Char.ofNat cp] ∧ (Char.ofNat cp).toNat = cp := by
  have hreg := List.all_eq_true.mp C11_table_keys_regular (k, cp) hm
  simp only [hn, Bool.not_true, Bool.false_or, Bool.and_eq_true, Option.isNone_iff_eq_none] at hreg
  have hcp := List.all_eq_true.mp C11_table_codepoints_valid (k, cp) hm
  simp only [decide_eq_true_eq] at hcp
  refine ⟨?_, toNat_ofNat_of_lt hcp.2⟩
  rw [C11_conversion_upto_D15 k hreg.2]
  show renderD15 (specGo latexTable 0 k) = _
  rw [spec_single latexTable hn hreg.1]
  simp [cmdEvent, lookupFirst_of_mem latexTable C11_table_keys_distinct hm, renderD15, renderEventD15, renderEvent]

/-- In context: a listed simple command followed by anything that is not a letter and not a brace group is
read as its listed character and the reading continues behind it. -/
theorem C11_spec_command_in_context (name post : Str) (cp : Nat) (hm : ('\\' :: name, cp) ∈ latexTable)
    (hne : name ≠ []) (hl : ∀ c ∈ name, isLetter c = true) (hpost : hnl post = true)
    (hb : braceGroup post = none) (hkw : findTok ('\\' :: (name ++ post)) = none) :
    spec ('\\' :: (name ++ post)) = .mapped (Char.ofNat cp) :: spec post := by
  have hmc : matchCmd (name ++ post) = some name := by rw [matchCmd_app hne hl hpost, hb]
  show specGo latexTable 0 _ = _
  rw [spec_cmd latexTable hkw hmc, List.drop_left]
  simp [cmdEvent, lookupFirst_of_mem latexTable C11_table_keys_distinct hm, spec, specWith]

/-! ## conversion off, and the route of the flag -/

/-- with conversion off the text reaches the escaper unchanged -/
theorem C11_conversion_off (esc : Str → Str) (t : Str) : convertSpecial esc false t = esc t := rfl

/-- with conversion on, a regular text reaches the escaper as the rendering of its one-pass reading -/
theorem C11_conversion_on (esc : Str → Str) (t : Str) (h : regular t = true) :
    convertSpecial esc true t = esc (renderD15 (spec t)) := by
  show esc (convertCore true t) = _
  rw [C11_conversion_upto_D15 t h]

/-- the flag used at a text position is `text_convert.iloc(r, c)` of the component's own value -/
theorem C11_per_position (esc : Str → Str) (v : FlagVal) (r c : Nat) (t : Str) (b : Bool)
    (h : flagAt v r c = some b) :
    positionText esc v r c t = some (if b then esc (convertCore true t) else esc t) := by
  simp only [positionText, h, Option.map_some]
  cases b <;> rfl

/-- constructor defaults: the model's defaults are what default-constructed components hold (generated
from the source tree), they broadcast to every position, and they are the documented ones -/
theorem C11_defaults (comp : Comp) (r c : Nat) :
    generatedDefault comp = some (defaultFlag comp) ∧
    flagAt (defaultFlag comp) r c = some (documentedDefault comp) := by
  cases comp <;> refine ⟨by decide +kernel, ?_⟩ <;>
    simp [flagAt, toNested, defaultFlag, iloc, documentedDefault, Nat.mod_one]

/-- The same text converts the same way in every position whose flag is the same — whatever component the
position belongs to (title, subline, page header/footer, column header cell, body cell, group heading,
footnote or source as table row or as paragraph), whatever shape its `text_convert` has (scalar, per line,
per column, matrix) and whatever the text looks like: nothing but the flag and the text enters. -/
theorem C11_position_independent (esc : Str → Str) (v₁ v₂ : FlagVal) (r₁ c₁ r₂ c₂ : Nat) (t : Str) (b : Bool)
    (h₁ : flagAt v₁ r₁ c₁ = some b) (h₂ : flagAt v₂ r₂ c₂ = some b) :
    positionText esc v₁ r₁ c₁ t = positionText esc v₂ r₂ c₂ t := by
  rw [C11_per_position esc v₁ r₁ c₁ t b h₁, C11_per_position esc v₂ r₂ c₂ t b h₂]

/-! ## texts that look like another literal (numbers, digit groups, `inf`/`nan`, booleans, blanks around them) -/

/-- a text without a backslash is `regular`: no command, no page keyword, so nothing the passes could confuse -/
theorem C11_backslash_free_regular (t : Str) (h : '\\' ∉ t) : regular t = true := by
  have go : ∀ (t : Str) (k : Nat), '\\' ∉ t → regularGo k t = true := by
    intro t
    induction t with
    | nil => intro k _; cases k <;> rfl
    | cons c t ih =>
      intro k hk
      have ht : '\\' ∉ t := fun hm => hk (List.mem_cons_of_mem _ hm)
      have hc : c ≠ '\\' := fun he => hk (he ▸ List.mem_cons_self)
      cases k with
      | succ k => exact ih k ht
      | zero =>
        unfold regularGo
        split
        · exact ih _ ht
        · simp only [hc, if_false]
          exact ih 0 ht
  exact go t 0 h

/-- Hence every backslash-free text — in particular every text a number parser would accept: digits, signs,
a decimal point, an exponent, digit-group underscores, `inf`, `nan`, surrounding blanks and newlines — is
converted token by token like any other text: `_` and `^` switch, a newline breaks the line, `>=`/`<=` become
the signs (followed by the blank of D15), every other character stays. -/
theorem C11_conversion_backslash_free (t : Str) (h : '\\' ∉ t) : convertCore true t = renderD15 (spec t) :=
  C11_conversion_upto_D15 t (C11_backslash_free_regular t h)

/-- … and exactly the natural rendering when no comparison token occurs -/
theorem C11_conversion_backslash_free_exact (t : Str) (h : '\\' ∉ t) (hc : noCmp (spec t) = true) :
    convertCore true t = render (spec t) :=
  C11_conversion_partial t (C11_backslash_free_regular t h) hc

/-- number-like texts are read like any other: `101_2` is `101`, subscript switch, `2`; `12` followed by a
newline is `12` and a line break; `1e1_0`, ` 1_000 `, `inf^2`, `-1_0.5`, `True_1` likewise -/
example :
    spec "101_2".toList = [.plain '1', .plain '0', .plain '1', .sub, .plain '2'] ∧
    convertCore true "101_2".toList = "101\\sub 2".toList ∧
    convertCore true "12\n".toList = "12\\line ".toList ∧
    convertCore true "\n3.5".toList = "\\line 3.5".toList ∧
    convertCore true "1e1_0".toList = "1e1\\sub 0".toList ∧
    convertCore true " 1_000 ".toList = " 1\\sub 000 ".toList ∧
    convertCore true "inf^2".toList = "inf\\super 2".toList ∧
    convertCore true "-1_0.5".toList = "-1\\sub 0.5".toList ∧
    convertCore true "True_1".toList = "True\\sub 1".toList ∧
    convertCore false "101_2".toList = "101_2".toList := by
  decide +kernel

/-! ## non-vacuity -/

/-- a regular text without comparison tokens that exercises every other kind of event -/
example :
    let t := "x^2_i \\alpha\\beta \\mathbb{R} \\foo{a} \\pagenumber/\\totalpage \\pagefield\nend {b} \\".toList
    regular t = true ∧ noCmp (spec t) = true ∧ (spec t).length = 28 ∧
    convertCore true t = render (spec t) := by
  decide +kernel

/-- a regular text with a comparison token: agreement up to D15 only -/
example : regular "n>=3".toList = true ∧ noCmp (spec "n>=3".toList) = false ∧
    convertCore true "n>=3".toList = renderD15 (spec "n>=3".toList) := by
  decide +kernel

/-! ## how the specification reads the boundary cases (interpretation made explicit) -/

/-- page keywords are literal tokens (matched as prefixes, like `>=`): `\pagenumberx` is the page-number
field followed by `x`;  the longest letter run names a command: `\alphax` is one unknown command, `\alpha1`
is `α` followed by `1`;  a directly following brace group is looked up with the command: `\mathbb{R}x` is `ℝ`,
`x`, but `\alpha{x}` is not in the table and stays verbatim as a whole, and so does `\foo{\alpha}` (nothing
inside a verbatim command is converted);  an unclosed brace is ordinary text. -/
example :
    spec "\\pagenumberx".toList = [.pageNumber, .plain 'x'] ∧
    spec "\\alphax".toList = [.verbatim "\\alphax".toList] ∧
    spec "\\alpha1".toList = [.mapped 'α', .plain '1'] ∧
    spec "\\mathbb{R}x".toList = [.mapped 'ℝ', .plain 'x'] ∧
    spec "\\alpha{x}".toList = [.verbatim "\\alpha{x}".toList] ∧
    spec "\\foo{\\alpha}".toList = [.verbatim "\\foo{\\alpha}".toList] ∧
    spec "\\alpha{x".toList = [.mapped 'α', .plain '{', .plain 'x'] := by
  decide +kernel

end Props.C11
